// ======================================================================================
// prelude/scalar_hash.rs - il::Scalar as a hash-table key (HashMap<il::Scalar, _> in
// analysis::constants, analysis::stack_pointer_offsets, ...)   (NEW, unit C13)
//
// ASSUMED (listed in the evidence): il::Scalar obeys vstd's hash-table key model
// (`obeys_key_model::<Scalar>()`: `Hash::hash` is a deterministic function of the value and `==`
// is an equivalence that agrees with spec equality, so that std's HashMap / HashSet keyed on
// Scalar behave as the mathematical Map / Set of their views).
// Why it is true: `#[derive(Eq, Hash, PartialEq)] pub struct Scalar { name: String, bits: usize,
// ssa: Option<usize> }` (lib/il/scalar.rs).  derive(PartialEq) compares the three fields pairwise
// with their own `==`; derive(Hash) feeds the three fields, in declaration order, to the hasher.
// String, usize and Option<usize> have lawful std impls (vstd itself assumes
// `obeys_key_model::<usize>()`; String hashes / compares its bytes; Option derives structurally).
// Equal values therefore hash equally and `==` coincides with structural equality - the same
// reading of derive(PartialEq) for Scalar that unit C04 already relies on (`eq_spec = ==`).
// The axiom is broadcast; `broadcast use` it only in the module that keys a map on Scalar.
// ======================================================================================
pub mod scalar_hash {
    use vstd::prelude::*;
    use crate::il::Scalar;

    pub broadcast axiom fn axiom_scalar_obeys_key_model()
        ensures #[trigger] vstd::std_specs::hash::obeys_key_model::<Scalar>();
}
