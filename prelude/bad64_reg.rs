// ---- prelude/bad64_reg.rs: stand-ins for the THIRD-PARTY crate bad64 0.6.0 (Rust wrapper over the C decoder of
// Binary Ninja's arm64 disassembler, bad64-sys; C code behind FFI, outside the reach of the verifier) ------------------
// * `bad64::Reg`: transcription of `#[repr(u32)] #[derive(Clone, Copy, Debug, Eq, Hash, PartialEq, FromPrimitive,
//   ToPrimitive)] pub enum Reg { W0 = Register_REG_W0 as u32, .. P31 }` (src/reg.rs; 328 field-less variants, same
//   names, same order; generated from the crate source). Only the names matter: falcon compares register ids with
//   `==` / `matches!` and copies them.  ASSUMED (derive = structural): `==` decides equality of variants; Clone/Copy copy.
// * `bad64::{Imm, Shift, ArrSpec, Condition, SliceIndicator, Operand}`: transcriptions of the public enums of
//   src/{operand,shift,arrspec,condition}.rs (same variants, same field names and types; `Name` / `StrImm` carry a
//   byte array of bad64_sys::MAX_NAME bytes and `MultiReg` an array of MAX_REGISTERS optional registers: the lengths
//   are irrelevant here - falcon never looks inside them - so they are transcribed with the real lengths MAX_NAME = 16, MAX_REGISTERS = 5 of bad64-sys decode.h).
//   ASSUMED: Clone/Copy copy; Display is opaque (its text only ends up inside a panic message).
// * `bad64::SysReg`: opaque (never inspected by falcon's AArch64 lifter).
// * `bad64::Instruction`: the decoded instruction. The real struct keeps `operands: [Operand; MAX_OPERANDS]` +
//   `num_operands`; the stand-in keeps the meaningful prefix as a Vec. Accessors `address()`, `operands()` return
//   the fields (ASSUMED = what the real accessors do: lib.rs `self.address`, `&self.operands[..self.num_operands]`).
//   `Display for Instruction / Operand`, `op()`: opaque.
// (the module is called `bad64_reg`: prelude/error.rs already owns the name `bad64` for the DecodeError payload; units alias it)
// THE DECODER ITSELF (bad64::decode) IS NOT MODELLED: every contract that mentions an Operand / Instruction is relative to
// the ASSUMED DECODER CONTRACT "the operand structs describe the encoding as the Arm ARM prescribes".
pub mod bad64_reg {
use vstd::prelude::*;
verus! {
#[derive(Clone, Copy)]
#[allow(non_camel_case_types)]
pub enum Reg {
    W0, W1, W2, W3, W4, W5, W6, W7, W8, W9, W10, W11, W12, W13, W14, W15,
    W16, W17, W18, W19, W20, W21, W22, W23, W24, W25, W26, W27, W28, W29, W30, WZR,
    WSP, X0, X1, X2, X3, X4, X5, X6, X7, X8, X9, X10, X11, X12, X13, X14,
    X15, X16, X17, X18, X19, X20, X21, X22, X23, X24, X25, X26, X27, X28, X29, X30,
    XZR, SP, V0, V1, V2, V3, V4, V5, V6, V7, V8, V9, V10, V11, V12, V13,
    V14, V15, V16, V17, V18, V19, V20, V21, V22, V23, V24, V25, V26, V27, V28, V29,
    V30, VZR, V31, B0, B1, B2, B3, B4, B5, B6, B7, B8, B9, B10, B11, B12,
    B13, B14, B15, B16, B17, B18, B19, B20, B21, B22, B23, B24, B25, B26, B27, B28,
    B29, B30, BZR, B31, H0, H1, H2, H3, H4, H5, H6, H7, H8, H9, H10, H11,
    H12, H13, H14, H15, H16, H17, H18, H19, H20, H21, H22, H23, H24, H25, H26, H27,
    H28, H29, H30, HZR, H31, S0, S1, S2, S3, S4, S5, S6, S7, S8, S9, S10,
    S11, S12, S13, S14, S15, S16, S17, S18, S19, S20, S21, S22, S23, S24, S25, S26,
    S27, S28, S29, S30, SZR, S31, D0, D1, D2, D3, D4, D5, D6, D7, D8, D9,
    D10, D11, D12, D13, D14, D15, D16, D17, D18, D19, D20, D21, D22, D23, D24, D25,
    D26, D27, D28, D29, D30, DZR, D31, Q0, Q1, Q2, Q3, Q4, Q5, Q6, Q7, Q8,
    Q9, Q10, Q11, Q12, Q13, Q14, Q15, Q16, Q17, Q18, Q19, Q20, Q21, Q22, Q23, Q24,
    Q25, Q26, Q27, Q28, Q29, Q30, QZR, Q31, Z0, Z1, Z2, Z3, Z4, Z5, Z6, Z7,
    Z8, Z9, Z10, Z11, Z12, Z13, Z14, Z15, Z16, Z17, Z18, Z19, Z20, Z21, Z22, Z23,
    Z24, Z25, Z26, Z27, Z28, Z29, Z30, Z31, P0, P1, P2, P3, P4, P5, P6, P7,
    P8, P9, P10, P11, P12, P13, P14, P15, P16, P17, P18, P19, P20, P21, P22, P23,
    P24, P25, P26, P27, P28, P29, P30, P31,
}

impl vstd::std_specs::cmp::PartialEqSpecImpl for Reg {
    open spec fn obeys_eq_spec() -> bool { true }
    open spec fn eq_spec(&self, other: &Reg) -> bool { *self == *other }
}
impl PartialEq for Reg {
    // derive(PartialEq) on a field-less enum: equality of variants
    #[verifier::external_body]
    fn eq(&self, other: &Reg) -> (r: bool) ensures r == (*self == *other) { core::mem::discriminant(self) == core::mem::discriminant(other) }
}
impl Eq for Reg {}

#[derive(Clone, Copy)]
pub enum Imm {
    Signed(i64),
    Unsigned(u64),
}

#[derive(Clone, Copy)]
#[allow(non_camel_case_types)]
pub enum Shift {
    LSL(u32),
    LSR(u32),
    ASR(u32),
    ROR(u32),
    UXTW(u32),
    SXTW(u32),
    SXTX(u32),
    UXTX(u32),
    SXTB(u32),
    SXTH(u32),
    UXTH(u32),
    UXTB(u32),
    MSL(u32),
}

#[derive(Clone, Copy)]
pub enum ArrSpec {
    Full(Option<u32>),
    TwoDoubles(Option<u32>),
    FourSingles(Option<u32>),
    EightHalves(Option<u32>),
    SixteenBytes(Option<u32>),
    OneDouble(Option<u32>),
    TwoSingles(Option<u32>),
    FourHalves(Option<u32>),
    EightBytes(Option<u32>),
    OneSingle(Option<u32>),
    TwoHalves(Option<u32>),
    FourBytes(Option<u32>),
    OneHalf(Option<u32>),
    OneByte(Option<u32>),
}

#[derive(Clone, Copy)]
#[allow(non_camel_case_types)]
pub enum Condition { EQ, NE, CS, CC, MI, PL, VS, VC, HI, LS, GE, LT, GT, LE, AL, NV }

#[derive(Clone, Copy)]
pub enum SliceIndicator { Horizontal, Vertical }

/// bad64::SysReg: opaque
#[verifier::external_body]
#[derive(Clone, Copy)]
pub struct SysReg { _p: () }

#[derive(Clone, Copy)]
pub enum Operand {
    Imm32 { imm: Imm, shift: Option<Shift> },
    Imm64 { imm: Imm, shift: Option<Shift> },
    FImm32(u32),
    ShiftReg { reg: Reg, shift: Shift },
    QualReg { reg: Reg, qual: char },
    Reg { reg: Reg, arrspec: Option<ArrSpec> },
    MultiReg { regs: [Option<Reg>; 5], arrspec: Option<ArrSpec> },
    SysReg(SysReg),
    MemReg(Reg),
    MemOffset { reg: Reg, offset: Imm, mul_vl: bool, arrspec: Option<ArrSpec> },
    MemPreIdx { reg: Reg, imm: Imm },
    MemPostIdxReg([Reg; 2]),
    MemPostIdxImm { reg: Reg, imm: Imm },
    MemExt { regs: [Reg; 2], shift: Option<Shift>, arrspec: Option<ArrSpec> },
    SmeTile { tile: u16, slice: Option<SliceIndicator>, arrspec: Option<ArrSpec>, reg: Option<Reg>, imm: Imm },
    AccumArray { reg: Reg, imm: Imm },
    IndexedElement { regs: [Reg; 2], arrspec: Option<ArrSpec>, imm: Imm },
    Label(Imm),
    ImplSpec { o0: u8, o1: u8, cm: u8, cn: u8, o2: u8 },
    Cond(Condition),
    Name([u8; 16]),
    StrImm { str: [u8; 16], imm: u64 },
}

// Display for Operand: the text is never inspected by verified code (it ends up inside a panic message)
impl vstd::std_specs::fmt::DisplaySpecImpl for Operand {
    open spec fn fmt_req(&self, f: &std::fmt::Formatter<'_>) -> bool { true }
}
impl std::fmt::Display for Operand {
    #[verifier::external_body]
    fn fmt(&self, f: &mut std::fmt::Formatter<'_>) -> std::fmt::Result { unimplemented!() }
}

/// bad64::Instruction (decoded instruction): address + the operands that are present
pub struct Instruction {
    pub address: u64,
    pub opcode: u32,
    pub ops: Vec<Operand>,
    pub flags_set: bool,
}

impl Instruction {
    #[verifier::external_body]
    pub fn address(&self) -> (r: u64) ensures r == self.address { self.address }
    #[verifier::external_body]
    pub fn operands(&self) -> (r: &[Operand]) ensures r@ == self.ops@ { &self.ops[..] }
}
} // verus!
} // mod bad64_reg
