// ---- prelude/error.rs: falcon::Error is the REAL enum (extracted); the payload types that come from
// third-party crates are opaque stand-ins (no contract; they are never inspected by verified code).
pub mod bad64 { use vstd::prelude::*; verus!{ #[verifier::external_body] pub struct DecodeError { _p: () } } }
pub mod base64 { use vstd::prelude::*; verus!{ #[verifier::external_body] pub struct DecodeError { _p: () } } }
pub mod falcon_capstone { pub mod capstone { use vstd::prelude::*; verus!{ #[verifier::external_body] pub struct CsErr { _p: () } } } }
pub mod goblin { pub mod error { use vstd::prelude::*; verus!{ #[verifier::external_body] pub struct Error { _p: () } } } }
pub mod serde_json { use vstd::prelude::*; verus!{ #[verifier::external_body] pub struct Error { _p: () } } }
pub mod num_bigint { use vstd::prelude::*; verus!{ #[verifier::external_body] pub struct ParseBigIntError { _p: () } } }
pub mod std_shim { use vstd::prelude::*; verus!{
    #[verifier::external_body] pub struct IoError { _p: () }
    #[verifier::external_body] pub struct FromUtf8Error { _p: () }
} }
//@ itemx lib/lib.rs :: enum Error
//@ rewrite 1 `std::io::Error` => `std_shim::IoError` ## R-opaque: third-party payload type replaced by an opaque stand-in
//@ rewrite 1 `std::string::FromUtf8Error` => `std_shim::FromUtf8Error` ## R-opaque: third-party payload type replaced by an opaque stand-in
//@ end
