// ======================================================================================
// prelude/location_hash.rs - il::{FunctionLocation, ProgramLocation, RefFunctionLocation,
// RefProgramLocation} as hash-table keys (HashMap<il::ProgramLocation, State> in
// analysis::fixed_point, HashSet<il::FunctionLocation> in dead_code_elimination, ...).
//
// ASSUMED (listed in the evidence): these types obey vstd's hash-table key model
// (`obeys_key_model::<K>()`: `Hash::hash` is a deterministic function of the value and `==`
// is an equivalence that agrees with spec equality, so that std's HashMap / HashSet keyed on K
// behave as the mathematical Map / Set of their views).
// Why it is true: all four types `#[derive(Hash, PartialEq, Eq)]` (lib/il/location.rs).
//   * derive(PartialEq) compares variant tags and then the fields pairwise with their own `==`;
//     derive(Hash) feeds the variant tag and then every field, in declaration order, to the hasher.
//   * The fields of FunctionLocation / ProgramLocation are `usize` and `Option<usize>`, whose
//     std impls are lawful (vstd itself assumes `obeys_key_model::<usize>()`; `Option<T>` derives
//     both traits structurally).
//   * The fields of RefFunctionLocation / RefProgramLocation are shared references to
//     il::{Block, Instruction, Edge, Function}; `&T` hashes and compares by forwarding to `T`,
//     and those il types derive Hash / PartialEq / Eq structurally over usize, u64, bool, String,
//     Option, Vec, BTreeMap, BTreeSet and il::{Expression, Scalar, Constant} (Constant wraps a
//     num-bigint BigUint, whose Hash / Eq are over its canonical digit vector), all lawful.
//     Equal values therefore hash equally, and `==` coincides with structural equality - the
//     same reading of derive(PartialEq) that units C04 / C15 already rely on (`eq_spec = ==`).
// The axioms are broadcast; `broadcast use` them only in the module that keys a map on a location.
// ======================================================================================
pub mod location_hash {
    use vstd::prelude::*;
    use crate::il::{FunctionLocation, ProgramLocation, RefFunctionLocation, RefProgramLocation};

    pub broadcast axiom fn axiom_function_location_obeys_key_model()
        ensures #[trigger] vstd::std_specs::hash::obeys_key_model::<FunctionLocation>();

    pub broadcast axiom fn axiom_program_location_obeys_key_model()
        ensures #[trigger] vstd::std_specs::hash::obeys_key_model::<ProgramLocation>();

    pub broadcast axiom fn axiom_ref_function_location_obeys_key_model<'f>()
        ensures #[trigger] vstd::std_specs::hash::obeys_key_model::<RefFunctionLocation<'f>>();

    pub broadcast axiom fn axiom_ref_program_location_obeys_key_model<'p>()
        ensures #[trigger] vstd::std_specs::hash::obeys_key_model::<RefProgramLocation<'p>>();
}
