// ======================================================================================
// prelude/hashmap_entry.rs (NEW, unit C12) - `map.entry(key).or_default()` on a std HashMap
// (analysis::def_use does `du.entry(k).or_default()` and `du.entry(k).or_default().insert(x)`).
// vstd (0.2026.09.13) has no specification for `HashMap::entry` / `hash_map::Entry`.
// Stand-in with an ASSUMED contract:
//
//     entry_or_default(&mut m, k)   ==   m.entry(k).or_default()
//
// std documents `Entry::or_default` as "ensures a value is in the entry by inserting the default value
// if empty, and returns a mutable reference to the value in the entry"; no other entry is touched.  So:
//   * the returned reference initially holds the stored value if the key was present, else a value
//     produced by `V::default()` (stated with `call_ensures`, so nothing is assumed about V::default);
//   * when the borrow ends the map is the old map with `k` bound to the final value behind the reference.
// Same provisos as vstd's own HashMap specifications (key model, valid hasher builder).
// A unit that uses it rewrites `M.entry(K).or_default()` to `hashmap_entry::entry_or_default(&mut M, K)`
// (logged rewrite; K stays the original tokens).
// ======================================================================================
pub mod hashmap_entry {
    use vstd::prelude::*;
    use std::collections::HashMap;
    use std::hash::{BuildHasher, Hash};

    #[verifier::external_body]
    pub fn entry_or_default<'a, K: Eq + Hash, V: Default, S: BuildHasher>(m: &'a mut HashMap<K, V, S>, k: K) -> (r: &'a mut V)
        ensures
            vstd::std_specs::hash::obeys_key_model::<K>() && vstd::std_specs::hash::builds_valid_hashers::<S>() ==> {
                &&& old(m)@.contains_key(k) ==> *r == old(m)@[k]
                &&& !old(m)@.contains_key(k) ==> call_ensures(V::default, (), *r)
                &&& final(m)@ == old(m)@.insert(k, *final(r))
            },
    {
        m.entry(k).or_default()
    }
}
