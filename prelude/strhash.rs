// ======================================================================================
// prelude/strhash.rs (NEW, unit C10) - std HashMap<String, V> looked up through `&str`, `entry().or_insert()`,
// `Option<&T>::copied`, hash sets of references.   (transformation::ssa_transformation::ScalarVersioning keeps
// `HashMap<String, usize>` tables and looks them up with `scalar.name(): &str`.)
//
// ASSUMED contracts (each one is the documented behaviour of the Rust standard library; all are listed in the
// evidence).  vstd (0.2026.09.13) specifies HashMap lookups through a borrowed key form only up to the
// uninterpreted predicates `contains_borrowed_key` / `maps_borrowed_key_to_value`, which it does not connect to
// `str` vs `String`; it has no specification for the Entry API and for `Option::copied`.
//
//  * `axiom_string_obeys_key_model`: `String` hashes and compares its bytes (`impl Hash for String` forwards to
//    `str`, which writes the bytes and a terminator; `Eq` compares the bytes), i.e. `hash` is a deterministic function
//    of the value and `==` is spec equality.  That is what vstd's `obeys_key_model` asks for.
//  * `axiom_ref_obeys_key_model`: `&T` hashes and compares as `T` (`impl Hash for &T` / `impl PartialEq for &A`
//    forward to the referent), so a set of references behaves as a set of the values referred to.
//  * `string_of(n)`: THE String holding the characters `n` (`axiom_string_of`); together with
//    `strmap::axiom_string_ext` (two Strings with the same characters are the same value - prelude/strmap.rs) every
//    String `s` is `string_of(s@)`.  Idealisation as in prelude/bigint.rs' `biguint_of`: every finite character
//    sequence is the content of some String (allocation limits are outside the model).  Ghost code only.
//  * `hash_get_str(m, name)` == `m.get(name)` for `name: &str`: `String: Borrow<str>` with the same Hash / Eq as
//    `str`, so the lookup finds exactly the entry whose key holds the characters of `name`.
//  * `hash_entry_or_insert(m, k, v)` == `m.entry(k).or_insert(v)`.  std: "Ensures a value is in the entry by
//    inserting the default if empty, and returns a mutable reference to the value in the entry."  No other key changes.
//  * `Option<&T>::copied`: "Maps an Option<&T> to an Option<T> by copying the contents of the option."
// A unit that uses the two stand-ins rewrites `M.get(S)` => `strhash::hash_get_str(M, S)` and
// `M.entry(K).or_insert(V)` => `strhash::hash_entry_or_insert(&mut M, K, V)` (logged rewrites; the bodies call the
// real std functions).
// ======================================================================================
pub mod strhash {
    use vstd::prelude::*;
    use std::collections::HashMap;
    use std::hash::{BuildHasher, Hash};

    pub broadcast axiom fn axiom_string_obeys_key_model()
        ensures #[trigger] vstd::std_specs::hash::obeys_key_model::<String>();

    pub broadcast axiom fn axiom_ref_obeys_key_model<T>()
        ensures #[trigger] vstd::std_specs::hash::obeys_key_model::<&T>() == vstd::std_specs::hash::obeys_key_model::<T>();

    pub uninterp spec fn string_of(n: Seq<char>) -> String;

    pub broadcast axiom fn axiom_string_of(n: Seq<char>)
        ensures (#[trigger] string_of(n))@ == n;

    /// every String is the `string_of` its characters (consequence of strmap::axiom_string_ext)
    pub proof fn lemma_string_of_view(s: String)
        ensures string_of(s@) == s,
    {
        broadcast use axiom_string_of;
        crate::strmap::axiom_string_ext(string_of(s@), s);
    }

    #[verifier::external_body]
    pub fn hash_get_str<'a, V, S: BuildHasher>(m: &'a HashMap<String, V, S>, name: &str) -> (r: Option<&'a V>)
        ensures
            vstd::std_specs::hash::obeys_key_model::<String>() && vstd::std_specs::hash::builds_valid_hashers::<S>() ==> {
                &&& m@.contains_key(string_of(name@)) ==> r == Some(&m@[string_of(name@)])
                &&& !m@.contains_key(string_of(name@)) ==> r is None
            },
    {
        m.get(name)
    }

    #[verifier::external_body]
    pub fn hash_entry_or_insert<'a, K: Eq + Hash, V, S: BuildHasher>(m: &'a mut HashMap<K, V, S>, k: K, v: V) -> (r: &'a mut V)
        ensures
            vstd::std_specs::hash::obeys_key_model::<K>() && vstd::std_specs::hash::builds_valid_hashers::<S>() ==> {
                &&& old(m)@.contains_key(k) ==> *r == old(m)@[k]
                &&& !old(m)@.contains_key(k) ==> *r == v
                &&& final(m)@ == old(m)@.insert(k, *final(r))
            },
    {
        m.entry(k).or_insert(v)
    }

    pub assume_specification<'a, T: Copy>[ Option::<&'a T>::copied ](o: Option<&'a T>) -> (r: Option<T>)
        ensures
            o is None ==> r is None,
            o matches Some(x) ==> r == Some(*x);
}
