// ======================================================================================
// prelude/fmt_option.rs - `{:?}` of an `Option<T>` inside `format!` (location.rs formats
// `self.function.index(): Option<usize>` into its "Could not find instruction" error text).
// vstd (0.2026.09.13) guards every formatting call with `fmt_req` ("this value's fmt impl may be
// called"); it discharges that for the primitive types through `fmt_req_all::<T>()` axioms but has
// none for `Option<T>`.
// ASSUMED (listed in the evidence): `fmt_req_all::<Option<T>>()` whenever `fmt_req_all::<T>()`.
// Why it is true: `impl<T: Debug> Debug for Option<T>` is `#[derive(Debug)]`: it writes "None" or
// "Some(" <T's Debug output> ")" and has no precondition / panic of its own, so it may be called
// whenever T's impl may.  The produced text is never inspected by verified code.
// ======================================================================================
pub mod fmt_option {
    use vstd::prelude::*;

    pub broadcast axiom fn axiom_fmt_req_all_option<T: std::fmt::Debug>()
        requires vstd::std_specs::fmt::fmt_req_all::<T>(),
        ensures #[trigger] vstd::std_specs::fmt::fmt_req_all::<Option<T>>();
}
