// ======================================================================================
// prelude/btree_range.rs — stand-in for `BTreeMap<u64, V>::range(bounds)` and
// `btree_map::Range::next_back()` (Verus 0.2026.09.13 has no model of `RangeBounds` /
// `btree_map::Range`).  A unit uses it through ONE logged rewrite
//        `MAP.range(`  =>  `btree_range::btree_range(&MAP, `
// so the bounds expression (e.g. `(Included(0), Included(address))`) stays the original tokens
// and is interpreted by `lower_ok` / `upper_ok` below (std::ops::Bound is the REAL enum).
//
// ASSUMED contracts (listed in the evidence), each is the documented behaviour of std:
//  * `BTreeMap::range(r)`: "Constructs a double-ended iterator over a sub-range of elements in
//    the map" — exactly the entries whose key satisfies both bounds, each once, in ascending key
//    order.  "Panics if range start > end. Panics if range start == end and both bounds are
//    Excluded."  (precondition `range_ok`).
//  * `DoubleEndedIterator::next_back` on that iterator: removes and returns the LAST (greatest
//    key) remaining entry, `None` when nothing remains.
// The bodies call the real std functions (they are not verified: `external_body`).
// ======================================================================================
pub mod btree_range {
    use vstd::prelude::*;
    use std::collections::BTreeMap;
    use std::ops::Bound;

    pub open spec fn lower_ok(b: Bound<u64>, k: u64) -> bool {
        match b { Bound::Included(x) => x <= k, Bound::Excluded(x) => x < k, Bound::Unbounded => true }
    }

    pub open spec fn upper_ok(b: Bound<u64>, k: u64) -> bool {
        match b { Bound::Included(x) => k <= x, Bound::Excluded(x) => k < x, Bound::Unbounded => true }
    }

    /// the cases in which std's `range` does not panic
    pub open spec fn range_ok(b: (Bound<u64>, Bound<u64>)) -> bool {
        match b {
            (Bound::Unbounded, _) | (_, Bound::Unbounded) => true,
            (Bound::Excluded(s), Bound::Excluded(e)) => s < e,
            (Bound::Included(s), Bound::Included(e)) | (Bound::Included(s), Bound::Excluded(e)) | (Bound::Excluded(s), Bound::Included(e)) => s <= e,
        }
    }

    #[verifier::reject_recursive_types(V)]
    #[verifier::external_body]
    pub struct BTreeRange<'a, V> { inner: std::collections::btree_map::Range<'a, u64, V> }

    impl<'a, V> BTreeRange<'a, V> {
        /// the entries not yet yielded, in ascending key order
        pub uninterp spec fn remaining(&self) -> Seq<(u64, V)>;

        #[verifier::external_body]
        pub fn next_back(&mut self) -> (r: Option<(&'a u64, &'a V)>)
            ensures
                old(self).remaining().len() == 0 ==> r is None && final(self).remaining() == old(self).remaining(),
                old(self).remaining().len() > 0 ==>
                    (r matches Some(kv) && (*kv.0, *kv.1) == old(self).remaining().last())
                    && final(self).remaining() == old(self).remaining().drop_last(),
        {
            self.inner.next_back()
        }
    }

    #[verifier::external_body]
    pub fn btree_range<'a, V>(m: &'a BTreeMap<u64, V>, bounds: (Bound<u64>, Bound<u64>)) -> (r: BTreeRange<'a, V>)
        requires
            range_ok(bounds),
        ensures
            // only entries of the map whose key is within the bounds
            forall|i: int| 0 <= i < r.remaining().len() ==> {
                let kv = #[trigger] r.remaining()[i];
                m@.contains_key(kv.0) && m@[kv.0] == kv.1 && lower_ok(bounds.0, kv.0) && upper_ok(bounds.1, kv.0)
            },
            // ascending key order
            forall|i: int, j: int| 0 <= i < j < r.remaining().len() ==> (#[trigger] r.remaining()[i]).0 < (#[trigger] r.remaining()[j]).0,
            // all of them
            forall|k: u64| #[trigger] m@.contains_key(k) && lower_ok(bounds.0, k) && upper_ok(bounds.1, k) ==>
                exists|i: int| 0 <= i < r.remaining().len() && (#[trigger] r.remaining()[i]).0 == k,
    {
        BTreeRange { inner: m.range(bounds) }
    }
}
