// ---- prelude/strmap.rs: BTreeMap<String, V> looked up through &str, and S: Into<String> -------
// ASSUMED contracts (std semantics): a String key matches a &str exactly when they hold the same characters
// (Borrow<str> for String + Ord on str); two Strings with the same characters are the same value;
// `<&str as Into<String>>::into` / `<String as Into<String>>::into` keep the characters.
pub mod strmap {
use vstd::prelude::*;
use std::collections::BTreeMap;
verus! {

pub broadcast axiom fn axiom_string_ext(a: String, b: String)
    ensures #[trigger] a@ == #[trigger] b@ ==> a == b;

// String's Ord is a lawful total order (lexicographic on bytes), so it meets vstd's BTreeMap key model.
pub broadcast axiom fn axiom_string_key_obeys_cmp_spec()
    ensures #[trigger] vstd::std_specs::btree::key_obeys_cmp_spec::<String>();

pub open spec fn str_key_in<V>(m: Map<String, V>, n: Seq<char>) -> bool {
    exists|k: String| #[trigger] m.contains_key(k) && k@ == n
}

pub open spec fn str_key_of<V>(m: Map<String, V>, n: Seq<char>) -> String {
    choose|k: String| #[trigger] m.contains_key(k) && k@ == n
}

/// view of a String-keyed map as a map from character sequences
pub open spec fn by_name<V>(m: Map<String, V>) -> IMap<Seq<char>, V> {
    IMap::new(|n: Seq<char>| str_key_in(m, n), |n: Seq<char>| m[str_key_of(m, n)])
}

pub proof fn lemma_by_name_insert<V>(m: Map<String, V>, k: String, v: V)
    ensures by_name(m.insert(k, v)) == by_name(m).insert(k@, v),
{
    broadcast use axiom_string_ext;
    let a = by_name(m.insert(k, v));
    let b = by_name(m).insert(k@, v);
    assert forall|n: Seq<char>| a.contains_key(n) == b.contains_key(n) by {
        if n == k@ {
            assert(m.insert(k, v).contains_key(k));
        } else {
            if str_key_in(m, n) {
                let kk = str_key_of(m, n);
                assert(m.insert(k, v).contains_key(kk));
            }
            if str_key_in(m.insert(k, v), n) {
                let kk = str_key_of(m.insert(k, v), n);
                assert(m.contains_key(kk));
            }
        }
    }
    assert forall|n: Seq<char>| a.contains_key(n) implies a[n] == b[n] by {
        let kk = str_key_of(m.insert(k, v), n);
        if n == k@ {
            assert(m.insert(k, v).contains_key(k));
            assert(kk@ == k@);
        } else {
            assert(m.contains_key(kk));
            let k0 = str_key_of(m, n);
            assert(k0@ == kk@);
        }
    }
    assert(a =~= b);
}

#[verifier::external_body]
pub fn btree_get_str<'a, V>(m: &'a BTreeMap<String, V>, name: &str) -> (r: Option<&'a V>)
    ensures
        by_name(m@).contains_key(name@) ==> r == Some(&by_name(m@)[name@]),
        !by_name(m@).contains_key(name@) ==> r is None,
{
    m.get(name)
}

pub uninterp spec fn into_string_chars<S>(s: S) -> Seq<char>;

pub broadcast axiom fn axiom_into_string_str(s: &str)
    ensures #[trigger] into_string_chars::<&str>(s) == s@;

pub broadcast axiom fn axiom_into_string_string(s: String)
    ensures #[trigger] into_string_chars::<String>(s) == s@;

#[verifier::external_body]
pub fn into_string<S: Into<String>>(s: S) -> (r: String)
    ensures r@ == into_string_chars(s),
{
    s.into()
}

} // verus!
}
