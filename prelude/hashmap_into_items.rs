// ======================================================================================
// prelude/hashmap_into_items.rs (NEW, unit C17) - consuming iteration over a std HashMap.
// vstd (0.2026.09.13) has no specification for `std::collections::hash_map::IntoIter`
// (`for (k, v) in map` / `map.into_iter()` by value is rejected).  Stand-in with an ASSUMED contract:
//
//     hashmap_into_items(m)  ==  m.into_iter().collect::<Vec<(K, V)>>()
//
// std documents `HashMap::into_iter` as "a consuming iterator, that is, one that moves each
// key-value pair out of the map in arbitrary order": every entry exactly once, nothing else, order
// unspecified.  That is all the contract says (same provisos as vstd's own HashMap specifications:
// the key type obeys the hash-table key model and the hasher builder is valid).
// A unit that uses it rewrites `map.into_iter()` to `hashmap_into_items(map)` (logged rewrite) and
// iterates the vector (vstd specifies `Vec`'s by-value iteration).
// ======================================================================================
pub mod hashmap_into_items {
    use vstd::prelude::*;
    use std::collections::HashMap;
    use std::hash::{BuildHasher, Hash};

    /// `items` lists every entry of `m` exactly once (no key twice, every key present, values as stored)
    pub open spec fn lists_entries<K, V>(items: Seq<(K, V)>, m: Map<K, V>) -> bool {
        &&& forall|i: int| 0 <= i < items.len() ==> m.contains_key((#[trigger] items[i]).0) && m[items[i].0] == items[i].1
        &&& forall|i: int, j: int| 0 <= i < j < items.len() ==> (#[trigger] items[i]).0 != (#[trigger] items[j]).0
        &&& forall|k: K| #[trigger] m.contains_key(k) ==> exists|i: int| 0 <= i < items.len() && (#[trigger] items[i]).0 == k
    }

    #[verifier::external_body]
    pub fn hashmap_into_items<K: Eq + Hash, V, S: BuildHasher>(m: HashMap<K, V, S>) -> (r: Vec<(K, V)>)
        ensures
            vstd::std_specs::hash::obeys_key_model::<K>() && vstd::std_specs::hash::builds_valid_hashers::<S>()
                ==> lists_entries(r@, m@),
    {
        m.into_iter().collect()
    }
}
