// ======================================================================================
// prelude/int_std.rs (NEW, unit C01) - std integer methods vstd (0.2026.09.13) has no specification for.
// * `i64::unsigned_abs` (Mode::operand_offset computes `mem.disp.unsigned_abs()` for a negative displacement).
//   ASSUMED (listed in the evidence): the result is the absolute value of the argument as a u64.
//   Why it is true: std documents "Computes the absolute value of self without any wrapping or panicking"; the
//   result type u64 holds |i64::MIN| = 2^63, so there is no overflow case.
// ======================================================================================
pub mod int_std {
    use vstd::prelude::*;
    verus! {
    pub assume_specification [i64::unsigned_abs] (x: i64) -> (r: u64)
        ensures r as int == (if x < 0 { -(x as int) } else { x as int });
    }
}
