// ======================================================================================
// prelude/bigint.rs — stand-ins for num-bigint's BigUint / BigInt with ASSUMED contracts.
// Every `external_body` below is part of the trusted base and is listed in the evidence.
// The contracts say what num-bigint 0.4 documents: arbitrary-precision naturals/integers,
// `-` on BigUint panics when the result would be negative, `/` and `%` panic on a zero
// divisor and truncate toward zero on BigInt, `<<` allocates proportionally to the shift
// amount (hence the SHIFT_LIMIT precondition), bit operations act on the binary expansion
// (two's complement, infinitely sign-extended, for BigInt).
// ======================================================================================

pub open spec fn SHIFT_LIMIT() -> nat { 0x10_0000 }

#[verifier::external_body]
pub struct BigUint { _p: () }

#[verifier::external_body]
pub struct BigInt { _p: () }

impl View for BigUint {
    type V = nat;
    uninterp spec fn view(&self) -> nat;
}

impl View for BigInt {
    type V = int;
    uninterp spec fn view(&self) -> int;
}

// Two BigUints with the same mathematical value are the same value (num-bigint keeps a
// normalised digit vector), so structural equality of types containing them is value equality.
pub broadcast axiom fn axiom_biguint_ext(a: BigUint, b: BigUint)
    ensures #[trigger] a@ == #[trigger] b@ ==> a == b;

// Every natural number is the value of some BigUint (spec-level constructor; used only in ghost code).
pub uninterp spec fn biguint_of(n: nat) -> BigUint;
pub broadcast axiom fn axiom_biguint_of(n: nat)
    ensures (#[trigger] biguint_of(n))@ == n;

pub broadcast axiom fn axiom_bigint_ext(a: BigInt, b: BigInt)
    ensures #[trigger] a@ == #[trigger] b@ ==> a == b;

impl Clone for BigUint {
    #[verifier::external_body]
    fn clone(&self) -> (r: BigUint) ensures r == *self { unimplemented!() }
}

impl Clone for BigInt {
    #[verifier::external_body]
    fn clone(&self) -> (r: BigInt) ensures r == *self { unimplemented!() }
}

impl BigUint {
    #[verifier::external_body]
    pub fn from_u64(v: u64) -> (r: Option<BigUint>) ensures r is Some, r.unwrap()@ == v as nat { unimplemented!() }
    #[verifier::external_body]
    pub fn from_i64(v: i64) -> (r: Option<BigUint>) ensures v >= 0 ==> (r is Some && r.unwrap()@ == v as nat), v < 0 ==> r is None { unimplemented!() }
    #[verifier::external_body]
    pub fn to_u64(&self) -> (r: Option<u64>) ensures self@ <= u64::MAX ==> (r is Some && r.unwrap() as nat == self@), self@ > u64::MAX ==> r is None { unimplemented!() }
    #[verifier::external_body]
    pub fn to_usize(&self) -> (r: Option<usize>) ensures self@ <= usize::MAX ==> (r is Some && r.unwrap() as nat == self@), self@ > usize::MAX ==> r is None { unimplemented!() }
    #[verifier::external_body]
    pub fn to_u128(&self) -> (r: Option<u128>) ensures self@ <= u128::MAX ==> (r is Some && r.unwrap() as nat == self@), self@ > u128::MAX ==> r is None { unimplemented!() }
    #[verifier::external_body]
    pub fn is_zero(&self) -> (r: bool) ensures r == (self@ == 0) { unimplemented!() }
    #[verifier::external_body]
    pub fn is_one(&self) -> (r: bool) ensures r == (self@ == 1) { unimplemented!() }
    #[verifier::external_body]
    pub fn to_bigint(&self) -> (r: Option<BigInt>) ensures r is Some, r.unwrap()@ == self@ as int { unimplemented!() }
}

impl BigInt {
    #[verifier::external_body]
    pub fn from_u64(v: u64) -> (r: Option<BigInt>) ensures r is Some, r.unwrap()@ == v as int { unimplemented!() }
    #[verifier::external_body]
    pub fn from_i64(v: i64) -> (r: Option<BigInt>) ensures r is Some, r.unwrap()@ == v as int { unimplemented!() }
    #[verifier::external_body]
    pub fn to_biguint(&self) -> (r: Option<BigUint>) ensures self@ >= 0 ==> (r is Some && r.unwrap()@ == self@ as nat), self@ < 0 ==> r is None { unimplemented!() }
}

// ---- comparison ------------------------------------------------------------------------
impl vstd::std_specs::cmp::PartialEqSpecImpl for BigUint {
    open spec fn obeys_eq_spec() -> bool { true }
    open spec fn eq_spec(&self, other: &BigUint) -> bool { self@ == other@ }
}
impl PartialEq for BigUint {
    #[verifier::external_body]
    fn eq(&self, other: &BigUint) -> (r: bool) ensures r == (self@ == other@) { unimplemented!() }
}
impl vstd::std_specs::cmp::PartialOrdSpecImpl for BigUint {
    open spec fn obeys_partial_cmp_spec() -> bool { true }
    open spec fn partial_cmp_spec(&self, other: &BigUint) -> Option<core::cmp::Ordering> {
        if self@ < other@ { Some(core::cmp::Ordering::Less) } else if self@ == other@ { Some(core::cmp::Ordering::Equal) } else { Some(core::cmp::Ordering::Greater) }
    }
}
impl PartialOrd for BigUint {
    #[verifier::external_body]
    fn partial_cmp(&self, other: &BigUint) -> (r: Option<core::cmp::Ordering>) { unimplemented!() }
}
impl vstd::std_specs::cmp::PartialEqSpecImpl for BigInt {
    open spec fn obeys_eq_spec() -> bool { true }
    open spec fn eq_spec(&self, other: &BigInt) -> bool { self@ == other@ }
}
impl PartialEq for BigInt {
    #[verifier::external_body]
    fn eq(&self, other: &BigInt) -> (r: bool) ensures r == (self@ == other@) { unimplemented!() }
}
impl vstd::std_specs::cmp::PartialOrdSpecImpl for BigInt {
    open spec fn obeys_partial_cmp_spec() -> bool { true }
    open spec fn partial_cmp_spec(&self, other: &BigInt) -> Option<core::cmp::Ordering> {
        if self@ < other@ { Some(core::cmp::Ordering::Less) } else if self@ == other@ { Some(core::cmp::Ordering::Equal) } else { Some(core::cmp::Ordering::Greater) }
    }
}
impl PartialOrd for BigInt {
    #[verifier::external_body]
    fn partial_cmp(&self, other: &BigInt) -> (r: Option<core::cmp::Ordering>) { unimplemented!() }
}

// ---- arithmetic on BigUint (assumed contracts) ------------------------------------------
impl vstd::std_specs::ops::AddSpecImpl<BigUint> for BigUint {
    open spec fn obeys_add_spec() -> bool { false }
    open spec fn add_req(self, rhs: BigUint) -> bool { true }
    open spec fn add_spec(self, rhs: BigUint) -> BigUint { arbitrary() }
}
impl core::ops::Add<BigUint> for BigUint {
    type Output = BigUint;
    #[verifier::external_body]
    fn add(self, rhs: BigUint) -> (r: BigUint) ensures r@ == self@ + rhs@ { unimplemented!() }
}
impl vstd::std_specs::ops::SubSpecImpl<BigUint> for BigUint {
    open spec fn obeys_sub_spec() -> bool { false }
    open spec fn sub_req(self, rhs: BigUint) -> bool { self@ >= rhs@ }
    open spec fn sub_spec(self, rhs: BigUint) -> BigUint { arbitrary() }
}
impl core::ops::Sub<BigUint> for BigUint {
    type Output = BigUint;
    #[verifier::external_body]
    fn sub(self, rhs: BigUint) -> (r: BigUint) ensures r@ == self@ - rhs@ { unimplemented!() }
}
impl vstd::std_specs::ops::MulSpecImpl<BigUint> for BigUint {
    open spec fn obeys_mul_spec() -> bool { false }
    open spec fn mul_req(self, rhs: BigUint) -> bool { true }
    open spec fn mul_spec(self, rhs: BigUint) -> BigUint { arbitrary() }
}
impl core::ops::Mul<BigUint> for BigUint {
    type Output = BigUint;
    #[verifier::external_body]
    fn mul(self, rhs: BigUint) -> (r: BigUint) ensures r@ == self@ * rhs@ { unimplemented!() }
}
impl vstd::std_specs::ops::DivSpecImpl<BigUint> for BigUint {
    open spec fn obeys_div_spec() -> bool { false }
    open spec fn div_req(self, rhs: BigUint) -> bool { rhs@ != 0 }
    open spec fn div_spec(self, rhs: BigUint) -> BigUint { arbitrary() }
}
impl core::ops::Div<BigUint> for BigUint {
    type Output = BigUint;
    #[verifier::external_body]
    fn div(self, rhs: BigUint) -> (r: BigUint) ensures r@ == self@ / rhs@ { unimplemented!() }
}
impl vstd::std_specs::ops::RemSpecImpl<BigUint> for BigUint {
    open spec fn obeys_rem_spec() -> bool { false }
    open spec fn rem_req(self, rhs: BigUint) -> bool { rhs@ != 0 }
    open spec fn rem_spec(self, rhs: BigUint) -> BigUint { arbitrary() }
}
impl core::ops::Rem<BigUint> for BigUint {
    type Output = BigUint;
    #[verifier::external_body]
    fn rem(self, rhs: BigUint) -> (r: BigUint) ensures r@ == self@ % rhs@ { unimplemented!() }
}
impl vstd::std_specs::ops::BitAndSpecImpl<BigUint> for BigUint {
    open spec fn obeys_bitand_spec() -> bool { false }
    open spec fn bitand_req(self, rhs: BigUint) -> bool { true }
    open spec fn bitand_spec(self, rhs: BigUint) -> BigUint { arbitrary() }
}
impl core::ops::BitAnd<BigUint> for BigUint {
    type Output = BigUint;
    #[verifier::external_body]
    fn bitand(self, rhs: BigUint) -> (r: BigUint) ensures r@ == nat_and(self@, rhs@) { unimplemented!() }
}
impl vstd::std_specs::ops::BitOrSpecImpl<BigUint> for BigUint {
    open spec fn obeys_bitor_spec() -> bool { false }
    open spec fn bitor_req(self, rhs: BigUint) -> bool { true }
    open spec fn bitor_spec(self, rhs: BigUint) -> BigUint { arbitrary() }
}
impl core::ops::BitOr<BigUint> for BigUint {
    type Output = BigUint;
    #[verifier::external_body]
    fn bitor(self, rhs: BigUint) -> (r: BigUint) ensures r@ == nat_or(self@, rhs@) { unimplemented!() }
}
impl vstd::std_specs::ops::BitXorSpecImpl<BigUint> for BigUint {
    open spec fn obeys_bitxor_spec() -> bool { false }
    open spec fn bitxor_req(self, rhs: BigUint) -> bool { true }
    open spec fn bitxor_spec(self, rhs: BigUint) -> BigUint { arbitrary() }
}
impl core::ops::BitXor<BigUint> for BigUint {
    type Output = BigUint;
    #[verifier::external_body]
    fn bitxor(self, rhs: BigUint) -> (r: BigUint) ensures r@ == nat_xor(self@, rhs@) { unimplemented!() }
}
impl vstd::std_specs::ops::ShlSpecImpl<usize> for BigUint {
    open spec fn obeys_shl_spec() -> bool { false }
    open spec fn shl_req(self, rhs: usize) -> bool { rhs as nat <= SHIFT_LIMIT() }
    open spec fn shl_spec(self, rhs: usize) -> BigUint { arbitrary() }
}
impl core::ops::Shl<usize> for BigUint {
    type Output = BigUint;
    #[verifier::external_body]
    fn shl(self, rhs: usize) -> (r: BigUint) ensures r@ == self@ * pow2(rhs as nat) { unimplemented!() }
}
impl vstd::std_specs::ops::ShrSpecImpl<usize> for BigUint {
    open spec fn obeys_shr_spec() -> bool { false }
    open spec fn shr_req(self, rhs: usize) -> bool { true }
    open spec fn shr_spec(self, rhs: usize) -> BigUint { arbitrary() }
}
impl core::ops::Shr<usize> for BigUint {
    type Output = BigUint;
    #[verifier::external_body]
    fn shr(self, rhs: usize) -> (r: BigUint) ensures r@ == self@ / pow2(rhs as nat) { unimplemented!() }
}
// ---- arithmetic on BigInt (assumed contracts) -------------------------------------------
impl vstd::std_specs::ops::AddSpecImpl<BigInt> for BigInt {
    open spec fn obeys_add_spec() -> bool { false }
    open spec fn add_req(self, rhs: BigInt) -> bool { true }
    open spec fn add_spec(self, rhs: BigInt) -> BigInt { arbitrary() }
}
impl core::ops::Add<BigInt> for BigInt {
    type Output = BigInt;
    #[verifier::external_body]
    fn add(self, rhs: BigInt) -> (r: BigInt) ensures r@ == self@ + rhs@ { unimplemented!() }
}
impl vstd::std_specs::ops::SubSpecImpl<BigInt> for BigInt {
    open spec fn obeys_sub_spec() -> bool { false }
    open spec fn sub_req(self, rhs: BigInt) -> bool { true }
    open spec fn sub_spec(self, rhs: BigInt) -> BigInt { arbitrary() }
}
impl core::ops::Sub<BigInt> for BigInt {
    type Output = BigInt;
    #[verifier::external_body]
    fn sub(self, rhs: BigInt) -> (r: BigInt) ensures r@ == self@ - rhs@ { unimplemented!() }
}
impl vstd::std_specs::ops::MulSpecImpl<BigInt> for BigInt {
    open spec fn obeys_mul_spec() -> bool { false }
    open spec fn mul_req(self, rhs: BigInt) -> bool { true }
    open spec fn mul_spec(self, rhs: BigInt) -> BigInt { arbitrary() }
}
impl core::ops::Mul<BigInt> for BigInt {
    type Output = BigInt;
    #[verifier::external_body]
    fn mul(self, rhs: BigInt) -> (r: BigInt) ensures r@ == self@ * rhs@ { unimplemented!() }
}
impl vstd::std_specs::ops::DivSpecImpl<BigInt> for BigInt {
    open spec fn obeys_div_spec() -> bool { false }
    open spec fn div_req(self, rhs: BigInt) -> bool { rhs@ != 0 }
    open spec fn div_spec(self, rhs: BigInt) -> BigInt { arbitrary() }
}
impl core::ops::Div<BigInt> for BigInt {
    type Output = BigInt;
    #[verifier::external_body]
    fn div(self, rhs: BigInt) -> (r: BigInt) ensures r@ == trunc_div(self@, rhs@) { unimplemented!() }
}
impl vstd::std_specs::ops::RemSpecImpl<BigInt> for BigInt {
    open spec fn obeys_rem_spec() -> bool { false }
    open spec fn rem_req(self, rhs: BigInt) -> bool { rhs@ != 0 }
    open spec fn rem_spec(self, rhs: BigInt) -> BigInt { arbitrary() }
}
impl core::ops::Rem<BigInt> for BigInt {
    type Output = BigInt;
    #[verifier::external_body]
    fn rem(self, rhs: BigInt) -> (r: BigInt) ensures r@ == trunc_rem(self@, rhs@) { unimplemented!() }
}
impl vstd::std_specs::ops::ShlSpecImpl<usize> for BigInt {
    open spec fn obeys_shl_spec() -> bool { false }
    open spec fn shl_req(self, rhs: usize) -> bool { rhs as nat <= SHIFT_LIMIT() }
    open spec fn shl_spec(self, rhs: usize) -> BigInt { arbitrary() }
}
impl core::ops::Shl<usize> for BigInt {
    type Output = BigInt;
    #[verifier::external_body]
    fn shl(self, rhs: usize) -> (r: BigInt) ensures r@ == self@ * pow2(rhs as nat) { unimplemented!() }
}
impl vstd::std_specs::ops::BitXorSpecImpl<BigInt> for BigInt {
    open spec fn obeys_bitxor_spec() -> bool { false }
    open spec fn bitxor_req(self, rhs: BigInt) -> bool { true }
    open spec fn bitxor_spec(self, rhs: BigInt) -> BigInt { arbitrary() }
}
impl core::ops::BitXor<BigInt> for BigInt {
    type Output = BigInt;
    #[verifier::external_body]
    fn bitxor(self, rhs: BigInt) -> (r: BigInt) ensures r@ == int_xor(self@, rhs@) { unimplemented!() }
}
