// ======================================================================================
// prelude/hashmap_fill.rs (NEW, unit C13) - overwriting every value of a std HashMap in place.
// vstd (0.2026.09.13) has no specification for `HashMap::iter_mut` / `hash_map::IterMut` and
// rejects `Iterator::for_each`.  Stand-in with an ASSUMED contract:
//
//     hashmap_fill_values(&mut m, v)   ==   m.iter_mut().for_each(|(_, slot)| *slot = v.clone())
//
// std documents `HashMap::iter_mut` as "an iterator visiting all key-value pairs in arbitrary
// order, with mutable references to the values": every entry exactly once, keys untouched.
// Assigning through each of these references therefore leaves the key set as it was and makes every
// stored value a clone of `v` (stated with vstd's `cloned`, so nothing is assumed about V::clone).
// Same provisos as vstd's own HashMap specifications (key model, valid hasher builder).
// A unit that uses it rewrites `m.iter_mut().for_each(|(_, x)| *x = E)` to
// `hashmap_fill_values(&mut m, E)` (logged rewrite; E stays the original tokens; E must be a
// side-effect-free expression whose value does not depend on the entry).
// ======================================================================================
pub mod hashmap_fill {
    use vstd::prelude::*;
    use std::collections::HashMap;
    use std::hash::{BuildHasher, Hash};

    #[verifier::external_body]
    pub fn hashmap_fill_values<K: Eq + Hash, V: Clone, S: BuildHasher>(m: &mut HashMap<K, V, S>, v: V)
        ensures
            vstd::std_specs::hash::obeys_key_model::<K>() && vstd::std_specs::hash::builds_valid_hashers::<S>() ==> {
                &&& final(m)@.dom() == old(m)@.dom()
                &&& forall|k: K| #![trigger final(m)@[k]] final(m)@.contains_key(k) ==> cloned(v, final(m)@[k])
            },
    {
        m.iter_mut().for_each(|(_, slot)| *slot = v.clone())
    }
}
