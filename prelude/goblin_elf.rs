// ======================================================================================
// prelude/goblin_elf.rs — stand-ins for the parts of the third-party crate goblin (0.6.0) that
// lib/loader/elf/elf.rs READS.  Use it as   `use crate::goblin_elf as goblin;`   in the module that
// holds the extracted code, so that the original paths (`goblin::elf::Elf::parse`,
// `goblin::elf::program_header::PT_LOAD`, `goblin::elf::sym::STB_GLOBAL`, ...) resolve unchanged.
// (prelude/error.rs already owns the crate-root name `goblin` for `goblin::error::Error`.)
//
// EVERYTHING in this file is ASSUMED.  What is modelled, and why it is true of goblin 0.6.0:
//
//  * `elf::Elf<'a>`: only the fields falcon reads (`header`, `program_headers`, `dynsyms`,
//    `dynstrtab`, `syms`, `strtab`, `pltrelocs`), with goblin's field types:
//      - `header::Header` (unified 64-bit view: `e_entry: u64`, `e_machine: u16`, ...);
//      - `program_header::ProgramHeader` (unified view, all sizes/addresses `u64`, `p_type`/`p_flags` `u32`)
//        and `ProgramHeaders = Vec<ProgramHeader>` (goblin: `pub type ProgramHeaders = Vec<ProgramHeader>`);
//      - `sym::Sym` (unified view: `st_name: usize, st_info: u8, st_other: u8, st_shndx: usize,
//        st_value: u64, st_size: u64`) with `st_bind()` = `st_info >> 4` and `is_function()` =
//        `st_info & 0xf == STT_FUNC` (the bodies below are goblin's and are verified against that);
//      - `reloc::Reloc` (`r_offset: u64, r_addend: Option<i64>, r_sym: usize, r_type: u32`).
//  * `sym::Symtab` and `reloc::RelocSection` are modelled as `Vec<Sym>` / `Vec<Reloc>`.  goblin keeps the
//    raw table bytes and decodes entry `i` at `i * entry_size` both in `get(i)` (None iff `i >= count`)
//    and in its iterator (index 0, 1, ..., count-1, same bytes, same context), so "a finite sequence of
//    entries, iterated in index order, `get(i)` = the i-th entry or None" is exactly its behaviour.
//    Difference that does not matter to the verified code: iteration / `get` yield `&Sym` here and `Sym`
//    (a `Copy` struct) in goblin; falcon only reads fields and calls `&self` methods on the items.
//  * `strtab::Strtab<'a>`: opaque; `tab[i]` (`Index<usize>`, Output = str) is goblin's
//    `get_str(i, bytes, delim).unwrap()`: it PANICS when offset `i` is outside the table or the bytes
//    are not UTF-8 (`valid_at(i)` is the assumed precondition) and otherwise returns the string that
//    starts at byte offset `i` (`name_at(i)`, uninterpreted: a function of the table and the offset only).
//  * `Elf::parse(bytes)`: deterministic function of the byte slice: `parse_ok(bytes)` says whether
//    it succeeds and `parsed(bytes)` is the image it returns.  NOTHING is assumed about the relation
//    between the bytes and the parsed fields (the correctness of goblin's parser is out of scope).
//  * (added for the linker, lib/loader/elf/elf_linker.rs) further fields of `elf::Elf<'a>`: `dynrelas`, `dynrels`
//    (RelocSection, as `pltrelocs`), `dynamic: Option<dynamic::Dynamic>` with `Dynamic { dyns: Vec<Dyn> }` and
//    `Dyn { d_tag: u64, d_val: u64 }` (goblin's unified view; its `info: DynamicInfo` field is not read by falcon and
//    is omitted), `interpreter: Option<&'a str>`; `Strtab::get_at(i)` = Some(the string at offset i) whenever
//    `tab[i]` would succeed (goblin binary-searches its pre-parsed (offset, string) list and slices the string that
//    covers the offset; for an offset where `tab[i]` panics NOTHING is assumed about the result); relocation type
//    numbers R_386_* and R_MIPS_REL32 and DT_PLTGOT = 3 (goblin/src/elf/{constants_relocation,dynamic}.rs).
//  * constants: PT_LOAD = 1, PF_X = 1, PF_W = 2 (`1 << 1`), PF_R = 4 (`1 << 2`), STB_LOCAL = 0,
//    STB_GLOBAL = 1, STB_WEAK = 2, STT_FUNC = 2, EM_* (goblin/src/elf/{program_header,sym,constants_header}.rs).
// ======================================================================================
pub mod goblin_elf {

pub mod error {
    use vstd::prelude::*;
    verus! {
    #[verifier::external_body]
    pub struct Error { _p: () }
    // needed by the trait bound of `Result::unwrap` only; the formatted text is never inspected
    impl std::fmt::Debug for Error {
        #[verifier::external_body]
        fn fmt(&self, f: &mut std::fmt::Formatter<'_>) -> std::fmt::Result { unimplemented!() }
    }
    }
}

pub mod strtab {
    use vstd::prelude::*;
    verus! {
    #[verifier::external_body]
    pub struct Strtab<'a> { bytes: &'a [u8] }

    impl<'a> Strtab<'a> {
        /// offset `i` lies inside the table and the bytes from `i` to the next delimiter are UTF-8
        pub uninterp spec fn valid_at(&self, i: usize) -> bool;
        /// the string that starts at byte offset `i`
        pub uninterp spec fn name_at(&self, i: usize) -> Seq<char>;
    }

    impl<'a> Strtab<'a> {
        /// goblin: "Safely gets a str reference from the parsed table by offset"
        #[verifier::external_body]
        pub fn get_at(&self, i: usize) -> (r: Option<&'a str>)
            ensures self.valid_at(i) ==> (r matches Some(s) && s@ == self.name_at(i)),
        { unimplemented!() }
    }

    impl<'a> vstd::std_specs::core::IndexSpecImpl<usize> for Strtab<'a> {
        open spec fn index_req(&self, i: &usize) -> bool { self.valid_at(*i) }
    }

    impl<'a> std::ops::Index<usize> for Strtab<'a> {
        type Output = str;
        #[verifier::external_body]
        fn index(&self, i: usize) -> (r: &str)
            ensures r@ == self.name_at(i),
        { unimplemented!() }
    }
    }
}

pub mod elf {
    use vstd::prelude::*;

    pub mod header {
        use vstd::prelude::*;
        verus! {
        pub const EM_386: u16 = 3;
        pub const EM_MIPS: u16 = 8;
        pub const EM_PPC: u16 = 20;
        pub const EM_X86_64: u16 = 62;
        pub const EM_AARCH64: u16 = 183;
        pub struct Header {
            pub e_type: u16,
            pub e_machine: u16,
            pub e_version: u32,
            pub e_entry: u64,
            pub e_phoff: u64,
            pub e_shoff: u64,
            pub e_flags: u32,
            pub e_ehsize: u16,
            pub e_phentsize: u16,
            pub e_phnum: u16,
            pub e_shentsize: u16,
            pub e_shnum: u16,
            pub e_shstrndx: u16,
        }
        }
    }

    pub mod program_header {
        use vstd::prelude::*;
        verus! {
        pub const PT_LOAD: u32 = 1;
        pub const PF_X: u32 = 1;
        pub const PF_W: u32 = 2;
        pub const PF_R: u32 = 4;
        pub struct ProgramHeader {
            pub p_type: u32,
            pub p_flags: u32,
            pub p_offset: u64,
            pub p_vaddr: u64,
            pub p_paddr: u64,
            pub p_filesz: u64,
            pub p_memsz: u64,
            pub p_align: u64,
        }
        }
    }

    pub mod sym {
        use vstd::prelude::*;
        verus! {
        pub const STB_LOCAL: u8 = 0;
        pub const STB_GLOBAL: u8 = 1;
        pub const STB_WEAK: u8 = 2;
        pub const STT_FUNC: u8 = 2;

        #[derive(Clone, Copy)]
        pub struct Sym {
            pub st_name: usize,
            pub st_info: u8,
            pub st_other: u8,
            pub st_shndx: usize,
            pub st_value: u64,
            pub st_size: u64,
        }

        impl Sym {
            pub open spec fn spec_st_bind(&self) -> u8 { self.st_info >> 4 }
            pub open spec fn spec_is_function(&self) -> bool { self.st_info & 0xf == STT_FUNC }

            /// goblin: `self.st_info >> 4`
            pub fn st_bind(&self) -> (r: u8)
                ensures r == self.spec_st_bind(),
            { self.st_info >> 4 }

            /// goblin: `st_type(self.st_info) == STT_FUNC` with `st_type(info) = info & 0xf`
            pub fn is_function(&self) -> (r: bool)
                ensures r == self.spec_is_function(),
            { self.st_info & 0xf == STT_FUNC }
        }

        pub type Symtab = Vec<Sym>;
        }
    }

    pub mod reloc {
        use vstd::prelude::*;
        verus! {
        pub const R_386_32: u32 = 1;
        pub const R_386_GOT32: u32 = 3;
        pub const R_386_PLT32: u32 = 4;
        pub const R_386_COPY: u32 = 5;
        pub const R_386_GLOB_DAT: u32 = 6;
        pub const R_386_JMP_SLOT: u32 = 7;
        pub const R_386_RELATIVE: u32 = 8;
        pub const R_386_GOTPC: u32 = 10;
        pub const R_386_TLS_TPOFF: u32 = 14;
        pub const R_386_IRELATIVE: u32 = 42;
        pub const R_MIPS_REL32: u32 = 3;
        pub struct Reloc {
            pub r_offset: u64,
            pub r_addend: Option<i64>,
            pub r_sym: usize,
            pub r_type: u32,
        }
        pub type RelocSection = Vec<Reloc>;
        }
    }

    pub mod dynamic {
        use vstd::prelude::*;
        verus! {
        pub const DT_PLTGOT: u64 = 3;
        pub struct Dyn {
            pub d_tag: u64,
            pub d_val: u64,
        }
        pub struct Dynamic {
            pub dyns: Vec<Dyn>,
        }
        }
    }

    verus! {
    pub type ProgramHeaders = Vec<program_header::ProgramHeader>;

    pub struct Elf<'a> {
        pub header: header::Header,
        pub program_headers: ProgramHeaders,
        pub dynstrtab: super::strtab::Strtab<'a>,
        pub dynsyms: sym::Symtab,
        pub syms: sym::Symtab,
        pub strtab: super::strtab::Strtab<'a>,
        pub pltrelocs: reloc::RelocSection,
        pub dynrelas: reloc::RelocSection,
        pub dynrels: reloc::RelocSection,
        pub dynamic: Option<dynamic::Dynamic>,
        pub interpreter: Option<&'a str>,
    }

    /// goblin accepts these bytes as an ELF file
    pub uninterp spec fn parse_ok(bytes: Seq<u8>) -> bool;
    /// the image goblin returns for these bytes (a function of the bytes only)
    pub uninterp spec fn parsed<'a>(bytes: Seq<u8>) -> Elf<'a>;

    impl<'a> Elf<'a> {
        #[verifier::external_body]
        pub fn parse(bytes: &'a [u8]) -> (r: Result<Elf<'a>, super::error::Error>)
            ensures
                parse_ok(bytes@) ==> r == Ok::<Elf<'a>, super::error::Error>(parsed(bytes@)),
                !parse_ok(bytes@) ==> r is Err,
        { unimplemented!() }
    }
    }
}

}
