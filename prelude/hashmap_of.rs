// ======================================================================================
// prelude/hashmap_of.rs (NEW, unit C13) - a spec-level constructor for std HashMap values.
// The trait contract of analysis::fixed_point::FixedPointAnalysis (unit C09) wants `trans_spec` /
// `join_spec` to RETURN a State; a State that wraps a std HashMap (analysis::constants::Constants)
// can only be described through its view, so ghost code needs "the HashMap whose view is m".
// ASSUMED (listed in the evidence): every finite map is the view of some std HashMap
//     hashmap_of(m)@ == m
// Why it is true: insert the finitely many pairs of `m` one by one into `HashMap::new()`; by std's /
// vstd's contract of `insert` the resulting table's view is `m`.  (Same device as prelude/bigint.rs'
// `biguint_of`.)  Used in ghost code only; nothing executable depends on it.
// ======================================================================================
pub mod hashmap_of {
    use vstd::prelude::*;
    use std::collections::HashMap;

    pub uninterp spec fn hashmap_of<K, V>(m: Map<K, V>) -> HashMap<K, V>;

    pub broadcast axiom fn axiom_hashmap_of<K, V>(m: Map<K, V>)
        ensures (#[trigger] hashmap_of(m))@ == m;
}
