// ======================================================================================
// prelude/ordering_eq.rs (NEW, unit C12) - comparing two `std::cmp::Ordering` values (or two
// `Option<Ordering>`) with `==`  (LocationSet::eq does `Some(Ordering::Equal) == self.partial_cmp(other)`).
// vstd (0.2026.09.13) specifies `==` on `Option<T>` in terms of T's PartialEqSpec but leaves
// `Ordering`'s own PartialEq unspecified.
// ASSUMED (listed in the evidence): `Ordering: PartialEq` obeys its specification, and the
// specification is structural equality of the three variants.
// Why it is true: std declares `#[derive(PartialEq, Eq)] pub enum Ordering { Less = -1, Equal = 0,
// Greater = 1 }`; derive(PartialEq) on a field-less enum compares the variant tags.
// `broadcast use` the two axioms only in the function that compares Ordering values with `==`.
// ======================================================================================
pub mod ordering_eq {
    use vstd::prelude::*;
    use std::cmp::Ordering;
    use vstd::std_specs::cmp::*;

    pub broadcast axiom fn axiom_ordering_obeys_eq()
        ensures #[trigger] <Ordering as PartialEqSpec>::obeys_eq_spec();

    pub broadcast axiom fn axiom_ordering_eq(a: Ordering, b: Ordering)
        ensures #[trigger] a.eq_spec(&b) == (a == b);
}
