// ======================================================================================
// prelude/stdcoll.rs — std collection operations vstd (0.2026.09.13) has no specification for.
// ASSUMED contracts, each one is the documented behaviour of the Rust standard library:
//
//  * `map[&k]` on BTreeMap / HashMap (`Index<&Q>`): std implements it as
//        self.get(key).expect("no entry found for key")
//    i.e. it panics iff the key is absent and otherwise returns the stored value.  The
//    precondition (`index_req`) is therefore "the key is present" and the result is the value
//    `get` would return (same vocabulary as vstd's own `get` specification).
//  * `(usize, usize)` obeys vstd's hash-table key model (see the axiom below).
//  * VecDeque::is_empty / contains, HashSet::clone, HashMap::get_mut (see the comments at each).
//  * `(&collection).into_iter()` for BTreeMap / BTreeSet / HashMap / HashSet: std implements it as
//        self.iter()
//    so the contract is literally "whatever `iter` ensures".
// The crate needs `#![feature(allocator_api)]` because the real impls are generic in the allocator.
// ======================================================================================
pub mod stdcoll {
    use vstd::prelude::*;
    use std::alloc::Allocator;
    use std::borrow::Borrow;
    use std::collections::{BTreeMap, BTreeSet, HashMap, HashSet};
    use std::hash::{BuildHasher, Hash};

    // ---- BTreeMap index ------------------------------------------------------------------
    pub assume_specification<'b, 'a, 'c, K: Ord, Q: ?Sized + Ord, V, A: Allocator + Clone>
        [ <BTreeMap<K, V, A> as std::ops::Index<&'b Q>>::index ]
        (m: &'a BTreeMap<K, V, A>, k: &'c Q) -> (r: &'a V)
        where K: Borrow<Q>
        ensures
            vstd::std_specs::btree::key_obeys_cmp_spec::<K>() ==>
                vstd::std_specs::btree::contains_borrowed_key(m@, k)
                && vstd::std_specs::btree::maps_borrowed_key_to_value(m@, k, *r);

    pub broadcast axiom fn axiom_btreemap_index_req<'b, K: Ord, Q: ?Sized + Ord, V, A: Allocator + Clone>(m: &BTreeMap<K, V, A>, k: &'b Q)
        where K: Borrow<Q>
        ensures
            #[trigger] vstd::std_specs::core::IndexSpec::<&'b Q>::index_req(m, &k)
                == vstd::std_specs::btree::contains_borrowed_key(m@, k);

    // ---- HashMap index -------------------------------------------------------------------
    pub assume_specification<'b, 'a, 'c, K: Eq + Hash, Q: ?Sized + Eq + Hash, V, S: BuildHasher, A: Allocator>
        [ <HashMap<K, V, S, A> as std::ops::Index<&'b Q>>::index ]
        (m: &'a HashMap<K, V, S, A>, k: &'c Q) -> (r: &'a V)
        where K: Borrow<Q>
        ensures
            vstd::std_specs::hash::obeys_key_model::<K>() && vstd::std_specs::hash::builds_valid_hashers::<S>() ==>
                vstd::std_specs::hash::contains_borrowed_key(m@, k)
                && vstd::std_specs::hash::maps_borrowed_key_to_value(m@, k, *r);

    pub broadcast axiom fn axiom_hashmap_index_req<'b, K: Eq + Hash, Q: ?Sized + Eq + Hash, V, S: BuildHasher, A: Allocator>(m: &HashMap<K, V, S, A>, k: &'b Q)
        where K: Borrow<Q>
        ensures
            #[trigger] vstd::std_specs::core::IndexSpec::<&'b Q>::index_req(m, &k)
                == vstd::std_specs::hash::contains_borrowed_key(m@, k);

    // ---- hashing pairs --------------------------------------------------------------------
    // `(A, B)` derives Eq structurally and hashes its components in order; for `usize` components
    // (which vstd already assumes to obey the hash-table key model) the pair is therefore a
    // deterministic, Eq-consistent key as well.
    pub broadcast axiom fn axiom_usize_pair_obeys_key_model()
        ensures #[trigger] vstd::std_specs::hash::obeys_key_model::<(usize, usize)>();

    // ---- VecDeque / HashSet / HashMap operations without a vstd specification ---------------
    // VecDeque::is_empty: documented as `self.len() == 0`.
    pub assume_specification<T, A: Allocator>[ std::collections::VecDeque::<T, A>::is_empty ](d: &std::collections::VecDeque<T, A>) -> (r: bool)
        ensures r == (d@.len() == 0);

    // VecDeque::contains: documented as "true if the deque contains an element equal to the given value"
    // (`PartialEq::eq`), stated with vstd's model of `==` (eq_spec), under the usual proviso that the
    // element type's `eq` obeys its spec.
    pub assume_specification<T: PartialEq, A: Allocator>[ std::collections::VecDeque::<T, A>::contains ](d: &std::collections::VecDeque<T, A>, x: &T) -> (r: bool)
        ensures <T as vstd::std_specs::cmp::PartialEqSpec>::obeys_eq_spec() ==>
            r == (exists|i: int| 0 <= i < d@.len() && #[trigger] vstd::std_specs::cmp::PartialEqSpec::eq_spec(&d@[i], x));

    // HashSet::clone: clones every element into a new set; if cloning an element yields an equal
    // element (true of usize and of every type whose Clone is a copy) the views coincide.
    pub assume_specification<T: Clone, S: Clone, A: Allocator + Clone>[ <HashSet<T, S, A> as Clone>::clone ](s: &HashSet<T, S, A>) -> (r: HashSet<T, S, A>)
        ensures (forall|a: T, b: T| #[trigger] cloned(a, b) ==> a == b) ==> r@ == s@;

    // HashMap::get_mut: documented as "returns a mutable reference to the value corresponding to the
    // key"; nothing else in the map changes.  Same vocabulary as vstd's HashMap::get; `final` is the
    // value of the map / of the referenced slot when the borrow ends.
    pub assume_specification<'a, K: Eq + Hash, V, S: BuildHasher, A: Allocator, Q: ?Sized + Hash + Eq>
        [ HashMap::<K, V, S, A>::get_mut::<Q> ]
        (m: &'a mut HashMap<K, V, S, A>, k: &Q) -> (r: Option<&'a mut V>)
        where K: Borrow<Q>
        ensures
            vstd::std_specs::hash::obeys_key_model::<K>() && vstd::std_specs::hash::builds_valid_hashers::<S>() ==> match r {
                Some(v) => vstd::std_specs::hash::contains_borrowed_key(old(m)@, k)
                    && vstd::std_specs::hash::maps_borrowed_key_to_value(old(m)@, k, *v)
                    && final(m)@.dom() == old(m)@.dom()
                    && vstd::std_specs::hash::maps_borrowed_key_to_value(final(m)@, k, *final(v))
                    && (forall|key: K| #![trigger final(m)@[key]] old(m)@.contains_key(key)
                            && !vstd::std_specs::hash::contains_borrowed_key(Map::<K, ()>::empty().insert(key, ()), k)
                            ==> final(m)@[key] == old(m)@[key]),
                None => !vstd::std_specs::hash::contains_borrowed_key(old(m)@, k) && final(m)@ == old(m)@,
            };

    // std::cmp::min: documented as "returns the minimum of two values; returns the first argument if
    // the comparison determines them to be equal", i.e. `if b < a { b } else { a }`, stated with
    // vstd's model of `Ord::cmp` under the usual proviso that T's cmp obeys its spec.
    pub assume_specification<T: Ord>[ std::cmp::min ](a: T, b: T) -> (r: T)
        ensures vstd::laws_cmp::obeys_cmp_spec::<T>() ==>
            r == (if vstd::std_specs::cmp::OrdSpec::cmp_spec(&b, &a) == core::cmp::Ordering::Less { b } else { a });

    // Formatter::write_fmt (the target of `write!`): no contract — the formatted text is never
    // inspected by verified code; listed so that `impl Display` bodies can be extracted as they are.
    pub assume_specification<'a>[ std::fmt::Formatter::<'a>::write_fmt ](f: &mut std::fmt::Formatter<'a>, args: std::fmt::Arguments<'_>) -> std::fmt::Result;

    // ---- by-reference iteration ------------------------------------------------------------
    pub assume_specification<'a, T, A: Allocator + Clone>
        [ <&'a BTreeSet<T, A> as IntoIterator>::into_iter ]
        (s: &'a BTreeSet<T, A>) -> (r: std::collections::btree_set::Iter<'a, T>)
        ensures call_ensures(BTreeSet::<T, A>::iter, (s,), r);

    pub assume_specification<'a, K, V, A: Allocator + Clone>
        [ <&'a BTreeMap<K, V, A> as IntoIterator>::into_iter ]
        (s: &'a BTreeMap<K, V, A>) -> (r: std::collections::btree_map::Iter<'a, K, V>)
        ensures call_ensures(BTreeMap::<K, V, A>::iter, (s,), r);

    pub assume_specification<'a, T, S, A: Allocator>
        [ <&'a HashSet<T, S, A> as IntoIterator>::into_iter ]
        (s: &'a HashSet<T, S, A>) -> (r: std::collections::hash_set::Iter<'a, T>)
        ensures call_ensures(HashSet::<T, S, A>::iter, (s,), r);

    pub assume_specification<'a, K, V, S, A: Allocator>
        [ <&'a HashMap<K, V, S, A> as IntoIterator>::into_iter ]
        (s: &'a HashMap<K, V, S, A>) -> (r: std::collections::hash_map::Iter<'a, K, V>)
        ensures call_ensures(HashMap::<K, V, S, A>::iter, (s,), r);
}
