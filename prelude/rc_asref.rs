// ======================================================================================
// prelude/rc_asref.rs - `<Rc<T> as AsRef<T>>::as_ref`, which vstd (0.2026.09.13) has no
// specification for.  ASSUMED contract = the documented / actual std implementation:
//        impl<T: ?Sized, A: Allocator> AsRef<T> for Rc<T, A> { fn as_ref(&self) -> &T { &**self } }
// i.e. the result is a reference to the value the Rc points to.
// The crate needs `#![feature(allocator_api)]` (the real impl is generic in the allocator).
// ======================================================================================
pub mod rc_asref {
    use vstd::prelude::*;
    use std::alloc::Allocator;

    pub assume_specification<'a, T: ?Sized, A: Allocator>
        [ <std::rc::Rc<T, A> as std::convert::AsRef<T>>::as_ref ]
        (rc: &'a std::rc::Rc<T, A>) -> (r: &'a T)
        ensures r == &**rc;
}
