// ======================================================================================
// prelude/hashset_of.rs (NEW, unit C12) - a spec-level constructor for std HashSet values.
// The trait contract of analysis::fixed_point::FixedPointAnalysis (unit C09) wants `trans_spec` /
// `join_spec` to RETURN a State; a State that wraps a std HashSet (analysis::LocationSet) can only be
// described through its view, so ghost code needs "the HashSet whose view is s".
// ASSUMED (listed in the evidence): every finite set is the view of some std HashSet
//     hashset_of(s)@ == s
// Why it is true: vstd's `Set` is finite; insert its finitely many elements one by one into
// `HashSet::new()`; by std's / vstd's contract of `insert` the resulting table's view is `s`.
// (Same device as prelude/hashmap_of.rs and prelude/bigint.rs' `biguint_of`.)  Used in ghost code only;
// nothing executable depends on it.
// ======================================================================================
pub mod hashset_of {
    use vstd::prelude::*;
    use std::collections::HashSet;

    pub uninterp spec fn hashset_of<K>(s: Set<K>) -> HashSet<K>;

    pub broadcast axiom fn axiom_hashset_of<K>(s: Set<K>)
        ensures (#[trigger] hashset_of(s))@ == s;
}
