// ======================================================================================
// prelude/fxhash.rs — stand-in for the third-party crate rustc-hash 1.1 (FxHashMap / FxHashSet).
//
// Real definitions:   type FxHashMap<K, V> = HashMap<K, V, BuildHasherDefault<FxHasher>>;
//                     type FxHashSet<V>    = HashSet<V, BuildHasherDefault<FxHasher>>;
// Verus has no model of `BuildHasherDefault`, so the hasher-builder is an opaque unit-like type
// `FxBuildHasher` implementing `BuildHasher + Default + Clone` (exactly the capabilities
// `BuildHasherDefault<FxHasher>` has).  The maps / sets themselves are the REAL std types with
// vstd's specifications.
//
// ASSUMED (listed in the evidence): `axiom_fx_builds_valid_hashers` — FxHasher is a deterministic
// function of the bytes written to it (it keeps one usize of state, no randomness), which is what
// vstd's `builds_valid_hashers` asks for, so the std map/set behave as mathematical maps/sets.
// Iteration order stays unspecified (vstd gives a duplicate-free sequence with the same elements).
// ======================================================================================
pub mod rustc_hash {
    use vstd::prelude::*;
    use std::collections::{HashMap, HashSet};
    use std::hash::{BuildHasher, Hasher};

    #[verifier::external_body]
    pub struct FxHasher { _p: () }

    impl Hasher for FxHasher {
        #[verifier::external_body]
        fn finish(&self) -> u64 { unimplemented!() }
        #[verifier::external_body]
        fn write(&mut self, bytes: &[u8]) { unimplemented!() }
    }

    #[verifier::external_body]
    pub struct FxBuildHasher { _p: () }

    impl BuildHasher for FxBuildHasher {
        type Hasher = FxHasher;
        #[verifier::external_body]
        fn build_hasher(&self) -> FxHasher { unimplemented!() }
    }

    impl Default for FxBuildHasher {
        #[verifier::external_body]
        fn default() -> FxBuildHasher { unimplemented!() }
    }

    // BuildHasherDefault<H> is Clone (a zero-sized value); needed for `HashSet<_, FxBuildHasher>: Clone`
    impl Clone for FxBuildHasher {
        #[verifier::external_body]
        fn clone(&self) -> FxBuildHasher { unimplemented!() }
    }

    pub type FxHashSet<T> = HashSet<T, FxBuildHasher>;
    pub type FxHashMap<K, V> = HashMap<K, V, FxBuildHasher>;

    pub broadcast axiom fn axiom_fx_builds_valid_hashers()
        ensures #[trigger] vstd::std_specs::hash::builds_valid_hashers::<FxBuildHasher>();
}
