// ======================================================================================
// prelude/opt_slice.rs (NEW, unit C13) - `Option<Vec<T>>::as_deref()`  (Intrinsic::written_expressions /
// read_expressions return `self.field.as_deref()`).
// vstd (0.2026.09.13) has no specification for `Option::as_deref`.  Stand-in with an ASSUMED contract:
//
//     opt_vec_as_slice(&o)   ==   o.as_deref()
//
// std documents `Option::as_deref` as "converts from `Option<T>` (or `&Option<T>`) to
// `Option<&T::Target>`: leaves the original Option in place, creating a new one with a reference to
// the original one, additionally coercing the contents via Deref"; `Vec<T>: Deref<Target = [T]>`
// yields the slice of all elements.  So: None stays None, Some(v) becomes Some(slice with v's elements).
// A unit that uses it rewrites `X.as_deref()` to `opt_slice::opt_vec_as_slice(&X)` (logged rewrite).
// ======================================================================================
pub mod opt_slice {
    use vstd::prelude::*;

    #[verifier::external_body]
    pub fn opt_vec_as_slice<T>(o: &Option<Vec<T>>) -> (r: Option<&[T]>)
        ensures
            o is None ==> r is None,
            o matches Some(v) ==> (r matches Some(s) && s@ == v@),
    {
        o.as_deref()
    }
}
