// ======================================================================================
// prelude/rc_cow.rs — std operations on Rc / HashMap / Option that vstd (0.2026.09.13) has no
// specification for and that the copy-on-write paged memory (lib/memory/paged.rs) uses.
// Every item below is an ASSUMED contract (listed in the evidence); each one is the documented
// behaviour of the Rust standard library.  Include prelude/stdcoll.rs as well (HashMap::get_mut).
//
//  * `rc_make_mut`  = `Rc::make_mut` (clone-on-write).  std: "If there are other Rc pointers to the
//    same allocation, then make_mut will clone the inner value to a new allocation to ensure unique
//    ownership ... [otherwise] no cloning takes place" and the returned `&mut T` points into `this`.
//    Contract: the value the returned reference starts with is the old value of `*this` or a
//    `Clone::clone` of it, and when the borrow ends `*this` holds whatever was written through the
//    reference.  Other Rc handles are separate values in Verus' (ownership-based) model and keep the
//    old value — this is exactly the clone-on-write guarantee: `make_mut` never writes through a
//    shared allocation.  Used through ONE logged rewrite  `RC::make_mut(` => `rc_cow::rc_make_mut(`
//    (Verus cannot name the unstable bound `T: CloneToUninit` of the real signature; for `T: Clone`,
//    `CloneToUninit` is `Clone::clone` into the new allocation).  The body calls the real function.
//  * `entry_or_insert_with` = `map.entry(k).or_insert_with(f)`.  std: "Ensures a value is in the entry
//    by inserting the result of the default function if empty, and returns a mutable reference to the
//    value in the entry."  Contract: a present key keeps its value and `f` is not needed; an absent key
//    gets `f()`; the map afterwards is the old map with `k` bound to whatever the returned reference
//    holds when the borrow ends; no other key changes.  Used through ONE logged rewrite
//    `MAP.entry(K).or_insert_with(` => `rc_cow::entry_or_insert_with(&mut MAP, K, `.
//  * `Rc::ptr_eq`: "Returns true if the two Rcs point to the same allocation" — then they hold the
//    same value.  Nothing is promised when it returns false.
//  * `Rc::clone`: "This creates another pointer to the same allocation" — the clone holds the same value
//    (Verus gives `rc.clone()` this meaning at direct calls; the axiom states it for `cloned`, the form in
//    which vstd's `Option::clone` / `Vec::clone` specifications mention the element's clone).
//  * `Option::or_else`: "Returns the option if it contains a value, otherwise calls f and returns
//    the result."
//  * `==` on `Rc<T>` compares the pointees (`impl PartialEq for Rc<T> { fn eq(a, b) { **a == **b } }`;
//    the `T: Eq` specialisation only short-cuts identical pointers, which is sound for reflexive `==`).
//  * `==` on `HashMap<K, V, S>`: std: `self.len() == other.len() && self.iter().all(|(k, v)|
//    other.get(k).map_or(false, |v2| *v == *v2))` — same key set and pointwise-equal values.
//  * `Debug` for `&T` delegates to `T` (`impl<T: Debug + ?Sized> Debug for &T { fn fmt(&self, f) {
//    Debug::fmt(&**self, f) } }`), so formatting a reference needs exactly what formatting the value needs.
// ======================================================================================
pub mod rc_cow {
    use vstd::prelude::*;
    use std::alloc::Allocator;
    use std::collections::HashMap;
    use std::hash::{BuildHasher, Hash};
    use std::rc::Rc;
    use vstd::std_specs::cmp::PartialEqSpec;
    use vstd::std_specs::fmt::DebugSpec;

    #[verifier::external_body]
    pub fn rc_make_mut<'a, T: Clone>(this: &'a mut Rc<T>) -> (r: &'a mut T)
        ensures
            *r == **old(this) || cloned(**old(this), *r),
            **final(this) == *final(r),
    {
        Rc::make_mut(this)
    }

    #[verifier::external_body]
    pub fn entry_or_insert_with<'a, K: Eq + Hash, V, S: BuildHasher, F: FnOnce() -> V>(m: &'a mut HashMap<K, V, S>, k: K, f: F) -> (r: &'a mut V)
        requires
            !old(m)@.contains_key(k) ==> f.requires(()),
        ensures
            vstd::std_specs::hash::obeys_key_model::<K>() && vstd::std_specs::hash::builds_valid_hashers::<S>() ==> {
                &&& old(m)@.contains_key(k) ==> *r == old(m)@[k]
                &&& !old(m)@.contains_key(k) ==> f.ensures((), *r)
                &&& final(m)@ == old(m)@.insert(k, *final(r))
            },
    {
        m.entry(k).or_insert_with(f)
    }

    pub assume_specification<T: ?Sized, A: Allocator>[ Rc::<T, A>::ptr_eq ](a: &Rc<T, A>, b: &Rc<T, A>) -> (r: bool)
        ensures r ==> a == b;

    pub assume_specification<T, F: FnOnce() -> Option<T>>[ Option::<T>::or_else ](o: Option<T>, f: F) -> (r: Option<T>)
        requires o is None ==> f.requires(()),
        ensures
            o is Some ==> r == o,
            o is None ==> f.ensures((), r);

    pub broadcast axiom fn axiom_rc_cloned<T>(a: Rc<T>, b: Rc<T>)
        ensures #[trigger] cloned(a, b) ==> a == b;

    pub broadcast axiom fn axiom_rc_obeys_eq<T: PartialEq>()
        ensures #[trigger] <Rc<T> as PartialEqSpec>::obeys_eq_spec() == T::obeys_eq_spec();

    pub broadcast axiom fn axiom_rc_eq<T: PartialEq>(a: &Rc<T>, b: &Rc<T>)
        ensures #[trigger] a.eq_spec(b) == (**a).eq_spec(&**b);

    pub broadcast axiom fn axiom_hashmap_obeys_eq<K: Eq + Hash, V: PartialEq, S: BuildHasher>()
        ensures #[trigger] <HashMap<K, V, S> as PartialEqSpec>::obeys_eq_spec() == V::obeys_eq_spec();

    pub broadcast axiom fn axiom_hashmap_eq<K: Eq + Hash, V: PartialEq, S: BuildHasher>(a: &HashMap<K, V, S>, b: &HashMap<K, V, S>)
        ensures
            vstd::std_specs::hash::obeys_key_model::<K>() && vstd::std_specs::hash::builds_valid_hashers::<S>() ==>
                #[trigger] a.eq_spec(b) == (a@.dom() =~= b@.dom() && forall|k: K| #[trigger] a@.contains_key(k) ==> a@[k].eq_spec(&b@[k]));

    pub broadcast axiom fn axiom_ref_debug<'a, 'b, T: std::fmt::Debug>(x: &'a &'b T, f: &std::fmt::Formatter<'_>)
        ensures #[trigger] x.fmt_req(f) == (**x).fmt_req(f);
}
