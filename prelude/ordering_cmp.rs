// ======================================================================================
// prelude/ordering_cmp.rs (NEW, unit C13) - comparing two `std::cmp::Ordering` values with
// `<`, `<=`, `>`, `>=` (Constants::partial_cmp does `order <= Ordering::Equal`).
// vstd (0.2026.09.13) accepts the operators but leaves `Ordering`'s own PartialOrd unspecified.
// ASSUMED (listed in the evidence): `Ordering: PartialOrd` obeys its specification, and the
// specification is the order Less < Equal < Greater.
// Why it is true: std declares `#[derive(PartialOrd, Ord)] #[repr(i8)] pub enum Ordering
// { Less = -1, Equal = 0, Greater = 1 }` and documents "Less < Equal < Greater" (derive(PartialOrd)
// on a field-less enum orders the variants by discriminant; the comparison is total).
// `broadcast use` the two axioms only in the module that compares Ordering values.
// ======================================================================================
pub mod ordering_cmp {
    use vstd::prelude::*;
    use std::cmp::Ordering;
    use vstd::std_specs::cmp::*;

    pub open spec fn ordering_rank(o: Ordering) -> int {
        match o { Ordering::Less => -1, Ordering::Equal => 0, Ordering::Greater => 1 }
    }

    pub broadcast axiom fn axiom_ordering_obeys_partial_cmp()
        ensures #[trigger] <Ordering as PartialOrdSpec>::obeys_partial_cmp_spec();

    pub broadcast axiom fn axiom_ordering_partial_cmp(a: Ordering, b: Ordering)
        ensures #[trigger] a.partial_cmp_spec(&b) == Some(
            if ordering_rank(a) < ordering_rank(b) { Ordering::Less }
            else if ordering_rank(a) == ordering_rank(b) { Ordering::Equal }
            else { Ordering::Greater });
}
