// ======================================================================================
// spec/bv.rs — mathematical meaning of fixed-width bit-vector arithmetic (from the property
// statement, not from the code) and the arithmetic lemmas the proofs need.
// ======================================================================================

pub open spec fn trunc_div(a: int, b: int) -> int
    recommends b != 0
{
    if a >= 0 && b > 0 { a / b }
    else if a < 0 && b > 0 { -((-a) / b) }
    else if a >= 0 && b < 0 { -(a / (-b)) }
    else { (-a) / (-b) }
}

pub open spec fn trunc_rem(a: int, b: int) -> int
    recommends b != 0
{
    a - b * trunc_div(a, b)
}

// bitwise operations on the binary expansion of naturals (textbook definition)
pub open spec fn nat_and(a: nat, b: nat) -> nat
    decreases a
{
    if a == 0 || b == 0 { 0 } else { 2 * nat_and(a / 2, b / 2) + (if a % 2 == 1 && b % 2 == 1 { 1nat } else { 0nat }) }
}

pub open spec fn nat_or(a: nat, b: nat) -> nat
    decreases a
{
    if a == 0 { b } else if b == 0 { a } else { 2 * nat_or(a / 2, b / 2) + (if a % 2 == 1 || b % 2 == 1 { 1nat } else { 0nat }) }
}

pub open spec fn nat_xor(a: nat, b: nat) -> nat
    decreases a
{
    if a == 0 { b } else if b == 0 { a } else { 2 * nat_xor(a / 2, b / 2) + (if a % 2 != b % 2 { 1nat } else { 0nat }) }
}

// two's complement (infinitely sign-extended) xor on integers: ~x = -x-1, ~x ^ y = ~(x ^ y)
pub open spec fn int_xor(a: int, b: int) -> int {
    if a >= 0 && b >= 0 { nat_xor(a as nat, b as nat) as int }
    else if a < 0 && b >= 0 { -(nat_xor((-a - 1) as nat, b as nat) as int) - 1 }
    else if a >= 0 && b < 0 { -(nat_xor(a as nat, (-b - 1) as nat) as int) - 1 }
    else { nat_xor((-a - 1) as nat, (-b - 1) as nat) as int }
}

// ---- bit-vector operators at width w (operands are naturals below 2^w) --------------------
// The operators are opaque: a proof must `reveal(bv_xxx)` to see the definition. Callers that only
// pass results around (eval, analyses) never unfold them, which keeps their queries small.
pub open spec fn bv(w: nat, a: nat) -> bool { a < pow2(w) }

/// signed (two's-complement) value
pub open spec fn sval(w: nat, a: nat) -> int
    recommends w >= 1
{
    if a >= pow2((w - 1) as nat) { a as int - pow2(w) as int } else { a as int }
}

/// encode an integer at width w (mathematical modulo, result in [0, 2^w))
pub open spec fn enc(w: nat, x: int) -> nat { (x % (pow2(w) as int)) as nat }

pub open spec fn b2n(b: bool) -> nat { if b { 1 } else { 0 } }

#[verifier::opaque]
pub open spec fn bv_add(w: nat, a: nat, b: nat) -> nat { (a + b) % pow2(w) }
#[verifier::opaque]
pub open spec fn bv_sub(w: nat, a: nat, b: nat) -> nat { enc(w, a as int - b as int) }
#[verifier::opaque]
pub open spec fn bv_mul(w: nat, a: nat, b: nat) -> nat { (a * b) % pow2(w) }
#[verifier::opaque]
pub open spec fn bv_divu(w: nat, a: nat, b: nat) -> nat recommends b != 0 { a / b }
#[verifier::opaque]
pub open spec fn bv_modu(w: nat, a: nat, b: nat) -> nat recommends b != 0 { a % b }
#[verifier::opaque]
pub open spec fn bv_divs(w: nat, a: nat, b: nat) -> nat recommends b != 0 { enc(w, trunc_div(sval(w, a), sval(w, b))) }
#[verifier::opaque]
pub open spec fn bv_mods(w: nat, a: nat, b: nat) -> nat recommends b != 0 { enc(w, trunc_rem(sval(w, a), sval(w, b))) }
#[verifier::opaque]
pub open spec fn bv_and(w: nat, a: nat, b: nat) -> nat { nat_and(a, b) }
#[verifier::opaque]
pub open spec fn bv_or(w: nat, a: nat, b: nat) -> nat { nat_or(a, b) }
#[verifier::opaque]
pub open spec fn bv_xor(w: nat, a: nat, b: nat) -> nat { nat_xor(a, b) }
#[verifier::opaque]
pub open spec fn bv_shl(w: nat, a: nat, s: nat) -> nat { if s >= w { 0 } else { (a * pow2(s)) % pow2(w) } }
#[verifier::opaque]
pub open spec fn bv_shr(w: nat, a: nat, s: nat) -> nat { if s >= w { 0 } else { a / pow2(s) } }
#[verifier::opaque]
pub open spec fn bv_ashr(w: nat, a: nat, s: nat) -> nat {
    if s >= w { if sval(w, a) < 0 { (pow2(w) - 1) as nat } else { 0 } } else { enc(w, sval(w, a) / (pow2(s) as int)) }
}
#[verifier::opaque]
pub open spec fn bv_cmpeq(a: nat, b: nat) -> nat { b2n(a == b) }
#[verifier::opaque]
pub open spec fn bv_cmpneq(a: nat, b: nat) -> nat { b2n(a != b) }
#[verifier::opaque]
pub open spec fn bv_cmpltu(a: nat, b: nat) -> nat { b2n(a < b) }
#[verifier::opaque]
pub open spec fn bv_cmplts(w: nat, a: nat, b: nat) -> nat { b2n(sval(w, a) < sval(w, b)) }
#[verifier::opaque]
pub open spec fn bv_zext(a: nat) -> nat { a }
#[verifier::opaque]
pub open spec fn bv_sext(w: nat, w2: nat, a: nat) -> nat { enc(w2, sval(w, a)) }
#[verifier::opaque]
pub open spec fn bv_trun(w2: nat, a: nat) -> nat { a % pow2(w2) }

// ---- lemmas --------------------------------------------------------------------------------

pub proof fn lemma_pow2_step(n: nat)
    ensures pow2(n + 1) == 2 * pow2(n), pow2(n) >= 1,
{
    lemma_pow2_pos(n);
    lemma_pow2_unfold(n + 1);
}

pub proof fn lemma_pow2_mono(a: nat, b: nat)
    requires a <= b,
    ensures pow2(a) <= pow2(b),
{
    if a < b { lemma_pow2_strictly_increases(a, b); }
}

pub proof fn lemma_pow2_split(a: nat, b: nat)
    ensures pow2(a + b) == pow2(a) * pow2(b),
{
    lemma_pow2_adds(a, b);
}

pub proof fn lemma_and_mask(x: nat, n: nat)
    ensures nat_and(x, (pow2(n) - 1) as nat) == x % pow2(n),
    decreases n,
{
    lemma_pow2_pos(n);
    if n == 0 {
        lemma2_to64();
        assert(pow2(0) == 1);
    } else {
        let m = (pow2(n) - 1) as nat;
        let k = (n - 1) as nat;
        lemma_pow2_step(k);
        assert(pow2(n) == 2 * pow2(k));
        assert(m / 2 == (pow2(k) - 1) as nat);
        assert(m % 2 == 1);
        if x == 0 {
            assert(0nat % pow2(n) == 0) by { lemma_small_mod(0, pow2(n)); }
        } else {
            lemma_and_mask(x / 2, k);
            // x % (2 * 2^k) == 2 * ((x/2) % 2^k) + x % 2
            lemma_mod_breakdown(x as int, 2, pow2(k) as int);
        }
    }
}

pub proof fn lemma_and_le(a: nat, b: nat)
    ensures nat_and(a, b) <= a, nat_and(a, b) <= b,
    decreases a,
{
    if a == 0 || b == 0 {} else { lemma_and_le(a / 2, b / 2); }
}

pub proof fn lemma_or_bound(a: nat, b: nat, n: nat)
    requires a < pow2(n), b < pow2(n),
    ensures nat_or(a, b) < pow2(n),
    decreases a,
{
    if a == 0 || b == 0 {} else {
        lemma_pow2_pos(n);
        if n == 0 { lemma2_to64(); } else {
            lemma_pow2_step((n - 1) as nat);
            lemma_or_bound(a / 2, b / 2, (n - 1) as nat);
        }
    }
}

pub proof fn lemma_xor_bound(a: nat, b: nat, n: nat)
    requires a < pow2(n), b < pow2(n),
    ensures nat_xor(a, b) < pow2(n),
    decreases a,
{
    if a == 0 || b == 0 {} else {
        lemma_pow2_pos(n);
        if n == 0 { lemma2_to64(); } else {
            lemma_pow2_step((n - 1) as nat);
            lemma_xor_bound(a / 2, b / 2, (n - 1) as nat);
        }
    }
}

pub proof fn lemma_xor_mask(x: nat, n: nat)
    requires x < pow2(n),
    ensures nat_xor(x, (pow2(n) - 1) as nat) == pow2(n) - 1 - x,
    decreases n,
{
    lemma_pow2_pos(n);
    if n == 0 {
        lemma2_to64();
    } else {
        let m = (pow2(n) - 1) as nat;
        let k = (n - 1) as nat;
        lemma_pow2_step(k);
        if x == 0 {
        } else if m == 0 {
        } else {
            assert(m / 2 == (pow2(k) - 1) as nat);
            assert(m % 2 == 1);
            lemma_xor_mask(x / 2, k);
        }
    }
}

pub proof fn lemma_or_disjoint(x: nat, k: nat, y: nat)
    requires y < pow2(k),
    ensures nat_or(x * pow2(k), y) == x * pow2(k) + y,
    decreases k,
{
    lemma_pow2_pos(k);
    let a = x * pow2(k);
    if k == 0 {
        lemma2_to64();
    } else {
        let j = (k - 1) as nat;
        lemma_pow2_step(j);
        assert(a == 2 * (x * pow2(j))) by (nonlinear_arith) requires a == x * pow2(k), pow2(k) == 2 * pow2(j);
        if a == 0 {
        } else if y == 0 {
        } else {
            assert(a / 2 == x * pow2(j));
            assert(a % 2 == 0);
            lemma_or_disjoint(x, j, y / 2);
        }
    }
}

pub proof fn lemma_or_comm(a: nat, b: nat)
    ensures nat_or(a, b) == nat_or(b, a),
    decreases a,
{
    if a == 0 || b == 0 {} else { lemma_or_comm(a / 2, b / 2); }
}

pub proof fn lemma_small_div(a: nat, m: nat)
    requires a < m,
    ensures a / m == 0, a % m == a,
{
    lemma_basic_div(a as int, m as int);
    lemma_small_mod(a, m);
}
