//! Bounded witness search for unit C06 (labelled bounded, never counted as proved): function recovery
//! (`Translator::translate_function_extended`, /repo/lib/translator/mod.rs) against sequential execution of the
//! machine code.
//!
//! A TOY ISA (4 eight-bit registers, 8 data bytes, 1-4 byte encodings, see `I`) is lifted by `Toy`, a `Translator`
//! whose `translate_block` mirrors the x86 one (decodes from the 64-byte window only; a block ends at JMP / JZ /
//! HLT / IJMP, or with the single successor (address+offset, None) when the rest of the window does not decode; Err
//! when nothing decodes at offset 0).  The real default methods of the trait then recover the function.
//! Reference: `run_machine`, a direct interpreter of the bytes (one instruction per step, bound N = 200 steps, 48
//! in the exhaustive family).  Lifted side: `run_il`, an interpreter of the IL written here (scalar slots + 8 data
//! bytes, evaluates Scalar/Constant/Add/Or/Cmpeq/Zext itself; NOTHING of falcon::executor is used).
//!
//! COMPARISON.  Every native instruction lifts to a known number of IL instructions per visit (1; ADD 2; CMOVZ 1 or
//! 2 depending on the guard), all carrying the native address.  The machine therefore yields the EXACT list of
//! addresses the IL run has to emit (no de-duplication, so `JMP self` is compared exactly), a state snapshot after
//! each step, and the reason it stopped.  The IL run must emit that list, end the same way (block without out-edges
//! = halt; exactly one out-edge enabled at every block end, otherwise class "edge-choice") and end in the same
//! registers / data bytes.  An IL `Branch` (IJMP) continues at the first IL instruction carrying the target
//! address; when the address is not in the function the IL run "leaves the function" and only the prefix (trace,
//! snapshot, next pc) is compared.
//! STRUCTURE (public API only): edges join existing blocks, successor/predecessor queries agree with the edge set,
//! entry exists, function address, first instruction of the entry block, instruction indices unique, every IL
//! instruction has an address, and - "exactly one block" made precise - for every native address `a` reachable by
//! direct flow from the entry or from a manual-edge endpoint (own worklist disassembler) the number of IL
//! instructions carrying `a` equals the number the lifter emits for ONE copy of that instruction (missing-address /
//! dup-address), they are contiguous in one block (for the 3-block CMOVZ graph: one per block, two blocks), and no
//! other address occurs (extra-address).  If the worklist meets undecodable bytes the call must return Err.
//!
//! ENUMERATED: (d) all programs of <= 4 instructions over a 15-letter alphabet (+ 5 instructions over 8 letters, + a
//! family at address 0), (a) straight-line code of 70..200 bytes at every alignment to the 64-byte window, (b)
//! loops / diamonds / JZ with target == fallthrough / jumps to self, (c) branches into the middle of lifted blocks
//! in both address orders and with either end as function entry, (e) manual edges (IJMP targets, duplicates of
//! direct edges, tails in the middle of blocks, endpoints without bytes, head == tail), (r) fixed-seed random
//! programs over the whole ISA with random entries and manual edges.  PROBES P1-P4: see `probes`.
//! `--probe` runs only the probes.
use falcon::architecture::Endian;
use falcon::il::*;
use falcon::memory::backing::Memory;
use falcon::memory::MemoryPermissions;
use falcon::translator::{BlockTranslationResult, ManualEdge, Options, TranslationMemory, Translator};
use falcon::Error;
use std::collections::{BTreeMap, BTreeSet};
use std::panic::{catch_unwind, AssertUnwindSafe};
use std::sync::atomic::{AtomicU64, Ordering};
use std::sync::Mutex;

/// message + location of the last panic (the hook prints nothing)
static LAST_PANIC: Mutex<String> = Mutex::new(String::new());
fn last_panic() -> String { LAST_PANIC.lock().map(|s| s.clone()).unwrap_or_default() }
/// how the compared runs ended (so the summary shows the comparison is not vacuous): halt, step bound, left the function
static ENDS: [AtomicU64; 3] = [AtomicU64::new(0), AtomicU64::new(0), AtomicU64::new(0)];

const DM: u64 = 0x2000; // data byte i lives at IL address DM + i
const STEPS: usize = 200;

// ------------------------------------------------------------------------------------------------ the toy ISA
#[derive(Clone, Copy, Debug, PartialEq)]
enum I {
    Inc(u8),       // 01 r        r += 1
    Mov(u8, u8),   // 02 r imm    r = imm
    Add(u8, u8),   // 03 a b      a += b          (lifted as TWO IL instructions: t = a + b; a = t)
    Jmp(i8),       // 04 rel      pc = next + rel
    Jz(u8, i8),    // 05 r rel    if r == 0 { pc = next + rel }
    St(u8, u8),    // 06 imm r    data[imm & 7] = r
    Hlt,           // 07
    Nop(u8, u8),   // 08 | 09 x | 0A x x | 0B x x x   (length, fill byte)
    Ijmp(u8),      // 0C r        pc = (pc & !0xff) | r     (IL Branch, no successors)
    Cmovz(u8, u8), // 0D a b      if b == 0 { a = 0x55 }    (lifted as a 3-block graph)
}
use I::*;

fn ilen(op: u8) -> Option<usize> {
    Some(match op { 1 => 2, 2 => 3, 3 => 3, 4 => 2, 5 => 3, 6 => 3, 7 => 1, 8 => 1, 9 => 2, 0xA => 3, 0xB => 4, 0xC => 2, 0xD => 3, _ => return None })
}
/// decode one instruction from the start of `b`; None = unknown opcode or not enough bytes
fn decode(b: &[u8]) -> Option<(I, usize)> {
    let op = *b.first()?;
    let n = ilen(op)?;
    if b.len() < n { return None; }
    let i = match op {
        1 => Inc(b[1] & 3), 2 => Mov(b[1] & 3, b[2]), 3 => Add(b[1] & 3, b[2] & 3), 4 => Jmp(b[1] as i8), 5 => Jz(b[1] & 3, b[2] as i8),
        6 => St(b[1] & 7, b[2] & 3), 7 => Hlt, 8..=0xB => Nop(op - 7, if n > 1 { b[1] } else { 0 }), 0xC => Ijmp(b[1] & 3), _ => Cmovz(b[1] & 3, b[2] & 3),
    };
    Some((i, n))
}
fn encode(i: I) -> Vec<u8> {
    match i {
        Inc(r) => vec![1, r], Mov(r, v) => vec![2, r, v], Add(a, b) => vec![3, a, b], Jmp(r) => vec![4, r as u8], Jz(r, d) => vec![5, r, d as u8],
        St(m, r) => vec![6, m, r], Hlt => vec![7], Nop(k, f) => { let mut v = vec![7 + k]; v.resize(k as usize, f); v } Ijmp(r) => vec![0xC, r], Cmovz(a, b) => vec![0xD, a, b],
    }
}
fn target(next: u64, rel: i8) -> u64 { next.wrapping_add(rel as i64 as u64) }
/// number of IL instructions the lifter emits for one copy of the instruction
fn il_count(i: I) -> usize { match i { Add(..) | Cmovz(..) => 2, _ => 1 } }

// ------------------------------------------------------------------------------------------------ the toy lifter
fn reg(r: u8) -> Scalar { scalar(format!("r{}", r & 3), 8) }
fn ereg(r: u8) -> Expression { Expression::scalar(reg(r)) }
fn is_zero(r: u8) -> Expression { Expression::cmpeq(ereg(r), expr_const(0, 8)).unwrap() }
fn not1(e: Expression) -> Expression { Expression::cmpeq(e, expr_const(0, 1)).unwrap() }

fn lift(i: I, a: u64) -> Result<ControlFlowGraph, Error> {
    let mut g = ControlFlowGraph::new();
    if let Cmovz(ra, rb) = i {
        let h = { let b = g.new_block()?; b.nop(); b.index() };
        let m = { let b = g.new_block()?; b.assign(reg(ra), expr_const(0x55, 8)); b.index() };
        let t = g.new_block()?.index();
        g.conditional_edge(h, m, is_zero(rb))?;
        g.conditional_edge(h, t, not1(is_zero(rb)))?;
        g.unconditional_edge(m, t)?;
        g.set_entry(h)?;
        g.set_exit(t)?;
    } else {
        let idx = {
            let b = g.new_block()?;
            match i {
                Inc(r) => b.assign(reg(r), Expression::add(ereg(r), expr_const(1, 8))?),
                Mov(r, v) => b.assign(reg(r), expr_const(v as u64, 8)),
                Add(x, y) => { b.assign(scalar("t", 8), Expression::add(ereg(x), ereg(y))?); b.assign(reg(x), expr_scalar("t", 8)); }
                St(m, r) => b.store(expr_const(DM + (m & 7) as u64, 64), ereg(r)),
                Ijmp(r) => b.branch(Expression::or(expr_const(a & !0xff, 64), Expression::zext(64, ereg(r))?)?),
                _ => b.nop(), // JMP / JZ / HLT / NOPk: like x86's ensure_block_instruction, one nop carries the address
            }
            b.index()
        };
        g.set_entry(idx)?;
        g.set_exit(idx)?;
    }
    g.set_address(Some(a));
    Ok(g)
}

fn toy_block(bytes: &[u8], address: u64) -> Result<BlockTranslationResult, Error> {
    let (mut ins, mut succ, mut off) = (Vec::new(), Vec::new(), 0usize);
    loop {
        let a = address.wrapping_add(off as u64);
        let (i, n) = match decode(&bytes[off..]) {
            Some(x) => x,
            None => { if off == 0 { return Err(Error::DisassemblyFailure); } succ.push((a, None)); break; }
        };
        ins.push((a, lift(i, a)?));
        off += n;
        let next = a.wrapping_add(n as u64);
        match i {
            Jz(r, rel) => { succ.push((next, Some(not1(is_zero(r))))); succ.push((target(next, rel), Some(is_zero(r)))); break; }
            Jmp(rel) => { succ.push((target(next, rel), None)); break; }
            Hlt | Ijmp(_) => break,
            _ => {}
        }
    }
    Ok(BlockTranslationResult::new(ins, address, off, succ))
}
struct Toy;
impl Translator for Toy {
    fn translate_block(&self, bytes: &[u8], address: u64, _: &Options) -> Result<BlockTranslationResult, Error> { toy_block(bytes, address) }
}

// ------------------------------------------------------------------------------------------------ programs
#[derive(Clone, Copy, Debug, PartialEq)]
enum Cond { Eq(u8, u8), NotZ(u8) } // r == v (Eq(r,0) is exactly the JZ target guard); NotZ(r) is exactly the JZ fallthrough guard
impl Cond { fn expr(&self) -> Expression { match *self { Cond::Eq(r, v) => Expression::cmpeq(ereg(r), expr_const(v as u64, 8)).unwrap(), Cond::NotZ(r) => not1(is_zero(r)) } } }

#[derive(Clone, Debug)]
struct Prog { fam: &'static str, base: u64, bytes: Vec<u8>, entry: u64, medges: Vec<(u64, u64, Option<Cond>)>, steps: usize }
impl Prog {
    fn hex(&self) -> String { self.bytes.iter().map(|b| format!("{:02x}", b)).collect::<Vec<_>>().join("") }
    fn byte(&self, a: u64) -> Option<u8> { let o = a.wrapping_sub(self.base); if a >= self.base && o < self.bytes.len() as u64 { Some(self.bytes[o as usize]) } else { None } }
    /// reference fetch over the whole image: Err(true) = no byte at `a`, Err(false) = undecodable
    fn fetch(&self, a: u64) -> Result<(I, usize), bool> {
        if self.byte(a).is_none() { return Err(true); }
        decode(&self.bytes[(a - self.base) as usize..]).ok_or(false)
    }
}

/// own worklist disassembler: addresses reachable by direct flow from the entry and the manual-edge endpoints
struct Reach { ins: BTreeMap<u64, I>, bad: Option<u64> }
fn reach(p: &Prog) -> Reach {
    let mut r = Reach { ins: BTreeMap::new(), bad: None };
    let mut work = vec![p.entry];
    for m in &p.medges { work.push(m.0); work.push(m.1); }
    while let Some(a) = work.pop() {
        if r.ins.contains_key(&a) { continue; }
        match p.fetch(a) {
            Err(true) => {} // no bytes: an empty block
            Err(false) => { if r.bad.is_none() { r.bad = Some(a); } }
            Ok((i, n)) => {
                r.ins.insert(a, i);
                let next = a.wrapping_add(n as u64);
                match i { Jmp(rel) => work.push(target(next, rel)), Jz(_, rel) => { work.push(next); work.push(target(next, rel)); } Hlt | Ijmp(_) => {} _ => work.push(next) }
            }
        }
    }
    r
}

// ------------------------------------------------------------------------------------------------ the machine
#[derive(Clone, Copy, Debug, PartialEq)]
enum Stop { Hlt, Fault(u64), Bound }
struct MRun { exp: Vec<u64>, bounds: Vec<usize>, snaps: Vec<([u8; 4], [u8; 8], u64)>, stop: Stop }
fn run_machine(p: &Prog, start: u64, mut r: [u8; 4], n: usize) -> MRun {
    let mut m = MRun { exp: vec![], bounds: vec![], snaps: vec![], stop: Stop::Bound };
    let (mut pc, mut d) = (start, [0u8; 8]);
    for _ in 0..n {
        let (i, len) = match p.fetch(pc) { Ok(x) => x, Err(_) => { m.stop = Stop::Fault(pc); return m; } };
        let next = pc.wrapping_add(len as u64);
        let (mut k, mut npc) = (1, next);
        match i {
            Inc(x) => r[x as usize] = r[x as usize].wrapping_add(1),
            Mov(x, v) => r[x as usize] = v,
            Add(x, y) => { r[x as usize] = r[x as usize].wrapping_add(r[y as usize]); k = 2; }
            Jmp(rel) => npc = target(next, rel),
            Jz(x, rel) => if r[x as usize] == 0 { npc = target(next, rel) },
            St(a, x) => d[a as usize] = r[x as usize],
            Ijmp(x) => npc = (pc & !0xff) | r[x as usize] as u64,
            Cmovz(x, y) => if r[y as usize] == 0 { r[x as usize] = 0x55; k = 2; },
            Hlt | Nop(..) => {}
        }
        for _ in 0..k { m.exp.push(pc); }
        m.bounds.push(m.exp.len());
        m.snaps.push((r, d, npc));
        if i == Hlt { m.stop = Stop::Hlt; return m; }
        pc = npc;
    }
    m
}

// ------------------------------------------------------------------------------------------------ the IL interpreter
struct Lifted<'a> { blocks: BTreeMap<usize, &'a Block>, outs: BTreeMap<usize, Vec<(Option<&'a Expression>, usize)>>, at: BTreeMap<u64, Vec<(usize, usize)>>, entry: usize }
fn prepare(f: &Function) -> Option<Lifted<'_>> {
    let cfg = f.control_flow_graph();
    let mut l = Lifted { blocks: BTreeMap::new(), outs: BTreeMap::new(), at: BTreeMap::new(), entry: cfg.entry()? };
    for b in cfg.blocks() {
        l.blocks.insert(b.index(), b);
        l.outs.insert(b.index(), vec![]);
        for (pos, ins) in b.instructions().iter().enumerate() { if let Some(a) = ins.address() { l.at.entry(a).or_default().push((b.index(), pos)); } }
    }
    for e in cfg.edges() { l.outs.get_mut(&e.head())?.push((e.condition(), e.tail())); }
    if !l.blocks.contains_key(&l.entry) { return None; }
    Some(l)
}
struct Sigma { sc: [Option<u64>; 5], d: [u8; 8] }
fn slot(s: &Scalar) -> Result<usize, String> { match s.name() { "r0" => Ok(0), "r1" => Ok(1), "r2" => Ok(2), "r3" => Ok(3), "t" => Ok(4), n => Err(format!("unknown scalar {}", n)) } }
fn eval(e: &Expression, s: &Sigma) -> Result<(usize, u64), String> {
    let m = |w: usize| if w >= 64 { u64::MAX } else { (1u64 << w) - 1 };
    match e {
        Expression::Scalar(x) => s.sc[slot(x)?].map(|v| (x.bits(), v)).ok_or_else(|| format!("undefined scalar {}", x.name())),
        Expression::Constant(c) => Ok((c.bits(), c.value_u64().ok_or("wide constant")?)),
        Expression::Add(l, r) => { let ((w, a), (w2, b)) = (eval(l, s)?, eval(r, s)?); if w != w2 { return Err("sort".into()); } Ok((w, a.wrapping_add(b) & m(w))) }
        Expression::Or(l, r) => { let ((w, a), (w2, b)) = (eval(l, s)?, eval(r, s)?); if w != w2 { return Err("sort".into()); } Ok((w, a | b)) }
        Expression::Cmpeq(l, r) => { let ((w, a), (w2, b)) = (eval(l, s)?, eval(r, s)?); if w != w2 { return Err("sort".into()); } Ok((1, (a == b) as u64)) }
        Expression::Zext(b, x) => { let (w, v) = eval(x, s)?; if *b <= w { return Err("sort".into()); } Ok((*b, v)) }
        _ => Err(format!("expression form not emitted by the toy lifter: {}", e)),
    }
}
#[derive(Debug, PartialEq)]
enum End { Halt, Left(u64), Stall(usize), Multi(usize), Budget, Overrun, Fault(String), BadEdge(String) }
/// `limit` = length of the expected trace; with `stop_at_limit` (machine hit its step bound) the run stops there
fn run_il(l: &Lifted, r: [u8; 4], limit: usize, stop_at_limit: bool) -> (Vec<u64>, End, [u8; 4], [u8; 8]) {
    let mut s = Sigma { sc: [Some(r[0] as u64), Some(r[1] as u64), Some(r[2] as u64), Some(r[3] as u64), None], d: [0; 8] };
    let mut trace = Vec::new();
    let end = (|| -> End {
        let (mut b, mut pos, mut hops) = (l.entry, 0usize, 0usize);
        loop {
            let ins = l.blocks[&b].instructions();
            let mut branch: Option<u64> = None;
            while pos < ins.len() {
                if trace.len() == limit { return if stop_at_limit { End::Budget } else { End::Overrun }; }
                let i = &ins[pos];
                trace.push(i.address().unwrap_or(u64::MAX));
                let res: Result<(), String> = (|| { match i.operation() {
                    Operation::Assign { dst, src } => { let (w, v) = eval(src, &s)?; if w != dst.bits() { return Err("assign width".into()); } s.sc[slot(dst)?] = Some(v); }
                    Operation::Store { index, src } => { let ((_, a), (w, v)) = (eval(index, &s)?, eval(src, &s)?); if w != 8 || !(DM..DM + 8).contains(&a) { return Err("store outside the data bytes".into()); } s.d[(a - DM) as usize] = v as u8; }
                    Operation::Branch { target } => branch = Some(eval(target, &s)?.1),
                    Operation::Nop { .. } => {}
                    o => return Err(format!("operation not emitted by the toy lifter: {}", o)),
                } Ok(()) })();
                if let Err(e) = res { return End::Fault(e); }
                pos += 1;
                if branch.is_some() { break; }
            }
            if stop_at_limit && trace.len() == limit { return End::Budget; }
            let mut enabled = vec![];
            for (c, t) in &l.outs[&b] { match c { None => enabled.push(*t), Some(c) => match eval(c, &s) { Ok((1, 1)) => enabled.push(*t), Ok((1, 0)) => {} Ok(_) => return End::Fault("guard is not 1 bit".into()), Err(e) => return End::Fault(e) } } }
            if enabled.len() > 1 { return End::Multi(b); }
            if let Some(t) = branch {
                // first IL instruction of the native instruction at t (for the multi-block CMOVZ graph: its head nop)
                let cands: Vec<(usize, usize)> = l.at.get(&t).map(|v| v.iter().cloned().filter(|&(cb, cp)| cp == 0 || l.blocks[&cb].instructions()[cp - 1].address() != Some(t)).collect()).unwrap_or_default();
                let cand = cands.iter().cloned().find(|&(cb, cp)| l.blocks[&cb].instructions()[cp].operation().is_nop()).or(cands.first().cloned());
                match (enabled.first(), cand) {
                    (Some(&tail), Some((cb, cp))) => { if cb != tail || cp != 0 { return End::BadEdge(format!("enabled edge from the branch at block {} leads to block {}, target {:#x} is block {} position {}", b, tail, t, cb, cp)); } b = cb; pos = cp; }
                    (Some(&tail), None) => { if !l.blocks[&tail].is_empty() { return End::BadEdge(format!("enabled edge leads to block {} which does not start at {:#x}", tail, t)); } b = tail; pos = 0; }
                    (None, Some((cb, cp))) => { b = cb; pos = cp; }
                    (None, None) => return End::Left(t),
                }
            } else {
                if l.outs[&b].is_empty() { return End::Halt; }
                match enabled.first() { Some(&t) => { b = t; pos = 0; } None => return End::Stall(b) }
            }
            hops += 1;
            if hops > 4 * limit + 64 { return End::Overrun; }
        }
    })();
    let regs = [s.sc[0].unwrap_or(0) as u8, s.sc[1].unwrap_or(0) as u8, s.sc[2].unwrap_or(0) as u8, s.sc[3].unwrap_or(0) as u8];
    (trace, end, regs, s.d)
}

fn hexes(v: &[u64]) -> String { let t: Vec<String> = v.iter().take(24).map(|a| format!("{:x}", a)).collect(); format!("[{}{}]", t.join(","), if v.len() > 24 { ",.." } else { "" }) }

/// one machine run against one IL run; None = agree
fn compare(p: &Prog, l: &Lifted, start: u64, init: [u8; 4]) -> Option<(&'static str, String, String)> {
    let m = run_machine(p, start, init, p.steps);
    let (trace, end, regs, d) = run_il(l, init, m.exp.len(), m.stop == Stop::Bound);
    match end { End::Halt => { ENDS[0].fetch_add(1, Ordering::Relaxed); } End::Budget => { ENDS[1].fetch_add(1, Ordering::Relaxed); } End::Left(_) => { ENDS[2].fetch_add(1, Ordering::Relaxed); } _ => {} }
    let fin = m.snaps.last().map(|s| (s.0, s.1)).unwrap_or((init, [0; 8]));
    let exp_s = format!("machine: {:?} after {} steps, addresses {}, r={:?} d={:?}", m.stop, m.snaps.len(), hexes(&m.exp), fin.0, fin.1);
    let got_s = |what: &str| format!("IL: {} after addresses {}, r={:?} d={:?}", what, hexes(&trace), regs, d);
    let dl = || { let k = trace.iter().zip(m.exp.iter()).take_while(|(a, b)| a == b).count(); format!(" (first difference at IL instruction #{})", k) };
    // "edge-choice" = the stalled block ends in a JZ whose target is its own fallthrough address (the one mechanism
    // found); any other stall / ambiguity is counted separately as "edge-choice-other"
    let ec = || match trace.last().map(|&a| p.fetch(a)) { Some(Ok((Jz(_, 0), _))) => "edge-choice", _ => "edge-choice-other" };
    match end {
        End::Stall(b) => Some((ec(), got_s(&format!("no out-edge of block {} is enabled (edges: {})", b, l.outs[&b].iter().map(|(c, t)| format!("->{}{}", t, c.map(|c| format!(" if {}", c)).unwrap_or_default())).collect::<Vec<_>>().join(", "))), exp_s)),
        End::Multi(b) => Some(("edge-choice-other", got_s(&format!("several out-edges of block {} are enabled", b)), exp_s)),
        End::Fault(e) => Some(("il-fault", got_s(&e), exp_s)),
        End::BadEdge(e) => Some(("semantics", got_s(&e), exp_s)),
        End::Overrun => Some(("trace", got_s("runs on") + &dl(), exp_s)),
        End::Left(t) => {
            // prefix comparison: the IL run must have consumed whole steps, and the machine's next pc is t
            match m.bounds.iter().position(|&x| x == trace.len()) {
                Some(k) if trace[..] == m.exp[..trace.len()] => {
                    let (sr, sd, npc) = m.snaps[k];
                    if npc != t { Some(("trace", got_s(&format!("branches to {:#x}", t)), format!("next pc {:#x}; {}", npc, exp_s))) }
                    else if (sr, sd) != (regs, d) { Some(("state", got_s("left the function"), format!("after step {}: r={:?} d={:?}; {}", k + 1, sr, sd, exp_s))) } else { None }
                }
                _ => Some(("trace", got_s(&format!("left the function to {:#x}", t)) + &dl(), exp_s)),
            }
        }
        End::Halt | End::Budget => {
            if end == End::Halt && m.stop == Stop::Bound { return Some(("trace", got_s("halts") + &dl(), exp_s)); }
            if trace != m.exp { return Some(("trace", got_s(if end == End::Halt { "halts" } else { "stopped at the bound" }) + &dl(), exp_s)); }
            if (regs, d) != fin { return Some(("state", got_s("final state"), exp_s)); }
            None
        }
    }
}

// ------------------------------------------------------------------------------------------------ structure
fn consistent(cfg: &ControlFlowGraph) -> Result<(), String> {
    let blocks: BTreeSet<usize> = cfg.blocks().iter().map(|b| b.index()).collect();
    if blocks.len() != cfg.blocks().len() { return Err("duplicate block index".into()); }
    let edges: BTreeSet<(usize, usize)> = cfg.edges().iter().map(|e| (e.head(), e.tail())).collect();
    if edges.len() != cfg.edges().len() { return Err("duplicate edge".into()); }
    for (h, t) in &edges { if !blocks.contains(h) || !blocks.contains(t) { return Err(format!("edge {}->{} joins a missing block", h, t)); } }
    for &b in &blocks {
        let s: BTreeSet<usize> = cfg.successor_indices(b).map_err(|e| e.to_string())?.into_iter().collect();
        let q: BTreeSet<usize> = cfg.predecessor_indices(b).map_err(|e| e.to_string())?.into_iter().collect();
        let es: BTreeSet<usize> = edges.iter().filter(|e| e.0 == b).map(|e| e.1).collect();
        let ep: BTreeSet<usize> = edges.iter().filter(|e| e.1 == b).map(|e| e.0).collect();
        if s != es || q != ep { return Err(format!("successor/predecessor queries of block {} disagree with the edge set", b)); }
        let eo: BTreeSet<usize> = cfg.edges_out(b).map_err(|e| e.to_string())?.iter().map(|e| e.tail()).collect();
        let ei: BTreeSet<usize> = cfg.edges_in(b).map_err(|e| e.to_string())?.iter().map(|e| e.head()).collect();
        if eo != es || ei != ep { return Err(format!("edges_out/edges_in of block {} disagree with the edge set", b)); }
        let block = cfg.block(b).map_err(|e| e.to_string())?;
        if block.index() != b { return Err("block stored under a different index".into()); }
        let idx: BTreeSet<usize> = block.instructions().iter().map(|i| i.index()).collect();
        if idx.len() != block.instructions().len() { return Err(format!("instruction indices of block {} are not unique", b)); }
    }
    match cfg.entry() { Some(e) if blocks.contains(&e) => Ok(()), Some(e) => Err(format!("entry {} names a missing block", e)), None => Err("no entry".into()) }
}

fn structure(f: &Function, p: &Prog, r: &Reach) -> Vec<(&'static str, String, String)> {
    let mut out = vec![];
    let cfg = f.control_flow_graph();
    if let Err(e) = consistent(cfg) { out.push(("structure", e, "consistent graph with an entry".to_string())); return out; }
    if f.address() != p.entry { out.push(("entry", format!("function address {:#x}", f.address()), format!("{:#x}", p.entry))); }
    let eb = cfg.block(cfg.entry().unwrap()).unwrap();
    let first = eb.instructions().first().and_then(|i| i.address());
    if p.byte(p.entry).is_some() { if first != Some(p.entry) { out.push(("entry", format!("entry block starts at {:x?}", first), format!("{:#x}", p.entry))); } }
    else if p.medges.is_empty() && !eb.is_empty() { out.push(("entry", format!("entry block starts at {:x?}", first), "an empty entry block (no bytes at the function address)".to_string())); }
    // address -> [(block, position)]
    let mut at: BTreeMap<u64, Vec<(usize, usize)>> = BTreeMap::new();
    for b in cfg.blocks() { for (pos, i) in b.instructions().iter().enumerate() {
        match i.address() { Some(a) => at.entry(a).or_default().push((b.index(), pos)), None => out.push(("structure", format!("IL instruction {} of block {} has no address", i.index(), b.index()), "every instruction carries its native address".into())) }
    } }
    for (a, occ) in &at {
        let Some(i) = r.ins.get(a) else { out.push(("extra-address", format!("{:#x} lifted into {:?}", a, occ), "only addresses reachable by direct flow or named by manual edges".into())); continue; };
        if occ.len() != il_count(*i) { out.push(("dup-address", format!("{:#x} ({:?}) is carried by {} IL instructions at (block,position) {:?}", a, i, occ.len(), occ), format!("{} IL instructions", il_count(*i)))); continue; }
        let bs: BTreeSet<usize> = occ.iter().map(|o| o.0).collect();
        let ok = if let Cmovz(..) = i { bs.len() == 2 } else { bs.len() == 1 && occ.windows(2).all(|w| w[1].1 == w[0].1 + 1) };
        if !ok { out.push(("dup-address", format!("{:#x} ({:?}) at (block,position) {:?}", a, i, occ), "contiguous in one block".into())); }
    }
    for (a, i) in &r.ins { if !at.contains_key(a) { out.push(("missing-address", format!("{:#x} ({:?}) is in no block", a, i), "lifted".into())); } }
    out
}

// ------------------------------------------------------------------------------------------------ driver
struct Ctx { evals: u64, found: u64, per_op: BTreeMap<String, u64>, lifted_ok: u64, lifted_err: u64 }
fn js(s: &str) -> String { s.replace('\\', "/").replace('"', "'").replace('\n', " ").chars().take(700).collect() }
impl Ctx {
    fn report(&mut self, op: &str, p: &Prog, init: Option<[u8; 4]>, got: &str, exp: &str) {
        self.found += 1;
        let c = self.per_op.entry(op.to_string()).or_insert(0);
        *c += 1;
        if *c <= 20 {
            let me: Vec<String> = p.medges.iter().map(|m| format!("{:#x}->{:#x} if {:?}", m.0, m.1, m.2)).collect();
            println!("{{\"witness\":true,\"op\":\"{}\",\"family\":\"{}\",\"base\":\"{:#x}\",\"bytes\":\"{}\",\"entry\":\"{:#x}\",\"manual_edges\":\"{}\",\"init_r0_r3\":\"{}\",\"expected\":\"{}\",\"got\":\"{}\"}}",
                op, p.fam, p.base, p.hex(), p.entry, js(&me.join("; ")), init.map(|r| format!("{:?}", r)).unwrap_or_else(|| "-".into()), js(exp), js(got));
        }
    }
}
fn options(p: &Prog) -> Options { let mut o = Options::new(); for m in &p.medges { o.add_manual_edge(ManualEdge::new(m.0, m.1, m.2.map(|c| c.expr()))); } o }
fn memory(p: &Prog) -> Memory { let mut m = Memory::new(Endian::Little); m.set_memory(p.base, p.bytes.clone(), MemoryPermissions::READ | MemoryPermissions::EXECUTE); m }

fn check(ctx: &mut Ctx, p: &Prog, inits: &[[u8; 4]]) {
    let r = reach(p);
    let (mem, opts) = (memory(p), options(p));
    ctx.evals += 1;
    let res = catch_unwind(AssertUnwindSafe(|| if p.medges.is_empty() { Toy.translate_function(&mem, p.entry) } else { Toy.translate_function_extended(&mem, p.entry, &opts) }));
    let f = match res {
        Err(_) => { ctx.report("panic", p, None, &format!("translate_function panicked: {}", last_panic()), "no panic"); return; }
        Ok(Err(e)) => { ctx.lifted_err += 1; if r.bad.is_none() { ctx.report("unexpected-err", p, None, &format!("Err({})", e), "Ok: every reachable address decodes"); } return; }
        Ok(Ok(f)) => f,
    };
    ctx.lifted_ok += 1;
    if let Some(b) = r.bad { ctx.report("missing-err", p, None, "Ok", &format!("Err: undecodable bytes at {:#x} are reachable by direct flow", b)); return; }
    for (op, got, exp) in structure(&f, p, &r) { ctx.report(op, p, None, &got, &exp); }
    let Some(l) = prepare(&f) else { return };
    for init in inits {
        ctx.evals += 1;
        match catch_unwind(AssertUnwindSafe(|| compare(p, &l, p.entry, *init))) {
            Ok(None) => {}
            Ok(Some((op, got, exp))) => ctx.report(op, p, Some(*init), &got, &exp),
            Err(_) => ctx.report("panic", p, Some(*init), "the witness interpreter panicked on the lifted function", "no panic"),
        }
    }
}

// ------------------------------------------------------------------------------------------------ assembler with labels
#[derive(Clone, Copy, Debug)]
enum A { I(I), JmpL(usize), JzL(u8, usize), MovLo(u8, usize) } // labels = item indices (len = end of the code)
fn alen(a: &A) -> usize { match a { A::I(i) => encode(*i).len(), A::JmpL(_) => 2, A::JzL(..) | A::MovLo(..) => 3 } }
fn assemble(base: u64, items: &[A]) -> Option<(Vec<u8>, Vec<u64>)> {
    let mut addr = vec![base];
    for it in items { addr.push(addr.last().unwrap() + alen(it) as u64); }
    let mut bytes = vec![];
    let rel = |from: u64, to: u64| -> Option<i8> { let d = to as i64 - from as i64; if (-128..=127).contains(&d) { Some(d as i8) } else { None } };
    for (k, it) in items.iter().enumerate() {
        let next = addr[k + 1];
        bytes.extend(match *it { A::I(i) => encode(i), A::JmpL(l) => encode(Jmp(rel(next, addr[l])?)), A::JzL(r, l) => encode(Jz(r, rel(next, addr[l])?)), A::MovLo(r, l) => encode(Mov(r, addr[l] as u8)) });
    }
    Some((bytes, addr))
}
fn filler(k: usize) -> I { match k % 7 { 0 => Inc((k % 4) as u8), 1 => Mov(((k / 7) % 4) as u8, k as u8), 2 => Add((k % 3) as u8, 3), 3 => St(k as u8, (k % 4) as u8), 4 => Cmovz(3, (k % 3) as u8), 5 => Nop(1 + (k % 4) as u8, 7), _ => Inc(3) } }
fn prefix(k: usize) -> Vec<A> { if k == 0 { vec![] } else { vec![A::I(Nop(k as u8, 8))] } }
struct Lcg(u64);
impl Lcg { fn next(&mut self, n: u32) -> u32 { self.0 = self.0.wrapping_mul(6364136223846793005).wrapping_add(1442695040888963407); ((self.0 >> 33) as u32) % n } }

const INITS: [[u8; 4]; 4] = [[0, 0, 0, 0], [1, 0, 0, 0], [0, 0xff, 3, 0], [2, 1, 0xff, 0x10]];

fn family_d(ctx: &mut Ctx) {
    let inits = [[0u8, 0, 0, 0], [1, 0, 0, 0], [0xff, 2, 0, 0]];
    let alpha = [Inc(0), Mov(1, 1), Jmp(-2), Jmp(0), Jmp(2), Jmp(3), Jmp(-5), Jz(0, 0), Jz(0, -3), Jz(0, 2), Jz(0, 3), Jz(0, -6), Jz(0, 1), Nop(3, 1), Hlt];
    let small = [Inc(0), Jmp(-5), Jmp(2), Jz(0, 0), Jz(0, -6), Jz(0, 3), Nop(3, 1), Hlt];
    let mut run = |fam: &'static str, al: &[I], k: usize, base: u64| {
        let n = al.len();
        for code in 0..n.pow(k as u32) {
            let (mut c, mut bytes) = (code, vec![]);
            for _ in 0..k { bytes.extend(encode(al[c % n])); c /= n; }
            bytes.extend([7u8; 6]);
            check(ctx, &Prog { fam, base, bytes, entry: base, medges: vec![], steps: 48 }, &inits);
        }
    };
    for k in 1..=4 { run("d", &alpha, k, 0x1000); }
    run("d5", &small, 5, 0x1000);
    for k in 1..=3 { run("d@0", &alpha, k, 0); }
}

fn family_a(ctx: &mut Ctx) {
    let pats: [&[usize]; 8] = [&[2], &[3], &[2, 3], &[3, 3, 2], &[1, 2, 3, 4], &[4], &[2, 2, 3], &[3, 4, 1]];
    for k in 0..=4usize { for (pi, pat) in pats.iter().enumerate() { for total in [70usize, 140, 200] {
        let mut items = prefix(k);
        let (mut n, mut j) = (k, 0usize);
        while n < total {
            let sz = pat[j % pat.len()];
            let i = match sz { 1 => Nop(1, 0), 2 => Inc((j % 4) as u8), 4 => Nop(4, 7), _ => match (j + pi) % 4 { 0 => Mov((j % 4) as u8, j as u8 | 1), 1 => Add((j % 4) as u8, ((j + 1) % 4) as u8), 2 => St(j as u8, (j % 4) as u8), _ => Cmovz((j % 4) as u8, ((j + 2) % 4) as u8) } };
            items.push(A::I(i)); n += sz; j += 1;
        }
        items.push(A::I(Hlt));
        for base in [0x1000u64, 0x0, 0x10c1] {
            let (bytes, _) = assemble(base, &items).unwrap();
            check(ctx, &Prog { fam: "a", base, bytes, entry: base, medges: vec![], steps: STEPS }, &INITS);
        }
    } } }
}

fn family_b(ctx: &mut Ctx) {
    let i = A::I;
    for k in 0..=4usize { for pad in [0usize, 3, 11, 14, 15, 16, 20] {
        let nops = |v: &mut Vec<A>| for _ in 0..pad { v.push(i(Nop(4, 7))); };
        for n in 1..=4u8 {
            // counted loop: r0 = n; r1 = -1; L: r2++; (pad) r0 += r1; if r0 == 0 goto X; goto L; X: data[0] = r2; hlt
            let mut v = prefix(k); let o = v.len();
            v.extend([i(Mov(0, n)), i(Mov(1, 0xff)), i(Inc(2))]); nops(&mut v);
            let e = v.len();
            v.extend([i(Add(0, 1)), A::JzL(0, e + 3), A::JmpL(o + 2), i(St(0, 2)), i(Hlt)]);
            if let Some((bytes, _)) = assemble(0x1000, &v) { check(ctx, &Prog { fam: "b-loop", base: 0x1000, bytes, entry: 0x1000, medges: vec![], steps: STEPS }, &INITS); }
        }
        // nested diamond
        let mut v = prefix(k); let o = v.len();
        v.extend([A::JzL(0, o + 8), i(Inc(1)), A::JzL(1, o + 6), i(Inc(2)), A::JmpL(o + 7), i(Hlt), i(Inc(3)), A::JmpL(o + 9), i(Mov(1, 7)), i(St(1, 1))]);
        nops(&mut v);
        v.extend([i(St(2, 2)), i(St(3, 3)), i(Hlt)]);
        if let Some((bytes, _)) = assemble(0x1000, &v) { check(ctx, &Prog { fam: "b-diamond", base: 0x1000, bytes, entry: 0x1000, medges: vec![], steps: STEPS }, &[[0, 0, 0, 0], [1, 0, 0, 0], [1, 0xff, 0, 0], [0, 0xff, 3, 0]]); }
        // target == fallthrough, jump to next, jump to self, conditional jump to self
        for t in [Jz(0, 0), Jz(1, 0), Jmp(0), Jmp(-2), Jz(0, -3), Jz(2, -3)] {
            let mut v = prefix(k); nops(&mut v);
            v.extend([i(Inc(1)), i(t), i(Inc(2)), i(St(0, 2)), i(Hlt)]);
            let (bytes, _) = assemble(0x1000, &v).unwrap();
            check(ctx, &Prog { fam: "b-edge", base: 0x1000, bytes, entry: 0x1000, medges: vec![], steps: STEPS }, &INITS);
        }
    } }
}

fn family_c(ctx: &mut Ctx) {
    for k in 0..=4usize { for m in [4usize, 9, 26, 40] { for j in 0..=m {
        let s: Vec<A> = (0..m).map(|x| A::I(filler(x + k))).collect();
        // c1: the branch precedes the block and is the entry: JZ r0 -> S[j]; S; HLT
        let mut v = prefix(k); let o = v.len();
        v.push(A::JzL(0, o + 1 + j)); v.extend(s.iter().cloned()); v.push(A::I(Hlt));
        if let Some((bytes, _)) = assemble(0x1000, &v) { check(ctx, &Prog { fam: "c1", base: 0x1000, bytes, entry: 0x1000, medges: vec![], steps: STEPS }, &INITS); }
        // c2/c3: S; JMP T; HLT HLT; T: JZ r0 -> S[0]; JZ r1 -> S[j]; HLT   entered at S (c2) or at T (c3)
        let mut v = prefix(k); let o = v.len();
        v.extend(s.iter().cloned());
        let t = o + m + 3;
        v.extend([A::JmpL(t), A::I(Hlt), A::I(Hlt), A::JzL(0, o), A::JzL(1, o + j), A::I(Hlt)]);
        if let Some((bytes, addr)) = assemble(0x1000, &v) {
            check(ctx, &Prog { fam: "c2", base: 0x1000, bytes: bytes.clone(), entry: 0x1000, medges: vec![], steps: STEPS }, &INITS);
            check(ctx, &Prog { fam: "c3", base: 0x1000, bytes: bytes.clone(), entry: addr[t], medges: vec![], steps: STEPS }, &INITS);
            // c4: entered in the middle, at S[j]
            if j % 3 == 0 { check(ctx, &Prog { fam: "c4", base: 0x1000, bytes, entry: addr[o + j], medges: vec![], steps: STEPS }, &INITS); }
        }
    } } }
}

fn family_e(ctx: &mut Ctx) {
    let i = A::I;
    for k in 0..=4usize { for pad in [0usize, 13, 15] {
        // 0: JZ r3 -> A   1: MOV r0, lo(target)   2: INC r1   3: IJMP r0   4: HLT   A=5: INC r1  6: INC r2  7: ADD r1,r2 (pad)
        // T: INC r2   T+1: ST [1], r2   T+2: HLT   U=T+3: MOV r3, 9   U+1: ST [2], r3   U+2: HLT
        for which in 0..3 {
            let mut v = prefix(k); let o = v.len();
            v.extend([A::JzL(3, o + 5), A::MovLo(0, 0), i(Inc(1)), i(Ijmp(0)), i(Hlt), i(Inc(1)), i(Inc(2)), i(Add(1, 2))]);
            for _ in 0..pad { v.push(i(Nop(4, 7))); }
            let t = v.len();
            v.extend([i(Inc(2)), i(St(1, 2)), i(Hlt), i(Mov(3, 9)), i(St(2, 3)), i(Hlt)]);
            let u = t + 3;
            v[o + 1] = match which { 0 => A::MovLo(0, t), 1 => A::MovLo(0, u), _ => A::I(Mov(0, 0xf0)) };
            let Some((bytes, addr)) = assemble(0x1000, &v) else { continue };
            let (ij, lo) = (addr[o + 3], |a: u64| a as u8);
            let gone = 0x10f0u64; // no bytes there
            let mut sets: Vec<Vec<(u64, u64, Option<Cond>)>> = vec![vec![]];
            match which {
                0 => { sets.push(vec![(ij, addr[t], Some(Cond::Eq(0, lo(addr[t]))))]);                   // (iv) tail in the middle of a lifted block
                       sets.push(vec![(addr[o + 2], addr[t], Some(Cond::Eq(0, lo(addr[t]))))]);          // head names an earlier instruction of the IJMP's block
                       sets.push(vec![(ij, addr[t], Some(Cond::Eq(0, lo(addr[t])))), (ij, addr[u], Some(Cond::Eq(0, lo(addr[u]))))]); }
                1 => { sets.push(vec![(ij, addr[u], Some(Cond::Eq(0, lo(addr[u]))))]); }                 // (ii) target only reachable through the manual edge
                _ => { sets.push(vec![(ij, gone, Some(Cond::Eq(0, 0xf0)))]); }                           // (v) tail without bytes
            }
            sets.push(vec![(addr[o], addr[o + 5], Some(Cond::Eq(3, 0)))]);                               // (iii) duplicates of the two direct JZ edges
            sets.push(vec![(addr[o], addr[o + 1], Some(Cond::NotZ(3)))]);
            sets.push(vec![(addr[o], addr[o + 1], Some(Cond::NotZ(3))), (addr[o], addr[o + 5], Some(Cond::Eq(3, 0)))]);
            sets.push(vec![(0x5000, addr[t], None)]);                                                     // (v) head without bytes
            sets.push(vec![(0x5000, 0x6000, None)]);
            sets.push(vec![(0x5000, 0x5000, None)]);                                                      // (vi) head == tail, no bytes
            for medges in sets { check(ctx, &Prog { fam: "e", base: 0x1000, bytes: bytes.clone(), entry: 0x1000, medges, steps: STEPS }, &[[0, 0, 0, 0], [0, 0, 0, 1], [1, 2, 3, 4]]); }
        }
        // (vi) head == tail: IJMP to itself, JMP to itself; (iii) duplicate of an unconditional edge
        let mut v = prefix(k); let o = v.len();
        for _ in 0..pad { v.push(i(Nop(4, 7))); }
        let q = v.len();
        v.extend([A::MovLo(0, q + 1), i(Ijmp(0)), i(Hlt)]);
        let (bytes, addr) = assemble(0x1000, &v).unwrap();
        for medges in [vec![], vec![(addr[q + 1], addr[q + 1], Some(Cond::Eq(0, addr[q + 1] as u8)))]] { check(ctx, &Prog { fam: "e-self", base: 0x1000, bytes: bytes.clone(), entry: 0x1000, medges, steps: STEPS }, &INITS); }
        let mut v = prefix(k);
        for _ in 0..pad { v.push(i(Nop(4, 7))); }
        let q = v.len();
        v.extend([i(Inc(0)), A::JmpL(q + 3), i(Hlt), i(Inc(1)), i(Jmp(-2))]);
        let (bytes, addr) = assemble(0x1000, &v).unwrap();
        for medges in [vec![(addr[q + 4], addr[q + 4], None)], vec![(addr[q + 1], addr[q + 3], None)], vec![(addr[o], addr[q + 3], None)]] {
            // the last one: head = start of the block that ends in the JMP
            check(ctx, &Prog { fam: "e-dup", base: 0x1000, bytes: bytes.clone(), entry: 0x1000, medges, steps: STEPS }, &INITS);
        }
        // function address without bytes
        check(ctx, &Prog { fam: "e-nobytes", base: 0x1000, bytes, entry: 0x5000, medges: vec![], steps: STEPS }, &INITS[..1]);
    } }
}

fn family_r(ctx: &mut Ctx, count: usize) {
    let mut g = Lcg(0xC06);
    for _ in 0..count {
        let n = 2 + g.next(28) as usize;
        let long = g.next(4) == 0;
        let mut v: Vec<A> = vec![];
        let mut ij: Vec<(usize, u8, usize)> = vec![]; // (item of the IJMP, register, label)
        let mut direct: Vec<usize> = vec![];
        while v.len() < n {
            let lab = g.next(n as u32 + 1) as usize;
            let r = g.next(4) as u8;
            match g.next(100) {
                0..=14 => v.push(A::I(Inc(r))),
                15..=24 => v.push(A::I(Mov(r, [0, 1, 0xff, 0x80][g.next(4) as usize]))),
                25..=34 => v.push(A::I(Add(r, g.next(4) as u8))),
                35..=42 => v.push(A::I(St(g.next(8) as u8, r))),
                43..=54 => v.push(A::I(Nop(1 + g.next(4) as u8, [7, 1, 8, 0][g.next(4) as usize]))),
                55..=60 => v.push(A::I(Cmovz(r, g.next(4) as u8))),
                61..=70 => { direct.push(v.len()); v.push(A::JmpL(lab)); }
                71..=84 => { direct.push(v.len()); v.push(A::JzL(r, lab)); }
                85..=89 => v.push(A::I(Hlt)),
                90..=93 => v.push(A::I(if g.next(2) == 0 { Jmp(g.next(13) as i8 - 6) } else { Jz(r, g.next(13) as i8 - 6) })),
                _ => { v.push(A::MovLo(r, lab)); ij.push((v.len(), r, lab)); v.push(A::I(Ijmp(r))); }
            }
            if long && g.next(6) == 0 { for x in 0..(6 + g.next(14) as usize) { v.push(A::I(filler(x + v.len()))); } }
        }
        v.push(A::I(Hlt));
        let base = if g.next(8) == 0 { 0x10d0 } else { 0x1000 }; // 0x10d0: code crosses a 256-byte page (IJMP stays in its page)
        let Some((bytes, addr)) = assemble(base, &v) else { continue };
        let entry = if g.next(10) < 7 { base } else { addr[g.next(v.len() as u32) as usize] };
        let mut medges = vec![];
        for &(item, r, lab) in &ij {
            if lab >= v.len() + 1 || (addr[item] & !0xff) != (addr[lab] & !0xff) { continue; }
            if g.next(10) < 6 { medges.push((addr[item], addr[lab], Some(Cond::Eq(r, addr[lab] as u8)))); }
        }
        for &d in &direct { if g.next(10) == 0 { match v[d] { A::JmpL(l) => medges.push((addr[d], addr[l], None)), A::JzL(r, l) if addr[l] != addr[d + 1] => medges.push((addr[d], addr[l], Some(Cond::Eq(r, 0)))), _ => {} } } }
        check(ctx, &Prog { fam: "r", base, bytes, entry, medges, steps: STEPS }, &[INITS[g.next(4) as usize], [g.next(3) as u8, g.next(2) as u8 * 0xff, g.next(3) as u8, g.next(2) as u8]]);
    }
}

// ------------------------------------------------------------------------------------------------ probes
fn describe(f: &Function) -> String {
    let cfg = f.control_flow_graph();
    let bl: Vec<String> = cfg.blocks().iter().map(|b| format!("b{}{}", b.index(), hexes(&b.instructions().iter().map(|i| i.address().unwrap_or(u64::MAX)).collect::<Vec<_>>()))).collect();
    let ed: Vec<String> = cfg.edges().iter().map(|e| format!("{}->{}{}", e.head(), e.tail(), e.condition().map(|c| format!(" if {}", c)).unwrap_or_default())).collect();
    format!("address={:#x} entry={:?} blocks={} edges=[{}]", f.address(), cfg.entry(), bl.join(" "), ed.join(", "))
}
/// P1: a translator that returns block results WITHOUT instructions
struct ToyEmpty { empty_at: Vec<u64>, succ: u64, all: bool }
impl Translator for ToyEmpty {
    fn translate_block(&self, bytes: &[u8], address: u64, _: &Options) -> Result<BlockTranslationResult, Error> {
        if self.all || self.empty_at.contains(&address) { Ok(BlockTranslationResult::new(vec![], address, 0, if self.empty_at.contains(&address) { vec![(self.succ, None)] } else { vec![] })) } else { toy_block(bytes, address) }
    }
}
/// P2: memory that maps the last 32 bytes of the address space (and optionally the first 16), all executable
struct TopMem { top: Vec<u8>, low: Vec<u8> }
impl TranslationMemory for TopMem {
    fn permissions(&self, a: u64) -> Option<MemoryPermissions> { self.get_u8(a).map(|_| MemoryPermissions::READ | MemoryPermissions::EXECUTE) }
    fn get_u8(&self, a: u64) -> Option<u8> { let s = u64::MAX - (self.top.len() as u64 - 1); if a >= s { Some(self.top[(a - s) as usize]) } else { self.low.get(a as usize).cloned() } }
}

fn probes(ctx: &mut Ctx) {
    let rx = MemoryPermissions::READ | MemoryPermissions::EXECUTE;
    let pr = |name: &str, case: &str, what: &str| println!("{{\"probe\":\"{}\",\"build\":\"{}\",\"case\":\"{}\",\"outcome\":\"{}\"}}", name, if cfg!(debug_assertions) { "debug" } else { "release" }, js(case), js(what));
    // ---- P1 empty instruction lists
    let img = |pieces: &[(usize, Vec<I>)]| { let mut b = vec![7u8; 0x30]; for (o, is) in pieces { let mut o = *o; for i in is { for x in encode(*i) { b[o] = x; o += 1; } } } b };
    let cases: Vec<(&str, ToyEmpty, u64, u64, Vec<u8>)> = vec![
        ("A: block 0x1000 has no instructions and the successor 0x1010 = INC r0; HLT", ToyEmpty { empty_at: vec![0x1000], succ: 0x1010, all: false }, 0x1000, 0x1010, img(&[(0x10, vec![Inc(0), Hlt])])),
        ("B: block 0x1020 has no instructions, successor 0x1010 = INC r1; JMP 0x1000, 0x1000 = INC r0; HLT", ToyEmpty { empty_at: vec![0x1020], succ: 0x1010, all: false }, 0x1020, 0x1010, img(&[(0, vec![Inc(0), Hlt]), (0x10, vec![Inc(1), Jmp(-20)])])),
        ("C: every block result has no instructions (0x1000 -> 0x1010)", ToyEmpty { empty_at: vec![0x1000], succ: 0x1010, all: true }, 0x1000, 0x1010, img(&[])),
    ];
    for (case, tr, fa, start, bytes) in cases {
        ctx.evals += 1;
        let p = Prog { fam: "P1", base: 0x1000, bytes, entry: fa, medges: vec![], steps: STEPS };
        let mem = memory(&p);
        match catch_unwind(AssertUnwindSafe(|| tr.translate_function(&mem, fa))) {
            Err(_) => { pr("P1", case, &format!("panic: {}", last_panic())); ctx.report("empty-instructions", &p, None, &format!("panic: {}", last_panic()), "Err, or a function that runs the successor"); }
            Ok(Err(e)) => pr("P1", case, &format!("Err({})", e)),
            Ok(Ok(f)) => {
                pr("P1", case, &format!("Ok {}", describe(&f)));
                // the block without instructions does nothing and continues at `start`: the IL run from the entry must equal the machine run from `start`
                let bad = consistent(f.control_flow_graph()).err().map(|e| ("structure".to_string(), e, "consistent".to_string()))
                    .or_else(|| prepare(&f).and_then(|l| compare(&p, &l, start, [0; 4]).map(|(c, g, e)| (c.to_string(), g, e))));
                if let Some((c, g, e)) = bad { ctx.report("empty-instructions", &p, Some([0; 4]), &format!("[{}] {} ; lifted: {}", c.replace("-other", ""), g, describe(&f)), &format!("empty block at {:#x}, then the code at {:#x}: {}", fa, start, e)); }
            }
        }
    }
    // ---- P2 the top of the address space
    let code: Vec<u8> = { let mut b: Vec<u8> = [Inc(0), Mov(1, 5), St(0, 1), Hlt].iter().flat_map(|i| encode(*i)).collect(); b.resize(32, 7); b };
    let top = u64::MAX - 31;
    let p2 = Prog { fam: "P2", base: top, bytes: code.clone(), entry: top, medges: vec![], steps: STEPS };
    let judge = |ctx: &mut Ctx, case: &str, r: std::thread::Result<Result<Function, Error>>, p: &Prog| {
        ctx.evals += 1;
        match r {
            Err(_) => { pr("P2", case, &format!("panic: {}", last_panic())); ctx.report("address-wrap", p, None, &format!("panic: {} ({})", last_panic(), case), "the function at the top of the address space is lifted"); }
            Ok(Err(e)) => { pr("P2", case, &format!("Err({})", e)); ctx.report("address-wrap", p, None, &format!("Err({}) ({})", e, case), "Ok"); }
            Ok(Ok(f)) => {
                pr("P2", case, &format!("Ok {}", describe(&f)));
                let rr = reach(p);
                let mut bad: Vec<String> = structure(&f, p, &rr).into_iter().map(|x| format!("[{}] {}", x.0, x.1)).collect();
                if let Some(l) = prepare(&f) { if let Some(x) = compare(p, &l, p.entry, [0; 4]) { bad.push(format!("[{}] {}", x.0, x.1)); } }
                if !bad.is_empty() { ctx.report("address-wrap", p, Some([0; 4]), &format!("{} ({})", bad.join("; "), case), "same as the machine"); }
            }
        }
    };
    let r = catch_unwind(AssertUnwindSafe(|| Toy.translate_function(&TopMem { top: code.clone(), low: vec![] }, top)));
    judge(ctx, "custom TranslationMemory, 32 executable bytes ending at 2^64-1, HLT-terminated code at 0xffffffffffffffe0 (get_bytes computes address+i for i up to 63)", r, &p2);
    let r = catch_unwind(AssertUnwindSafe(|| Toy.translate_function(&TopMem { top: code.clone(), low: vec![1, 2, 7, 7] }, top)));
    judge(ctx, "same, and bytes 01 02 07 07 mapped at address 0 (does the window wrap around to address 0?)", r, &p2);
    // straight-line code that runs up to the last byte: the machine stops at pc = 2^64 -> 0 (no bytes / wraps)
    let run_off: Vec<u8> = (0..16).flat_map(|k| encode(Inc((k % 4) as u8))).collect();
    let p2b = Prog { fam: "P2", base: top, bytes: run_off.clone(), entry: top, medges: vec![], steps: STEPS };
    let r = catch_unwind(AssertUnwindSafe(|| Toy.translate_function(&TopMem { top: run_off.clone(), low: vec![] }, top)));
    judge(ctx, "custom TranslationMemory, 16 x INC filling the last 32 bytes, nothing mapped at 0 (fallthrough successor = 2^64 wraps to 0)", r, &p2b);
    for n in [31usize, 32] {
        let case = format!("backing::Memory, {} bytes set at 0xffffffffffffffe0", n);
        let r = catch_unwind(AssertUnwindSafe(|| { let mut m = Memory::new(Endian::Little); m.set_memory(top, code[..n].to_vec(), rx); (m.get8(u64::MAX), m.get8(top), Toy.translate_function(&m, top)) }));
        // n = 32 (a section ending exactly at 2^64): `backing::Memory::section_address` computes start + len, which wraps to 0
        // (release: the section is invisible; debug: panic in lib/memory/backing.rs).  That is a defect of the memory model
        // (unit C16's code), not of function recovery: reported as a probe line only, never as a witness of C06.
        match r {
            Err(_) => { ctx.evals += 1; pr("P2", &case, &format!("panic: {}", last_panic())); if n < 32 { ctx.report("address-wrap", &p2, None, &format!("panic: {} ({})", last_panic(), case), "lifted"); } }
            Ok((last, first, f)) => {
                pr("P2", &case, &format!("get8(2^64-1)={:?} get8(0x..e0)={:?}", last, first));
                if n < 32 { judge(ctx, &case, Ok(f), &Prog { bytes: code[..n].to_vec(), ..p2.clone() }); }
                else { ctx.evals += 1; pr("P2", &case, &match f { Ok(f) => format!("Ok {} (NOT counted: backing::Memory hides a section that ends at 2^64)", describe(&f)), Err(e) => format!("Err({})", e) }); }
            }
        }
    }
    // ---- P3 no EXECUTE permission at the function address
    {
        let mut m = Memory::new(Endian::Little);
        m.set_memory(0x1000, code.clone(), MemoryPermissions::READ);
        ctx.evals += 1;
        match catch_unwind(AssertUnwindSafe(|| Toy.translate_function(&m, 0x1000))) {
            Err(_) => pr("P3", "READ-only bytes at the function address", &format!("panic: {}", last_panic())),
            Ok(Err(e)) => pr("P3", "READ-only bytes at the function address", &format!("Err({})", e)),
            Ok(Ok(f)) => pr("P3", "READ-only bytes at the function address", &format!("Ok {} (consistent: {:?})", describe(&f), consistent(f.control_flow_graph()))),
        }
    }
    // ---- P4 the window crosses from an executable section into a non-executable one
    {
        let mut m = Memory::new(Endian::Little);
        m.set_memory(0x1000, [Inc(0), Inc(1), Inc(2), Inc(3)].iter().flat_map(|i| encode(*i)).collect(), rx);
        m.set_memory(0x1008, [Mov(0, 0x42), St(0, 0), Hlt].iter().flat_map(|i| encode(*i)).collect(), MemoryPermissions::READ | MemoryPermissions::WRITE);
        ctx.evals += 2;
        let show = |r: std::thread::Result<Result<Function, Error>>| match r { Err(_) => format!("panic: {}", last_panic()), Ok(Err(e)) => format!("Err({})", e), Ok(Ok(f)) => format!("Ok {}", describe(&f)) };
        pr("P4", "RX section 0x1000..0x1008 (4 x INC) followed by RW section 0x1008..0x100f (MOV; ST; HLT); function at 0x1000", &show(catch_unwind(AssertUnwindSafe(|| Toy.translate_function(&m, 0x1000)))));
        pr("P4", "same memory, function at 0x1008 (inside the RW section)", &show(catch_unwind(AssertUnwindSafe(|| Toy.translate_function(&m, 0x1008)))));
    }
    // ---- P5 (information only) an UNGUARDED manual edge over the guarded direct edge of a JZ: manual edges are inserted
    // first and the duplicate check then drops the guarded direct edge
    {
        let p = Prog { fam: "P5", base: 0x1000, bytes: [Jz(0, 2), Inc(1), Inc(2), Hlt].iter().flat_map(|i| encode(*i)).collect(), entry: 0x1000, medges: vec![(0x1000, 0x1005, None)], steps: STEPS };
        ctx.evals += 1;
        let out = match catch_unwind(AssertUnwindSafe(|| Toy.translate_function_extended(&memory(&p), 0x1000, &options(&p)))) { Err(_) => "panic".to_string(), Ok(Err(e)) => format!("Err({})", e), Ok(Ok(f)) => format!("Ok {}", describe(&f)) };
        pr("P5", "JZ r0,+2; INC r1; INC r2; HLT with the manual edge 0x1000 -> 0x1005 without a condition", &out);
    }
    // ---- P6 (information only) the "edge-choice" mechanism with falcon's own x86 translator: je +0 ; ret
    {
        let mut m = Memory::new(Endian::Little);
        m.set_memory(0x1000, vec![0x74, 0x00, 0xc3], rx);
        ctx.evals += 1;
        let out = match catch_unwind(AssertUnwindSafe(|| falcon::translator::x86::X86.translate_function(&m, 0x1000))) { Err(_) => format!("panic: {}", last_panic()), Ok(Err(e)) => format!("Err({})", e), Ok(Ok(f)) => format!("Ok {}", describe(&f)) };
        pr("P6", "x86 bytes 74 00 c3 (je +0; ret) at 0x1000: target == fallthrough == 0x1002", &out);
    }
}

fn main() {
    std::panic::set_hook(Box::new(|info| { if let Ok(mut s) = LAST_PANIC.lock() { *s = info.to_string(); } }));
    let only_probes = std::env::args().any(|a| a == "--probe");
    let mut ctx = Ctx { evals: 0, found: 0, per_op: BTreeMap::new(), lifted_ok: 0, lifted_err: 0 };
    if !only_probes {
        family_d(&mut ctx);
        family_b(&mut ctx);
        family_a(&mut ctx);
        family_c(&mut ctx);
        family_e(&mut ctx);
        family_r(&mut ctx, 300000);
    }
    probes(&mut ctx);
    let po: Vec<String> = ctx.per_op.iter().map(|(k, v)| format!("\"{}\":{}", k, v)).collect();
    println!("{{\"summary\":true,\"evaluations\":{},\"disagreements\":{},\"per_op\":{{{}}},\"functions_lifted\":{},\"functions_err\":{},\"runs_halted\":{},\"runs_to_step_bound\":{},\"runs_left_function\":{}}}", ctx.evals, ctx.found, po.join(","), ctx.lifted_ok, ctx.lifted_err,
        ENDS[0].load(Ordering::Relaxed), ENDS[1].load(Ordering::Relaxed), ENDS[2].load(Ordering::Relaxed));
}
