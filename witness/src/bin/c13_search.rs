// C13 bounded witness search: random small IL functions in which every scalar is assigned in the entry block
// (so no scalar is read before it is assigned), `constants()` of the real crate, and random concrete
// executions; reports (a) panics, (b) errors, (c) a reported constant that a concrete execution contradicts,
// (d) a Constants::eval answer that a concrete execution contradicts.
// Purpose: look for an input on which the solver stops early with a stale state because
// Constants::partial_cmp answers Equal for two different constants (argued unreachable in units/C13/meta.json),
// and for transfer / eval shortcuts that are wrong when one operand is unknown (loaded).
// Domain: per function a width of 8 or 32 bits, 2-5 blocks, three scalars a, b, c all assigned a constant 0..2 in
// the entry block, then 0-3 random instructions per block from: constant 0..2, `v = w + k`, copy, `v = w OP u` with
// OP in {+, |, &, ^, *}, load (unknown value), nop; arbitrary edges incl. self-loops and unreachable blocks;
// 8 random executions of up to 40 steps (a load yields 0..3 or a value with high bits set).
// Output: one JSON line per disagreement (at most 3 per op) and a final summary line
//   {"summary":true,"evaluations":N,"disagreements":M,"per_op":{...}}
// Deterministic: the generator is seeded from the environment variable VERIF_SEED (default 0); the number of
// functions is the first command-line argument (default 200000).
// ops: "completes" (panic or Err on a def-before-use function), "constant" (a reported constant of an assigned
// scalar differs from the value a concrete execution has immediately before the location executes; instruction,
// edge and empty-block locations), "eval" (Constants::eval - of an assignment's right-hand side, and in the first
// four executions of a probe expression `w OP u` for a random operator and pair of assigned scalars at every
// visited instruction location - returns a value that differs from the value the expression has in that execution).
use falcon::analysis::constants::constants;
use falcon::il::*;
use std::collections::{BTreeMap, BTreeSet};
use std::panic;

struct Rng(u64);
impl Rng {
    fn next(&mut self) -> u64 {
        self.0 ^= self.0 << 13;
        self.0 ^= self.0 >> 7;
        self.0 ^= self.0 << 17;
        self.0
    }
    fn below(&mut self, n: u64) -> u64 { self.next() % n }
}

const NAMES: [&str; 3] = ["a", "b", "c"];

#[derive(Clone, Copy, Debug, PartialEq)]
enum Bin { Add, Or, And, Xor, Mul }
const BINS: [Bin; 5] = [Bin::Add, Bin::Or, Bin::And, Bin::Xor, Bin::Mul];

#[derive(Clone, Debug)]
enum Op { AssignConst(usize, u64), AssignAdd(usize, usize, u64), AssignCopy(usize, usize), AssignBin(usize, usize, usize, Bin), Load(usize), Nop,
          /// store of a scalar, indirect branch (a call: the analysis forgets everything, the concrete state keeps its values),
          /// intrinsic with undeclared effects (same), intrinsic declaring that it writes one scalar (a random value)
          Store(usize), Branch, IntrUndeclared, IntrWrites(usize) }

fn gen(rng: &mut Rng) -> (usize, Vec<Vec<Op>>, Vec<(usize, usize)>) {
    let bits = if rng.below(3) == 0 { 8 } else { 32 };
    let nblocks = 2 + rng.below(4) as usize;
    let mut blocks = Vec::new();
    for b in 0..nblocks {
        let mut ops = Vec::new();
        if b == 0 {
            for v in 0..3 { ops.push(Op::AssignConst(v, rng.below(3))); }
        }
        for _ in 0..rng.below(4) {
            let v = rng.below(3) as usize;
            let w = rng.below(3) as usize;
            let u = rng.below(3) as usize;
            ops.push(match rng.below(14) {
                0 | 1 => Op::AssignConst(v, rng.below(3)),
                2 => Op::AssignAdd(v, w, rng.below(2)),
                3 => Op::AssignCopy(v, w),
                4 | 5 | 6 => Op::AssignBin(v, w, u, BINS[rng.below(5) as usize]),
                7 | 8 => Op::Load(v),
                10 => Op::Store(v),
                11 => Op::Branch,
                12 => Op::IntrUndeclared,
                13 => Op::IntrWrites(v),
                _ => Op::Nop,
            });
        }
        blocks.push(ops);
    }
    let mut edges = Vec::new();
    for _ in 0..(nblocks + rng.below(4) as usize) {
        let h = rng.below(nblocks as u64) as usize;
        let t = rng.below(nblocks as u64) as usize;
        if !edges.contains(&(h, t)) { edges.push((h, t)); }
    }
    (bits, blocks, edges)
}

fn sc(v: usize, bits: usize) -> Scalar { scalar(NAMES[v], bits) }
fn ex(v: usize, bits: usize) -> Expression { expr_scalar(NAMES[v], bits) }
fn bin_expr(op: Bin, l: Expression, r: Expression) -> Expression {
    match op { Bin::Add => Expression::add(l, r), Bin::Or => Expression::or(l, r), Bin::And => Expression::and(l, r), Bin::Xor => Expression::xor(l, r), Bin::Mul => Expression::mul(l, r) }.unwrap()
}
/// the witness's own semantics of the operators, modulo 2^bits
fn bin_val(op: Bin, l: u64, r: u64, mask: u64) -> u64 {
    (match op { Bin::Add => l.wrapping_add(r), Bin::Or => l | r, Bin::And => l & r, Bin::Xor => l ^ r, Bin::Mul => l.wrapping_mul(r) }) & mask
}

fn build(bits: usize, blocks: &[Vec<Op>], edges: &[(usize, usize)]) -> Function {
    let mut cfg = ControlFlowGraph::new();
    for ops in blocks {
        let b = cfg.new_block().unwrap();
        for op in ops {
            match op {
                Op::AssignConst(v, k) => b.assign(sc(*v, bits), expr_const(*k, bits)),
                Op::AssignAdd(v, w, k) => b.assign(sc(*v, bits), Expression::add(ex(*w, bits), expr_const(*k, bits)).unwrap()),
                Op::AssignCopy(v, w) => b.assign(sc(*v, bits), ex(*w, bits)),
                Op::AssignBin(v, w, u, o) => b.assign(sc(*v, bits), bin_expr(*o, ex(*w, bits), ex(*u, bits))),
                Op::Load(v) => b.load(sc(*v, bits), expr_const(0x10, bits)),
                Op::Nop => b.nop(),
                Op::Store(v) => b.store(expr_const(0x20, bits), ex(*v, bits)),
                Op::Branch => b.branch(expr_const(0x4000, bits)),
                Op::IntrUndeclared => b.intrinsic(Intrinsic::new("syscall", "syscall", vec![], None, None, vec![0x0f, 0x05])),
                Op::IntrWrites(v) => b.intrinsic(Intrinsic::new("rd", "rd", vec![], Some(vec![ex(*v, bits)]), Some(vec![]), vec![0x0f, 0x31])),
            }
        }
    }
    for (h, t) in edges { cfg.unconditional_edge(*h, *t).unwrap(); }
    cfg.set_entry(0).unwrap();
    Function::new(0, cfg)
}

/// text -> body of a JSON string
fn json_str(s: String) -> String {
    let mut o = String::new();
    for c in s.chars().take(700) {
        match c { '"' => o.push_str("\\\""), '\\' => o.push_str("\\\\"), c if (c as u32) < 0x20 => o.push(' '), c => o.push(c) }
    }
    o
}

fn deep() -> bool { std::env::var("VERIF_TIER").map(|t| t == "thorough").unwrap_or(false) } // thorough tier: wider bounds
fn main() {
    let n: u64 = std::env::args().nth(1).and_then(|s| s.parse().ok()).unwrap_or(if deep() { 1_500_000 } else { 200_000 });
    let seed: u64 = std::env::var("VERIF_SEED").ok().and_then(|s| s.trim().parse().ok()).unwrap_or(0);
    panic::set_hook(Box::new(|_| {}));
    // xorshift needs a non-zero state
    let mut state = 0x9E3779B97F4A7C15u64 ^ seed.wrapping_mul(0xD1B5_4A32_D192_ED03);
    if state == 0 { state = 0x9E3779B97F4A7C15; }
    let mut rng = Rng(state);
    let mut per_op: BTreeMap<String, u64> = BTreeMap::new();
    let (mut ok, mut checks, mut found, mut missing) = (0u64, 0u64, 0u64, 0u64);
    macro_rules! report {
        ($op:expr, $it:expr, $bits:expr, $blocks:expr, $edges:expr, $what:expr, $got:expr, $exp:expr) => {{
            let c = per_op.entry($op.to_string()).or_insert(0);
            *c += 1;
            if *c <= 3 {
                println!("{{\"witness\":true,\"op\":\"{}\",\"seed\":{},\"function\":{},\"bits\":{},\"blocks\":\"{}\",\"edges\":\"{:?}\",\"query\":\"{}\",\"got\":\"{}\",\"expected\":\"{}\"}}",
                    $op, seed, $it, $bits, json_str(format!("{:?}", $blocks)), $edges, json_str($what), json_str(format!("{}", $got)), json_str(format!("{}", $exp)));
            }
            found += 1;
        }};
    }
    for it in 0..n {
        let (bits, blocks, edges) = gen(&mut rng);
        let mask: u64 = (1u64 << bits) - 1;
        let f = build(bits, &blocks, &edges);
        let f2 = f.clone();
        checks += 1;
        let map = match panic::catch_unwind(move || constants(&f2)) {
            Err(_) => { report!("completes", it, bits, blocks, edges, "constants(function)".to_string(), "panic", "Ok(..)"); continue; }
            Ok(Err(e)) => { report!("completes", it, bits, blocks, edges, "constants(function)".to_string(), format!("Err({})", e), "Ok(..)"); continue; }
            Ok(Ok(m)) => m,
        };
        ok += 1;
        // one report per (function, query)
        let mut bad: BTreeSet<String> = BTreeSet::new();
        // random concrete executions: the store maps the three scalars to values; a Load yields a random value
        for run in 0..8 {
            let mut store: [u64; 3] = [rng.below(5) + 10, rng.below(5) + 10, rng.below(5) + 10];
            let mut b = 0usize;
            let mut steps = 0;
            let mut assigned = [false; 3];
            'run: loop {
                // the reported constants immediately before `loc` executes; the claim is about the scalars the
                // function itself has assigned so far
                macro_rules! check_at {
                    ($fl:expr) => {{
                        let loc = ProgramLocation::new(None, $fl);
                        match map.get(&loc) {
                            Some(c) => {
                                for v in 0..3 {
                                    if !assigned[v] { continue; }
                                    let got = panic::catch_unwind(panic::AssertUnwindSafe(|| c.scalar(&sc(v, bits)).map(|k| k.value_u64())));
                                    checks += 1;
                                    match got {
                                        Ok(None) => {}
                                        Ok(Some(k)) if k == Some(store[v]) => {}
                                        Ok(Some(k)) => { let q = format!("constants()[{}].scalar({})", loc, NAMES[v]);
                                            if bad.insert(q.clone()) { report!("constant", it, bits, blocks, edges, q, format!("{:?}", k), format!("no constant, or {} (an execution has that value there)", store[v])) } }
                                        Err(_) => report!("constant", it, bits, blocks, edges, format!("constants()[{}].scalar({})", loc, NAMES[v]), "panic", "no panic"),
                                    }
                                }
                                Some(c)
                            }
                            None => { missing += 1; None }
                        }
                    }};
                }
                // Constants::eval: declines, or the value the expression has in this execution
                macro_rules! check_eval {
                    ($c:expr, $b:expr, $i:expr, $e:expr, $val:expr) => {{
                        checks += 1;
                        let e: Expression = $e;
                        match panic::catch_unwind(panic::AssertUnwindSafe(|| $c.eval(&e).map(|k| k.value_u64()))) {
                            Ok(None) => {}
                            Ok(Some(k)) if k == Some($val) => {}
                            Ok(Some(k)) => { let q = format!("constants()[block {} instruction {}].eval({})", $b, $i, e);
                                if bad.insert(q.clone()) { report!("eval", it, bits, blocks, edges, q, format!("{:?}", k), format!("declines, or {} (the value in an execution with a={} b={} c={})", $val, store[0], store[1], store[2])) } }
                            Err(_) => report!("eval", it, bits, blocks, edges, format!("constants()[block {} instruction {}].eval({})", $b, $i, e), "panic", "declines or a value"),
                        }
                    }};
                }
                if blocks[b].is_empty() { check_at!(FunctionLocation::EmptyBlock(b)); }
                for (i, op) in blocks[b].iter().enumerate() {
                    let c = check_at!(FunctionLocation::Instruction(b, i));
                    if let Some(c) = c {
                        // the instruction's own right-hand side
                        let rhs: Option<(Expression, u64, Vec<usize>)> = match op {
                            Op::AssignConst(_, k) => Some((expr_const(*k, bits), *k, vec![])),
                            Op::AssignAdd(_, w, k) => Some((Expression::add(ex(*w, bits), expr_const(*k, bits)).unwrap(), (store[*w] + *k) & mask, vec![*w])),
                            Op::AssignCopy(_, w) => Some((ex(*w, bits), store[*w], vec![*w])),
                            Op::AssignBin(_, w, u, o) => Some((bin_expr(*o, ex(*w, bits), ex(*u, bits)), bin_val(*o, store[*w], store[*u], mask), vec![*w, *u])),
                            Op::Load(_) | Op::Nop | Op::Store(_) | Op::Branch | Op::IntrUndeclared | Op::IntrWrites(_) => None,
                        };
                        if let Some((e, val, reads)) = rhs { if reads.iter().all(|r| assigned[*r]) { check_eval!(c, b, i, e, val); } }
                        // probe (first four executions): a random operator on a random pair of assigned scalars
                        if run < 4 {
                            let (w, u, o) = (rng.below(3) as usize, rng.below(3) as usize, BINS[rng.below(5) as usize]);
                            if assigned[w] && assigned[u] { check_eval!(c, b, i, bin_expr(o, ex(w, bits), ex(u, bits)), bin_val(o, store[w], store[u], mask)); }
                        }
                    }
                    match op {
                        Op::AssignConst(v, _) | Op::AssignAdd(v, _, _) | Op::AssignCopy(v, _) | Op::AssignBin(v, _, _, _) | Op::Load(v) | Op::IntrWrites(v) => assigned[*v] = true,
                        Op::Nop | Op::Store(_) | Op::Branch | Op::IntrUndeclared => {}
                    }
                    match op {
                        Op::AssignConst(v, k) => store[*v] = *k,
                        Op::AssignAdd(v, w, k) => store[*v] = (store[*w] + *k) & mask,
                        Op::AssignCopy(v, w) => store[*v] = store[*w],
                        Op::AssignBin(v, w, u, o) => store[*v] = bin_val(*o, store[*w], store[*u], mask),
                        // small values (so that they collide with the constants 0..2) or a value with high bits set
                        Op::Load(v) | Op::IntrWrites(v) => store[*v] = if rng.below(4) == 0 { (0x80 + rng.below(0x70)) & mask } else { rng.below(4) },
                        Op::Nop | Op::Store(_) | Op::Branch | Op::IntrUndeclared => {}
                    }
                    steps += 1;
                }
                let outs: Vec<usize> = edges.iter().filter(|(h, _)| *h == b).map(|(_, t)| *t).collect();
                if outs.is_empty() || steps > 40 { break 'run; }
                let t = outs[rng.below(outs.len() as u64) as usize];
                check_at!(FunctionLocation::Edge(b, t));
                b = t;
                steps += 1;
            }
        }
    }
    let po: Vec<String> = per_op.iter().map(|(k, v)| format!("\"{}\":{}", k, v)).collect();
    println!("{{\"summary\":true,\"evaluations\":{},\"disagreements\":{},\"per_op\":{{{}}},\"seed\":{},\"functions\":{},\"ok\":{},\"visited_locations_without_report\":{}}}",
        checks, found, po.join(","), seed, n, ok, missing);
}
