// C13 bounded witness search: random small IL functions in which every scalar is assigned in the entry block
// (so no scalar is read before it is assigned), `constants()` of the real crate, and random concrete
// executions; reports (a) panics, (b) errors, (c) a reported constant that a concrete execution contradicts.
// Purpose: look for an input on which the solver stops early with a stale state because
// Constants::partial_cmp answers Equal for two different constants (argued unreachable in units/C13/meta.json).
// Output: one JSON line per disagreement (at most 3 per op) and a final summary line
//   {"summary":true,"evaluations":N,"disagreements":M,"per_op":{...}}
// Deterministic: the generator is seeded from the environment variable VERIF_SEED (default 0); the number of
// functions is the first command-line argument (default 200000).
// ops: "completes" (panic or Err on a def-before-use function), "constant" (a reported constant of an assigned
// scalar differs from the value a concrete execution has immediately before the location executes; instruction,
// edge and empty-block locations), "eval" (Constants::eval of an assignment's right-hand side returns a value that
// differs from the value the expression has in that execution).
use falcon::analysis::constants::constants;
use falcon::il::*;
use std::collections::{BTreeMap, BTreeSet};
use std::panic;

struct Rng(u64);
impl Rng {
    fn next(&mut self) -> u64 {
        self.0 ^= self.0 << 13;
        self.0 ^= self.0 >> 7;
        self.0 ^= self.0 << 17;
        self.0
    }
    fn below(&mut self, n: u64) -> u64 { self.next() % n }
}

const NAMES: [&str; 3] = ["a", "b", "c"];

#[derive(Clone, Debug)]
enum Op { AssignConst(usize, u64), AssignAdd(usize, usize, u64), AssignCopy(usize, usize), AssignSum(usize, usize, usize), Load(usize), Nop }

fn gen(rng: &mut Rng) -> (Vec<Vec<Op>>, Vec<(usize, usize)>) {
    let nblocks = 2 + rng.below(4) as usize;
    let mut blocks = Vec::new();
    for b in 0..nblocks {
        let mut ops = Vec::new();
        if b == 0 {
            for v in 0..3 { ops.push(Op::AssignConst(v, rng.below(3))); }
        }
        for _ in 0..rng.below(4) {
            let v = rng.below(3) as usize;
            let w = rng.below(3) as usize;
            let u = rng.below(3) as usize;
            ops.push(match rng.below(7) {
                0 | 1 => Op::AssignConst(v, rng.below(3)),
                2 => Op::AssignAdd(v, w, rng.below(2)),
                3 => Op::AssignCopy(v, w),
                4 => Op::AssignSum(v, w, u),
                5 => Op::Load(v),
                _ => Op::Nop,
            });
        }
        blocks.push(ops);
    }
    let mut edges = Vec::new();
    for _ in 0..(nblocks + rng.below(4) as usize) {
        let h = rng.below(nblocks as u64) as usize;
        let t = rng.below(nblocks as u64) as usize;
        if !edges.contains(&(h, t)) { edges.push((h, t)); }
    }
    (blocks, edges)
}

fn sc(v: usize) -> Scalar { scalar(NAMES[v], 32) }
fn ex(v: usize) -> Expression { expr_scalar(NAMES[v], 32) }

fn build(blocks: &[Vec<Op>], edges: &[(usize, usize)]) -> Function {
    let mut cfg = ControlFlowGraph::new();
    for ops in blocks {
        let b = cfg.new_block().unwrap();
        for op in ops {
            match op {
                Op::AssignConst(v, k) => b.assign(sc(*v), expr_const(*k, 32)),
                Op::AssignAdd(v, w, k) => b.assign(sc(*v), Expression::add(ex(*w), expr_const(*k, 32)).unwrap()),
                Op::AssignCopy(v, w) => b.assign(sc(*v), ex(*w)),
                Op::AssignSum(v, w, u) => b.assign(sc(*v), Expression::add(ex(*w), ex(*u)).unwrap()),
                Op::Load(v) => b.load(sc(*v), expr_const(0x1000, 32)),
                Op::Nop => b.nop(),
            }
        }
    }
    for (h, t) in edges { cfg.unconditional_edge(*h, *t).unwrap(); }
    cfg.set_entry(0).unwrap();
    Function::new(0, cfg)
}

fn json_str(s: String) -> String { s.replace('\\', "/").replace('"', "'").chars().take(600).collect() }

fn main() {
    let n: u64 = std::env::args().nth(1).and_then(|s| s.parse().ok()).unwrap_or(200_000);
    let seed: u64 = std::env::var("VERIF_SEED").ok().and_then(|s| s.trim().parse().ok()).unwrap_or(0);
    panic::set_hook(Box::new(|_| {}));
    // xorshift needs a non-zero state; seed 0 gives the stream the unit's evidence was recorded with
    let mut state = 0x9E3779B97F4A7C15u64 ^ seed.wrapping_mul(0xD1B5_4A32_D192_ED03);
    if state == 0 { state = 0x9E3779B97F4A7C15; }
    let mut rng = Rng(state);
    let mut per_op: BTreeMap<String, u64> = BTreeMap::new();
    let (mut ok, mut checks, mut found, mut missing) = (0u64, 0u64, 0u64, 0u64);
    macro_rules! report {
        ($op:expr, $it:expr, $blocks:expr, $edges:expr, $what:expr, $got:expr, $exp:expr) => {{
            let c = per_op.entry($op.to_string()).or_insert(0);
            *c += 1;
            if *c <= 3 {
                println!("{{\"witness\":true,\"op\":\"{}\",\"seed\":{},\"function\":{},\"blocks\":\"{}\",\"edges\":\"{:?}\",\"query\":\"{}\",\"got\":\"{}\",\"expected\":\"{}\"}}",
                    $op, seed, $it, json_str(format!("{:?}", $blocks)), $edges, json_str($what), json_str(format!("{}", $got)), json_str(format!("{}", $exp)));
            }
            found += 1;
        }};
    }
    for it in 0..n {
        let (blocks, edges) = gen(&mut rng);
        let f = build(&blocks, &edges);
        let f2 = f.clone();
        checks += 1;
        let map = match panic::catch_unwind(move || constants(&f2)) {
            Err(_) => { report!("completes", it, blocks, edges, "constants(function)".to_string(), "panic", "Ok(..)"); continue; }
            Ok(Err(e)) => { report!("completes", it, blocks, edges, "constants(function)".to_string(), format!("Err({})", e), "Ok(..)"); continue; }
            Ok(Ok(m)) => m,
        };
        ok += 1;
        let mut bad: BTreeSet<String> = BTreeSet::new();
        // random concrete executions: the store maps the three scalars to values; a Load yields a random value
        for _ in 0..8 {
            let mut store: [u64; 3] = [rng.below(5) + 10, rng.below(5) + 10, rng.below(5) + 10];
            let mut b = 0usize;
            let mut steps = 0;
            let mut assigned = [false; 3];
            'run: loop {
                // the reported constants immediately before `loc` executes; the claim is about the scalars the
                // function itself has assigned so far
                macro_rules! check_at {
                    ($fl:expr) => {{
                        let loc = ProgramLocation::new(None, $fl);
                        match map.get(&loc) {
                            Some(c) => {
                                for v in 0..3 {
                                    if !assigned[v] { continue; }
                                    let got = panic::catch_unwind(panic::AssertUnwindSafe(|| c.scalar(&sc(v)).map(|k| k.value_u64())));
                                    checks += 1;
                                    match got {
                                        Ok(None) => {}
                                        Ok(Some(k)) if k == Some(store[v] & 0xffff_ffff) => {}
                                        Ok(Some(k)) => { let q = format!("constants()[{}].scalar({})", loc, NAMES[v]);
                                            // one report per (function, location, scalar)
                                            if bad.insert(q.clone()) { report!("constant", it, blocks, edges, q, format!("{:?}", k), format!("no constant, or {} (an execution has that value there)", store[v])) } }
                                        Err(_) => report!("constant", it, blocks, edges, format!("constants()[{}].scalar({})", loc, NAMES[v]), "panic", "no panic"),
                                    }
                                }
                                Some(c)
                            }
                            None => { missing += 1; None }
                        }
                    }};
                }
                if blocks[b].is_empty() { check_at!(FunctionLocation::EmptyBlock(b)); }
                for (i, op) in blocks[b].iter().enumerate() {
                    let c = check_at!(FunctionLocation::Instruction(b, i));
                    // Constants::eval on the right-hand side: declines, or the value it has in this execution
                    let rhs: Option<(Expression, u64, Vec<usize>)> = match op {
                        Op::AssignConst(_, k) => Some((expr_const(*k, 32), *k, vec![])),
                        Op::AssignAdd(_, w, k) => Some((Expression::add(ex(*w), expr_const(*k, 32)).unwrap(), (store[*w] + *k) & 0xffff_ffff, vec![*w])),
                        Op::AssignCopy(_, w) => Some((ex(*w), store[*w], vec![*w])),
                        Op::AssignSum(_, w, u) => Some((Expression::add(ex(*w), ex(*u)).unwrap(), (store[*w] + store[*u]) & 0xffff_ffff, vec![*w, *u])),
                        Op::Load(_) | Op::Nop => None,
                    };
                    if let (Some(c), Some((e, val, reads))) = (c, rhs) {
                        if reads.iter().all(|r| assigned[*r]) {
                            checks += 1;
                            match panic::catch_unwind(panic::AssertUnwindSafe(|| c.eval(&e).map(|k| k.value_u64()))) {
                                Ok(None) => {}
                                Ok(Some(k)) if k == Some(val) => {}
                                Ok(Some(k)) => { let q = format!("constants()[block {} instruction {}].eval({})", b, i, e);
                                    if bad.insert(q.clone()) { report!("eval", it, blocks, edges, q, format!("{:?}", k), format!("declines, or {} (the value in an execution)", val)) } }
                                Err(_) => report!("eval", it, blocks, edges, format!("constants()[block {} instruction {}].eval({})", b, i, e), "panic", "declines or a value"),
                            }
                        }
                    }
                    match op {
                        Op::AssignConst(v, _) | Op::AssignAdd(v, _, _) | Op::AssignCopy(v, _) | Op::AssignSum(v, _, _) | Op::Load(v) => assigned[*v] = true,
                        Op::Nop => {}
                    }
                    match op {
                        Op::AssignConst(v, k) => store[*v] = *k,
                        Op::AssignAdd(v, w, k) => store[*v] = (store[*w] + *k) & 0xffff_ffff,
                        Op::AssignCopy(v, w) => store[*v] = store[*w],
                        Op::AssignSum(v, w, u) => store[*v] = (store[*w] + store[*u]) & 0xffff_ffff,
                        Op::Load(v) => store[*v] = rng.below(4),
                        Op::Nop => {}
                    }
                    steps += 1;
                }
                let outs: Vec<usize> = edges.iter().filter(|(h, _)| *h == b).map(|(_, t)| *t).collect();
                if outs.is_empty() || steps > 40 { break 'run; }
                let t = outs[rng.below(outs.len() as u64) as usize];
                check_at!(FunctionLocation::Edge(b, t));
                b = t;
                steps += 1;
            }
        }
    }
    let po: Vec<String> = per_op.iter().map(|(k, v)| format!("\"{}\":{}", k, v)).collect();
    println!("{{\"summary\":true,\"evaluations\":{},\"disagreements\":{},\"per_op\":{{{}}},\"seed\":{},\"functions\":{},\"ok\":{},\"visited_locations_without_report\":{}}}",
        checks, found, po.join(","), seed, n, ok, missing);
}
