// C13 bounded witness search: random small IL functions in which every scalar is assigned in the entry block
// (so no scalar is read before it is assigned), `constants()` of the real crate, and random concrete
// executions; reports (a) panics, (b) errors, (c) a reported constant that a concrete execution contradicts.
// Purpose: look for an input on which the solver stops early with a stale state because
// Constants::partial_cmp answers Equal for two different constants (argued unreachable in units/C13/meta.json).
use falcon::analysis::constants::constants;
use falcon::il::*;
use std::collections::HashMap;
use std::panic;

struct Rng(u64);
impl Rng {
    fn next(&mut self) -> u64 {
        self.0 ^= self.0 << 13;
        self.0 ^= self.0 >> 7;
        self.0 ^= self.0 << 17;
        self.0
    }
    fn below(&mut self, n: u64) -> u64 { self.next() % n }
}

const NAMES: [&str; 3] = ["a", "b", "c"];

#[derive(Clone, Debug)]
enum Op { AssignConst(usize, u64), AssignAdd(usize, usize, u64), AssignCopy(usize, usize), AssignSum(usize, usize, usize), Load(usize), Nop }

fn gen(rng: &mut Rng) -> (Vec<Vec<Op>>, Vec<(usize, usize)>) {
    let nblocks = 2 + rng.below(4) as usize;
    let mut blocks = Vec::new();
    for b in 0..nblocks {
        let mut ops = Vec::new();
        if b == 0 {
            for v in 0..3 { ops.push(Op::AssignConst(v, rng.below(3))); }
        }
        for _ in 0..rng.below(4) {
            let v = rng.below(3) as usize;
            let w = rng.below(3) as usize;
            let u = rng.below(3) as usize;
            ops.push(match rng.below(7) {
                0 | 1 => Op::AssignConst(v, rng.below(3)),
                2 => Op::AssignAdd(v, w, rng.below(2)),
                3 => Op::AssignCopy(v, w),
                4 => Op::AssignSum(v, w, u),
                5 => Op::Load(v),
                _ => Op::Nop,
            });
        }
        blocks.push(ops);
    }
    let mut edges = Vec::new();
    for _ in 0..(nblocks + rng.below(4) as usize) {
        let h = rng.below(nblocks as u64) as usize;
        let t = rng.below(nblocks as u64) as usize;
        if !edges.contains(&(h, t)) { edges.push((h, t)); }
    }
    (blocks, edges)
}

fn sc(v: usize) -> Scalar { scalar(NAMES[v], 32) }
fn ex(v: usize) -> Expression { expr_scalar(NAMES[v], 32) }

fn build(blocks: &[Vec<Op>], edges: &[(usize, usize)]) -> Function {
    let mut cfg = ControlFlowGraph::new();
    for ops in blocks {
        let b = cfg.new_block().unwrap();
        for op in ops {
            match op {
                Op::AssignConst(v, k) => b.assign(sc(*v), expr_const(*k, 32)),
                Op::AssignAdd(v, w, k) => b.assign(sc(*v), Expression::add(ex(*w), expr_const(*k, 32)).unwrap()),
                Op::AssignCopy(v, w) => b.assign(sc(*v), ex(*w)),
                Op::AssignSum(v, w, u) => b.assign(sc(*v), Expression::add(ex(*w), ex(*u)).unwrap()),
                Op::Load(v) => b.load(sc(*v), expr_const(0x1000, 32)),
                Op::Nop => b.nop(),
            }
        }
    }
    for (h, t) in edges { cfg.unconditional_edge(*h, *t).unwrap(); }
    cfg.set_entry(0).unwrap();
    Function::new(0, cfg)
}

fn main() {
    let n: u64 = std::env::args().nth(1).and_then(|s| s.parse().ok()).unwrap_or(200_000);
    panic::set_hook(Box::new(|_| {}));
    let mut rng = Rng(0x9E3779B97F4A7C15);
    let (mut ok, mut errs, mut panics, mut unsound, mut checks) = (0u64, HashMap::<String, u64>::new(), 0u64, 0u64, 0u64);
    for it in 0..n {
        let (blocks, edges) = gen(&mut rng);
        let f = build(&blocks, &edges);
        let f2 = f.clone();
        let r = panic::catch_unwind(move || constants(&f2));
        let map = match r {
            Err(_) => {
                panics += 1;
                if panics <= 3 {
                    println!("PANIC on {:?} edges {:?}", blocks, edges);
                    println!("{{\"witness\":true,\"op\":\"constants\",\"blocks\":\"{:?}\",\"edges\":\"{:?}\",\"got\":\"panic\",\"expected\":\"Ok or Err (completion)\"}}", blocks, edges);
                }
                continue;
            }
            Ok(Err(e)) => { *errs.entry(format!("{}", e).chars().take(40).collect()).or_insert(0) += 1; continue; }
            Ok(Ok(m)) => m,
        };
        ok += 1;
        // random concrete executions: the store maps the three scalars to values; a Load yields a random value
        for _ in 0..8 {
            let mut store: [u64; 3] = [rng.below(5) + 10, rng.below(5) + 10, rng.below(5) + 10];
            let mut b = 0usize;
            let mut steps = 0;
            let mut assigned = [false; 3];
            'run: loop {
                for (i, op) in blocks[b].iter().enumerate() {
                    // check the reported constants immediately before the instruction executes
                    let loc = ProgramLocation::new(None, FunctionLocation::Instruction(b, i));
                    if let Some(c) = map.get(&loc) {
                        // the claim is about the scalars the function itself has assigned so far
                        {
                            for v in 0..3 {
                                if !assigned[v] { continue; }
                                if let Some(k) = c.scalar(&sc(v)) {
                                    checks += 1;
                                    if k.value_u64() != Some(store[v] & 0xffff_ffff) {
                                        unsound += 1;
                                        if unsound <= 5 {
                                            println!("UNSOUND #{}: blocks {:?} edges {:?}: at {} the analysis reports {} = {} but an execution has {}", it, blocks, edges, loc, NAMES[v], k, store[v]);
                                            println!("{{\"witness\":true,\"op\":\"constants\",\"blocks\":\"{:?}\",\"edges\":\"{:?}\",\"location\":\"{}\",\"scalar\":\"{}\",\"got\":\"{}\",\"expected\":\"{}\"}}", blocks, edges, loc, NAMES[v], k, store[v]);
                                        }
                                    }
                                }
                            }
                        }
                    } else {
                        println!("MISSING location {} in the result of #{}", loc, it);
                    }
                    match op {
                        Op::AssignConst(v, _) | Op::AssignAdd(v, _, _) | Op::AssignCopy(v, _) | Op::AssignSum(v, _, _) | Op::Load(v) => assigned[*v] = true,
                        Op::Nop => {}
                    }
                    match op {
                        Op::AssignConst(v, k) => store[*v] = *k,
                        Op::AssignAdd(v, w, k) => store[*v] = (store[*w] + *k) & 0xffff_ffff,
                        Op::AssignCopy(v, w) => store[*v] = store[*w],
                        Op::AssignSum(v, w, u) => store[*v] = (store[*w] + store[*u]) & 0xffff_ffff,
                        Op::Load(v) => store[*v] = rng.below(4),
                        Op::Nop => {}
                    }
                    steps += 1;
                }
                let outs: Vec<usize> = edges.iter().filter(|(h, _)| *h == b).map(|(_, t)| *t).collect();
                if outs.is_empty() || steps > 40 { break 'run; }
                b = outs[rng.below(outs.len() as u64) as usize];
                steps += 1;
            }
        }
    }
    println!("functions: {}  Ok: {}  panics: {}  errors: {:?}", n, ok, panics, errs);
    println!("constant checks against concrete executions: {}  contradictions: {}", checks, unsound);
    let nerr: u64 = errs.values().sum();
    println!("{{\"summary\":true,\"functions\":{},\"ok\":{},\"panics\":{},\"errors\":{},\"evaluations\":{},\"disagreements\":{}}}", n, ok, panics, nerr, checks, unsound + panics);
}
