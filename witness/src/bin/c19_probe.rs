// Probe for property C19 (loader::Elf): confirms each suspected defect against the real crate.
// The ELF image is built by hand (no binaries ship with the repository):
//   ELF64 little-endian EM_X86_64, one PT_LOAD covering the whole file at vaddr 0x400000, one PT_DYNAMIC with
//   DT_STRTAB/DT_SYMTAB/DT_STRSZ/DT_SYMENT/DT_JMPREL/DT_PLTRELSZ/DT_PLTREL, a three-entry .dynsym
//   (null, defined function `main` at 0x400200, import `puts`), and one JUMP_SLOT relocation for `puts`
//   whose GOT slot is at 0x400300.
use falcon::loader::{Elf, Loader};
use falcon::memory::MemoryPermissions as P;
use std::panic::{catch_unwind, AssertUnwindSafe};

fn show<T: std::fmt::Debug>(what: &str, f: impl FnOnce() -> T) {
    match catch_unwind(AssertUnwindSafe(f)) {
        Ok(v) => println!("{:<74} => {:x?}", what, v),
        Err(e) => {
            let msg = e
                .downcast_ref::<String>()
                .cloned()
                .or_else(|| e.downcast_ref::<&str>().map(|s| s.to_string()))
                .unwrap_or_default();
            println!("{:<74} => PANIC: {}", what, msg)
        }
    }
}

fn w16(v: &mut Vec<u8>, x: u16) { v.extend_from_slice(&x.to_le_bytes()); }
fn w32(v: &mut Vec<u8>, x: u32) { v.extend_from_slice(&x.to_le_bytes()); }
fn w64(v: &mut Vec<u8>, x: u64) { v.extend_from_slice(&x.to_le_bytes()); }

const VA: u64 = 0x400000;
const ENTRY: u64 = 0x400100;
const MAIN: u64 = 0x400200;
const GOT_PUTS: u64 = 0x400300;

/// `filesz`/`memsz` of the PT_LOAD header are parameters so that the malformed variants can be produced.
fn image(load_filesz: Option<u64>, load_memsz: Option<u64>, load_flags: u32) -> Vec<u8> {
    const DYN_OFF: u64 = 0xb0;
    const SYM_OFF: u64 = 0x130;
    const STR_OFF: u64 = 0x178;
    const REL_OFF: u64 = 0x188;
    const LEN: u64 = 0x1a0;
    let mut v = Vec::new();
    // e_ident
    v.extend_from_slice(&[0x7f, b'E', b'L', b'F', 2, 1, 1, 0, 0, 0, 0, 0, 0, 0, 0, 0]);
    w16(&mut v, 2); // e_type = ET_EXEC
    w16(&mut v, 0x3e); // e_machine = EM_X86_64
    w32(&mut v, 1); // e_version
    w64(&mut v, ENTRY); // e_entry
    w64(&mut v, 64); // e_phoff
    w64(&mut v, 0); // e_shoff
    w32(&mut v, 0); // e_flags
    w16(&mut v, 64); // e_ehsize
    w16(&mut v, 56); // e_phentsize
    w16(&mut v, 2); // e_phnum
    w16(&mut v, 64); // e_shentsize
    w16(&mut v, 0); // e_shnum
    w16(&mut v, 0); // e_shstrndx
    assert_eq!(v.len(), 64);
    // PT_LOAD
    w32(&mut v, 1);
    w32(&mut v, load_flags);
    w64(&mut v, 0); // p_offset
    w64(&mut v, VA); // p_vaddr
    w64(&mut v, VA); // p_paddr
    w64(&mut v, load_filesz.unwrap_or(LEN));
    w64(&mut v, load_memsz.unwrap_or(LEN + 0x10));
    w64(&mut v, 0x1000);
    // PT_DYNAMIC
    w32(&mut v, 2);
    w32(&mut v, 6);
    w64(&mut v, DYN_OFF);
    w64(&mut v, VA + DYN_OFF);
    w64(&mut v, VA + DYN_OFF);
    w64(&mut v, 0x80);
    w64(&mut v, 0x80);
    w64(&mut v, 8);
    assert_eq!(v.len() as u64, DYN_OFF);
    for (tag, val) in [
        (5u64, VA + STR_OFF), // DT_STRTAB
        (6, VA + SYM_OFF),    // DT_SYMTAB
        (10, 11),             // DT_STRSZ
        (11, 24),             // DT_SYMENT
        (23, VA + REL_OFF),   // DT_JMPREL
        (2, 24),              // DT_PLTRELSZ
        (20, 7),              // DT_PLTREL = DT_RELA
        (0, 0),               // DT_NULL
    ] {
        w64(&mut v, tag);
        w64(&mut v, val);
    }
    assert_eq!(v.len() as u64, SYM_OFF);
    // .dynsym: Elf64_Sym { st_name: u32, st_info: u8, st_other: u8, st_shndx: u16, st_value: u64, st_size: u64 }
    for (name, info, shndx, value) in [(0u32, 0u8, 0u16, 0u64), (6, 0x12, 1, MAIN), (1, 0x12, 0, 0)] {
        w32(&mut v, name);
        v.push(info);
        v.push(0);
        w16(&mut v, shndx);
        w64(&mut v, value);
        w64(&mut v, 0);
    }
    assert_eq!(v.len() as u64, STR_OFF);
    v.extend_from_slice(b"\0puts\0main\0");
    while (v.len() as u64) < REL_OFF {
        v.push(0);
    }
    // .rela.plt: Elf64_Rela { r_offset, r_info = sym << 32 | type, r_addend }
    w64(&mut v, GOT_PUTS);
    w64(&mut v, (2u64 << 32) | 7); // symbol 2 (`puts`), R_X86_64_JUMP_SLOT
    w64(&mut v, 0);
    assert_eq!(v.len() as u64, LEN);
    v
}

fn main() {
    std::panic::set_hook(Box::new(|_| {}));
    println!("build: debug_assertions={}", cfg!(debug_assertions));
    const B: u64 = 0x1000_0000;

    let e0 = Elf::new(image(None, None, 5), 0).unwrap();
    let eb = Elf::new(image(None, None, 5), B).unwrap();

    println!("-- sanity: memory image (PT_LOAD filesz 0x1a0, memsz 0x1b0, flags R+X, vaddr 0x400000), base 0 and base B=0x10000000");
    for (n, e, b) in [("base 0", &e0, 0u64), ("base B", &eb, B)] {
        let m = e.memory().unwrap();
        show(&format!("{}: sections (address, len, permissions)", n), || {
            m.sections().iter().map(|(a, s)| (*a, s.len(), s.permissions())).collect::<Vec<_>>()
        });
        show(&format!("{}: get8(va+b+1) ('E'), get8(va+b+0x19f), get8(va+b+0x1a0) (zero fill), get8(va+b+0x1b0)", n), || {
            (m.get8(VA + b + 1), m.get8(VA + b + 0x19f), m.get8(VA + b + 0x1a0), m.get8(VA + b + 0x1b0))
        });
        show(&format!("{}: permissions == READ|EXECUTE", n), || m.permissions(VA + b) == Some(P::READ | P::EXECUTE));
    }

    println!("-- (i) program_entry() is not rebased, function_entries() is");
    show("base 0: program_entry()", || e0.program_entry());
    show("base B: program_entry()                      [expected 0x10400100]", || eb.program_entry());
    show("base 0: function_entries()", || {
        e0.function_entries().unwrap().iter().map(|f| (f.address(), f.name().map(|s| s.to_string()))).collect::<Vec<_>>()
    });
    show("base B: function_entries()", || {
        eb.function_entries().unwrap().iter().map(|f| (f.address(), f.name().map(|s| s.to_string()))).collect::<Vec<_>>()
    });
    show("base B: function_entries() contains program_entry()   [expected true]", || {
        let pe = eb.program_entry();
        eb.function_entries().unwrap().iter().any(|f| f.address() == pe)
    });

    println!("-- (ii) symbols(): PLT relocation symbol `puts` (GOT slot 0x400300) is not rebased, dynsym `main` is");
    show("base 0: symbols()", || Loader::symbols(&e0).iter().map(|s| (s.address(), s.name().to_string())).collect::<Vec<_>>());
    show("base B: symbols()        [expected puts at 0x10400300]", || {
        Loader::symbols(&eb).iter().map(|s| (s.address(), s.name().to_string())).collect::<Vec<_>>()
    });
    show("base B: exported_symbols()", || eb.exported_symbols().iter().map(|s| (s.address(), s.name().to_string())).collect::<Vec<_>>());

    println!("-- (iii) malformed: p_memsz < p_filesz");
    let bad = Elf::new(image(Some(0x1a0), Some(0x100), 5), 0).unwrap();
    show("PT_LOAD filesz 0x1a0, memsz 0x100: memory()", || bad.memory().map(|m| m.sections().len()));

    println!("-- file range outside the file: Err, no panic");
    let short = Elf::new(image(Some(0x1a1), Some(0x1a1), 5), 0).unwrap();
    show("PT_LOAD filesz 0x1a1 (file is 0x1a0 bytes): memory()", || short.memory().map(|m| m.sections().len()).map_err(|e| format!("{}", e)));

    println!("-- further malformed inputs that the contracts exclude by precondition");
    // st_name of `main` (dynsym 1, at file offset 0x130 + 24) points outside the 11-byte .dynstr
    let mut img = image(None, None, 5);
    img[0x130 + 24..0x130 + 28].copy_from_slice(&0x1000u32.to_le_bytes());
    let badname = Elf::new(img, 0).unwrap();
    show("st_name 0x1000 outside .dynstr (11 bytes): function_entries()", || badname.function_entries().map(|v| v.len()).map_err(|e| format!("{}", e)));
    show("st_name 0x1000 outside .dynstr (11 bytes): symbols()", || Loader::symbols(&badname).len());
    // p_offset + p_filesz wraps around 2^64
    let mut img = image(None, None, 5);
    img[64 + 8..64 + 16].copy_from_slice(&(u64::MAX - 1).to_le_bytes());
    show("PT_LOAD p_offset 2^64-2, p_filesz 0x1a0: Elf::new + memory()", || {
        Elf::new(img.clone(), 0).map_err(|e| format!("{}", e)).and_then(|e| e.memory().map(|m| m.sections().len()).map_err(|e| format!("{}", e)))
    });
    // p_vaddr + base wraps around 2^64
    let high = Elf::new(image(None, None, 5), u64::MAX - 0x1000).unwrap();
    show("base 2^64-0x1001 (p_vaddr + base wraps): memory()", || high.memory().map(|m| m.sections().len()).map_err(|e| format!("{}", e)));

    println!("-- user entries");
    let mut eu = Elf::new(image(None, None, 5), B).unwrap();
    eu.add_user_function(0x400180);
    eu.add_user_function(MAIN); // already a symbol: keeps the symbol's name
    show("base B + user 0x400180, 0x400200: function_entries()", || {
        eu.function_entries().unwrap().iter().map(|f| (f.address(), f.name().map(|s| s.to_string()))).collect::<Vec<_>>()
    });
}
