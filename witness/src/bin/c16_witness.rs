//! Bounded witness search for unit C16 (labelled bounded, never counted as proved): every sequence of up to 3
//! region writes inside a 10-byte window (lengths 0..=4, two permission values), both endiannesses, followed by
//! every byte / permission / multi-byte read and every in-region set32, compared with a byte-map model.
use falcon::architecture::Endian;
use falcon::memory::backing::Memory;
use falcon::memory::MemoryPermissions as P;
use std::collections::BTreeMap;
use std::panic::{catch_unwind, AssertUnwindSafe};

const LO: u64 = 0x10;
const HI: u64 = 0x1a;

type Model = BTreeMap<u64, (u8, u32)>;

fn value(bytes: &[u8], big: bool) -> u128 {
    let mut v = 0u128;
    if big { for b in bytes { v = (v << 8) | *b as u128; } } else { for b in bytes.iter().rev() { v = (v << 8) | *b as u128; } }
    v
}

fn deep() -> bool { std::env::var("VERIF_TIER").map(|t| t == "thorough").unwrap_or(false) } // thorough tier: wider bounds
fn main() {
    std::panic::set_hook(Box::new(|_| {}));
    let mut found = 0usize;
    let mut evals = 0u64;
    let mut per_op: BTreeMap<String, usize> = BTreeMap::new();
    macro_rules! report {
        ($op:expr, $hist:expr, $big:expr, $what:expr, $got:expr, $exp:expr) => {{
            let c = per_op.entry($op.to_string()).or_insert(0);
            *c += 1;
            if *c <= 3 {
                println!("{{\"witness\":true,\"op\":\"{}\",\"endian\":\"{}\",\"writes\":\"{:?}\",\"query\":\"{}\",\"got\":\"{}\",\"expected\":\"{}\"}}",
                    $op, if $big { "big" } else { "little" }, $hist, $what, format!("{:?}", $got).replace('"', "'"), format!("{:?}", $exp).replace('"', "'"));
            }
            found += 1;
        }};
    }
    // all single writes
    let mut writes: Vec<(u64, usize, u32)> = vec![];
    for a in LO..HI { for l in 0..=4usize { for p in [P::READ.bits(), (P::READ | P::WRITE).bits()] { writes.push((a, l, p)); } } }
    let n = writes.len();
    let mut counter = 0u8;
    for len in 1..=3usize {
        let total = n.pow(len as u32);
        for code in 0..total {
            // thin out the 3-write sequences: keep 1 in 5 (deterministic)
            if len == 3 && !deep() && code % 5 != 0 { continue; }
            let mut idx = code;
            let mut hist = vec![];
            for _ in 0..len { hist.push(writes[idx % n]); idx /= n; }
            for big in [false, true] {
                let mut mem = Memory::new(if big { Endian::Big } else { Endian::Little });
                let mut model: Model = Model::new();
                let mut ok_build = true;
                for (a, l, p) in &hist {
                    let data: Vec<u8> = (0..*l).map(|_| { counter = counter.wrapping_add(37); counter | 1 }).collect();
                    for (i, b) in data.iter().enumerate() { model.insert(a + i as u64, (*b, *p)); }
                    let r = catch_unwind(AssertUnwindSafe(|| mem.set_memory(*a, data.clone(), P::from_bits_truncate(*p))));
                    evals += 1;
                    if r.is_err() { report!("set_memory", hist, big, format!("set_memory({:#x}, {} bytes)", a, l), "panic", "no panic"); ok_build = false; break; }
                }
                if !ok_build { continue; }
                // sections do not overlap
                let mut prev_end = 0u64;
                for (a, s) in mem.sections() {
                    if *a < prev_end { report!("set_memory", hist, big, "sections()", format!("section at {:#x} overlaps previous end {:#x}", a, prev_end), "disjoint sections"); }
                    prev_end = a + s.len() as u64;
                }
                for x in (LO - 2)..(HI + 6) {
                    evals += 2;
                    let g = catch_unwind(AssertUnwindSafe(|| mem.get8(x)));
                    let e = model.get(&x).map(|v| v.0);
                    match g { Ok(v) if v == e => {}, other => report!("get8", hist, big, format!("get8({:#x})", x), other.ok(), e) }
                    let g = catch_unwind(AssertUnwindSafe(|| mem.permissions(x).map(|p| p.bits())));
                    let e = model.get(&x).map(|v| v.1);
                    match g { Ok(v) if v == e => {}, other => report!("permissions", hist, big, format!("permissions({:#x})", x), other.ok(), e) }
                    for bits in [8usize, 16, 24, 32, 64, 0, 12] {
                        evals += 1;
                        let nb = bits / 8;
                        let bytes: Option<Vec<u8>> = (0..nb).map(|i| model.get(&(x + i as u64)).map(|v| v.0)).collect();
                        let e: Option<(usize, u128)> = if bits == 0 || bits % 8 != 0 { None } else { bytes.map(|b| (bits, value(&b, big))) };
                        let g = catch_unwind(AssertUnwindSafe(|| mem.get(x, bits).map(|c| (c.bits(), c.value_u128().unwrap()))));
                        match g { Ok(v) if v == e => {}, other => report!("get", hist, big, format!("get({:#x}, {})", x, bits), other.ok(), e) }
                    }
                    // get32: Some(v) must be the four bytes; inside one section it must be Some
                    evals += 1;
                    let bytes: Option<Vec<u8>> = (0..4).map(|i| model.get(&(x + i as u64)).map(|v| v.0)).collect();
                    let in_one = mem.sections().iter().any(|(a, s)| *a <= x && x + 4 <= a + s.len() as u64);
                    let g = catch_unwind(AssertUnwindSafe(|| mem.get32(x)));
                    match (&g, &bytes) {
                        (Ok(Some(v)), Some(b)) if *v as u128 == value(b, big) => {}
                        (Ok(None), _) if !in_one => {}
                        _ => report!("get32", hist, big, format!("get32({:#x})", x), g.ok(), bytes.as_ref().map(|b| value(b, big))),
                    }
                    // set32 inside one section: writes exactly those four bytes
                    if in_one && len <= 2 {
                        evals += 1;
                        let mut m2 = mem.clone();
                        let val = 0xa1b2c3d4u32;
                        let r = catch_unwind(AssertUnwindSafe(|| m2.set32(x, val).is_ok()));
                        let vb: [u8; 4] = if big { val.to_be_bytes() } else { val.to_le_bytes() };
                        let mut good = matches!(r, Ok(true));
                        if good {
                            for y in (LO - 2)..(HI + 6) {
                                let e = if y >= x && y < x + 4 { Some(vb[(y - x) as usize]) } else { model.get(&y).map(|v| v.0) };
                                good = good && m2.get8(y) == e && m2.permissions(y).map(|p| p.bits()) == model.get(&y).map(|v| v.1);
                            }
                        }
                        if !good { report!("set32", hist, big, format!("set32({:#x}, 0xa1b2c3d4)", x), "wrong bytes / permissions / error", "exactly four bytes written"); }
                    }
                }
            }
        }
    }
    let po: Vec<String> = per_op.iter().map(|(k, v)| format!("\"{}\":{}", k, v)).collect();
    println!("{{\"summary\":true,\"evaluations\":{},\"disagreements\":{},\"per_op\":{{{}}}}}", evals, found, po.join(","));
}
