use falcon::il::*;
fn main() {
    let r = std::panic::catch_unwind(|| Constant::new(0x80, 8).ashr(&Constant::new(9, 8)).unwrap());
    println!("ashr(0x80:8, 9:8) = {:?}", r.map(|c| format!("{}", c)));
    println!("ashr(0x80:8, 8:8) = {}", Constant::new(0x80, 8).ashr(&Constant::new(8, 8)).unwrap());
    println!("ashr(0x80:8, 3:8) = {}", Constant::new(0x80, 8).ashr(&Constant::new(3, 8)).unwrap());
    println!("ashr(0x40:8, 9:8) = {}", Constant::new(0x40, 8).ashr(&Constant::new(9, 8)).unwrap());
    println!("sext(8:4 -> 12) = {:?}", Constant::new(8, 4).sext(12).map(|c| format!("{}", c)).map_err(|e| format!("{}", e)));
    let e = Expression::sra(expr_const(0x80, 8), expr_const(9, 8)).unwrap();
    println!("sra(0x80:8, 9:8) = {}", falcon::executor::eval(&e).unwrap());
}
