// C15 witness: concrete failing inputs for the defects found while verifying
// lib/il/control_flow_graph.rs / lib/il/block.rs / lib/translator/block_translation_result.rs
use falcon::il::*;
use falcon::translator::BlockTranslationResult;

fn nop_cfg() -> ControlFlowGraph {
    // one block holding one nop, entry = exit = that block (what a translator emits per instruction)
    let mut cfg = ControlFlowGraph::new();
    let index = {
        let block = cfg.new_block().unwrap();
        block.nop();
        block.index()
    };
    cfg.set_entry(index).unwrap();
    cfg.set_exit(index).unwrap();
    cfg
}

fn describe(tag: &str, cfg: &ControlFlowGraph) {
    let blocks: Vec<(usize, usize)> = cfg.blocks().iter().map(|b| (b.index(), b.instructions().len())).collect();
    let edges: Vec<(usize, usize)> = cfg.edges().iter().map(|e| (e.head(), e.tail())).collect();
    println!("  {}: blocks(index,#instr)={:?} edges={:?} entry={:?} exit={:?}", tag, blocks, edges, cfg.entry(), cfg.exit());
    if let Some(e) = cfg.entry() {
        println!("    block(entry={}) is_ok = {}", e, cfg.block(e).is_ok());
    }
    if let Some(e) = cfg.exit() {
        println!("    block(exit={})  is_ok = {}   <-- the property demands true", e, cfg.block(e).is_ok());
    }
}

fn main() {
    // (i) merge leaves `exit` naming the block it removed
    println!("(i) two nop blocks 0 -> 1, entry 0, exit 1, then merge()");
    let mut cfg = ControlFlowGraph::new();
    let a = { let b = cfg.new_block().unwrap(); b.nop(); b.index() };
    let c = { let b = cfg.new_block().unwrap(); b.nop(); b.index() };
    cfg.unconditional_edge(a, c).unwrap();
    cfg.set_entry(a).unwrap();
    cfg.set_exit(c).unwrap();
    describe("before", &cfg);
    let r = cfg.merge();
    println!("  merge() = {:?}", r.map_err(|e| e.to_string()));
    describe("after ", &cfg);

    // (i') the same through blockify of a two-instruction native block
    println!("(i') BlockTranslationResult::new([nop, nop]).blockify()");
    let btr = BlockTranslationResult::new(vec![(0x1000, nop_cfg()), (0x1001, nop_cfg())], 0x1000, 2, vec![]);
    match btr.blockify() {
        Ok(cfg) => describe("blockify", &cfg),
        Err(e) => println!("  blockify() = Err({})", e),
    }

    // (ii) a non-entry block whose only in- and out-edge is an unconditional self-loop
    println!("(ii) blocks 0 (entry, exit) and 1 with the single edge 1 -> 1, then merge()");
    let mut cfg = ControlFlowGraph::new();
    let a = { let b = cfg.new_block().unwrap(); b.nop(); b.index() };
    let l = { let b = cfg.new_block().unwrap(); b.nop(); b.index() };
    cfg.unconditional_edge(l, l).unwrap();
    cfg.set_entry(a).unwrap();
    cfg.set_exit(a).unwrap();
    describe("before", &cfg);
    let r = cfg.merge();
    println!("  merge() = {:?}", r.map_err(|e| e.to_string()));
    describe("after ", &cfg);

    // (ii') the same with the self-looping block being the exit
    println!("(ii') blocks 0 (entry) and 1 (exit) with the single edge 1 -> 1, then merge()");
    let mut cfg = ControlFlowGraph::new();
    let a = { let b = cfg.new_block().unwrap(); b.nop(); b.index() };
    let l = { let b = cfg.new_block().unwrap(); b.nop(); b.index() };
    cfg.unconditional_edge(l, l).unwrap();
    cfg.set_entry(a).unwrap();
    cfg.set_exit(l).unwrap();
    let r = cfg.merge();
    println!("  merge() = {:?}", r.map_err(|e| e.to_string()));
    describe("after ", &cfg);

    // (iii) Block::append drops the other block's phi nodes (outside the property; note only)
    println!("(iii) merge of 0 -> 1 where block 1 carries a phi node");
    let mut cfg = ControlFlowGraph::new();
    let a = { let b = cfg.new_block().unwrap(); b.nop(); b.index() };
    let c = {
        let b = cfg.new_block().unwrap();
        b.add_phi_node(PhiNode::new(Scalar::new("x", 32)));
        b.nop();
        b.index()
    };
    cfg.unconditional_edge(a, c).unwrap();
    cfg.set_entry(a).unwrap();
    println!("  before: phi nodes in block 1 = {}", cfg.block(c).unwrap().phi_nodes().len());
    let r = cfg.merge();
    println!("  merge() = {:?}", r.map_err(|e| e.to_string()));
    println!("  after : phi nodes in surviving block 0 = {}, #instructions = {}",
        cfg.block(a).unwrap().phi_nodes().len(), cfg.block(a).unwrap().instructions().len());

    // reference behaviour of append / insert (what the contracts state)
    println!("(ref) append: g = [0 -> 1, entry 0, exit 1]; g.append(nop_cfg())");
    let mut g = ControlFlowGraph::new();
    let a = { let b = g.new_block().unwrap(); b.nop(); b.index() };
    let c = { let b = g.new_block().unwrap(); b.nop(); b.index() };
    g.conditional_edge(a, c, expr_const(1, 1)).unwrap();
    g.set_entry(a).unwrap();
    g.set_exit(c).unwrap();
    let r = g.append(&nop_cfg());
    println!("  append() = {:?}", r.map_err(|e| e.to_string()));
    describe("after ", &g);
    let r = g.insert(&nop_cfg());
    println!("  insert() = {:?}", r.map_err(|e| e.to_string()));
    describe("after ", &g);
}
