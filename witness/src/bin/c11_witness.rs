//! Bounded witness search for unit C11 (labelled bounded, never counted as proved): every directed graph on
//! up to 4 vertices (self-loops included; two vertex-id assignments) x every root, compared with brute-force
//! textbook definitions; plus edit sequences checked against a set model of the four adjacency views.
//! Prints one JSON line per disagreement (at most 20) and a summary line.
use falcon::graph::*;
use std::collections::{BTreeMap, BTreeSet};
use std::panic::{catch_unwind, AssertUnwindSafe};

type G = Graph<NullVertex, NullEdge>;
type S = BTreeSet<usize>;

struct Model {
    vs: S,
    es: BTreeSet<(usize, usize)>,
}

impl Model {
    fn succ(&self, v: usize) -> S { self.es.iter().filter(|e| e.0 == v).map(|e| e.1).collect() }
    fn pred(&self, v: usize) -> S { self.es.iter().filter(|e| e.1 == v).map(|e| e.0).collect() }
    /// vertices reachable from r (>= 0 edges), optionally forbidding passage through `without`
    fn reach(&self, r: usize, without: Option<usize>) -> S {
        let mut seen = S::new();
        if Some(r) == without || !self.vs.contains(&r) { return seen; }
        let mut st = vec![r];
        seen.insert(r);
        while let Some(v) = st.pop() {
            for s in self.succ(v) {
                if Some(s) != without && seen.insert(s) { st.push(s); }
            }
        }
        seen
    }
    /// d dominates v  iff  every path root ->* v passes through d
    fn dominators(&self, root: usize) -> BTreeMap<usize, S> {
        let reach = self.reach(root, None);
        let mut m = BTreeMap::new();
        for &v in &reach {
            let mut d = S::new();
            for &c in &reach {
                if c == v || !self.reach(root, Some(c)).contains(&v) { d.insert(c); }
            }
            m.insert(v, d);
        }
        m
    }
    fn idoms(&self, root: usize) -> BTreeMap<usize, usize> {
        let dom = self.dominators(root);
        let mut m = BTreeMap::new();
        for (&v, ds) in &dom {
            if v == root { continue; }
            // the strict dominator that every other strict dominator dominates
            for &c in ds {
                if c == v { continue; }
                if ds.iter().all(|&o| o == v || dom[&c].contains(&o)) { m.insert(v, c); }
            }
        }
        m
    }
    fn plus_reach(&self, u: usize) -> S {
        // vertices reachable from u by >= 1 edge
        let mut out = S::new();
        for s in self.succ(u) { out.extend(self.reach(s, None)); }
        out
    }
    fn cyclic_from(&self, root: usize) -> bool {
        self.reach(root, None).iter().any(|&v| self.plus_reach(v).contains(&v))
    }
}

fn build(ids: &[usize], n: usize, bits: u32) -> (G, Model) {
    let mut g = G::new();
    let mut m = Model { vs: S::new(), es: BTreeSet::new() };
    for i in 0..n { g.insert_vertex(NullVertex::new(ids[i])).unwrap(); m.vs.insert(ids[i]); }
    for h in 0..n { for t in 0..n {
        if bits & (1 << (h * n + t)) != 0 { g.insert_edge(NullEdge::new(ids[h], ids[t])).unwrap(); m.es.insert((ids[h], ids[t])); }
    } }
    (g, m)
}

fn build_spec(ids: &[usize], es: &[(usize, usize)]) -> (G, Model) {
    let mut g = G::new();
    let mut m = Model { vs: S::new(), es: BTreeSet::new() };
    for &i in ids { g.insert_vertex(NullVertex::new(i)).unwrap(); m.vs.insert(i); }
    for &(h, t) in es { if m.es.insert((h, t)) { g.insert_edge(NullEdge::new(h, t)).unwrap(); } }
    (g, m)
}

fn set_of<I: IntoIterator<Item = usize>>(i: I) -> S { i.into_iter().collect() }

fn deep() -> bool { std::env::var("VERIF_TIER").map(|t| t == "thorough").unwrap_or(false) } // thorough tier: wider bounds
fn main() {
    std::panic::set_hook(Box::new(|_| {}));
    let mut found = 0usize;
    let mut evals = 0u64;
    let mut graphs = 0u64;
    let mut per_op: BTreeMap<String, usize> = BTreeMap::new();
    macro_rules! report {
        ($op:expr, $m:expr, $root:expr, $got:expr, $exp:expr) => {{
            let c = per_op.entry($op.to_string()).or_insert(0);
            *c += 1;
            if *c <= 3 {
                println!("{{\"witness\":true,\"op\":\"{}\",\"vertices\":\"{:?}\",\"edges\":\"{:?}\",\"root\":{},\"got\":\"{}\",\"expected\":\"{}\"}}",
                    $op, $m.vs, $m.es, $root, format!("{:?}", $got).replace('"', "'"), format!("{:?}", $exp).replace('"', "'"));
            }
            found += 1;
        }};
    }
    let idsets: [[usize; 4]; 2] = [[0, 1, 2, 3], [5, 2, 9, 3]];
    // graph specs: (vertex ids, edges). First every digraph on <= 4 vertices, then pseudo-random digraphs on 5..=8
    // vertices (deterministic LCG seeded by VERIF_SEED) - some defects of the dominator code need >= 6 vertices.
    let mut specs: Vec<(Vec<usize>, Vec<(usize, usize)>)> = vec![];
    for n in 1..=4usize {
        for ids in &idsets {
            for bits in 0u32..(1u32 << (n * n)) {
                if n == 4 && ids[0] == 5 && !deep() && bits % 7 != 0 { continue; } // scrambled ids: a 1/7 sample at n = 4
                let mut es = vec![];
                for h in 0..n { for t in 0..n { if bits & (1 << (h * n + t)) != 0 { es.push((ids[h], ids[t])); } } }
                specs.push((ids[..n].to_vec(), es));
            }
        }
    }
    let mut lcg: u64 = 0x9e3779b97f4a7c15 ^ std::env::var("VERIF_SEED").ok().and_then(|s| s.parse::<u64>().ok()).unwrap_or(0);
    let mut next = move || { lcg = lcg.wrapping_mul(6364136223846793005).wrapping_add(1442695040888963407); (lcg >> 33) as u32 };
    for k in 0..(if deep() { 400_000u32 } else { 24_000u32 }) {
        let n = 5 + (k % (if deep() { 6 } else { 4 })) as usize; // thorough: up to 10 vertices
        let ids: Vec<usize> = (0..n).map(|i| if k % 3 == 0 { i * 3 + 1 } else { i }).collect();
        let density = 12 + (k / 4) % 30; // percent
        let mut es = vec![];
        for h in 0..n { for t in 0..n { if next() % 100 < density { es.push((ids[h], ids[t])); } } }
        specs.push((ids, es));
    }
    {
        {
            for (ids, es) in &specs {
                let (g, m) = build_spec(ids, es);
                let large = ids.len() > 4;
                graphs += 1;
                // whole-graph functions
                evals += 1;
                let tp = catch_unwind(AssertUnwindSafe(|| g.compute_predecessors()));
                match tp {
                    Ok(Ok(p)) => {
                        for &v in &m.vs {
                            let exp: S = m.vs.iter().cloned().filter(|&u| m.plus_reach(u).contains(&v)).collect();
                            let got = set_of(p.get(&v).map(|s| s.iter().cloned().collect::<Vec<_>>()).unwrap_or_default());
                            if got != exp { report!("compute_predecessors", m, v, got, exp); }
                        }
                    }
                    other => report!("compute_predecessors", m, 0, other.map(|r| r.map(|_| ()).map_err(|e| e.to_string())).map_err(|_| "panic"), "Ok"),
                }
                evals += 1;
                let cyc = m.vs.iter().any(|&v| m.plus_reach(v).contains(&v));
                match catch_unwind(AssertUnwindSafe(|| g.compute_topological_ordering())) {
                    Ok(Ok(o)) => {
                        let pos: BTreeMap<usize, usize> = o.iter().enumerate().map(|(i, v)| (*v, i)).collect();
                        let ok = !cyc && o.len() == m.vs.len() && set_of(o.iter().cloned()) == m.vs && m.es.iter().all(|(h, t)| pos[h] < pos[t]);
                        if !ok { report!("compute_topological_ordering", m, 0, o, if cyc { "Err (cyclic)" } else { "an ordering with every edge forward" }); }
                    }
                    Ok(Err(_)) => if !cyc { report!("compute_topological_ordering", m, 0, "Err", "Ok (acyclic)"); },
                    Err(_) => report!("compute_topological_ordering", m, 0, "panic", "no panic"),
                }
                for &root in m.vs.iter().take(if large { 2 } else { 8 }) {
                    let reach = m.reach(root, None);
                    evals += 13;
                    // reachability
                    match catch_unwind(AssertUnwindSafe(|| g.reachable_vertices(root))) {
                        Ok(Ok(r)) => { let got = set_of(r.iter().cloned()); if got != reach { report!("reachable_vertices", m, root, got, reach); } }
                        _ => report!("reachable_vertices", m, root, "error/panic", reach),
                    }
                    match catch_unwind(AssertUnwindSafe(|| g.unreachable_vertices(root))) {
                        Ok(Ok(r)) => { let got = set_of(r.iter().cloned()); let exp: S = m.vs.difference(&reach).cloned().collect(); if got != exp { report!("unreachable_vertices", m, root, got, exp); } }
                        _ => report!("unreachable_vertices", m, root, "error/panic", "set"),
                    }
                    // pre / post order
                    match catch_unwind(AssertUnwindSafe(|| g.compute_pre_order(root))) {
                        Ok(Ok(o)) => {
                            let pos: BTreeMap<usize, usize> = o.iter().enumerate().map(|(i, v)| (*v, i)).collect();
                            let mut ok = o.len() == reach.len() && set_of(o.iter().cloned()) == reach && o[0] == root
                                && o.iter().skip(1).all(|v| m.pred(*v).iter().any(|p| pos.get(p).map(|pp| pp < &pos[v]).unwrap_or(false)));
                            // it must be the discovery order of SOME depth-first search: the next vertex is an unvisited
                            // successor of the deepest vertex on the current path that still has one
                            if ok {
                                let mut visited = S::new();
                                let mut stack = vec![root];
                                visited.insert(root);
                                for v in o.iter().skip(1) {
                                    while let Some(&top) = stack.last() {
                                        if m.succ(top).iter().any(|x| !visited.contains(x)) { break; }
                                        stack.pop();
                                    }
                                    match stack.last() {
                                        Some(&top) if m.succ(top).contains(v) && !visited.contains(v) => { visited.insert(*v); stack.push(*v); }
                                        _ => { ok = false; break; }
                                    }
                                }
                            }
                            if !ok { report!("compute_pre_order", m, root, o, "a depth-first discovery order of the reachable vertices"); }
                        }
                        _ => report!("compute_pre_order", m, root, "error/panic", "Ok"),
                    }
                    match catch_unwind(AssertUnwindSafe(|| g.compute_post_order(root))) {
                        Ok(Ok(o)) => {
                            let pos: BTreeMap<usize, usize> = o.iter().enumerate().map(|(i, v)| (*v, i)).collect();
                            let mut ok = o.len() == reach.len() && set_of(o.iter().cloned()) == reach && *o.last().unwrap() == root;
                            if ok && !m.cyclic_from(root) {
                                ok = m.es.iter().filter(|(h, _)| reach.contains(h)).all(|(h, t)| pos[t] < pos[h]);
                            }
                            if !ok { report!("compute_post_order", m, root, o, "each reachable vertex once, root last, successors first when acyclic"); }
                        }
                        _ => report!("compute_post_order", m, root, "error/panic", "Ok"),
                    }
                    // acyclicity
                    match catch_unwind(AssertUnwindSafe(|| g.is_acyclic(root))) {
                        Ok(a) => if a == m.cyclic_from(root) { report!("is_acyclic", m, root, a, !a); },
                        Err(_) => report!("is_acyclic", m, root, "panic", "bool"),
                    }
                    // dfs tree
                    match catch_unwind(AssertUnwindSafe(|| g.compute_dfs_tree(root))) {
                        Ok(Ok(t)) => {
                            let tv = set_of(t.vertices().iter().map(|v| v.index()));
                            let te: BTreeSet<(usize, usize)> = t.edges().iter().map(|e| (e.head(), e.tail())).collect();
                            let tm = Model { vs: tv.clone(), es: te.clone() };
                            let ok = tv == reach && te.is_subset(&m.es) && te.len() + 1 == tv.len() && tm.reach(root, None) == reach
                                && tv.iter().all(|v| if *v == root { tm.pred(*v).is_empty() } else { tm.pred(*v).len() == 1 });
                            if !ok { report!("compute_dfs_tree", m, root, te, "spanning tree of the reachable part"); }
                        }
                        _ => report!("compute_dfs_tree", m, root, "error/panic", "Ok"),
                    }
                    // dominators
                    let dom = m.dominators(root);
                    match catch_unwind(AssertUnwindSafe(|| g.compute_dominators(root))) {
                        Ok(Ok(d)) => {
                            let got: BTreeMap<usize, S> = d.iter().map(|(k, v)| (*k, set_of(v.iter().cloned()))).collect();
                            if got != dom { report!("compute_dominators", m, root, got, dom); }
                        }
                        Ok(Err(e)) => report!("compute_dominators", m, root, e.to_string(), dom),
                        Err(_) => report!("compute_dominators", m, root, "panic", dom),
                    }
                    let idom = m.idoms(root);
                    match catch_unwind(AssertUnwindSafe(|| g.compute_immediate_dominators(root))) {
                        Ok(Ok(d)) => {
                            let got: BTreeMap<usize, usize> = d.iter().map(|(k, v)| (*k, *v)).collect();
                            if got != idom { report!("compute_immediate_dominators", m, root, got, idom); }
                        }
                        Ok(Err(e)) => report!("compute_immediate_dominators", m, root, e.to_string(), idom),
                        Err(_) => report!("compute_immediate_dominators", m, root, "panic", idom),
                    }
                    match catch_unwind(AssertUnwindSafe(|| g.compute_dominator_tree(root))) {
                        Ok(Ok(t)) => {
                            let te: BTreeSet<(usize, usize)> = t.edges().iter().map(|e| (e.head(), e.tail())).collect();
                            let exp: BTreeSet<(usize, usize)> = idom.iter().map(|(v, d)| (*d, *v)).collect();
                            if te != exp { report!("compute_dominator_tree", m, root, te, exp); }
                        }
                        _ => report!("compute_dominator_tree", m, root, "error/panic", "Ok"),
                    }
                    // dominance frontiers (over the reachable flow graph): DF(x) = { y | x dom some reachable pred of y, x not sdom y }
                    match catch_unwind(AssertUnwindSafe(|| g.compute_dominance_frontiers(root))) {
                        Ok(Ok(df)) => {
                            for &x in &reach {
                                let mut exp = S::new();
                                for &y in &reach {
                                    let some_pred = m.pred(y).iter().any(|p| reach.contains(p) && dom[p].contains(&x));
                                    let sdom = x != y && dom[&y].contains(&x);
                                    if some_pred && !sdom { exp.insert(y); }
                                }
                                let got = set_of(df.get(&x).map(|s| s.iter().cloned().collect::<Vec<_>>()).unwrap_or_default());
                                if got != exp { report!("compute_dominance_frontiers", m, root, (x, got), (x, exp)); }
                            }
                            // vertices outside the flow graph rooted at root are excluded: empty frontier
                            for &x in m.vs.difference(&reach) {
                                let got = set_of(df.get(&x).map(|s| s.iter().cloned().collect::<Vec<_>>()).unwrap_or_default());
                                if !got.is_empty() { report!("compute_dominance_frontiers", m, root, (x, got), (x, S::new())); }
                            }
                        }
                        Ok(Err(e)) => report!("compute_dominance_frontiers", m, root, e.to_string(), "Ok"),
                        Err(_) => report!("compute_dominance_frontiers", m, root, "panic", "Ok"),
                    }
                    // natural loops over the reachable flow graph: back edge t->h with h dom t;
                    // loop(h) = {h} ∪ { v | v reaches some back-edge tail t of h without passing through h }
                    let mut exp_loops: BTreeMap<usize, S> = BTreeMap::new();
                    for (t, h) in m.es.iter().filter(|(t, h)| reach.contains(t) && dom[t].contains(h)) {
                        let l = exp_loops.entry(*h).or_default();
                        l.insert(*h);
                        for &v in &reach {
                            if v == *h { continue; }
                            if m.reach(v, Some(*h)).contains(t) { l.insert(v); }
                        }
                    }
                    match catch_unwind(AssertUnwindSafe(|| g.compute_loops(root))) {
                        Ok(Ok(ls)) => {
                            let got: BTreeMap<usize, S> = ls.iter().map(|l| (l.header(), l.nodes().clone())).collect();
                            if got != exp_loops { report!("compute_loops", m, root, got, exp_loops); }
                        }
                        Ok(Err(e)) => report!("compute_loops", m, root, e.to_string(), exp_loops),
                        Err(_) => report!("compute_loops", m, root, "panic", exp_loops),
                    }
                    // loop nesting: an edge outer -> inner exactly when inner's header lies in outer's nodes (headers differ)
                    match catch_unwind(AssertUnwindSafe(|| g.compute_loop_tree(root))) {
                        Ok(Ok(t)) => {
                            let te: BTreeSet<(usize, usize)> = t.edges().iter().map(|e| (e.head(), e.tail())).collect();
                            let tv = set_of(t.vertices().iter().map(|v| v.index()));
                            let mut exp = BTreeSet::new();
                            for (h1, n1) in &exp_loops { for (h2, _) in &exp_loops { if h1 != h2 && n1.contains(h2) { exp.insert((*h1, *h2)); } } }
                            let expv: S = exp_loops.keys().cloned().collect();
                            if te != exp || tv != expv { report!("compute_loop_tree", m, root, (tv, te), (expv, exp)); }
                        }
                        Ok(Err(e)) => report!("compute_loop_tree", m, root, e.to_string(), "Ok"),
                        Err(_) => report!("compute_loop_tree", m, root, "panic", "Ok"),
                    }
                    // reducibility of the flow graph reachable from root: removing the back edges leaves no cycle
                    let fe = Model { vs: reach.clone(), es: m.es.iter().filter(|(t, h)| reach.contains(t) && !dom[t].contains(h)).cloned().collect() };
                    let exp_red = !fe.cyclic_from(root);
                    match catch_unwind(AssertUnwindSafe(|| g.is_reducible(root))) {
                        Ok(Ok(r)) => if r != exp_red { report!("is_reducible", m, root, r, exp_red); },
                        Ok(Err(e)) => report!("is_reducible", m, root, e.to_string(), exp_red),
                        Err(_) => report!("is_reducible", m, root, "panic", exp_red),
                    }
                }
            }
        }
    }
    // edit sequences against the set model: all sequences of length 4 over a small alphabet on 3 vertex ids
    let ops: Vec<(u8, usize, usize)> = {
        let mut v = vec![];
        for a in 0..3usize { v.push((0u8, a, 0)); v.push((1u8, a, 0)); for b in 0..3usize { v.push((2u8, a, b)); v.push((3u8, a, b)); } }
        v
    };
    let nops = ops.len();
    let mut seq = vec![0usize; 4];
    'outer: loop {
        let mut g = G::new();
        let mut m = Model { vs: S::new(), es: BTreeSet::new() };
        for &oi in &seq {
            let (k, a, b) = ops[oi];
            evals += 1;
            let r = catch_unwind(AssertUnwindSafe(|| match k {
                0 => g.insert_vertex(NullVertex::new(a)).is_ok(),
                1 => g.remove_vertex(a).is_ok(),
                2 => g.insert_edge(NullEdge::new(a, b)).is_ok(),
                _ => g.remove_edge(a, b).is_ok(),
            }));
            let exp_ok = match k {
                0 => !m.vs.contains(&a),
                1 => m.vs.contains(&a),
                2 => m.vs.contains(&a) && m.vs.contains(&b) && !m.es.contains(&(a, b)),
                _ => m.es.contains(&(a, b)),
            };
            if exp_ok { match k {
                0 => { m.vs.insert(a); }
                1 => { m.vs.remove(&a); m.es.retain(|e| e.0 != a && e.1 != a); }
                2 => { m.es.insert((a, b)); }
                _ => { m.es.remove(&(a, b)); }
            } }
            match r {
                Ok(ok) if ok == exp_ok => {}
                other => { report!("edit", m, a, (k, a, b, other.ok()), exp_ok); }
            }
            // the four views
            let vs = set_of(g.vertices().iter().map(|v| v.index()));
            let es: BTreeSet<(usize, usize)> = g.edges().iter().map(|e| (e.head(), e.tail())).collect();
            let mut ok = vs == m.vs && es == m.es && g.num_vertices() == m.vs.len();
            for &v in &m.vs {
                ok = ok && g.has_vertex(v)
                    && g.successor_indices(v).map(|s| set_of(s)).ok() == Some(m.succ(v))
                    && g.predecessor_indices(v).map(|s| set_of(s)).ok() == Some(m.pred(v))
                    && g.edges_out(v).map(|s| set_of(s.iter().map(|e| e.tail()))).ok() == Some(m.succ(v))
                    && g.edges_in(v).map(|s| set_of(s.iter().map(|e| e.head()))).ok() == Some(m.pred(v));
            }
            for h in 0..3 { for t in 0..3 { ok = ok && g.has_edge(h, t) == m.es.contains(&(h, t)); } }
            if !ok { report!("view-consistency", m, a, (vs, es), "views equal to the set model"); }
        }
        // next sequence
        let mut i = 0;
        loop {
            seq[i] += 1;
            if seq[i] < nops { break; }
            seq[i] = 0;
            i += 1;
            if i == seq.len() { break 'outer; }
        }
    }
    // every graph on <= 3 vertices (ids 0..3) followed by every pair of edit operations, views checked after each
    for n in 0..=3usize {
        for bits in 0u32..(1u32 << (n * n)) {
            for &o1 in &ops { for &o2 in &ops {
                let (mut g, mut m) = build(&[0, 1, 2, 3], n, bits);
                for (k, a, b) in [o1, o2] {
                    evals += 1;
                    let r = catch_unwind(AssertUnwindSafe(|| match k {
                        0 => g.insert_vertex(NullVertex::new(a)).is_ok(),
                        1 => g.remove_vertex(a).is_ok(),
                        2 => g.insert_edge(NullEdge::new(a, b)).is_ok(),
                        _ => g.remove_edge(a, b).is_ok(),
                    }));
                    let exp_ok = match k {
                        0 => !m.vs.contains(&a),
                        1 => m.vs.contains(&a),
                        2 => m.vs.contains(&a) && m.vs.contains(&b) && !m.es.contains(&(a, b)),
                        _ => m.es.contains(&(a, b)),
                    };
                    if exp_ok { match k {
                        0 => { m.vs.insert(a); }
                        1 => { m.vs.remove(&a); m.es.retain(|e| e.0 != a && e.1 != a); }
                        2 => { m.es.insert((a, b)); }
                        _ => { m.es.remove(&(a, b)); }
                    } }
                    match r { Ok(ok) if ok == exp_ok => {}, other => { report!("edit", m, a, (k, a, b, other.ok()), exp_ok); } }
                    let vs = set_of(g.vertices().iter().map(|v| v.index()));
                    let es: BTreeSet<(usize, usize)> = g.edges().iter().map(|e| (e.head(), e.tail())).collect();
                    let mut ok = vs == m.vs && es == m.es && g.num_vertices() == m.vs.len();
                    for &v in &m.vs {
                        ok = ok && g.has_vertex(v)
                            && g.successor_indices(v).map(|s| set_of(s)).ok() == Some(m.succ(v))
                            && g.predecessor_indices(v).map(|s| set_of(s)).ok() == Some(m.pred(v))
                            && g.edges_out(v).map(|s| set_of(s.iter().map(|e| e.tail()))).ok() == Some(m.succ(v))
                            && g.edges_in(v).map(|s| set_of(s.iter().map(|e| e.head()))).ok() == Some(m.pred(v));
                    }
                    for h in 0..3 { for t in 0..3 { ok = ok && g.has_edge(h, t) == m.es.contains(&(h, t)); } }
                    if !ok { report!("view-consistency", m, a, (vs, es), "views equal to the set model"); }
                }
            } }
        }
    }
    let po: Vec<String> = per_op.iter().map(|(k, v)| format!("\"{}\":{}", k, v)).collect();
    println!("{{\"summary\":true,\"evaluations\":{},\"graphs\":{},\"disagreements\":{},\"per_op\":{{{}}}}}", evals, graphs, found, po.join(","));
}
