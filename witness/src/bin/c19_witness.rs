//! Bounded witness search for unit C19, loader part (labelled bounded, never counted as proved).
//! The repository ships no binaries, so the ELF images are BUILT here, byte by byte, for seven
//! (class, byte order, machine) configurations: ELF64-LE x86-64, ELF32-LE i386, ELF32-BE/LE MIPS, ELF32-BE PPC,
//! ELF64-LE/BE AArch64. Every image has a metadata-carrying PT_LOAD "A" (file offset 0 / 0x40, filesz == / < memsz,
//! flags R / RX / RW / W / X), optionally a second PT_LOAD "B" (disjoint, filesz < memsz, zero-fill only, empty,
//! overlapping A's tail, adjacent to A, inside A, reaching the end of the file; further flag values incl. none and
//! OS-specific bits), three program-header orders (with PT_DYNAMIC first/last, B before A, an unloaded PT_NOTE), and
//! one of six symbol-table variants (.dynsym via PT_DYNAMIC with / without DT_HASH, PLT relocations (RELA on 64-bit,
//! REL on 32-bit), .symtab/.strtab via section headers; defined / undefined / value-0 / OBJECT / LOCAL / WEAK /
//! SHN_ABS / aliased symbols; e_entry equal to a symbol or not); e_type alternates between ET_EXEC and ET_DYN.
//! Each image is loaded at three bases with four user-entry lists and `falcon::loader::Elf` is compared with a model
//! computed from the SPEC of the image (segment table and symbol lists as enumerated, never re-parsed from the bytes): memory bytes and permissions at every address of
//! every segment plus a 16-byte margin (later PT_LOAD overrides earlier), nothing mapped outside, byte order of
//! reads, architecture name, function entries, program entry, symbols, exported symbols; and relationally,
//! everything reported at base B is what is reported at base 0 moved up by B.
//! Numbers in the `got` / `expected` / `image` fields of the witness lines are hexadecimal.
use falcon::architecture::Endian;
use falcon::loader::{Elf, Loader};
use falcon::memory::MemoryPermissions as P;
use std::collections::{BTreeMap, BTreeSet};
use std::panic::{catch_unwind, AssertUnwindSafe};

// the LINKER part (ElfLinker: DT_NEEDED, symbol table, relocations) lives in its own file, which is also a stand-alone binary
#[path = "c19_link_witness.rs"]
mod link;

// ---- fixed file layout (offsets valid for both ELF classes; every gap holds non-zero pattern bytes) ----
const PH: usize = 0x40;
const DYN: usize = 0x120;
const HASH: usize = 0x1c0;
const DYNSYM: usize = 0x1d0;
const DYNSTR: usize = 0x290;
const RELA: usize = 0x2d0;
const SYMTAB: usize = 0x300;
const STRTAB: usize = 0x3c0;
const PAY: usize = 0x3f0;
const PAY_END: usize = 0x450;
const SHDR: usize = 0x450;
const LEN: usize = 0x520;

#[derive(Clone, Copy, Debug)]
struct Cfg { name: &'static str, is64: bool, be: bool, machine: u16, arch: &'static str }
const CFGS: [Cfg; 7] = [
    Cfg { name: "ELF64-LE-X86_64", is64: true, be: false, machine: 62, arch: "amd64" },
    Cfg { name: "ELF32-LE-386", is64: false, be: false, machine: 3, arch: "x86" },
    Cfg { name: "ELF32-BE-MIPS", is64: false, be: true, machine: 8, arch: "mips" },
    Cfg { name: "ELF32-LE-MIPS", is64: false, be: false, machine: 8, arch: "mipsel" },
    Cfg { name: "ELF32-BE-PPC", is64: false, be: true, machine: 20, arch: "ppc" },
    Cfg { name: "ELF64-LE-AARCH64", is64: true, be: false, machine: 183, arch: "aarch64" },
    Cfg { name: "ELF64-BE-AARCH64", is64: true, be: true, machine: 183, arch: "aarch64eb" },
];

#[derive(Clone, Copy, Debug)]
struct Seg { off: u64, filesz: u64, memsz: u64, vaddr: u64, flags: u32 }
#[derive(Clone, Copy, Debug, PartialEq)]
enum Phdr { A, B, Dynamic, Note }
const STT_NOTYPE: u8 = 0; const STT_OBJECT: u8 = 1; const STT_FUNC: u8 = 2;
const STB_LOCAL: u8 = 0; const STB_GLOBAL: u8 = 1; const STB_WEAK: u8 = 2;
#[derive(Clone, Copy, Debug)]
struct Sym { name: &'static str, typ: u8, bind: u8, shndx: u16, value: u64 }
#[derive(Clone, Debug)]
struct Spec {
    e_type: u16,                // ET_EXEC = 2 / ET_DYN = 3
    entry: u64,
    a: Seg,
    b: Option<Seg>,
    order: Vec<Phdr>,
    dynamic: bool,
    hash: bool,
    dynsyms: Vec<Sym>,          // without the null symbol (index 0)
    plt: Vec<(u64, usize)>,     // (r_offset, index into the dynamic symbol table, null symbol counted)
    syms: Option<Vec<Sym>>,     // without the null symbol
}
const NOTE_VADDR: u64 = 0x70_0000;

struct Img { v: Vec<u8>, is64: bool, be: bool, at: usize }
impl Img {
    fn seek(&mut self, at: usize) { self.at = at; }
    fn raw(&mut self, b: &[u8]) { self.v[self.at..self.at + b.len()].copy_from_slice(b); self.at += b.len(); }
    fn u8(&mut self, x: u8) { self.raw(&[x]); }
    fn u16(&mut self, x: u16) { let b = if self.be { x.to_be_bytes() } else { x.to_le_bytes() }; self.raw(&b); }
    fn u32(&mut self, x: u32) { let b = if self.be { x.to_be_bytes() } else { x.to_le_bytes() }; self.raw(&b); }
    fn u64(&mut self, x: u64) { let b = if self.be { x.to_be_bytes() } else { x.to_le_bytes() }; self.raw(&b); }
    fn word(&mut self, x: u64) { if self.is64 { self.u64(x) } else { self.u32(x as u32) } }
}

fn strtab_of(syms: &[Sym]) -> (Vec<u8>, BTreeMap<&'static str, u32>) {
    let mut t = vec![0u8];
    let mut at = BTreeMap::new();
    for s in syms { if !at.contains_key(s.name) { at.insert(s.name, t.len() as u32); t.extend_from_slice(s.name.as_bytes()); t.push(0); } }
    (t, at)
}

fn build(cfg: &Cfg, spec: &Spec) -> Vec<u8> {
    let mut w = Img { v: (0..LEN).map(|i| (((i * 7 + 3) % 251) as u8) | 1).collect(), is64: cfg.is64, be: cfg.be, at: 0 };
    let va = |fileoff: usize| spec.a.vaddr + fileoff as u64 - spec.a.off;
    let symsize: u64 = if cfg.is64 { 24 } else { 16 };
    let relsize: u64 = if cfg.is64 { 24 } else { 8 };
    let dynsize: u64 = if cfg.is64 { 16 } else { 8 };
    // ELF header
    w.raw(&[0x7f, b'E', b'L', b'F', if cfg.is64 { 2 } else { 1 }, if cfg.be { 2 } else { 1 }, 1, 0, 0, 0, 0, 0, 0, 0, 0, 0]);
    w.u16(spec.e_type); w.u16(cfg.machine); w.u32(1);
    w.word(spec.entry); w.word(PH as u64); w.word(if spec.syms.is_some() { SHDR as u64 } else { 0 });
    w.u32(0);
    w.u16(if cfg.is64 { 64 } else { 52 }); w.u16(if cfg.is64 { 56 } else { 32 }); w.u16(spec.order.len() as u16);
    w.u16(if cfg.is64 { 64 } else { 40 }); w.u16(if spec.syms.is_some() { 3 } else { 0 }); w.u16(0);
    // dynamic entries
    let (dynstr, dynstr_at) = strtab_of(&spec.dynsyms);
    let mut dyns: Vec<(u64, u64)> = vec![(5, va(DYNSTR)), (6, va(DYNSYM)), (10, dynstr.len() as u64), (11, symsize)];
    if spec.hash { dyns.push((4, va(HASH))); }
    if !spec.plt.is_empty() { dyns.push((23, va(RELA))); dyns.push((2, spec.plt.len() as u64 * relsize)); dyns.push((20, if cfg.is64 { 7 } else { 17 })); }
    dyns.push((0, 0));
    // program headers
    w.seek(PH);
    for p in &spec.order {
        let (typ, s) = match p {
            Phdr::A => (1u32, spec.a),
            Phdr::B => (1u32, spec.b.unwrap()),
            Phdr::Dynamic => (2u32, Seg { off: DYN as u64, filesz: dyns.len() as u64 * dynsize, memsz: dyns.len() as u64 * dynsize, vaddr: va(DYN), flags: 6 }),
            Phdr::Note => (4u32, Seg { off: PAY as u64, filesz: 0x20, memsz: 0x20, vaddr: NOTE_VADDR, flags: 4 }),
        };
        // p_paddr is deliberately NOT the virtual address (a loader must map at p_vaddr): a constant physical load address
        let paddr: u64 = 0x10_0000 + (s.off & 0xfff);
        if cfg.is64 { w.u32(typ); w.u32(s.flags); w.u64(s.off); w.u64(s.vaddr); w.u64(paddr); w.u64(s.filesz); w.u64(s.memsz); w.u64(8); }
        else { w.u32(typ); w.u32(s.off as u32); w.u32(s.vaddr as u32); w.u32(paddr as u32); w.u32(s.filesz as u32); w.u32(s.memsz as u32); w.u32(s.flags); w.u32(8); }
    }
    assert!(w.at <= DYN);
    let put_syms = |w: &mut Img, at: usize, syms: &[Sym], names: &BTreeMap<&'static str, u32>| {
        w.seek(at);
        let null = Sym { name: "", typ: 0, bind: 0, shndx: 0, value: 0 };
        for s in std::iter::once(&null).chain(syms.iter()) {
            let name = if s.name.is_empty() { 0 } else { names[s.name] };
            let info = (s.bind << 4) | s.typ;
            if w.is64 { w.u32(name); w.u8(info); w.u8(0); w.u16(s.shndx); w.u64(s.value); w.u64(0); }
            else { w.u32(name); w.u32(s.value as u32); w.u32(0); w.u8(info); w.u8(0); w.u16(s.shndx); }
        }
    };
    if spec.dynamic {
        w.seek(DYN);
        for (t, v) in &dyns { w.word(*t); w.word(*v); }
        assert!(w.at <= HASH);
        w.seek(HASH); w.u32(1); w.u32(spec.dynsyms.len() as u32 + 1);
        put_syms(&mut w, DYNSYM, &spec.dynsyms, &dynstr_at);
        assert!(w.at <= DYNSTR);
        w.seek(DYNSTR); w.raw(&dynstr);
        assert!(w.at <= RELA);
        w.seek(RELA);
        for (off, sym) in &spec.plt {
            if cfg.is64 { w.u64(*off); w.u64(((*sym as u64) << 32) | 7); w.u64(0); } else { w.u32(*off as u32); w.u32(((*sym as u32) << 8) | 7); }
        }
        assert!(w.at <= SYMTAB);
    }
    if let Some(syms) = &spec.syms {
        let (strtab, strtab_at) = strtab_of(syms);
        put_syms(&mut w, SYMTAB, syms, &strtab_at);
        assert!(w.at <= STRTAB);
        w.seek(STRTAB); w.raw(&strtab);
        assert!(w.at <= PAY);
        // section headers: null, .symtab (link 2), .strtab
        w.seek(SHDR);
        let shsize = if cfg.is64 { 64 } else { 40 };
        w.raw(&vec![0u8; shsize * 3]);
        w.seek(SHDR + shsize);
        for (typ, off, size, link, entsize) in [(2u32, SYMTAB as u64, (syms.len() as u64 + 1) * symsize, 2u32, symsize), (3u32, STRTAB as u64, strtab.len() as u64, 0u32, 0u64)] {
            w.u32(0); w.u32(typ); w.word(0); w.word(0); w.word(off); w.word(size); w.u32(link); w.u32(0); w.word(1); w.word(entsize);
        }
        assert!(w.at <= LEN);
    }
    w.v
}

// ---- the model -------------------------------------------------------------------------------------
fn perm_of(flags: u32) -> u32 {
    let mut p = P::NONE;
    if flags & 4 != 0 { p |= P::READ; }
    if flags & 2 != 0 { p |= P::WRITE; }
    if flags & 1 != 0 { p |= P::EXECUTE; }
    p.bits()
}
fn loads(spec: &Spec) -> Vec<Seg> { spec.order.iter().filter_map(|p| match p { Phdr::A => Some(spec.a), Phdr::B => spec.b, _ => None }).collect() }
/// address -> (byte, permissions): later PT_LOAD headers override earlier ones
fn model_memory(spec: &Spec, file: &[u8], base: u64) -> BTreeMap<u64, (u8, u32)> {
    let mut m = BTreeMap::new();
    for s in loads(spec) {
        for i in 0..s.memsz { m.insert(s.vaddr + base + i, (if i < s.filesz { file[(s.off + i) as usize] } else { 0 }, perm_of(s.flags))); }
    }
    m
}
fn is_def_fn(s: &Sym) -> bool { s.typ == STT_FUNC && s.value != 0 && s.shndx != 0 }
/// un-rebased address -> allowed names (None = the anonymous program entry, Some("") = any user-entry name)
fn model_entries(spec: &Spec, users: &[u64]) -> BTreeMap<u64, BTreeSet<Option<String>>> {
    let mut m: BTreeMap<u64, BTreeSet<Option<String>>> = BTreeMap::new();
    let all = spec.dynsyms.iter().filter(|_| spec.dynamic).chain(spec.syms.iter().flatten());
    for s in all { if is_def_fn(s) { m.entry(s.value).or_default().insert(Some(s.name.to_string())); } }
    let named: BTreeSet<u64> = m.keys().cloned().collect();
    if !named.contains(&spec.entry) { m.entry(spec.entry).or_default().insert(None); }
    for u in users { if !named.contains(u) { m.entry(*u).or_default().insert(Some(String::new())); } }
    m
}
fn model_symbols(spec: &Spec, base: u64) -> Vec<(u64, String)> {
    let mut s: BTreeSet<(u64, String)> = BTreeSet::new();
    if spec.dynamic {
        for d in &spec.dynsyms { if d.value != 0 { s.insert((d.value + base, d.name.to_string())); } }
        for (off, idx) in &spec.plt { if *idx >= 1 && *idx <= spec.dynsyms.len() { s.insert((off + base, spec.dynsyms[idx - 1].name.to_string())); } else if *idx == 0 { s.insert((off + base, String::new())); } }
    }
    for d in spec.syms.iter().flatten() { if d.value != 0 { s.insert((d.value + base, d.name.to_string())); } }
    s.into_iter().collect()
}
fn model_exported(spec: &Spec, base: u64) -> Vec<(u64, String)> {
    let mut v: Vec<(u64, String)> = vec![];
    if spec.dynamic { for d in &spec.dynsyms { if d.value != 0 && d.shndx != 0 && (d.bind == STB_GLOBAL || d.bind == STB_WEAK) { v.push((d.value + base, d.name.to_string())); } } }
    v.sort();
    v
}

// ---- enumeration -------------------------------------------------------------------------------------
const A_FLAGS: [u32; 5] = [4, 5, 6, 2, 1];
const B_FLAGS: [u32; 10] = [6, 4, 5, 2, 1, 7, 0, 0xf000_0004, 3, 6];
const N_B: usize = 10;
const N_VARIANTS: usize = 6;

fn seg_b(kind: usize, a: &Seg) -> Option<Seg> {
    let fl = B_FLAGS[kind];
    let pay = PAY as u64;
    match kind {
        0 => None,
        1 => Some(Seg { off: pay, filesz: 0x30, memsz: 0x30, vaddr: 0x60_0000, flags: fl }),               // disjoint
        2 => Some(Seg { off: pay + 8, filesz: 0x28, memsz: 0x50, vaddr: 0x60_0008, flags: fl }),           // disjoint, zero fill
        3 => Some(Seg { off: pay, filesz: 0, memsz: 0x20, vaddr: 0x60_0000, flags: fl }),                  // zero fill only
        4 => Some(Seg { off: pay, filesz: 0, memsz: 0, vaddr: 0x60_0000, flags: fl }),                     // empty
        5 => Some(Seg { off: pay + 0x10, filesz: 0x20, memsz: 0x30, vaddr: a.vaddr + a.memsz - 0x10, flags: fl }), // overlaps A's tail
        6 => Some(Seg { off: pay, filesz: 0x18, memsz: 0x18, vaddr: a.vaddr + a.memsz, flags: fl }),       // adjacent to A
        7 => Some(Seg { off: pay + 0x28, filesz: 0x10, memsz: 0x10, vaddr: a.vaddr + (pay - a.off) + 8, flags: fl }), // inside A
        8 => Some(Seg { off: LEN as u64 - 0x20, filesz: 0x20, memsz: 0x20, vaddr: 0x60_0000, flags: fl }), // reaches the end of the file
        _ => Some(Seg { off: 0, filesz: 0x48, memsz: 0x48, vaddr: 0x50_0004, flags: fl }),                 // file offset 0 again, below A
    }
}

fn variant(v: usize, ib: u64) -> (bool, bool, Vec<Sym>, Vec<(u64, usize)>, Option<Vec<Sym>>, u64) {
    let f = |name, typ, bind, shndx, value| Sym { name, typ, bind, shndx, value };
    let (f1, f2, f3, f4, f5, f6, f7) = (ib + 0x200, ib + 0x210, ib + 0x220, ib + 0x230, ib + 0x240, ib + 0x250, ib + 0x260);
    let (d1, d2, got1, got2) = (ib + 0x340, ib + 0x350, ib + 0x300, ib + 0x308);
    let entry = ib + 0x100;
    let rich = vec![
        f("main", STT_FUNC, STB_GLOBAL, 1, f1), f("data", STT_OBJECT, STB_GLOBAL, 2, d1), f("weakf", STT_FUNC, STB_WEAK, 1, f2),
        f("localf", STT_FUNC, STB_LOCAL, 1, f3), f("undf", STT_FUNC, STB_GLOBAL, 0, f4), f("zero", STT_NOTYPE, STB_GLOBAL, 1, 0),
        f("alias", STT_FUNC, STB_GLOBAL, 1, f1),
    ];
    match v {
        // no dynamic segment, no section headers
        0 => (false, false, vec![], vec![], None, entry),
        // the probe's image: count of dynamic symbols comes from the relocation
        1 => (true, false, vec![f("main", STT_FUNC, STB_GLOBAL, 1, f1), f("puts", STT_FUNC, STB_GLOBAL, 0, 0)], vec![(got1, 2)], None, entry),
        2 => (true, true, rich, vec![], None, entry),
        3 => (true, true, rich, vec![(got1, 5), (got2, 1)], Some(vec![
            f("static_fn", STT_FUNC, STB_LOCAL, 1, f5), f("main", STT_FUNC, STB_GLOBAL, 1, f1), f("obj", STT_OBJECT, STB_LOCAL, 2, d2),
            f("zf", STT_FUNC, STB_GLOBAL, 1, 0), f("other", STT_FUNC, STB_GLOBAL, 1, f2), f("absf", STT_FUNC, STB_GLOBAL, 0xfff1, f6),
            f("und2", STT_FUNC, STB_GLOBAL, 0, f7),
        ]), entry),
        // section-header symbols only; the program entry is a symbol
        4 => (false, false, vec![], vec![], Some(vec![f("_start", STT_FUNC, STB_GLOBAL, 1, f1), f("tbl", STT_OBJECT, STB_GLOBAL, 2, d1), f("helper", STT_FUNC, STB_LOCAL, 1, f3)]), f1),
        // dynamic symbols with DT_HASH; the program entry is an OBJECT symbol's address and an undefined function's value
        _ => (true, true, vec![f("start", STT_FUNC, STB_GLOBAL, 1, f1), f("blob", STT_OBJECT, STB_GLOBAL, 2, d1), f("imp", STT_FUNC, STB_GLOBAL, 0, d1)], vec![(got1, 3)], None, d1),
    }
}

/// text -> body of a JSON string (the Debug quotes of a plain string are dropped first)
fn js(s: &str) -> String {
    let s = if s.len() >= 2 && s.starts_with('"') && s.ends_with('"') { s[1..s.len() - 1].replace("\\'", "'").replace("\\\"", "\"") } else { s.to_string() };
    let mut o = String::new();
    for c in s.chars().take(600) {
        match c { '"' => o.push_str("\\\""), '\\' => o.push_str("\\\\"), c if (c as u32) < 0x20 => o.push(' '), c => o.push(c) }
    }
    o
}

fn main() {
    std::panic::set_hook(Box::new(|_| {}));
    let mut found = 0usize;
    let mut evals = 0u64;
    let mut images = 0u64;
    let mut per_op: BTreeMap<String, usize> = BTreeMap::new();
    macro_rules! report {
        ($op:expr, $ctx:expr, $what:expr, $got:expr, $exp:expr) => {{
            let c = per_op.entry($op.to_string()).or_insert(0);
            *c += 1;
            if *c <= 3 {
                println!("{{\"witness\":true,\"op\":\"{}\",\"image\":\"{}\",\"query\":\"{}\",\"got\":\"{}\",\"expected\":\"{}\"}}",
                    $op, js(&$ctx), js(&$what), js(&format!("{:x?}", $got)), js(&format!("{:x?}", $exp)));
            }
            found += 1;
        }};
    }
    const BASES: [u64; 3] = [0, 0x1000_0000, 0x7fff_0000_0000];
    type Entries = Vec<(u64, Option<String>)>;
    type Syms = Vec<(u64, String)>;
    type Sections = Vec<(u64, Vec<u8>, u32)>;

    for cfg in CFGS.iter() {
        for a_off in [0u64, 0x40] { for a_bss in [0u64, 0x25] { for bk in 0..N_B { for ord in 0..3usize { for var in 0..N_VARIANTS {
            let a_vaddr = if (bk + ord) % 2 == 0 { 0x40_0000 + a_off } else { 0x0804_8008 + a_off };
            let ib = a_vaddr - a_off;
            let a = Seg { off: a_off, filesz: PAY_END as u64 - a_off, memsz: PAY_END as u64 - a_off + a_bss, vaddr: a_vaddr, flags: A_FLAGS[(bk + ord + (a_off != 0) as usize + var) % A_FLAGS.len()] };
            let b = seg_b(bk, &a);
            let (dynamic, hash, dynsyms, plt, syms, entry) = variant(var, ib);
            let mut order: Vec<Phdr> = match ord { 0 => vec![Phdr::A, Phdr::B, Phdr::Dynamic], 1 => vec![Phdr::Dynamic, Phdr::A, Phdr::Note, Phdr::B], _ => vec![Phdr::B, Phdr::A, Phdr::Dynamic] };
            order.retain(|p| !(*p == Phdr::B && b.is_none()) && !(*p == Phdr::Dynamic && !dynamic));
            if ord == 2 && b.is_none() { continue; } // same as order 0
            let e_type: u16 = if (bk + var + (a_bss != 0) as usize) % 2 == 0 { 2 } else { 3 };
            let spec = Spec { e_type, entry, a, b, order, dynamic, hash, dynsyms, plt, syms };
            let file = build(cfg, &spec);
            images += 1;
            let ctx = format!("{} e_type={} A={:x?} B={:x?} headers={:?} symbols=variant{} e_entry={:#x}", cfg.name, if spec.e_type == 2 { "ET_EXEC" } else { "ET_DYN" }, spec.a, spec.b, spec.order, var, spec.entry);
            let f1 = ib + 0x200;
            let user_lists: [Vec<u64>; 4] = [vec![], vec![ib + 0x123], vec![f1], vec![ib + 0x123, spec.entry, ib + 0x123, ib + 0x210]];

            // results at base 0, kept for the relational check
            let mut at0: Option<(Sections, u64, Syms, Syms, Vec<Entries>)> = None;
            for base in BASES {
                let bctx = format!("{} base={:#x}", ctx, base);
                evals += 1;
                let elf = match catch_unwind(AssertUnwindSafe(|| Elf::new(file.clone(), base))) {
                    Ok(Ok(e)) => e,
                    Ok(Err(e)) => { report!("new", bctx, "Elf::new(image, base)".to_string(), format!("Err({})", e), "Ok"); continue; }
                    Err(_) => { report!("new", bctx, "Elf::new(image, base)".to_string(), "panic", "Ok"); continue; }
                };
                // ---- architecture and byte order named in the header
                evals += 1;
                match catch_unwind(AssertUnwindSafe(|| (elf.architecture().name().to_string(), matches!(elf.architecture().endian(), Endian::Big)))) {
                    Ok(g) if g == (cfg.arch.to_string(), cfg.be) => {}
                    other => report!("architecture", bctx, "architecture().name(), endian() is big".to_string(), other.ok(), (cfg.arch, cfg.be)),
                }
                // ---- memory
                let model = model_memory(&spec, &file, base);
                let mut probes: BTreeSet<u64> = BTreeSet::new();
                for s in loads(&spec).iter().chain(std::iter::once(&Seg { off: 0, filesz: 0, memsz: 0x20, vaddr: NOTE_VADDR, flags: 0 })) {
                    for x in (s.vaddr + base - 0x10)..(s.vaddr + base + s.memsz + 0x10) { probes.insert(x); }
                }
                let word_at = spec.a.vaddr + base + (PAY as u64 - spec.a.off);
                evals += 1;
                let got = catch_unwind(AssertUnwindSafe(|| {
                    elf.memory().map(|m| {
                        let bytes: Vec<(u64, Option<u8>, Option<u32>)> = probes.iter().map(|x| (*x, m.get8(*x), m.permissions(*x).map(|p| p.bits()))).collect();
                        let sections: Sections = m.sections().iter().map(|(a, s)| (*a, s.data().to_vec(), s.permissions().bits())).collect();
                        (bytes, sections, m.get32(word_at))
                    }).map_err(|e| e.to_string())
                }));
                let mut sections_here: Option<Sections> = None;
                match got {
                    Ok(Ok((bytes, sections, word))) => {
                        for (x, g8, gp) in bytes {
                            evals += 2;
                            let e = model.get(&x);
                            if g8 != e.map(|v| v.0) { report!("memory", bctx, format!("memory().get8({:#x})", x), g8, e.map(|v| v.0)); }
                            if gp != e.map(|v| v.1) { report!("permissions", bctx, format!("memory().permissions({:#x}) [bits: READ=1 WRITE=2 EXECUTE=4]", x), gp, e.map(|v| v.1)); }
                        }
                        // nothing else is mapped, and everything of the model is inside some section
                        evals += 1;
                        let mut mapped: BTreeSet<u64> = BTreeSet::new();
                        for (addr, data, _) in &sections { for i in 0..data.len() as u64 { mapped.insert(addr + i); } }
                        let extra: Vec<u64> = mapped.iter().filter(|x| !model.contains_key(x)).take(4).cloned().collect();
                        let missing: Vec<u64> = model.keys().filter(|x| !mapped.contains(x)).take(4).cloned().collect();
                        if !extra.is_empty() || !missing.is_empty() { report!("nothing_else", bctx, "addresses covered by memory().sections()".to_string(), format!("extra {:x?} missing {:x?}", extra, missing), "exactly the addresses of the PT_LOAD segments"); }
                        // byte order of multi-byte reads
                        evals += 1;
                        let four: Option<Vec<u8>> = (0..4).map(|i| model.get(&(word_at + i)).map(|v| v.0)).collect();
                        let exp = four.map(|b| if cfg.be { u32::from_be_bytes([b[0], b[1], b[2], b[3]]) } else { u32::from_le_bytes([b[0], b[1], b[2], b[3]]) });
                        if word != exp { report!("endian", bctx, format!("memory().get32({:#x})", word_at), word, exp); }
                        sections_here = Some(sections);
                    }
                    Ok(Err(e)) => report!("memory", bctx, "memory()".to_string(), format!("Err({})", e), "Ok"),
                    Err(_) => report!("memory", bctx, "memory()".to_string(), "panic", "Ok"),
                }
                // ---- program entry
                evals += 1;
                let pe = catch_unwind(AssertUnwindSafe(|| elf.program_entry()));
                if pe.as_ref().ok() != Some(&(spec.entry + base)) { report!("program_entry", bctx, "program_entry()".to_string(), pe.as_ref().ok(), spec.entry + base); }
                // ---- symbols
                evals += 2;
                let gs = catch_unwind(AssertUnwindSafe(|| Loader::symbols(&elf).iter().map(|s| (s.address(), s.name().to_string())).collect::<Syms>()));
                let es = model_symbols(&spec, base);
                if gs.as_ref().ok() != Some(&es) { report!("symbols", bctx, "symbols() as (address, name)".to_string(), gs.as_ref().ok(), es); }
                let gx = catch_unwind(AssertUnwindSafe(|| { let mut v = elf.exported_symbols().iter().map(|s| (s.address(), s.name().to_string())).collect::<Syms>(); v.sort(); v }));
                let ex = model_exported(&spec, base);
                if gx.as_ref().ok() != Some(&ex) { report!("exported_symbols", bctx, "exported_symbols() as sorted (address, name)".to_string(), gx.as_ref().ok(), ex); }
                // ---- function entries, for each user-entry list
                let mut entries_here: Vec<Entries> = vec![];
                for users in user_lists.iter() {
                    evals += 1;
                    let mut e2 = match catch_unwind(AssertUnwindSafe(|| Elf::new(file.clone(), base))) { Ok(Ok(e)) => e, _ => { entries_here.push(vec![]); continue; } };
                    for u in users { e2.add_user_function(*u); }
                    let ge = catch_unwind(AssertUnwindSafe(|| e2.function_entries().map(|v| v.iter().map(|f| (f.address(), f.name().map(|s| s.to_string()))).collect::<Entries>()).map_err(|e| e.to_string())));
                    let me = model_entries(&spec, users);
                    let q = format!("function_entries() with user entries {:x?}", users);
                    match ge {
                        Ok(Ok(list)) => {
                            let mut sorted = list.clone();
                            sorted.sort();
                            let addrs: Vec<u64> = sorted.iter().map(|x| x.0).collect();
                            let exp_addrs: Vec<u64> = me.keys().map(|k| k + base).collect();
                            let names_ok = addrs == exp_addrs && sorted.iter().all(|(a, n)| {
                                let allowed = &me[&(a - base)];
                                allowed.contains(n) || (n.is_some() && allowed.contains(&Some(String::new())))
                            });
                            if !names_ok { report!("function_entries", bctx, q, list, format!("addresses {:x?} with names from {:?} (None = anonymous program entry, Some('') = any user-entry name)", exp_addrs, me.values().collect::<Vec<_>>())); }
                            entries_here.push(list);
                        }
                        Ok(Err(e)) => { report!("function_entries", bctx, q, format!("Err({})", e), "Ok"); entries_here.push(vec![]); }
                        Err(_) => { report!("function_entries", bctx, q, "panic", "Ok"); entries_here.push(vec![]); }
                    }
                }
                // ---- relational: base B == base 0 moved up by B
                let here = (sections_here.unwrap_or_default(), pe.unwrap_or(0), gs.unwrap_or_default(), gx.unwrap_or_default(), entries_here);
                if base == 0 { at0 = Some(here); } else if let Some(z) = &at0 {
                    evals += 5;
                    let sh: Sections = z.0.iter().map(|(a, d, p)| (a + base, d.clone(), *p)).collect();
                    if sh != here.0 { report!("rebase", bctx, "memory().sections() as (address, length, permissions) vs base 0 moved up".to_string(), here.0.iter().map(|s| (s.0, s.1.len(), s.2)).collect::<Vec<_>>(), sh.iter().map(|s| (s.0, s.1.len(), s.2)).collect::<Vec<_>>()); }
                    if z.1 + base != here.1 { report!("rebase", bctx, "program_entry() vs base 0 moved up".to_string(), here.1, z.1 + base); }
                    let sy: Syms = z.2.iter().map(|(a, n)| (a + base, n.clone())).collect();
                    if sy != here.2 { report!("rebase", bctx, "symbols() vs base 0 moved up".to_string(), &here.2, sy); }
                    let sx: Syms = z.3.iter().map(|(a, n)| (a + base, n.clone())).collect();
                    if sx != here.3 { report!("rebase", bctx, "exported_symbols() vs base 0 moved up".to_string(), &here.3, sx); }
                    let se: Vec<Entries> = z.4.iter().map(|l| l.iter().map(|(a, n)| (a + base, n.clone())).collect()).collect();
                    if se != here.4 { report!("rebase", bctx, "function_entries() (four user-entry lists) vs base 0 moved up".to_string(), &here.4, se); }
                }
            }
        } } } } }
    }
    // ---- the linker part
    let mut lc = link::Counts { evals: 0, found: 0, per_op: BTreeMap::new(), links: 0 };
    link::run(&mut lc);
    evals += lc.evals;
    found += lc.found;
    for (k, v) in lc.per_op { *per_op.entry(k).or_insert(0) += v; }
    let po: Vec<String> = per_op.iter().map(|(k, v)| format!("\"{}\":{}", k, v)).collect();
    println!("{{\"summary\":true,\"evaluations\":{},\"disagreements\":{},\"per_op\":{{{}}},\"images\":{},\"links\":{}}}", evals, found, po.join(","), images, lc.links);
}
