//! Probe for unit C14: the minimal inputs of the defects of `dead_code_elimination`, run on the real crate.
//! Prints, per case, what the function returns (the operations of every block after elimination) or the panic.
use falcon::analysis::dead_code_elimination;
use falcon::il::*;
use std::panic::{catch_unwind, AssertUnwindSafe};

fn sc(n: &str) -> Scalar { scalar(n, 8) }
fn ex(n: &str) -> Expression { expr_scalar(n, 8) }

fn show(name: &str, what: &str, f: &Function) {
    let before: Vec<String> = f.blocks().iter().map(|b| format!("{}:[{}]", b.index(), b.instructions().iter().map(|i| format!("{}", i.operation())).collect::<Vec<_>>().join(" ; "))).collect();
    let r = catch_unwind(AssertUnwindSafe(|| dead_code_elimination(f)));
    let after = match r {
        Err(p) => format!("PANIC: {}", p.downcast_ref::<String>().cloned().or_else(|| p.downcast_ref::<&str>().map(|s| s.to_string())).unwrap_or_default()),
        Ok(Err(e)) => format!("Err({:?})", e),
        Ok(Ok(g)) => g.blocks().iter().map(|b| format!("{}:[{}]", b.index(), b.instructions().iter().map(|i| format!("{}", i.operation())).collect::<Vec<_>>().join(" ; "))).collect::<Vec<_>>().join("  "),
    };
    println!("{}\n    {}\n    input : {}\n    output: {}", name, what, before.join("  "), after);
}

fn main() {
    std::panic::set_hook(Box::new(|_| {}));
    // (i) an intrinsic with undeclared effects is replaced by a nop
    {
        let mut cfg = ControlFlowGraph::new();
        let b = cfg.new_block().unwrap();
        b.intrinsic(Intrinsic::new("syscall", "syscall", vec![], None, None, vec![0x0f, 0x05]));
        cfg.set_entry(0).unwrap();
        show("(i)", "intrinsic with UNDECLARED effects, single block: expected unchanged", &Function::new(0, cfg));
    }
    // (ii) inherited from use-def / def-use (unit C12): the only use reads two scalars
    {
        let mut cfg = ControlFlowGraph::new();
        let b = cfg.new_block().unwrap();
        b.assign(sc("a"), expr_const(7, 8));
        b.assign(sc("c"), Expression::add(ex("a"), ex("b")).unwrap());
        b.assign(sc("a"), ex("b"));
        cfg.set_entry(0).unwrap();
        show("(ii-a)", "a = 7 ; c = a + b ; a = b (c reaches the exit and needs a = 7): expected unchanged", &Function::new(0, cfg));
    }
    // (ii) inherited: rd[location] is the OUT state, `a = a + 1` hides the definition it reads
    {
        let mut cfg = ControlFlowGraph::new();
        let b = cfg.new_block().unwrap();
        b.assign(sc("a"), expr_const(7, 8));
        b.assign(sc("a"), Expression::add(ex("a"), expr_const(1, 8)).unwrap());
        cfg.set_entry(0).unwrap();
        show("(ii-b)", "a = 7 ; a = a + 1: expected unchanged", &Function::new(0, cfg));
    }
    // (iii) a block without successors that is unreachable from the entry
    {
        let mut cfg = ControlFlowGraph::new();
        cfg.new_block().unwrap();
        cfg.new_block().unwrap();
        cfg.set_entry(0).unwrap();
        show("(iii-a)", "two empty blocks, no edges, entry 0 (block 1 unreachable, no successors): expected unchanged", &Function::new(0, cfg));
    }
    // (iii) an unreachable block that contains a branch
    {
        let mut cfg = ControlFlowGraph::new();
        cfg.new_block().unwrap();
        let b = cfg.new_block().unwrap();
        b.branch(ex("a"));
        cfg.unconditional_edge(1, 0).unwrap();
        cfg.set_entry(0).unwrap();
        show("(iii-b)", "block 1 [branch a] -> block 0 [], entry 0 (block 1 unreachable): expected unchanged", &Function::new(0, cfg));
    }
    // (iii) an unreachable block that contains an assignment
    {
        let mut cfg = ControlFlowGraph::new();
        cfg.new_block().unwrap();
        let b = cfg.new_block().unwrap();
        b.assign(sc("a"), expr_const(7, 8));
        cfg.unconditional_edge(1, 0).unwrap();
        cfg.set_entry(0).unwrap();
        show("(iii-c)", "block 1 [a = 7] -> block 0 [], entry 0 (block 1 unreachable): expected no panic", &Function::new(0, cfg));
    }
    // (iv) the definitions reaching an intrinsic are taken from its OUT state
    {
        let mut cfg = ControlFlowGraph::new();
        let b = cfg.new_block().unwrap();
        b.assign(sc("a"), expr_const(7, 8));
        b.intrinsic(Intrinsic::new("rdrand", "rdrand a", vec![], Some(vec![ex("a")]), Some(vec![]), vec![0x0f, 0xc7]));
        cfg.set_entry(0).unwrap();
        show("(iv)", "a = 7 ; intrinsic declaring writes [a], reads []: the intrinsic must be presented a == 7: expected unchanged", &Function::new(0, cfg));
    }
}
