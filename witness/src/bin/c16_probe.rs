// Probe for property C16 (memory::backing::Memory): confirms each suspected defect against the real crate.
use falcon::architecture::Endian;
use falcon::memory::backing::Memory;
use falcon::memory::MemoryPermissions as P;
use std::panic::{catch_unwind, AssertUnwindSafe};

fn show<T: std::fmt::Debug>(what: &str, f: impl FnOnce() -> T) {
    match catch_unwind(AssertUnwindSafe(f)) {
        Ok(v) => println!("{:<78} => {:?}", what, v),
        Err(e) => {
            let msg = e
                .downcast_ref::<String>()
                .cloned()
                .or_else(|| e.downcast_ref::<&str>().map(|s| s.to_string()))
                .unwrap_or_default();
            println!("{:<78} => PANIC: {}", what, msg)
        }
    }
}

fn main() {
    std::panic::set_hook(Box::new(|_| {}));
    println!("build: debug_assertions={}", cfg!(debug_assertions));

    // sanity: both endiannesses
    for e in [Endian::Little, Endian::Big] {
        let mut m = Memory::new(e.clone());
        m.set_memory(0x10, vec![0x11, 0x22], P::READ);
        m.set_memory(0x12, vec![0x33, 0x44], P::WRITE);
        show(&format!("{:?}: [0x10,0x12)+[0x12,0x14) get(0x10,32) across adjacent sections", e), || {
            m.get(0x10, 32).map(|c| format!("{}", c))
        });
        show(&format!("{:?}: get32(0x10) (spans two sections)", e), || m.get32(0x10));
    }

    // (i) get() with a later byte unmapped
    let mut m = Memory::new(Endian::Little);
    m.set_memory(0x10, vec![1, 2], P::READ);
    show("(i)   region [0x10,0x12): get(0x10, 32)", || m.get(0x10, 32).map(|c| format!("{}", c)));
    show("(i)   region [0x10,0x12): get(0x10, 16)", || m.get(0x10, 16).map(|c| format!("{}", c)));
    show("(i)   region [0x10,0x12): get(0x0f, 16)  (first byte unmapped)", || m.get(0x0f, 16).map(|c| format!("{}", c)));
    let mut mb = Memory::new(Endian::Big);
    mb.set_memory(0x10, vec![1, 2], P::READ);
    show("(i)   big endian, region [0x10,0x12): get(0x10, 32)", || mb.get(0x10, 32).map(|c| format!("{}", c)));

    // (ii) empty write
    let mut m = Memory::new(Endian::Little);
    m.set_memory(0x10, vec![1, 2], P::READ);
    m.set_memory(0x10, vec![], P::WRITE);
    show("(ii)  region [0x10,0x12); set_memory(0x10, [], W); get8(0x10)", || m.get8(0x10));
    show("(ii)                                             get8(0x11)", || m.get8(0x11));
    let mut m = Memory::new(Endian::Little);
    m.set_memory(0x10, vec![1, 2, 3, 4, 5, 6], P::READ);
    m.set_memory(0x13, vec![], P::WRITE);
    show("(ii)  region [0x10,0x16); set_memory(0x13, [], W); get8(0x12)", || m.get8(0x12));
    show("(ii)                                             get8(0x13)", || m.get8(0x13));
    show("(ii)                                             get8(0x15)", || m.get8(0x15));
    show("(ii)                                             sections", || {
        m.sections().iter().map(|(a, s)| (*a, s.len())).collect::<Vec<_>>()
    });

    // (iii) set32 on unmapped address
    let mut m = Memory::new(Endian::Little);
    m.set_memory(0x10, vec![1, 2, 3, 4], P::READ);
    show("(iii) region [0x10,0x14): set32(0x20, 7)", || m.set32(0x20, 7).map_err(|e| format!("{}", e)));
    show("(iii) region [0x10,0x14): set32(0x12, 7) (does not fit)", || m.set32(0x12, 7).map_err(|e| format!("{}", e)));
    show("(iii) region [0x10,0x14): set32(0x10, 0xaabbccdd); get32", || {
        m.set32(0x10, 0xaabbccdd).unwrap();
        (m.get32(0x10), m.get8(0x10))
    });

    // (iv) address arithmetic at the top of the address space
    let top = u64::MAX;
    show("(iv)  set_memory(2^64-2, [1,2])   (region touches 2^64)", || {
        let mut m = Memory::new(Endian::Little);
        m.set_memory(top - 1, vec![1, 2], P::READ);
        (m.get8(top - 1), m.get8(top))
    });
    show("(iv)  set_memory(2^64-1, [7])", || {
        let mut m = Memory::new(Endian::Little);
        m.set_memory(top, vec![7], P::READ);
        m.get8(top)
    });
    show("(iv)  set_memory(2^64-1,[7]); set_memory(2^64-1,[8]); get8 + sections", || {
        let mut m = Memory::new(Endian::Little);
        m.set_memory(top, vec![7], P::READ);
        m.set_memory(top, vec![8], P::READ);
        (m.get8(top), m.sections().iter().map(|(a, s)| (*a, s.len())).collect::<Vec<_>>())
    });
    show("(iv)  set_memory(2^64-4,[1,2,3,4]); set_memory(2^64-2,[9]); bytes", || {
        let mut m = Memory::new(Endian::Little);
        m.set_memory(top - 3, vec![1, 2, 3, 4], P::READ);
        m.set_memory(top - 1, vec![9], P::READ);
        (
            [m.get8(top - 3), m.get8(top - 2), m.get8(top - 1), m.get8(top)],
            m.sections().iter().map(|(a, s)| (*a, s.len())).collect::<Vec<_>>(),
        )
    });
    show("(iv)  region [2^64-2, 2^64-1): get(2^64-2, 32)   (address + i reaches 2^64)", || {
        let mut m = Memory::new(Endian::Little);
        m.set_memory(top - 1, vec![1], P::READ);
        m.get(top - 1, 32).map(|c| format!("{}", c))
    });
    show("(iv)  regions [2^64-2,2^64-1) and [0,2): get(2^64-2, 32) (wraps to address 0?)", || {
        let mut m = Memory::new(Endian::Little);
        m.set_memory(0, vec![0xaa, 0xbb], P::READ);
        m.set_memory(top - 1, vec![1], P::READ);
        m.get(top - 1, 32).map(|c| format!("{}", c))
    });
}
