//! Bounded witness search for unit C15 (labelled bounded, never counted as proved): control-flow graphs with up to
//! 3 blocks (0..=2 uniquely numbered instructions each), every edge set, every entry/exit choice; `merge`, `append`
//! and `insert` of every pair of 2-block graphs, block-level edits; after each operation the consistency invariants are
//! checked through the public API and the set of instruction sequences executable from the entry (up to length 6)
//! is compared with what the property prescribes.
use falcon::il::*;
use std::collections::{BTreeMap, BTreeSet};
use std::panic::{catch_unwind, AssertUnwindSafe};

type Lang = BTreeSet<Vec<u64>>;
const L: usize = 6;

fn key_of(ins: &Instruction) -> u64 {
    match ins.operation() { Operation::Assign { src, .. } => src.get_constant().and_then(|c| c.value_u64()).unwrap_or(9999), _ => 9998 }
}

/// prefix-closed set of instruction sequences (length <= L) along walks from `start`
fn lang(cfg: &ControlFlowGraph, start: usize) -> Lang {
    // exhaustive over states (block, sequence so far); a state is expanded once, so cycles of empty blocks terminate
    let mut out = Lang::new();
    out.insert(vec![]);
    let mut seen: BTreeSet<(usize, Vec<u64>)> = BTreeSet::new();
    let mut work: Vec<(usize, Vec<u64>)> = vec![(start, vec![])];
    while let Some((b, seq)) = work.pop() {
        if !seen.insert((b, seq.clone())) { continue; }
        let mut seq = seq;
        let block = match cfg.block(b) { Ok(x) => x, Err(_) => continue };
        let mut full = false;
        for ins in block.instructions() { if seq.len() == L { full = true; break; } seq.push(key_of(ins)); out.insert(seq.clone()); }
        if full || seq.len() == L { continue; }
        if let Ok(s) = cfg.successor_indices(b) { for t in s { work.push((t, seq.clone())); } }
    }
    out
}

/// the consistency half of the property, through the public API only
fn consistent(cfg: &ControlFlowGraph) -> Result<(), String> {
    let blocks: BTreeSet<usize> = cfg.blocks().iter().map(|b| b.index()).collect();
    if blocks.len() != cfg.blocks().len() { return Err("duplicate block index".into()); }
    let edges: BTreeSet<(usize, usize)> = cfg.edges().iter().map(|e| (e.head(), e.tail())).collect();
    for (h, t) in &edges { if !blocks.contains(h) || !blocks.contains(t) { return Err(format!("edge {}->{} joins a missing block", h, t)); } }
    for &b in &blocks {
        let s: BTreeSet<usize> = cfg.successor_indices(b).map_err(|e| e.to_string())?.into_iter().collect();
        let p: BTreeSet<usize> = cfg.predecessor_indices(b).map_err(|e| e.to_string())?.into_iter().collect();
        let es: BTreeSet<usize> = edges.iter().filter(|e| e.0 == b).map(|e| e.1).collect();
        let ep: BTreeSet<usize> = edges.iter().filter(|e| e.1 == b).map(|e| e.0).collect();
        if s != es || p != ep { return Err(format!("successor/predecessor queries of block {} disagree with the edge set", b)); }
        let eo: BTreeSet<usize> = cfg.edges_out(b).map_err(|e| e.to_string())?.iter().map(|e| e.tail()).collect();
        let ei: BTreeSet<usize> = cfg.edges_in(b).map_err(|e| e.to_string())?.iter().map(|e| e.head()).collect();
        if eo != es || ei != ep { return Err(format!("edges_out/edges_in of block {} disagree with the edge set", b)); }
        let block = cfg.block(b).map_err(|e| e.to_string())?;
        if block.index() != b { return Err("block stored under a different index".into()); }
        let idx: BTreeSet<usize> = block.instructions().iter().map(|i| i.index()).collect();
        if idx.len() != block.instructions().len() { return Err(format!("instruction indices of block {} are not unique", b)); }
    }
    if let Some(e) = cfg.entry() { if !blocks.contains(&e) { return Err(format!("entry {} names a missing block", e)); } }
    if let Some(e) = cfg.exit() { if !blocks.contains(&e) { return Err(format!("exit {} names a missing block", e)); } }
    Ok(())
}

fn build(nb: usize, shape: usize, bits: u32, entry: usize, exit: usize, base: u64) -> ControlFlowGraph {
    let mut cfg = ControlFlowGraph::new();
    let mut s = shape;
    let mut k = base;
    for _ in 0..nb {
        let n = s % 3; s /= 3;
        let b = cfg.new_block().unwrap();
        for _ in 0..n { b.assign(scalar("x", 32), expr_const(k, 32)); k += 1; }
    }
    for h in 0..nb { for t in 0..nb { if bits & (1 << (h * nb + t)) != 0 {
        // a block with several out-edges gets conditional edges, otherwise unconditional
        let outs = (0..nb).filter(|t2| bits & (1 << (h * nb + t2)) != 0).count();
        if outs > 1 { cfg.conditional_edge(h, t, expr_scalar("c", 1)).unwrap(); } else { cfg.unconditional_edge(h, t).unwrap(); }
    } } }
    cfg.set_entry(entry).unwrap();
    cfg.set_exit(exit).unwrap();
    cfg
}

fn deep() -> bool { std::env::var("VERIF_TIER").map(|t| t == "thorough").unwrap_or(false) } // thorough tier: wider bounds
fn main() {
    std::panic::set_hook(Box::new(|_| {}));
    let mut found = 0usize;
    let mut evals = 0u64;
    let mut per_op: BTreeMap<String, usize> = BTreeMap::new();
    macro_rules! report {
        ($op:expr, $desc:expr, $got:expr, $exp:expr) => {{
            let c = per_op.entry($op.to_string()).or_insert(0);
            *c += 1;
            if *c <= 3 {
                println!("{{\"witness\":true,\"op\":\"{}\",\"input\":\"{}\",\"got\":\"{}\",\"expected\":\"{}\"}}", $op, $desc,
                    format!("{:?}", $got).replace('"', "'").chars().take(300).collect::<String>(), format!("{:?}", $exp).replace('"', "'").chars().take(300).collect::<String>());
            }
            found += 1;
        }};
    }
    // ---- merge: every graph with <= 3 blocks
    for nb in 1..=3usize {
        for shape in 0..3usize.pow(nb as u32) { for bits in 0u32..(1u32 << (nb * nb)) { for entry in 0..nb { for exit in 0..nb {
            if nb == 3 && !deep() && (bits as usize + shape + entry * 7 + exit) % 2 != 0 { continue; }
            let desc = format!("blocks={} shape={} edges={:#b} entry={} exit={}", nb, shape, bits, entry, exit);
            let mut cfg = build(nb, shape, bits, entry, exit, 100);
            if let Err(e) = consistent(&cfg) { report!("construct", desc, e, "consistent"); continue; }
            let before = lang(&cfg, entry);
            evals += 1;
            let r = catch_unwind(AssertUnwindSafe(|| cfg.merge().map_err(|e| e.to_string())));
            match r {
                Ok(Ok(())) => {
                    if let Err(e) = consistent(&cfg) { report!("merge", desc, e, "consistent graph"); continue; }
                    match cfg.entry() {
                        Some(e) => { let after = lang(&cfg, e); if after != before { report!("merge", desc, after.difference(&before).chain(before.difference(&after)).next(), "same instruction sequences from the entry"); } }
                        None => report!("merge", desc, "entry lost", "entry kept"),
                    }
                    if cfg.exit().is_none() { report!("merge", desc, "exit lost", "exit kept"); }
                }
                other => report!("merge", desc, other.map_err(|_| "panic"), "Ok"),
            }
        } } } }
    }
    // ---- append / insert: every pair of graphs with <= 2 blocks
    let mut small: Vec<(usize, usize, u32, usize, usize)> = vec![];
    for nb in 1..=2usize { for shape in 0..3usize.pow(nb as u32) { for bits in 0u32..(1u32 << (nb * nb)) { for entry in 0..nb { for exit in 0..nb { small.push((nb, shape, bits, entry, exit)); } } } } }
    for (gi, g) in small.iter().enumerate() { for (hi, h) in small.iter().enumerate() {
        if !deep() && (gi * 31 + hi) % 3 != 0 { continue; }
        let desc = format!("g=(blocks={} shape={} edges={:#b} entry={} exit={}) h=(blocks={} shape={} edges={:#b} entry={} exit={})", g.0, g.1, g.2, g.3, g.4, h.0, h.1, h.2, h.3, h.4);
        let gcfg = build(g.0, g.1, g.2, g.3, g.4, 100);
        let hcfg = build(h.0, h.1, h.2, h.3, h.4, 200);
        evals += 2;
        // append
        let mut a = gcfg.clone();
        match catch_unwind(AssertUnwindSafe(|| a.append(&hcfg).map_err(|e| e.to_string()))) {
            Ok(Ok(())) => {
                if let Err(e) = consistent(&a) { report!("append", desc, e, "consistent graph"); }
                else {
                    // expected: walks of g from its entry; those that finish g's exit block may continue with walks of h from h's entry
                    let lg = lang(&gcfg, g.3);
                    let lh = lang(&hcfg, h.3);
                    // sequences of g that end exactly at the end of a visit of the exit block: computed on a copy of g with a marker block
                    let mut marked = gcfg.clone();
                    let mk = { let b = marked.new_block().unwrap(); b.assign(scalar("x", 32), expr_const(7777, 32)); b.index() };
                    let r = if marked.successor_indices(g.4).unwrap().is_empty() { marked.unconditional_edge(g.4, mk) } else { marked.conditional_edge(g.4, mk, expr_scalar("c", 1)) };
                    r.unwrap();
                    let lm = lang(&marked, g.3);
                    let mut exp: Lang = lg.clone();
                    for w in lm.iter().filter(|w| w.last() == Some(&7777)) {
                        let stem = &w[..w.len() - 1];
                        for t in &lh { let mut s = stem.to_vec(); s.extend(t.iter()); s.truncate(L); exp.insert(s); }
                    }
                    let got = lang(&a, a.entry().unwrap_or(usize::MAX));
                    // compare up to length L-1 (the marker consumes one position in the stems)
                    let cut = |l: &Lang| -> Lang { l.iter().filter(|w| w.len() < L).cloned().collect() };
                    if cut(&got) != cut(&exp) { report!("append", desc, cut(&got).symmetric_difference(&cut(&exp)).next(), "first graph, then the second"); }
                    if a.entry() != Some(g.3) { report!("append", desc, a.entry(), Some(g.3)); }
                }
            }
            other => report!("append", desc, other.map_err(|_| "panic"), "Ok"),
        }
        // insert
        let mut b = gcfg.clone();
        match catch_unwind(AssertUnwindSafe(|| b.insert(&hcfg).map_err(|e| e.to_string()))) {
            Ok(Ok((en, ex))) => {
                if let Err(e) = consistent(&b) { report!("insert", desc, e, "consistent graph"); }
                else {
                    if lang(&b, en) != lang(&hcfg, h.3) { report!("insert", desc, "inserted copy differs", "same sequences from the returned entry"); }
                    if lang(&b, g.3) != lang(&gcfg, g.3) { report!("insert", desc, "old part changed", "old part unchanged"); }
                    if b.block(ex).is_err() || b.block(en).is_err() { report!("insert", desc, (en, ex), "existing blocks"); }
                    let hl: Vec<u64> = hcfg.block(h.4).unwrap().instructions().iter().map(key_of).collect();
                    let bl: Vec<u64> = b.block(ex).map(|x| x.instructions().iter().map(key_of).collect()).unwrap_or_default();
                    if hl != bl { report!("insert", desc, bl, hl); }
                }
            }
            other => report!("insert", desc, other.map_err(|_| "panic"), "Ok"),
        }
    } }
    // ---- block-level edits: push / remove / append keep indices unique
    for n1 in 0..=3usize { for n2 in 0..=3usize { for rm in 0..=n1 { for rm2 in 0..=n2 {
        evals += 1;
        let mut c1 = ControlFlowGraph::new();
        let mut c2 = ControlFlowGraph::new();
        let b1 = c1.new_block().unwrap();
        for k in 0..n1 { b1.assign(scalar("x", 32), expr_const(k as u64, 32)); }
        let mut exp: Vec<u64> = (0..n1 as u64).collect();
        if rm < n1 { let idx = b1.instructions()[rm].index(); b1.remove_instruction(idx).unwrap(); exp.remove(rm); }
        let b2 = c2.new_block().unwrap();
        for k in 0..n2 { b2.assign(scalar("x", 32), expr_const(50 + k as u64, 32)); }
        let mut exp2: Vec<u64> = (0..n2 as u64).map(|k| 50 + k).collect();
        if rm2 < n2 { let idx = b2.instructions()[rm2].index(); b2.remove_instruction(idx).unwrap(); exp2.remove(rm2); }
        let b2 = b2.clone();
        b1.append(&b2);
        exp.extend(exp2.iter().cloned());
        b1.nop();
        b1.assign(scalar("x", 32), expr_const(99, 32));
        exp.push(99);
        // removing by index must remove exactly the addressed instruction
        if let Some(last) = b1.instructions().last().map(|i| i.index()) { b1.remove_instruction(last).unwrap(); exp.pop(); }
        let got: Vec<u64> = b1.instructions().iter().filter(|i| matches!(i.operation(), Operation::Assign { .. })).map(key_of).collect();
        let idx: BTreeSet<usize> = b1.instructions().iter().map(|i| i.index()).collect();
        if got != exp || idx.len() != b1.instructions().len() { report!("block-edit", format!("n1={} remove#{} append n2={} (remove#{} first) push push remove-last", n1, rm, n2, rm2), (got, idx), exp); }
    } } } }
    let po: Vec<String> = per_op.iter().map(|(k, v)| format!("\"{}\":{}", k, v)).collect();
    println!("{{\"summary\":true,\"evaluations\":{},\"disagreements\":{},\"per_op\":{{{}}}}}", evals, found, po.join(","));
}
