//! Bounded witness search for unit C05 (labelled bounded, never counted as proved): "lifting any bytes is total and
//! yields well-formed, deterministic IL".
//!
//! For each of the 7 translators (x86::{X86, Amd64}, mips::{Mips, Mipsel}, ppc::Ppc, aarch64::{AArch64, AArch64Eb})
//! and BOTH unsupported-instruction policies the REAL `translate_block(bytes, address, &options)` is called inside
//! `catch_unwind` on the byte strings listed under FAMILIES, and the result is examined by a checker written here
//! (NOTHING of falcon's own validators / executor is used: widths are recomputed by `ebits`, guards are evaluated by
//! `eval`):
//!   (1) panic            the call panicked (message + location reported);
//!   (2) timeout          the call did not return within the time budget (60 s, thorough 120 s) while the other workers
//!                        made progress (watchdog thread; the process then prints what it has and exits);
//!   (3) Err is fine; Ok(result): every per-instruction graph must be well formed:
//!         expr_width     an expression violates a width rule (binary operands of equal width, comparison = 1 bit,
//!                        zext / sext strictly widen, trun strictly narrows to >= 1 bit, ite condition 1 bit and equal
//!                        arms, constants fit their width, widths >= 1);
//!         assign_width   Assign{dst, src}: dst.bits != bits(src);
//!         load_width     Load{dst, index}: index wider than 64 bits, or dst width 0 / not a multiple of 8;
//!         store_width    Store{index, src}: index wider than 64 bits, or src width not a multiple of 8;
//!         branch_width   Branch{target}: target wider than 64 bits;
//!         guard_width    an edge guard / successor guard is not a well-formed 1-bit expression;
//!         intrinsic_expr an expression carried by an Intrinsic is ill-formed;
//!         no_entry_exit  entry or exit missing / naming a missing block;
//!         edge_dangling  an edge whose head or tail is not a block of the graph;
//!         exit_unreachable  exit not reachable from entry along edges;
//!         dead_end       a block other than the exit without out-edge;
//!   (4) edges_enabled / successors_enabled: for every block with out-edges (resp. for the successor list of the block
//!       translation result) the guards are evaluated under ALL assignments of the scalars they read when these total
//!       <= 12 bits, else under 512 fixed-seed assignments mixing corner values (0, 1, msb, all ones) and random ones;
//!       an assignment under which some guard does not evaluate (division by zero, > 128 bits) is skipped; exactly ONE
//!       edge must be enabled (for the exit block of a graph: at most one, zero = leave the graph; an empty successor
//!       list = no known successor is fine);
//!   (5) nondeterministic: translating the same bytes again gives a different `{:?}` rendering of the result
//!       (temporaries included);
//!   (5b) policy_dependence: a block that lifts under the error policy (so it holds no unsupported instruction) renders
//!       differently under the intrinsics policy;
//!   (5c) policy_ignored: an Ok result under the ERROR policy holds an Intrinsic whose mnemonic is not one of the few
//!       instructions the lifter deliberately models as intrinsics (x86: int syscall sysenter ud2; MIPS: IntegerOverflow
//!       break rdhwr syscall trap; PPC, A64: none) - Options documents that by default an instruction without semantics
//!       is an error (`INTRINSIC_MNEMONICS` below has to follow the lifters when they model a new instruction that way);
//!   (6) fallthrough_wrap: an Ok result at an address so high that `address + length` exceeds 2^64 and whose successor
//!       list contains the WRAPPED sum (the lifter's own `address + offset` arithmetic overflowed: a panic in builds
//!       with overflow checks - cargo test / debug - and a silent wrap in release builds such as this one). Results
//!       whose last instruction is an unconditional jump with displacement to the next address are exempt (there the
//!       wrapped value is computed by the decoder).
//!
//! STRUCTURED FAMILIES (added after two independently seeded changes slipped through the random / exhaustive-short ones):
//! `windows` / `windows64_4` / `windows_short` - fixed-width ISAs: buffers of exactly 64, 60, 56 bytes of nops whose last three (quick)
//! / four (thorough; quick: the 64-byte window at 0x1000) words run over ALL tuples of a 20 / 14 / 16-word alphabet of control
//! transfers and ordinary words (`window_alphabet`), at 0x1000 and 0x40_0000; all pairs / words as 8- / 4-byte buffers.
//! `grid` - x86 / amd64: prefix sequences of length 0..2 over 66 67 f2 f3 2e 36 3e 26 64 65 f0 (quick: none, the 11 single ones,
//! the 20 pairs containing 67; thorough: all 133) x [amd64: REX none / 48 / 40 / 4c / 41 - rotating in the quick tier, crossed in the
//! thorough one] x every one-byte and every 0f xx opcode x 9 ModRM forms (mod=00 rm=000; SIB 25 disp32 / 24 / 0c; rm=101 disp32 or
//! RIP-relative; rm=110 = disp16 under 67; mod=01 disp8; mod=10 disp32; mod=11; displacement bytes 34 12 00 00) x all 8 reg fields,
//! followed by the immediate pattern 78 56 34 12.
//! FAMILIES (quick tier; `VERIF_TIER=thorough` widens the starred ones): every 1- and 2-byte string, raw (truncated) and
//! padded to 16 bytes with 0x00 / 0xff; for the five fixed-width configurations every 32-bit word `top half x low half`
//! with all 2^16 top halves and 4* (16) representative low halves; 30 000* (200 000) fixed-seed random 16-byte strings per
//! translator; a corpus of valid encodings per ISA with every 1-bit flip and* every 2-bit flip (thorough: all pairs;
//! quick: pairs within the first 4 bytes of a stride), every truncation of every corpus entry, corpus entry + truncated
//! second instruction; x86 prefix-only strings (runs of 66 / 67 / f2 / f3 / f0 / segment / REX prefixes up to 16 bytes);
//! addresses 0x1000 (everything) and 0, 0xffff_fff0, 0xffff_ffff_ffff_fff0 (1-byte strings, corpus, flips of stride,
//! prefix strings, a slice of the random strings).  Deterministic: seeded by VERIF_SEED (default 0xC05), results are
//! ordered by job number, independent of the thread schedule.  Threads: VERIF_THREADS (default 4).
use falcon::il::*;
use falcon::translator::aarch64::{AArch64, AArch64Eb};
use falcon::translator::mips::{Mips, Mipsel};
use falcon::translator::ppc::Ppc;
use falcon::translator::x86::{Amd64, X86};
use falcon::translator::{BlockTranslationResult, Options, OptionsBuilder, Translator};
use std::collections::{BTreeMap, BTreeSet};
use std::panic::{catch_unwind, AssertUnwindSafe};
use std::sync::atomic::{AtomicBool, AtomicU64, AtomicUsize, Ordering};
use std::sync::{Arc, Mutex};
use std::time::{Duration, Instant};

// ------------------------------------------------------------------------------------------------ infrastructure
thread_local! { static LAST_PANIC: std::cell::RefCell<String> = std::cell::RefCell::new(String::new()); }

fn splitmix(x: u64) -> u64 {
    let mut z = x.wrapping_add(0x9E3779B97F4A7C15);
    z = (z ^ (z >> 30)).wrapping_mul(0xBF58476D1CE4E5B9);
    z = (z ^ (z >> 27)).wrapping_mul(0x94D049BB133111EB);
    z ^ (z >> 31)
}
struct Rng(u64);
impl Rng {
    fn next(&mut self) -> u64 { self.0 = self.0.wrapping_add(0x9E3779B97F4A7C15); splitmix(self.0) }
}

fn hex(b: &[u8]) -> String { b.iter().map(|x| format!("{:02x}", x)).collect::<Vec<_>>().join("") }
fn jstr(s: &str) -> String {
    let mut o = String::from("\"");
    for c in s.chars() {
        match c {
            '"' => o.push_str("\\\""),
            '\\' => o.push_str("\\\\"),
            '\n' => o.push_str("\\n"),
            c if (c as u32) < 0x20 => o.push_str(&format!("\\u{:04x}", c as u32)),
            c => o.push(c),
        }
    }
    o.push('"');
    o
}

#[derive(Clone, Copy, PartialEq, Debug)]
enum Isa { X86, Amd64, MipsBe, MipsLe, Ppc, A64 }

struct Tr { name: &'static str, isa: Isa, t: Box<dyn Translator + Send + Sync> }

fn translators() -> Vec<Tr> {
    vec![
        Tr { name: "x86", isa: Isa::X86, t: Box::new(X86::new()) },
        Tr { name: "amd64", isa: Isa::Amd64, t: Box::new(Amd64::new()) },
        Tr { name: "mips", isa: Isa::MipsBe, t: Box::new(Mips::new()) },
        Tr { name: "mipsel", isa: Isa::MipsLe, t: Box::new(Mipsel::new()) },
        Tr { name: "ppc", isa: Isa::Ppc, t: Box::new(Ppc::new()) },
        Tr { name: "aarch64", isa: Isa::A64, t: Box::new(AArch64::new()) },
        Tr { name: "aarch64eb", isa: Isa::A64, t: Box::new(AArch64Eb::new()) },
    ]
}

// ------------------------------------------------------------------------------------------------ the checker
/// width of an expression, recomputed here; Err = the width rule that is broken
fn ebits(e: &Expression) -> Result<usize, String> {
    use Expression as E;
    match e {
        E::Scalar(s) => if s.bits() >= 1 { Ok(s.bits()) } else { Err(format!("scalar {} has width 0", s.name())) },
        E::Constant(c) => {
            if c.bits() < 1 { return Err("constant of width 0".to_string()); }
            if c.value().bits() as usize > c.bits() { return Err(format!("constant {} does not fit {} bits", c.value(), c.bits())); }
            Ok(c.bits())
        }
        E::Add(l, r) | E::Sub(l, r) | E::Mul(l, r) | E::Divu(l, r) | E::Modu(l, r) | E::Divs(l, r) | E::Mods(l, r)
        | E::And(l, r) | E::Or(l, r) | E::Xor(l, r) | E::Shl(l, r) | E::Shr(l, r) | E::AShr(l, r) => {
            let (a, b) = (ebits(l)?, ebits(r)?);
            if a != b { return Err(format!("binary operands of widths {} and {} in `{}`", a, b, e)); }
            Ok(a)
        }
        E::Cmpeq(l, r) | E::Cmpneq(l, r) | E::Cmplts(l, r) | E::Cmpltu(l, r) => {
            let (a, b) = (ebits(l)?, ebits(r)?);
            if a != b { return Err(format!("comparison operands of widths {} and {} in `{}`", a, b, e)); }
            Ok(1)
        }
        E::Zext(b, x) | E::Sext(b, x) => {
            let a = ebits(x)?;
            if a >= *b { return Err(format!("extension of {} bits to {} bits in `{}`", a, b, e)); }
            Ok(*b)
        }
        E::Trun(b, x) => {
            let a = ebits(x)?;
            if *b < 1 || *b >= a { return Err(format!("truncation of {} bits to {} bits in `{}`", a, b, e)); }
            Ok(*b)
        }
        E::Ite(c, t, f) => {
            let (cb, a, b) = (ebits(c)?, ebits(t)?, ebits(f)?);
            if cb != 1 { return Err(format!("ite condition of {} bits in `{}`", cb, e)); }
            if a != b { return Err(format!("ite arms of widths {} and {} in `{}`", a, b, e)); }
            Ok(a)
        }
    }
}

fn scalars_of(e: &Expression, out: &mut BTreeMap<String, usize>, clash: &mut Option<String>) {
    use Expression as E;
    match e {
        E::Scalar(s) => {
            if let Some(w) = out.get(s.name()) { if *w != s.bits() { *clash = Some(format!("scalar {} read at widths {} and {}", s.name(), w, s.bits())); } }
            out.insert(s.name().to_string(), s.bits());
        }
        E::Constant(_) => {}
        E::Add(l, r) | E::Sub(l, r) | E::Mul(l, r) | E::Divu(l, r) | E::Modu(l, r) | E::Divs(l, r) | E::Mods(l, r)
        | E::And(l, r) | E::Or(l, r) | E::Xor(l, r) | E::Shl(l, r) | E::Shr(l, r) | E::AShr(l, r) | E::Cmpeq(l, r)
        | E::Cmpneq(l, r) | E::Cmplts(l, r) | E::Cmpltu(l, r) => { scalars_of(l, out, clash); scalars_of(r, out, clash); }
        E::Zext(_, x) | E::Sext(_, x) | E::Trun(_, x) => scalars_of(x, out, clash),
        E::Ite(c, t, f) => { scalars_of(c, out, clash); scalars_of(t, out, clash); scalars_of(f, out, clash); }
    }
}

fn mask(w: usize) -> u128 { if w >= 128 { u128::MAX } else { (1u128 << w) - 1 } }
fn sx(w: usize, v: u128) -> i128 { if w >= 128 { v as i128 } else if (v >> (w - 1)) & 1 == 1 { (v | !mask(w)) as i128 } else { v as i128 } }

/// own evaluator: (width, value) or None = does not evaluate (undefined scalar, division by zero, wider than 128 bits)
fn eval(e: &Expression, env: &BTreeMap<String, u128>) -> Option<(usize, u128)> {
    use Expression as E;
    let bin = |l: &Expression, r: &Expression| -> Option<(usize, u128, u128)> {
        let (a, x) = eval(l, env)?;
        let (b, y) = eval(r, env)?;
        if a != b || a > 128 { return None; }
        Some((a, x, y))
    };
    Some(match e {
        E::Scalar(s) => { if s.bits() > 128 { return None; } (s.bits(), *env.get(s.name())? & mask(s.bits())) }
        E::Constant(c) => { if c.bits() > 128 { return None; } (c.bits(), c.value_u128()?) }
        E::Add(l, r) => { let (w, x, y) = bin(l, r)?; (w, x.wrapping_add(y) & mask(w)) }
        E::Sub(l, r) => { let (w, x, y) = bin(l, r)?; (w, x.wrapping_sub(y) & mask(w)) }
        E::Mul(l, r) => { let (w, x, y) = bin(l, r)?; (w, x.wrapping_mul(y) & mask(w)) }
        E::Divu(l, r) => { let (w, x, y) = bin(l, r)?; if y == 0 { return None; } (w, x / y) }
        E::Modu(l, r) => { let (w, x, y) = bin(l, r)?; if y == 0 { return None; } (w, x % y) }
        E::Divs(l, r) => { let (w, x, y) = bin(l, r)?; if y == 0 { return None; } (w, (sx(w, x).wrapping_div(sx(w, y)) as u128) & mask(w)) }
        E::Mods(l, r) => { let (w, x, y) = bin(l, r)?; if y == 0 { return None; } (w, (sx(w, x).wrapping_rem(sx(w, y)) as u128) & mask(w)) }
        E::And(l, r) => { let (w, x, y) = bin(l, r)?; (w, x & y) }
        E::Or(l, r) => { let (w, x, y) = bin(l, r)?; (w, x | y) }
        E::Xor(l, r) => { let (w, x, y) = bin(l, r)?; (w, x ^ y) }
        E::Shl(l, r) => { let (w, x, y) = bin(l, r)?; (w, if y >= w as u128 { 0 } else { (x << y) & mask(w) }) }
        E::Shr(l, r) => { let (w, x, y) = bin(l, r)?; (w, if y >= w as u128 { 0 } else { x >> y }) }
        E::AShr(l, r) => { let (w, x, y) = bin(l, r)?; let s = sx(w, x); (w, (if y >= w as u128 { if s < 0 { -1i128 } else { 0 } } else { s >> y }) as u128 & mask(w)) }
        E::Cmpeq(l, r) => { let (_, x, y) = bin(l, r)?; (1, (x == y) as u128) }
        E::Cmpneq(l, r) => { let (_, x, y) = bin(l, r)?; (1, (x != y) as u128) }
        E::Cmpltu(l, r) => { let (_, x, y) = bin(l, r)?; (1, (x < y) as u128) }
        E::Cmplts(l, r) => { let (w, x, y) = bin(l, r)?; (1, (sx(w, x) < sx(w, y)) as u128) }
        E::Zext(b, x) => { let (w, v) = eval(x, env)?; if *b <= w || *b > 128 { return None; } (*b, v) }
        E::Sext(b, x) => { let (w, v) = eval(x, env)?; if *b <= w || *b > 128 { return None; } (*b, (sx(w, v) as u128) & mask(*b)) }
        E::Trun(b, x) => { let (w, v) = eval(x, env)?; if *b >= w || *b < 1 { return None; } (*b, v & mask(*b)) }
        E::Ite(c, t, f) => { let (cw, cv) = eval(c, env)?; if cw != 1 { return None; } if cv == 1 { eval(t, env)? } else { eval(f, env)? } }
    })
}

/// one defect observed on one call: (kind, detail)
type Finding = (&'static str, String);

fn check_guard(g: &Expression, what: &str, out: &mut Vec<Finding>) -> bool {
    match ebits(g) {
        Err(m) => { out.push(("guard_width", format!("{}: {}", what, m))); false }
        Ok(1) => true,
        Ok(w) => { out.push(("guard_width", format!("{}: guard `{}` has {} bits", what, g, w))); false }
    }
}

/// exactly-one check over a list of guards (None = unconditional). `at_most` = zero enabled is acceptable.
fn check_partition(guards: &[Option<&Expression>], seed: u64, at_most: bool) -> Option<String> {
    let mut sc = BTreeMap::new();
    let mut clash = None;
    for g in guards.iter().flatten() { scalars_of(g, &mut sc, &mut clash); }
    if let Some(c) = clash { return Some(c); }
    if sc.values().any(|w| *w > 128) { return None; }
    let names: Vec<(String, usize)> = sc.into_iter().collect();
    let total: usize = names.iter().map(|x| x.1).sum();
    let exhaustive = total <= 12;
    let n = if exhaustive { 1usize << total } else { 512 };
    let mut rng = Rng(seed);
    for a in 0..n {
        let mut env = BTreeMap::new();
        if exhaustive {
            let mut bits = a as u128;
            for (nm, w) in &names { env.insert(nm.clone(), bits & mask(*w)); bits >>= *w; }
        } else {
            for (nm, w) in &names {
                let r = rng.next();
                let v = match if a < 8 { a as u64 % 4 } else { r % 8 } {
                    0 => 0u128,
                    1 => 1,
                    2 => mask(*w),
                    3 => 1u128 << (*w - 1),
                    _ => ((rng.next() as u128) << 64 | rng.next() as u128) & mask(*w),
                };
                env.insert(nm.clone(), v);
            }
        }
        let mut enabled = 0;
        let mut applicable = true;
        for g in guards {
            match g {
                None => enabled += 1,
                Some(g) => match eval(g, &env) {
                    Some((1, 1)) => enabled += 1,
                    Some((1, 0)) => {}
                    _ => { applicable = false; break; }
                },
            }
        }
        if !applicable { continue; }
        if enabled > 1 || (enabled == 0 && !at_most) {
            let envs = env.iter().map(|(k, v)| format!("{}={:#x}", k, v)).collect::<Vec<_>>().join(",");
            let gs = guards.iter().map(|g| match g { None => "-".to_string(), Some(g) => format!("{}", g) }).collect::<Vec<_>>().join(" | ");
            return Some(format!("{} enabled under {{{}}}: guards [{}]", enabled, envs, gs));
        }
    }
    None
}

fn check_op(op: &Operation, out: &mut Vec<Finding>) {
    let ex = |e: &Expression, out: &mut Vec<Finding>, what: &str| -> Option<usize> {
        match ebits(e) { Ok(w) => Some(w), Err(m) => { out.push(("expr_width", format!("{} in `{}`: {}", what, op, m))); None } }
    };
    match op {
        Operation::Assign { dst, src } => {
            if let Some(w) = ex(src, out, "source") {
                if dst.bits() != w { out.push(("assign_width", format!("`{}`: {} bits assigned to {}:{}", op, w, dst.name(), dst.bits()))); }
            }
        }
        Operation::Load { dst, index } => {
            if let Some(w) = ex(index, out, "address") {
                if w > 64 { out.push(("load_width", format!("`{}`: address of {} bits", op, w))); }
            }
            if dst.bits() == 0 || dst.bits() % 8 != 0 { out.push(("load_width", format!("`{}`: loads {} bits", op, dst.bits()))); }
        }
        Operation::Store { index, src } => {
            if let Some(w) = ex(index, out, "address") {
                if w > 64 { out.push(("store_width", format!("`{}`: address of {} bits", op, w))); }
            }
            if let Some(w) = ex(src, out, "value") {
                if w % 8 != 0 { out.push(("store_width", format!("`{}`: stores {} bits", op, w))); }
            }
        }
        Operation::Branch { target } => {
            if let Some(w) = ex(target, out, "target") {
                if w > 64 { out.push(("branch_width", format!("`{}`: target of {} bits", op, w))); }
            }
        }
        Operation::Intrinsic { intrinsic } => {
            let mut all: Vec<&Expression> = intrinsic.arguments().iter().collect();
            if let Some(w) = intrinsic.written_expressions() { all.extend(w.iter()); }
            if let Some(r) = intrinsic.read_expressions() { all.extend(r.iter()); }
            for e in all { if let Err(m) = ebits(e) { out.push(("intrinsic_expr", format!("`{}`: {}", op, m))); } }
        }
        Operation::Nop { placeholder } => { if let Some(p) = placeholder { check_op(p, out); } }
    }
}

fn check_graph(g: &ControlFlowGraph, tag: &str, seed: u64, out: &mut Vec<Finding>) {
    let blocks: BTreeSet<usize> = g.blocks().iter().map(|b| b.index()).collect();
    let (entry, exit) = (g.entry(), g.exit());
    match (entry, exit) {
        (Some(a), Some(b)) if blocks.contains(&a) && blocks.contains(&b) => {}
        _ => out.push(("no_entry_exit", format!("{}: entry {:?} exit {:?} blocks {:?}", tag, entry, exit, blocks))),
    }
    for b in g.blocks() {
        for i in b.instructions() { check_op(i.operation(), out); }
    }
    let mut succ: BTreeMap<usize, Vec<&Edge>> = BTreeMap::new();
    for e in g.edges() {
        if !blocks.contains(&e.head()) || !blocks.contains(&e.tail()) {
            out.push(("edge_dangling", format!("{}: edge {} -> {} with blocks {:?}", tag, e.head(), e.tail(), blocks)));
            continue;
        }
        succ.entry(e.head()).or_default().push(e);
    }
    if let (Some(a), Some(z)) = (entry, exit) {
        let mut seen = BTreeSet::new();
        let mut st = vec![a];
        while let Some(x) = st.pop() {
            if !seen.insert(x) { continue; }
            for e in succ.get(&x).map(|v| v.as_slice()).unwrap_or(&[]) { st.push(e.tail()); }
        }
        if blocks.contains(&a) && blocks.contains(&z) && !seen.contains(&z) {
            out.push(("exit_unreachable", format!("{}: exit {} not reachable from entry {}", tag, z, a)));
        }
    }
    for b in &blocks {
        let es = succ.get(b).map(|v| v.as_slice()).unwrap_or(&[]);
        if es.is_empty() {
            if Some(*b) != exit { out.push(("dead_end", format!("{}: block {} is not the exit and has no out-edge", tag, b))); }
            continue;
        }
        let mut ok = true;
        for e in es { if let Some(c) = e.condition() { ok &= check_guard(c, &format!("{} edge {}->{}", tag, e.head(), e.tail()), out); } }
        if !ok { continue; }
        let guards: Vec<Option<&Expression>> = es.iter().map(|e| e.condition()).collect();
        if let Some(m) = check_partition(&guards, seed ^ (*b as u64).wrapping_mul(0x9E37), Some(*b) == exit) {
            out.push(("edges_enabled", format!("{} block {}: {}", tag, b, m)));
        }
    }
}

/// mnemonics of the Intrinsics the lifters build for SUPPORTED instructions (lib/translator/*/semantics.rs)
fn intrinsic_mnemonics(isa: Isa) -> &'static [&'static str] {
    match isa {
        Isa::X86 | Isa::Amd64 => &["int", "syscall", "sysenter", "ud2"],
        Isa::MipsBe | Isa::MipsLe => &["IntegerOverflow", "break", "rdhwr", "syscall", "trap"],
        Isa::Ppc | Isa::A64 => &[],
    }
}

/// zero-displacement unconditional jumps (their target, computed by the decoder, IS the next address)
fn ends_in_jump_to_next(isa: Isa, bytes: &[u8], res: &BlockTranslationResult) -> bool {
    let n = res.length().min(bytes.len());
    let b = &bytes[..n];
    match isa {
        Isa::X86 | Isa::Amd64 => b.ends_with(&[0xeb, 0x00]) || b.ends_with(&[0xe9, 0, 0, 0, 0]) || b.ends_with(&[0xe9, 0, 0]),
        Isa::Ppc => b.ends_with(&[0x48, 0, 0, 4]),
        Isa::A64 => b.ends_with(&[1, 0, 0, 0x14]),
        Isa::MipsBe | Isa::MipsLe => false,
    }
}

fn check_result(tr: &Tr, bytes: &[u8], address: u64, res: &BlockTranslationResult, seed: u64, out: &mut Vec<Finding>) {
    for (k, (a, g)) in res.instructions().iter().enumerate() {
        check_graph(g, &format!("instruction {} @{:#x}", k, a), seed ^ (k as u64) << 20, out);
    }
    let succ = res.successors();
    let mut ok = true;
    for (a, c) in succ { if let Some(c) = c { ok &= check_guard(c, &format!("successor {:#x}", a), out); } }
    if ok && !succ.is_empty() {
        let guards: Vec<Option<&Expression>> = succ.iter().map(|s| s.1.as_ref()).collect();
        if let Some(m) = check_partition(&guards, seed ^ 0x5cc, false) {
            let ss = succ.iter().map(|s| format!("{:#x}", s.0)).collect::<Vec<_>>().join(",");
            out.push(("successors_enabled", format!("successors [{}]: {}", ss, m)));
        }
    }
    if address.checked_add(res.length() as u64).is_none() {
        let w = address.wrapping_add(res.length() as u64);
        if succ.iter().any(|s| s.0 == w) && !ends_in_jump_to_next(tr.isa, bytes, res) {
            out.push(("fallthrough_wrap", format!("address {:#x} + length {} exceeds 2^64; successor {:#x} is the wrapped sum (overflow panic in builds with overflow checks)", address, res.length(), w)));
        }
    }
}

// ------------------------------------------------------------------------------------------------ one evaluation
/// per worker: (start of the call in flight, number of jobs all workers had finished at that moment, report line)
struct Watch { slots: Vec<Mutex<Option<(Instant, u64, String)>>>, jobs_done: AtomicU64 }

#[derive(Default)]
struct Stats { calls: u64, ok: u64, err: u64, panics: u64, instrs: u64 }

fn run_one(tr: &Tr, policy: bool, opts: &Options, bytes: &[u8], address: u64, seed: u64, stats: &mut Stats, check_det: bool) -> Vec<Finding> {
    run_one_r(tr, policy, opts, bytes, address, seed, stats, check_det, &mut None)
}
/// `render`: in = the `{:?}` rendering of the Ok result under the OTHER (error) policy, if any; out = this call's rendering
fn run_one_r(tr: &Tr, policy: bool, opts: &Options, bytes: &[u8], address: u64, seed: u64, stats: &mut Stats, check_det: bool, render: &mut Option<String>) -> Vec<Finding> {
    let mut out = Vec::new();
    let other = render.take();
    stats.calls += 1;
    let r = catch_unwind(AssertUnwindSafe(|| tr.t.translate_block(bytes, address, opts)));
    match r {
        Err(_) => {
            stats.panics += 1;
            out.push(("panic", LAST_PANIC.with(|p| p.borrow().clone())));
        }
        Ok(Err(_)) => stats.err += 1,
        Ok(Ok(res)) => {
            stats.ok += 1;
            stats.instrs += res.instructions().len() as u64;
            check_result(tr, bytes, address, &res, seed, &mut out);
            if !policy {
                for (a, g) in res.instructions() {
                    for b in g.blocks() {
                        for i in b.instructions() {
                            if let Operation::Intrinsic { intrinsic } = i.operation() {
                                if !intrinsic_mnemonics(tr.isa).contains(&intrinsic.mnemonic()) {
                                    out.push(("policy_ignored", format!("error policy, yet the instruction at {:#x} is lifted to the intrinsic `{}`", a, intrinsic.instruction_str())));
                                }
                            }
                        }
                    }
                }
            }
            if check_det {
                let mine = format!("{:?}", res);
                let again = catch_unwind(AssertUnwindSafe(|| tr.t.translate_block(bytes, address, opts)));
                let same = match again { Ok(Ok(r2)) => format!("{:?}", r2) == mine, _ => false };
                if !same { out.push(("nondeterministic", "second translation of the same bytes renders differently".to_string())); }
                // the policy may only matter where an unsupported instruction is met: a block the error policy lifts
                // (no unsupported instruction in it) must be lifted identically under the intrinsics policy
                if policy { if let Some(o) = other { if o != mine { out.push(("policy_dependence", "the block lifts under the error policy, but differently under the intrinsics policy".to_string())); } } }
                *render = Some(mine);
            }
        }
    }
    out
}

// ------------------------------------------------------------------------------------------------ corpora
fn h(s: &str) -> Vec<u8> {
    let s: String = s.chars().filter(|c| !c.is_whitespace()).collect();
    (0..s.len() / 2).map(|i| u8::from_str_radix(&s[2 * i..2 * i + 2], 16).unwrap()).collect()
}

fn corpus_x86(amd64: bool) -> Vec<Vec<u8>> {
    let mut v: Vec<Vec<u8>> = [
        "90", "c3", "c2 0800", "f4", "cc", "cd 80", "0f 05", "0f 34", "0f 0b", "9b", "f3 90", "fc", "fd", "f8", "f9", "f5", "fa", "fb", "9e", "98", "99", "66 98", "66 99",
        "01 d8", "03 03", "83 c0 01", "81 c3 78563412", "00 e4", "10 c8", "11 18", "29 d8", "2b 45 fc", "83 ec 10", "19 c0", "1b 04 8b", "31 c0", "33 44 24 04", "21 d8", "09 d8", "f7 d0", "f7 d8", "f6 d8",
        "39 d8", "3b 45 08", "83 f8 00", "3c 41", "85 c0", "a8 01", "84 c0", "f7 c1 04000000",
        "40", "48", "ff c0", "ff 08", "fe c3",
        "89 d8", "8b 45 08", "8b 04 8b", "8b 84 8b 00010000", "c7 45 fc 00000000", "b8 78563412", "b0 7f", "b4 12", "88 e0", "8a 23", "66 89 d8", "66 b8 3412", "a1 44332211", "a3 44332211", "8d 44 8b 04", "8d 04 85 00000000",
        "0f b6 c3", "0f b7 03", "0f be c3", "0f bf 03", "0f b6 44 24 04",
        "50", "58", "6a 10", "68 78563412", "ff 30", "8f 00", "c9", "66 50", "66 58",
        "e8 00000000", "e8 fbffffff", "ff d0", "ff 10", "ff 14 85 00100000", "e9 10000000", "eb 00", "eb fe", "ff e0", "ff 20", "ff 24 85 00100000",
        "74 00", "74 10", "75 fe", "72 10", "73 10", "76 10", "77 10", "78 10", "79 10", "7a 10", "7b 10", "7c 10", "7d 10", "7e 10", "7f 10", "70 10", "71 10", "e3 10", "0f 84 10000000", "0f 85 f0ffffff", "e2 fe", "e1 fe", "e0 fe",
        "0f 94 c0", "0f 95 00", "0f 9c c3", "0f 92 c0", "0f 44 c3", "0f 45 03", "0f 4c c3", "0f 4f 03", "0f 42 c1",
        "d1 e0", "c1 e0 04", "d3 e0", "d1 e8", "c1 e8 1f", "d3 e8", "d1 f8", "c1 f8 04", "d3 f8", "c1 c0 04", "c1 c8 04", "d3 c0", "d3 c8", "d0 e0", "66 c1 e0 04", "0f a4 d8 04", "0f a5 d8", "0f ac d8 04", "0f ad d8", "c1 20 04",
        "f7 e3", "f6 e3", "f7 23", "f7 eb", "0f af c3", "6b c3 10", "69 c3 00010000", "f7 f3", "f6 f3", "f7 fb", "f6 fb", "f7 33", "66 f7 f3",
        "0f a3 d8", "0f ba e0 04", "0f ab d8", "0f b3 d8", "0f bb d8", "0f ba f8 1f", "0f bc c3", "0f bd c3", "0f c8", "0f c9", "0f c1 d8", "0f c0 d8", "87 d8", "87 03", "93", "86 c4", "0f b1 0b", "0f b0 0b", "f0 0f b1 0b",
        "a4", "a5", "66 a5", "f3 a4", "f3 a5", "aa", "ab", "f3 aa", "f3 ab", "66 ab", "ac", "ad", "f3 ac", "ae", "f2 ae", "f3 ae", "66 af", "f2 66 af", "a6", "f3 a6", "f2 a6", "a7", "f3 a7",
        "0f 6f c1", "66 0f 6f c1", "66 0f 6f 03", "f3 0f 6f 03", "66 0f 7f 03", "f3 0f 7f 03", "0f 28 c1", "0f 29 03", "66 0f 28 c1", "0f 10 03", "0f 11 03", "66 0f d6 03", "f3 0f 7e c1", "f3 0f 7e 03", "66 0f 6e c0", "66 0f 7e c0", "0f 6e c0", "0f 7e c0",
        "66 0f ef c0", "0f ef c0", "66 0f eb c1", "66 0f 74 c1", "66 0f 76 c1", "66 0f d7 c1", "0f d7 c1", "66 0f da c1", "66 0f 70 c1 1b", "66 0f 73 f9 04", "66 0f 73 d9 04", "66 0f f8 c1", "66 0f fb c1", "66 0f d4 c1", "66 0f 60 c1", "66 0f 61 c1", "66 0f 16 03", "66 0f 17 03", "66 0f 12 03", "66 0f 13 03", "0f c3 03",
        "0f 18 00", "0f 18 08", "0f 18 10", "0f 18 18", "0f 1f 00", "0f 1f 44 00 00", "66 0f 1f 44 00 00", "66 90",
        "64 a1 00000000", "65 8b 05 00000000", "64 8b 00", "26 8b 00", "2e 8b 00", "36 8b 00", "3e 8b 00", "67 8b 00", "67 8b 04", "67 e3 10", "66 e8 0000", "66 e9 0000",
        "d9 00", "d8 c1", "dd 18", "0f a2", "0f 31", "0f 01 d0", "0f ae f0", "0f ae e8", "c8 1000 00", "60", "61", "9c", "9d", "d6", "d4 0a", "d5 0a", "27", "2f", "37", "3f", "62 00", "63 c3", "c4 00", "c5 00", "ea 00000000 0000", "9a 00000000 0000", "cf", "ca 0000", "cb", "8c d8", "8e d8", "0f 00 c0", "0f 20 c0", "0f 22 c0", "e4 10", "e6 10", "ec", "ee", "6c", "6e", "f1", "d7", "9f", "0f 0d 00", "c6 f8 00", "c7 f8 00000000",
        "8b 04 25 00000000", "8b 05 00000000", "8b 44 24 04", "8b 04 24", "8b 45 00", "8b 04 e5 00000000", "89 e5", "8b 2c 24",
    ].iter().map(|s| h(s)).collect();
    if amd64 {
        v.extend([
            "48 89 d8", "48 8b 45 08", "4c 8b 04 8b", "48 b8 8877665544332211", "48 c7 c0 ffffffff", "48 01 d8", "48 83 c0 01", "48 29 d8", "48 31 c0", "48 39 d8", "48 85 c0", "48 ff c0", "49 ff c8", "48 f7 d8", "48 f7 e3", "48 f7 f3", "48 f7 fb", "48 0f af c3", "48 98", "48 99", "48 63 c3", "4c 63 03", "48 0f b6 c3", "48 0f bf c3",
            "48 8d 05 00000000", "48 8b 05 10000000", "ff 15 00000000", "ff 25 00000000", "48 ff 25 00000000", "41 50", "41 58", "41 ff d0", "41 ff e0", "48 c1 e0 04", "48 d3 e8", "48 c1 f8 3f", "48 0f a4 d8 04", "48 0f a3 d8", "48 0f bc c3", "48 0f c8", "48 0f c1 d8", "48 87 d8", "48 0f b1 0b",
            "48 a5", "f3 48 a5", "48 ab", "f3 48 ab", "48 ad", "48 af", "f2 48 af", "48 a7", "f3 48 a7", "66 48 0f 6e c0", "66 48 0f 7e c0", "66 4c 0f 6e c0", "66 45 0f 6f c1", "66 41 0f d7 c1", "48 0f c3 03", "4d 0f c3 00",
            "40 88 f0", "40 8a 38", "44 88 c0", "41 88 c0", "40 80 c7 01", "48 0f 44 c3", "4c 0f 45 03", "41 0f 94 c0", "40 0f 94 c7", "65 48 8b 04 25 28000000", "64 48 8b 04 25 00000000", "67 48 8b 00", "67 8b 00", "48 cf", "48 0f 05", "0f 01 f8", "48 0f 07", "4f", "40", "48", "4c", "40 90", "48 90", "49 90", "41 90",
            "48 a1 8877665544332211", "48 a3 8877665544332211", "a1 8877665544332211", "e3 10", "67 e3 10", "c9", "66 c9", "48 cb", "6a ff", "68 ffffffff", "66 6a ff", "66 68 ffff", "9c", "9d", "66 9c",
        ].iter().map(|s| h(s)));
    }
    v
}

/// 32-bit words (most significant byte first); byte order is applied by `word_bytes`
fn corpus_mips() -> Vec<u32> {
    vec![
        0x00000000, 0x01095020, 0x01095021, 0x01095022, 0x01095023, 0x01095024, 0x01095025, 0x01095026, 0x01095027, 0x0109502a, 0x0109502b, 0x0109500a, 0x0109500b,
        0x21280010, 0x2528fff0, 0x31280fff, 0x35280fff, 0x39280fff, 0x29280010, 0x2d28fff0, 0x3c081234, 0x00084100, 0x00084102, 0x00084103, 0x01094004, 0x01094006, 0x01094007,
        0x01090018, 0x01090019, 0x0109001a, 0x0109001b, 0x00004010, 0x00004012, 0x01000011, 0x01000013, 0x71090000, 0x71090001, 0x71090004, 0x71090005, 0x71095002, 0x71095020, 0x71095021,
        0x81280004, 0x91280004, 0x85280004, 0x95280004, 0x8d280004, 0x8d28fffc, 0xa1280004, 0xa5280004, 0xad280004, 0x89280004, 0x99280004, 0xa9280004, 0xb9280004, 0xc1280004, 0xe1280004,
        0x10000004, 0x1109fffc, 0x1509fffc, 0x05010004, 0x1d000004, 0x19000004, 0x05000004, 0x04110004, 0x05110004, 0x05100004, 0x08000400, 0x0c000400, 0x01000008, 0x03e00008, 0x0100f809, 0x01006809,
        0x51090004, 0x55090004, 0x05030004, 0x05020004, 0x0000000c, 0x0000000d, 0x01090034, 0x7c03e83b, 0x0000000f, 0x42000018, 0x40086000, 0x40886000, 0x46000000, 0xc5000000, 0xe5000000, 0x7c084420, 0x7c084620, 0x7c0a4880, 0x00094021, 0x00094023, 0x01090036, 0x0520fffc, 0x0128001a, 0x012a0018,
    ]
}
fn corpus_ppc() -> Vec<u32> {
    vec![
        0x7c632214, 0x7c632215, 0x38630010, 0x3863fff0, 0x3c631234, 0x38600010, 0x3c601234, 0x7c832378, 0x7c632050, 0x7c632051, 0x7c6802a6, 0x7c6803a6, 0x7c6903a6, 0x7c6902a6, 0x7c641e70, 0x7c641e71, 0x7c640194, 0x7c640195,
        0x2c030010, 0x2c83fff0, 0x28030010, 0x2b83ffff, 0x7c032000, 0x7f832040, 0x5463103a, 0x5463103b, 0x546307fe, 0x5464f0be, 0x5464e8fa, 0x54640000, 0x5464ffff,
        0x88640004, 0x80640004, 0x8064fffc, 0x84640004, 0x90640004, 0x94640004, 0x9464fff0, 0xbfa1fff4, 0x80600004, 0x90600004, 0x88600004,
        0x48000010, 0x4bfffff0, 0x48000004, 0x48000011, 0x48000000, 0x4e800020, 0x4e800021, 0x4e800420, 0x4e800421, 0x41820010, 0x4082fff0, 0x41800010, 0x4200fff0, 0x42000011, 0x4d820020, 0x4c810020, 0x40820011,
        0x60000000, 0x60630010, 0x70630010, 0x7c632038, 0x7c632378, 0x7c632278, 0x7c6321d6, 0x7c6323d6, 0x7c632396, 0x7c630034, 0x7c630774, 0x7c630734, 0x7c632030, 0x7c632430, 0x7c632630, 0x44000002, 0x7c0004ac, 0x4c00012c, 0x7c0006ac, 0x7c6000a6, 0x7c600124, 0x7c600026, 0x7c6ff120, 0xc8230000, 0xfc20082a, 0x10611180, 0x7c2002a6, 0xe8610008, 0xf8610008, 0x7c0004ac, 0x00000000, 0xffffffff,
    ]
}
fn corpus_a64() -> Vec<u32> {
    vec![
        0xd503201f, 0xd65f03c0, 0xd61f0200, 0xd63f0200, 0x14000004, 0x17fffffc, 0x14000001, 0x94000004, 0x97fffffc, 0x54000080, 0x54ffff81, 0x5400008e, 0x5400008f, 0xb4000080, 0xb5ffff80, 0x34000080, 0x35000080, 0x36000080, 0x37f80080, 0xb6f80080,
        0x8b020020, 0x0b020020, 0xab020020, 0x2b020020, 0xcb020020, 0x4b020020, 0xeb020020, 0x6b020020, 0x91000420, 0x11000420, 0xb1000420, 0xd1000420, 0xf1000420, 0x91400420, 0x8b020c20, 0x8b421020, 0x8b821020, 0x8b22c020, 0x8b224020, 0x0b22a020, 0xeb22603f,
        0x8a020020, 0x0a020020, 0xaa020020, 0x2a020020, 0xca020020, 0x4a020020, 0xea020020, 0x8a220020, 0xaa220020, 0xca220020, 0xea220020, 0x92400020, 0x12000020, 0xb2400020, 0xd2400020, 0xf2400020, 0x9201f020, 0x12000c20,
        0xd2800020, 0x52800020, 0x92800020, 0x12800020, 0xf2a00020, 0x72a00020, 0xf2c00020, 0xf2e00020, 0xd2e00020, 0xaa0203e0, 0x2a0203e0, 0x910003e0, 0x9100001f,
        0xf9400020, 0xb9400020, 0x39400020, 0x79400020, 0x39800020, 0x79800020, 0xb9800020, 0x39c00020, 0x79c00020, 0xf9000020, 0xb9000020, 0x39000020, 0x79000020, 0xf8408420, 0xf8408c20, 0xf8008420, 0xf8008c20, 0xf85f8020, 0xb85f8020, 0xf81f8020, 0xf8626820, 0xf8627820, 0xb862d820, 0xf8226820, 0x38626820, 0x38a26820,
        0xa9400820, 0xa9000820, 0x29400820, 0x29000820, 0xa8c10820, 0xa9810820, 0xa9bf7bfd, 0xa8c17bfd, 0x69400820, 0x6d400820, 0xad400820, 0xad000820, 0x2d400820,
        0x58000080, 0x18000080, 0x98000080, 0x1c000080, 0x5c000080, 0x9c000080, 0xd8000080, 0x58ffff80, 0x10000080, 0x90000080, 0x10ffff80, 0xf0ffffe0, 0xb0000000,
        0x9ac20820, 0x1ac20820, 0x9ac20c20, 0x1ac20c20, 0x9b027c20, 0x1b027c20, 0x9b020c20, 0x9b028c20, 0x9b227c20, 0x9ba27c20, 0x9b427c20, 0x9bc27c20, 0x9ac22020, 0x9ac22420, 0x9ac22820, 0x9ac22c20, 0x1ac22020,
        0xd3400420, 0x53000420, 0x93400420, 0x13000420, 0xd340fc20, 0xd37ff820, 0x9341fc20, 0x93407c20, 0x13001c20, 0x13003c20, 0x53001c20, 0x53003c20, 0xd3607c20, 0xb3400420, 0x33000420, 0x93c20420, 0x13820420,
        0x9a820020, 0x1a820020, 0x9a820420, 0xda820020, 0xda820420, 0x9a9f17e0, 0x1a9f07e0, 0xfa420820, 0x3a420820, 0xfa420800, 0xba420820, 0xfa42082f,
        0xdac00020, 0x5ac00020, 0xdac00420, 0xdac00820, 0xdac00c20, 0x5ac00820, 0xdac01020, 0x5ac01020, 0xdac01420,
        0x3dc00020, 0x3d800020, 0xfd400020, 0xbd400020, 0x7d400020, 0x3d400020, 0xfd000020, 0xbd000020, 0x3cc10420, 0x3c810420, 0x4c407020, 0x4c007020, 0x0c407020, 0x4cdf7020, 0x4e083c20, 0x4e081c20, 0x0e043c20, 0x4ea11c20, 0x6e201c20, 0x4e211c20, 0x4f000420, 0x6f00e420, 0x1e260020, 0x9e670020, 0x1e270020, 0x9e660020, 0x1e204020, 0x1e222820, 0x1e602020,
        0xc85f7c20, 0xc8027c20, 0x885f7c20, 0xc8dffc20, 0xc89ffc20, 0x08dffc20, 0xc8a27c20, 0xf8a20020, 0xf8220020, 0x38e20020, 0xd5033fbf, 0xd5033f9f, 0xd5033fdf, 0xd53bd040, 0xd51bd040, 0xd53b4200, 0xd51b4200, 0xd4000001, 0xd4200000, 0xd4400000, 0xd69f03e0, 0xd503233f, 0xd50323bf, 0xd503245f, 0xd65f0bff, 0xd63f081f, 0x00000000, 0xffffffff, 0xd503305f, 0xd500401f, 0xd50b7420, 0xf9800020, 0xf8a0c020, 0x1e202008, 0x4e20d420, 0x6e20dc20, 0x0e205800, 0x2e205800, 0x9e780020, 0x1e380020,
    ]
}
fn word_bytes(isa: Isa, w: u32) -> [u8; 4] {
    match isa { Isa::MipsBe | Isa::Ppc => w.to_be_bytes(), _ => w.to_le_bytes() }
}
fn corpus(isa: Isa) -> Vec<Vec<u8>> {
    match isa {
        Isa::X86 => corpus_x86(false),
        Isa::Amd64 => corpus_x86(true),
        Isa::MipsBe | Isa::MipsLe => corpus_mips().into_iter().map(|w| word_bytes(isa, w).to_vec()).collect(),
        Isa::Ppc => corpus_ppc().into_iter().map(|w| word_bytes(isa, w).to_vec()).collect(),
        Isa::A64 => corpus_a64().into_iter().map(|w| word_bytes(isa, w).to_vec()).collect(),
    }
}

/// small alphabets of control-transfer and ordinary words (most significant byte first) for the WINDOW families
fn window_alphabet(isa: Isa) -> Vec<u32> {
    match isa {
        // nop, addiu, lw, beq $a0,$a1,+3, bne, b +2, j 0x1010, jal 0x1010, jr $ra, jalr $t0, bal, bltzal, bgezal, blez, bgtz, bltz, bgez,
        // beql (branch likely), add.s (no semantics), syscall
        Isa::MipsBe | Isa::MipsLe => vec![0x00000000, 0x25080001, 0x8d280004, 0x10850003, 0x14850003, 0x10000002, 0x08000404, 0x0c000404, 0x03e00008, 0x0100f809,
            0x04110002, 0x04900002, 0x04910002, 0x18800002, 0x1c800002, 0x04800002, 0x04810002, 0x50850002, 0x46000000, 0x0000000c],
        // nop, addi, lwz, b +8, bl +8, beq +8, bne -8, bdnz +8, bdnzl +8, blr, bctr, bctrl, mullw (no semantics), sc
        Isa::Ppc => vec![0x60000000, 0x38630001, 0x80640004, 0x48000008, 0x48000009, 0x41820008, 0x4082fff8, 0x42000008, 0x42000009, 0x4e800020, 0x4e800420, 0x4e800421, 0x7c6321d6, 0x44000002],
        // nop, add, ldr, b +8, bl +8, br x16, blr x16, ret, b.eq +8, cbz +8, cbnz -8, tbz +8, ldr literal, fadd (no semantics), undefined, svc
        Isa::A64 => vec![0xd503201f, 0x8b020020, 0xf9400020, 0x14000002, 0x94000002, 0xd61f0200, 0xd63f0200, 0xd65f03c0, 0x54000040, 0xb4000040, 0xb5ffffc0, 0x36000040, 0x58000040, 0x1e222820, 0x00000000, 0xd4000001],
        _ => vec![],
    }
}
/// buffer of `len` bytes: nops, then the `k` words selected by the digits of `t` (base = alphabet size) as its LAST words
fn window(isa: Isa, alpha: &[u32], len: usize, k: usize, mut t: usize) -> Vec<u8> {
    let words = len / 4;
    let k = k.min(words);
    let mut ws = vec![alpha[0]; words];
    for j in 0..k { ws[words - 1 - j] = alpha[t % alpha.len()]; t /= alpha.len(); }
    ws.iter().flat_map(|w| word_bytes(isa, *w)).collect()
}

/// x86 / amd64 GRID: ModRM forms (every addressing form of both address sizes) with non-zero displacement bytes
const GRID_FORMS: [&[u8]; 9] = [&[0x00], &[0x04, 0x25, 0x34, 0x12, 0x00, 0x00], &[0x04, 0x24], &[0x04, 0x0c], &[0x05, 0x34, 0x12, 0x00, 0x00], &[0x06, 0x34, 0x12],
    &[0x40, 0x34], &[0x80, 0x34, 0x12, 0x00, 0x00], &[0xc0]];
const GRID_PREFIXES: [u8; 11] = [0x66, 0x67, 0xf2, 0xf3, 0x2e, 0x36, 0x3e, 0x26, 0x64, 0x65, 0xf0];
const GRID_REX: [u8; 4] = [0x48, 0x40, 0x4c, 0x41];
/// prefix sequences of length 0..2: all 133 (thorough) or the empty one, the 11 single ones and every pair containing 67 (quick)
fn grid_prefix_seqs(all: bool) -> Vec<Vec<u8>> {
    let mut v: Vec<Vec<u8>> = vec![vec![]];
    for a in GRID_PREFIXES { v.push(vec![a]); }
    for a in GRID_PREFIXES { for b in GRID_PREFIXES { if all || ((a == 0x67) != (b == 0x67)) { v.push(vec![a, b]); } } }
    v
}
/// prefixes [REX] opcode (one byte, or 0f xx) ModRM(form, reg) SIB / displacement, immediate pattern 78 56 34 12
fn grid_bytes(pre: &[u8], rex: Option<u8>, op: usize, form: usize, reg: usize) -> Vec<u8> {
    let mut v = pre.to_vec();
    if let Some(r) = rex { v.push(r); }
    if op >= 256 { v.push(0x0f); }
    v.push(op as u8);
    let f = GRID_FORMS[form];
    v.push(f[0] | (reg as u8) << 3);
    v.extend_from_slice(&f[1..]);
    v.extend_from_slice(&[0x78, 0x56, 0x34, 0x12]);
    v
}

const LOW_HALVES: [u16; 16] = [0x0000, 0xffff, 0x0821, 0x8000, 0x0001, 0x7fff, 0x5555, 0xaaaa, 0x1234, 0x00ff, 0xff00, 0x03e0, 0xfc1f, 0x0400, 0x2108, 0x8421];
const ADDRS: [u64; 4] = [0x1000, 0, 0xffff_fff0, 0xffff_ffff_ffff_fff0];

// ------------------------------------------------------------------------------------------------ job families
/// a family = a numbered list of (bytes, address) for one translator; both policies are run on every job
struct Family { name: &'static str, tr: usize, len: usize, gen: Box<dyn Fn(usize) -> (Vec<u8>, u64) + Send + Sync> }

fn pad(mut b: Vec<u8>, fill: u8) -> Vec<u8> { while b.len() < 16 { b.push(fill); } b }

fn families(trs: &[Tr], thorough: bool, seed: u64) -> Vec<Family> {
    let mut fs: Vec<Family> = Vec::new();
    // development aid (not part of any tier): C05_A64_SLICE=k sweeps every A64 word whose top four bits are k
    if let Some(k) = std::env::var("C05_A64_SLICE").ok().and_then(|s| s.parse::<u32>().ok()) {
        let ti = trs.iter().position(|t| t.name == "aarch64").unwrap();
        fs.push(Family { name: "a64_slice", tr: ti, len: 1 << 28, gen: Box::new(move |i| (((k & 15) << 28 | i as u32).to_le_bytes().to_vec(), 0x1000)) });
        return fs;
    }
    for (ti, tr) in trs.iter().enumerate() {
        let isa = tr.isa;
        let fixed = !matches!(isa, Isa::X86 | Isa::Amd64);
        // every 1-byte string: raw, zero-padded, ff-padded; at all four addresses
        fs.push(Family { name: "bytes1", tr: ti, len: 256 * 3 * 4, gen: Box::new(|i| {
            let (b, m, a) = (i % 256, (i / 256) % 3, i / 768);
            let v = vec![b as u8];
            (match m { 0 => v, 1 => pad(v, 0), _ => pad(v, 0xff) }, ADDRS[a])
        }) });
        // every 2-byte string: raw, zero-padded, ff-padded
        fs.push(Family { name: "bytes2", tr: ti, len: 65536 * 3, gen: Box::new(|i| {
            let (b, m) = (i % 65536, i / 65536);
            let v = vec![(b >> 8) as u8, b as u8];
            (match m { 0 => v, 1 => pad(v, 0), _ => pad(v, 0xff) }, 0x1000)
        }) });
        // fixed-width ISAs: walking words
        if fixed {
            let nlow = if thorough { 16 } else { 4 };
            fs.push(Family { name: "words", tr: ti, len: 65536 * nlow, gen: Box::new(move |i| {
                let w = ((i % 65536) as u32) << 16 | LOW_HALVES[i / 65536] as u32;
                (word_bytes(isa, w).to_vec(), 0x1000)
            }) });
            // a word followed by a second word (delay slots, block continuation): top halves stride, second word from the corpus
            let c2 = corpus(isa);
            let stride = if thorough { 1 } else { 8 };
            fs.push(Family { name: "word_pairs", tr: ti, len: (65536 / stride) * 2, gen: Box::new(move |i| {
                let k = i / 2;
                let w = ((k * stride) as u32) << 16 | LOW_HALVES[(k * 7 + 3) % 16] as u32;
                let mut v = word_bytes(isa, w).to_vec();
                v.extend_from_slice(&c2[(k * 13 + i) % c2.len()]);
                if i % 2 == 1 { v.extend_from_slice(&c2[(k * 5 + 1) % c2.len()]); }
                (v, 0x1000)
            }) });
        }
        // fixed-width ISAs: every low half under representative top halves (function / extended-opcode fields live there)
        if fixed {
            let tops: Vec<u16> = match isa {
                Isa::MipsBe | Isa::MipsLe => vec![0x0000, 0x0109, 0x7109, 0x7c08, 0x0411, 0x4008, 0x03e0, 0x4600, 0x0400, 0x0510, 0x7c03, 0x4100, 0x4500, 0x0020, 0x41e0, 0x4a00, 0x7000, 0x0100],
                Isa::Ppc => vec![0x7c63, 0x4c00, 0x7c00, 0x4e80, 0xfc20, 0x1061, 0x7fff, 0xec20, 0x4c81, 0x7c60, 0x5463, 0x7c6f, 0x4182, 0x4200, 0x4800, 0x7c08, 0x7c64, 0x4c63],
                _ => vec![0x9ac2, 0x4e20, 0xdac0, 0xd503, 0x1e20, 0x0460, 0x2560, 0x6e20, 0x1ac2, 0x5ac0, 0x0e20, 0x2e20, 0x1e60, 0x9e20, 0xd500, 0xd518, 0xd538, 0xc85f, 0x885f, 0x38a0, 0xf8a0, 0x3820, 0xf820, 0x6540, 0xa540, 0xe540, 0x0520, 0x4420, 0x4520, 0x5e20, 0x7e20, 0x4f00, 0x0f00, 0xce00, 0x1e21, 0x9bc2, 0x9b22],
            };
            let ntop = if thorough { tops.len() } else { 8 };
            fs.push(Family { name: "words_low", tr: ti, len: 65536 * ntop, gen: Box::new(move |i| {
                let w = (tops[i / 65536] as u32) << 16 | (i % 65536) as u32;
                (word_bytes(isa, w).to_vec(), 0x1000)
            }) });
        }
        // A64 (thorough): every value of the top 22 bits with four (Rn, Rd) pairs - register numbers rarely select the
        // decoding, except 31 (sp / zr)
        if thorough && tr.name == "aarch64" {
            fs.push(Family { name: "a64_fields", tr: ti, len: (1 << 22) * 4, gen: Box::new(move |i| {
                let low = [0x001u32, 0x3ff, 0x3e0, 0x03f][i & 3];
                let w = ((i >> 2) as u32) << 10 | low;
                (w.to_le_bytes().to_vec(), 0x1000)
            }) });
        }
        // x86: three-byte strings (opcode, modrm, sib / displacement / immediate), behind nothing, 0f, and (thorough) the
        // mandatory prefixes; raw and zero-padded
        if !fixed {
            const THIRD: [u8; 11] = [0x00, 0x04, 0x05, 0x24, 0x25, 0x40, 0x64, 0x80, 0xc0, 0xe4, 0xff];
            let heads: Vec<Vec<u8>> = if thorough { vec![vec![], vec![0x0f], vec![0x66], vec![0x66, 0x0f], vec![0xf2, 0x0f], vec![0xf3, 0x0f], vec![0x67], vec![0x0f, 0x38], vec![0x0f, 0x3a], vec![0x66, 0x0f, 0x38], vec![0x66, 0x0f, 0x3a]] } else { vec![vec![]] }; // (0f xx and prefixed opcodes: the `grid` family)
            let nh = heads.len();
            let rex = isa == Isa::Amd64;
            fs.push(Family { name: "bytes3", tr: ti, len: 65536 * 11 * nh, gen: Box::new(move |i| {
                let (b, t, hd) = (i % 65536, (i / 65536) % 11, i / (65536 * 11));
                let mut v = heads[hd].clone();
                if rex && b % 3 == 1 && !v.contains(&0x0f) { v.push(0x48); }
                v.extend_from_slice(&[(b >> 8) as u8, b as u8, THIRD[t]]);
                ((if t % 2 == 0 { pad(v, 0) } else { v }), 0x1000)
            }) });
            if thorough {
                fs.push(Family { name: "bytes3_all", tr: ti, len: 1 << 24, gen: Box::new(move |i| {
                    (vec![(i >> 16) as u8, (i >> 8) as u8, i as u8], 0x1000)
                }) });
            }
        }
        // fixed-width ISAs, FULL WINDOWS: buffers of exactly 64 / 60 / 56 bytes (the recovery code hands over 64) of nops whose last
        // three (thorough: four) words run over all tuples of the alphabet, at two addresses (targets of j / jal inside and outside
        // the window); all 4-tuples of the 64-byte window at 0x1000 also in the quick tier; all pairs as 8-byte and all words as 4-byte buffers
        if fixed {
            let alpha = Arc::new(window_alphabet(isa));
            let n = alpha.len();
            let k = if thorough { 4 } else { 3 };
            let nt = n.pow(k as u32);
            let al = alpha.clone();
            fs.push(Family { name: "windows", tr: ti, len: nt * 3 * 2, gen: Box::new(move |i| {
                let (t, l, a) = (i % nt, (i / nt) % 3, i / (nt * 3));
                (window(isa, &al, [64, 60, 56][l], k, t), [0x1000u64, 0x40_0000][a])
            }) });
            if !thorough {
                let al = alpha.clone();
                let n4 = n.pow(4);
                fs.push(Family { name: "windows64_4", tr: ti, len: n4, gen: Box::new(move |i| (window(isa, &al, 64, 4, i), 0x1000)) });
            }
            let al = alpha.clone();
            fs.push(Family { name: "windows_short", tr: ti, len: (n * n + n) * 2, gen: Box::new(move |i| {
                let (t, a) = (i % (n * n + n), i / (n * n + n));
                (if t < n * n { window(isa, &al, 8, 2, t) } else { window(isa, &al, 4, 1, t - n * n) }, [0x1000u64, 0x40_0000][a])
            }) });
        }
        // x86 / amd64 GRID: prefix sequence x [REX] x every one-byte and every 0f xx opcode x ModRM form x reg field
        if !fixed {
            let seqs = Arc::new(grid_prefix_seqs(thorough));
            let amd = isa == Isa::Amd64;
            let nrex = if amd && thorough { 5 } else { 1 };
            let per = 512 * 9 * 8;
            let sq = seqs.clone();
            fs.push(Family { name: "grid", tr: ti, len: seqs.len() * nrex * per, gen: Box::new(move |i| {
                let (j, r, q) = (i % per, (i / per) % nrex, i / (per * nrex));
                let (op, form, reg) = (j / 72, (j / 8) % 9, j % 8);
                // quick tier on amd64: the REX byte rotates with the job instead of multiplying the grid
                let rex = if !amd { None } else if nrex == 5 { if r == 0 { None } else { Some(GRID_REX[r - 1]) } } else { let x = (op + form + reg + q) % 5; if x == 0 { None } else { Some(GRID_REX[x - 1]) } };
                (grid_bytes(&sq[q], rex, op, form, reg), 0x1000)
            }) });
        }
        // random 16-byte strings
        let nrand = if thorough { 200_000 } else { 30_000 };
        let s0 = seed ^ (ti as u64) << 32;
        fs.push(Family { name: "random16", tr: ti, len: nrand, gen: Box::new(move |i| {
            let mut r = Rng(splitmix(s0 ^ i as u64));
            let mut v = Vec::with_capacity(16);
            for _ in 0..2 { v.extend_from_slice(&r.next().to_le_bytes()); }
            // one in eight at one of the other addresses
            (v, if i % 8 == 7 { ADDRS[1 + (i / 8) % 3] } else { 0x1000 })
        }) });
        // random strings of random length 1..=64 (the recovery code hands over up to 64 bytes)
        let nrl = if thorough { 60_000 } else { 8_000 };
        fs.push(Family { name: "random_len", tr: ti, len: nrl, gen: Box::new(move |i| {
            let mut r = Rng(splitmix(s0 ^ 0xABCD ^ (i as u64) << 8));
            let n = 1 + (r.next() % 64) as usize;
            let mut v = Vec::with_capacity(n);
            while v.len() < n { v.push(r.next() as u8); }
            (v, 0x1000)
        }) });
        // corpus: each entry alone and padded, at every address
        let c = Arc::new(corpus(isa));
        let cc = c.clone();
        fs.push(Family { name: "corpus", tr: ti, len: c.len() * 3 * 4, gen: Box::new(move |i| {
            let (k, m, a) = (i % cc.len(), (i / cc.len()) % 3, i / (cc.len() * 3));
            let v = cc[k].clone();
            (match m { 0 => v, 1 => pad(v, 0), _ => pad(v, 0xff) }, ADDRS[a])
        }) });
        // every truncation of every corpus entry, alone and behind another corpus entry (truncated at the end of the buffer)
        let cc = c.clone();
        let maxl = c.iter().map(|x| x.len()).max().unwrap_or(1);
        fs.push(Family { name: "truncated", tr: ti, len: c.len() * maxl * 2, gen: Box::new(move |i| {
            let (k, l, m) = (i % cc.len(), (i / cc.len()) % maxl, i / (cc.len() * maxl));
            let e = &cc[k];
            let cut = e[..l % e.len()].to_vec(); // 0 .. len-1 bytes (the empty string included)
            if m == 0 { (cut, 0x1000) } else { let mut v = cc[(k * 31 + 7) % cc.len()].clone(); v.extend(cut); (v, 0x1000) }
        }) });
        // corpus pairs: entry a followed by entry b (block continuation, delay slots, branch in a delay slot)
        let cc = c.clone();
        let np = if thorough { c.len() * c.len() } else { c.len() * 24 };
        let full = thorough;
        fs.push(Family { name: "pairs", tr: ti, len: np, gen: Box::new(move |i| {
            let n = cc.len();
            let (a, b) = if full { (i / n, i % n) } else { (i / 24, (i * 17 + (i / 24) * 5) % n) };
            let mut v = cc[a].clone(); v.extend_from_slice(&cc[b]);
            if i % 3 == 0 { v.extend_from_slice(&cc[(a + b) % n]); }
            (v, if i % 16 == 5 { ADDRS[3] } else { 0x1000 })
        }) });
        // 1-bit flips of every corpus entry (followed by a second, unflipped copy so that fixed-width delay slots exist)
        let cc = c.clone();
        let bits_max = maxl * 8;
        fs.push(Family { name: "flip1", tr: ti, len: c.len() * bits_max * 2, gen: Box::new(move |i| {
            let (k, b, m) = (i % cc.len(), (i / cc.len()) % bits_max, i / (cc.len() * bits_max));
            let mut v = cc[k].clone();
            let b = b % (v.len() * 8);
            v[b / 8] ^= 1 << (b % 8);
            if m == 1 { v = pad(v, 0); }
            (v, if i % 16 == 9 { ADDRS[1 + (i / 16) % 3] } else { 0x1000 })
        }) });
        // 2-bit flips: all pairs within the first 32 bits (thorough: within the first 64 bits) of every corpus entry
        let cc = c.clone();
        let span = if thorough { 64 } else { 32 };
        let step = if thorough || fixed { 1 } else { 2 };
        let ents: Vec<usize> = (0..c.len()).step_by(step).collect();
        let ne = ents.len();
        fs.push(Family { name: "flip2", tr: ti, len: ne * span * span / 2, gen: Box::new(move |i| {
            let k = ents[i % ne];
            let p = i / ne;
            let (b1, b2) = (p % span, (p / span) * 2 + (p % 2));
            let mut v = pad(cc[k].clone(), 0);
            let n = cc[k].len() * 8;
            let (b1, b2) = (b1 % n.max(1), (b2 + 1) % n.max(1));
            v[b1 / 8] ^= 1 << (b1 % 8);
            if b2 != b1 { v[b2 / 8] ^= 1 << (b2 % 8); }
            (v, 0x1000)
        }) });
        // x86: prefix-only strings and prefix runs in front of corpus entries
        if !fixed {
            let pf: Vec<u8> = if isa == Isa::Amd64 { vec![0x66, 0x67, 0xf2, 0xf3, 0xf0, 0x2e, 0x64, 0x65, 0x40, 0x48, 0x4f, 0x41] } else { vec![0x66, 0x67, 0xf2, 0xf3, 0xf0, 0x2e, 0x36, 0x3e, 0x26, 0x64, 0x65] };
            let np = pf.len();
            let pf1 = pf.clone();
            // runs of one prefix, lengths 1..=16, at every address
            fs.push(Family { name: "prefix_runs", tr: ti, len: np * 16 * 4, gen: Box::new(move |i| {
                let (p, l, a) = (i % np, (i / np) % 16 + 1, i / (np * 16));
                (vec![pf1[p]; l], ADDRS[a])
            }) });
            // random prefix strings of length 1..=16 (only prefixes)
            let pf2 = pf.clone();
            let nps = if thorough { 40_000 } else { 6_000 };
            fs.push(Family { name: "prefix_mix", tr: ti, len: nps, gen: Box::new(move |i| {
                let mut r = Rng(splitmix(s0 ^ 0x77 ^ (i as u64) << 4));
                let l = 1 + (r.next() % 16) as usize;
                ((0..l).map(|_| pf2[(r.next() % np as u64) as usize]).collect(), if i % 4 == 3 { ADDRS[3] } else { 0x1000 })
            }) });
            // 1..=4 random prefixes in front of every corpus entry
            let cc = c.clone();
            let pf3 = pf.clone();
            let reps = if thorough { 24 } else { 6 };
            fs.push(Family { name: "prefixed", tr: ti, len: c.len() * reps, gen: Box::new(move |i| {
                let mut r = Rng(splitmix(s0 ^ 0x99 ^ (i as u64) << 4));
                let l = 1 + (r.next() % 4) as usize;
                let mut v: Vec<u8> = (0..l).map(|_| pf3[(r.next() % np as u64) as usize]).collect();
                v.extend_from_slice(&cc[i % cc.len()]);
                (v, 0x1000)
            }) });
        }
    }
    fs
}

// ------------------------------------------------------------------------------------------------ driver
/// root-cause signature of a finding: panic -> message + location, width findings -> the detail with every number and
/// register index removed, others -> the kind
fn signature(kind: &str, detail: &str) -> String {
    let strip = |s: &str| -> String {
        let mut o = String::new();
        let mut prev_digit = false;
        for c in s.chars() {
            if c.is_ascii_hexdigit() && (c.is_ascii_digit() || prev_digit) { if !prev_digit { o.push('#'); } prev_digit = true; }
            else if c == 'x' && prev_digit { }
            else { prev_digit = false; o.push(c); }
        }
        o
    };
    match kind {
        "panic" => detail.to_string(),
        "assign_width" | "load_width" | "store_width" | "branch_width" | "guard_width" | "expr_width" | "intrinsic_expr" => {
            let d = detail.rsplit(": ").next().unwrap_or(detail);
            strip(d).chars().take(120).collect()
        }
        "successors_enabled" | "edges_enabled" => {
            let d = detail.split("guards [").nth(1).unwrap_or(detail);
            let n = d.split(" | ").count();
            let unc = d.split(" | ").filter(|g| g.trim_end_matches(']') == "-").count();
            format!("{} guards, {} unconditional, {}", n, unc, if detail.contains(" 0 enabled") { "none enabled" } else { "several enabled" })
        }
        _ => kind.to_string(),
    }
}

struct Hit { job: u64, sig: String, op: String, policy: bool, bytes: Vec<u8>, address: u64, kind: &'static str, detail: String, tr: usize, family: &'static str }

fn minimise(tr: &Tr, opts: &Options, policy: bool, bytes: &[u8], address: u64, kind: &str, sig: &str, seed: u64) -> Vec<u8> {
    let has = |b: &[u8]| -> bool {
        let mut st = Stats::default();
        run_one(tr, policy, opts, b, address, seed, &mut st, kind == "nondeterministic").iter().any(|f| f.0 == kind && signature(f.0, &f.1) == sig)
    };
    let mut cur = bytes.to_vec();
    // shortest prefix that still shows the defect
    for l in 1..cur.len() { if has(&cur[..l]) { cur.truncate(l); break; } }
    // drop leading instructions (fixed-width: words; x86: bytes) while the defect stays
    let step = if matches!(tr.isa, Isa::X86 | Isa::Amd64) { 1 } else { 4 };
    loop {
        if cur.len() > step && has(&cur[step..]) { cur = cur[step..].to_vec(); } else { break; }
    }
    cur
}

fn main() {
    let thorough = std::env::var("VERIF_TIER").map(|t| t == "thorough").unwrap_or(false);
    let seed: u64 = std::env::var("VERIF_SEED").ok().and_then(|s| {
        let s = s.trim();
        if let Some(x) = s.strip_prefix("0x") { u64::from_str_radix(x, 16).ok() } else { s.parse().ok() }
    }).unwrap_or(0xC05);
    let nthreads: usize = std::env::var("VERIF_THREADS").ok().and_then(|s| s.parse().ok()).unwrap_or(4).max(1);
    let only: Option<String> = std::env::var("C05_ONLY").ok(); // development aid: restrict to one translator name
    // a call is reported as not returning when it has been in flight for longer than the budget WHILE the other workers
    // finished >= 2000 jobs (or no other worker is active): a stall of the whole machine is not a hang of the lifter
    let budget = Duration::from_secs(if thorough { 120 } else { 60 });

    std::panic::set_hook(Box::new(|info| {
        let loc = info.location().map(|l| format!("{}:{}", l.file(), l.line())).unwrap_or_default();
        let msg = if let Some(s) = info.payload().downcast_ref::<&str>() { s.to_string() } else if let Some(s) = info.payload().downcast_ref::<String>() { s.clone() } else { "panic".to_string() };
        LAST_PANIC.with(|p| *p.borrow_mut() = format!("{} at {}", msg, loc));
    }));

    let trs = Arc::new(translators());
    let opt_err = Options::new();
    let opt_intr = OptionsBuilder::new().unsupported_are_intrinsics(true).build();
    let opts = Arc::new([opt_err, opt_intr]);
    let only_fam: Option<Vec<String>> = std::env::var("C05_FAMILIES").ok().map(|s| s.split(',').map(|x| x.to_string()).collect()); // development aid
    let fams = Arc::new(families(&trs, thorough, seed).into_iter().filter(|f| only.as_ref().map(|o| trs[f.tr].name == o).unwrap_or(true))
        .filter(|f| only_fam.as_ref().map(|l| l.iter().any(|x| x == f.name)).unwrap_or(true)).collect::<Vec<_>>());
    // global job numbering: family by family
    let mut starts = Vec::new();
    let mut total = 0u64;
    for f in fams.iter() { starts.push(total); total += f.len as u64; }
    let starts = Arc::new(starts);

    let next = Arc::new(AtomicUsize::new(0)); // next chunk
    const CHUNK: u64 = 256;
    let nchunks = ((total + CHUNK - 1) / CHUNK) as usize;
    let watch = Arc::new(Watch { slots: (0..nthreads).map(|_| Mutex::new(None)).collect(), jobs_done: AtomicU64::new(0) });
    let hits: Arc<Mutex<Vec<Hit>>> = Arc::new(Mutex::new(Vec::new()));
    let counts: Arc<Mutex<BTreeMap<String, u64>>> = Arc::new(Mutex::new(BTreeMap::new()));
    let sigs: Arc<Mutex<BTreeMap<String, u64>>> = Arc::new(Mutex::new(BTreeMap::new()));
    let stats_all: Arc<Mutex<BTreeMap<String, [u64; 5]>>> = Arc::new(Mutex::new(BTreeMap::new()));
    let evals = Arc::new(AtomicU64::new(0));
    let timed_out = Arc::new(AtomicBool::new(false));
    let t0 = Instant::now();

    let mut handles = Vec::new();
    for wi in 0..nthreads {
        let (trs, opts, fams, starts, next, watch, hits, counts, sigs, stats_all, evals) = (trs.clone(), opts.clone(), fams.clone(), starts.clone(), next.clone(), watch.clone(), hits.clone(), counts.clone(), sigs.clone(), stats_all.clone(), evals.clone());
        handles.push(std::thread::spawn(move || {
            let mut local_hits: Vec<Hit> = Vec::new();
            let mut local_counts: BTreeMap<String, u64> = BTreeMap::new();
            let mut local_sigs: BTreeMap<String, u64> = BTreeMap::new();
            let mut local_stats: BTreeMap<String, Stats> = BTreeMap::new();
            let mut kept: BTreeMap<String, usize> = BTreeMap::new();
            loop {
                let c = next.fetch_add(1, Ordering::SeqCst);
                if c >= nchunks { break; }
                let lo = c as u64 * CHUNK;
                let hi = (lo + CHUNK).min(total);
                for job in lo..hi {
                    let fi = match starts.binary_search(&job) { Ok(mut i) => { while i + 1 < starts.len() && starts[i + 1] == job { i += 1; } i } Err(i) => i - 1 };
                    let f = &fams[fi];
                    let (bytes, address) = (f.gen)((job - starts[fi]) as usize);
                    let tr = &trs[f.tr];
                    let mut render: Option<String> = None;
                    for (pi, o) in opts.iter().enumerate() {
                        let policy = pi == 1;
                        *watch.slots[wi].lock().unwrap() = Some((Instant::now(), watch.jobs_done.load(Ordering::Relaxed), format!("{{\"witness\":true,\"op\":\"{}.timeout\",\"policy\":\"{}\",\"bytes\":\"{}\",\"address\":\"{:#x}\",\"family\":\"{}\"}}", tr.name, if policy { "intrinsics" } else { "error" }, hex(&bytes), address, f.name)));
                        let st = local_stats.entry(format!("{}.{}", tr.name, if policy { "intrinsics" } else { "error" })).or_default();
                        // determinism: every Ok result of the small families, one in four of the large ones
                        let det = f.len < 100_000 || job % 4 == 0;
                        let found = run_one_r(tr, policy, o, &bytes, address, seed ^ job, st, det, &mut render);
                        *watch.slots[wi].lock().unwrap() = None;
                        for (kind, detail) in found {
                            let op = format!("{}.{}", tr.name, kind);
                            let sig = signature(kind, &detail);
                            *local_counts.entry(op.clone()).or_default() += 1;
                            *local_sigs.entry(format!("{}: {}", op, sig)).or_default() += 1;
                            let k = kept.entry(format!("{}: {}", op, sig)).or_default();
                            if *k < 4 {
                                *k += 1;
                                local_hits.push(Hit { job, sig, op, policy, bytes: bytes.clone(), address, kind, detail, tr: f.tr, family: f.name });
                            }
                        }
                    }
                    watch.jobs_done.fetch_add(1, Ordering::Relaxed);
                }
                evals.fetch_add((hi - lo) * 2, Ordering::Relaxed);
            }
            hits.lock().unwrap().extend(local_hits);
            let mut c = counts.lock().unwrap();
            for (k, v) in local_counts { *c.entry(k).or_default() += v; }
            let mut g = sigs.lock().unwrap();
            for (k, v) in local_sigs { *g.entry(k).or_default() += v; }
            let mut s = stats_all.lock().unwrap();
            for (k, v) in local_stats {
                let e = s.entry(k).or_insert([0; 5]);
                e[0] += v.calls; e[1] += v.ok; e[2] += v.err; e[3] += v.panics; e[4] += v.instrs;
            }
        }));
    }
    // watchdog: a call that does not return within the budget ends the search (what was found so far is printed)
    let done = Arc::new(AtomicBool::new(false));
    let wd = {
        let (watch, done, timed_out) = (watch.clone(), done.clone(), timed_out.clone());
        std::thread::spawn(move || {
            while !done.load(Ordering::SeqCst) {
                std::thread::sleep(Duration::from_millis(200));
                let active = watch.slots.iter().filter(|s| s.lock().unwrap().is_some()).count();
                let done_now = watch.jobs_done.load(Ordering::Relaxed);
                for s in &watch.slots {
                    if let Some((t, d0, line)) = &*s.lock().unwrap() {
                        if t.elapsed() > budget && (done_now - d0 >= 2000 || active <= 1) {
                            println!("{}", line);
                            timed_out.store(true, Ordering::SeqCst);
                        }
                    }
                }
                if timed_out.load(Ordering::SeqCst) {
                    println!("{{\"summary\":true,\"evaluations\":0,\"disagreements\":1,\"per_op\":{{\"timeout\":1}},\"note\":\"a call exceeded the time budget; search aborted\"}}");
                    std::process::exit(0);
                }
            }
        })
    };
    for hnd in handles { let _ = hnd.join(); }
    done.store(true, Ordering::SeqCst);
    let _ = wd.join();

    // deterministic report: first three per op in job order, minimised
    let mut hits = std::mem::take(&mut *hits.lock().unwrap());
    hits.sort_by(|a, b| (a.job, a.policy, a.op.clone()).cmp(&(b.job, b.policy, b.op.clone())));
    let diag = std::env::var("C05_DIAG").is_ok(); // development aid: one line per root-cause signature, no cap per op
    let mut printed: BTreeMap<String, usize> = BTreeMap::new();
    let mut seen_sig: BTreeSet<String> = BTreeSet::new();
    // first the first hit of every signature, then (normal mode) the others: up to three per op
    let mut order: Vec<&Hit> = Vec::new();
    for hit in &hits { if seen_sig.insert(format!("{}: {}", hit.op, hit.sig)) { order.push(hit); } }
    if !diag { for hit in &hits { if !order.iter().any(|h| std::ptr::eq(*h, hit)) { order.push(hit); } } }
    for hit in order {
        let p = printed.entry(hit.op.clone()).or_default();
        if *p >= 3 && !diag { continue; }
        *p += 1;
        let tr = &trs[hit.tr];
        let o = &opts[hit.policy as usize];
        let min = if hit.kind == "timeout" { hit.bytes.clone() } else { minimise(tr, o, hit.policy, &hit.bytes, hit.address, hit.kind, &hit.sig, seed ^ hit.job) };
        // detail of the minimised input
        let mut st = Stats::default();
        let d2 = run_one(tr, hit.policy, o, &min, hit.address, seed ^ hit.job, &mut st, hit.kind == "nondeterministic").into_iter().find(|f| f.0 == hit.kind && signature(f.0, &f.1) == hit.sig).map(|f| f.1).unwrap_or_else(|| hit.detail.clone());
        println!("{{\"witness\":true,\"op\":{},\"policy\":\"{}\",\"bytes\":\"{}\",\"address\":\"{:#x}\",\"found_in\":\"{}\",\"family\":\"{}\",\"detail\":{}}}",
            jstr(&hit.op), if hit.policy { "intrinsics" } else { "error" }, hex(&min), hit.address, hex(&hit.bytes), hit.family, jstr(&d2.chars().take(700).collect::<String>()));
    }
    let counts = counts.lock().unwrap();
    let disagreements: u64 = counts.values().sum();
    let po = counts.iter().map(|(k, v)| format!("{}:{}", jstr(k), v)).collect::<Vec<_>>().join(",");
    let sg = sigs.lock().unwrap();
    let psg = sg.iter().map(|(k, v)| format!("{}:{}", jstr(k), v)).collect::<Vec<_>>().join(",");
    let st = stats_all.lock().unwrap();
    let ps = st.iter().map(|(k, v)| format!("{}:{{\"calls\":{},\"ok\":{},\"err\":{},\"panics\":{},\"instruction_graphs\":{}}}", jstr(k), v[0], v[1], v[2], v[3], v[4])).collect::<Vec<_>>().join(",");
    println!("{{\"summary\":true,\"evaluations\":{},\"disagreements\":{},\"per_op\":{{{}}},\"per_signature\":{{{}}},\"per_translator\":{{{}}},\"tier\":\"{}\",\"seed\":{},\"threads\":{},\"seconds\":{:.1}}}",
        evals.load(Ordering::Relaxed), disagreements, po, psg, ps, if thorough { "thorough" } else { "quick" }, seed, nthreads, t0.elapsed().as_secs_f64());
}
