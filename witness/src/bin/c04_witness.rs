//! Witness search for unit C04 (never decides anything): calls the REAL public API of falcon on an
//! exhaustive small domain plus boundary widths and compares with an independent transcription of
//! the bit-vector specification. Prints one JSON line per disagreement (at most 20) and a summary.
use falcon::executor::eval;
use falcon::il::*;
use num_bigint::{BigInt, BigUint};
use num_traits::{One, ToPrimitive, Zero};
use std::panic::{catch_unwind, AssertUnwindSafe};

fn pow2(w: usize) -> BigUint { BigUint::one() << w }
fn sval(w: usize, a: &BigUint) -> BigInt {
    if *a >= pow2(w - 1) { BigInt::from(a.clone()) - BigInt::from(pow2(w)) } else { BigInt::from(a.clone()) }
}
fn enc(w: usize, x: &BigInt) -> BigUint {
    let m = BigInt::from(pow2(w));
    let r = ((x % &m) + &m) % &m;
    r.to_biguint().unwrap()
}
fn trunc_div(a: &BigInt, b: &BigInt) -> BigInt {
    let q = (if a.sign() == num_bigint::Sign::Minus { -a.clone() } else { a.clone() }) / (if b.sign() == num_bigint::Sign::Minus { -b.clone() } else { b.clone() });
    if (a.sign() == num_bigint::Sign::Minus) != (b.sign() == num_bigint::Sign::Minus) { -q } else { q }
}
fn floor_div_pow2(a: &BigInt, s: usize) -> BigInt {
    let d = BigInt::from(pow2(s));
    let q = a / &d;
    if (a % &d) != BigInt::zero() && a.sign() == num_bigint::Sign::Minus { q - 1 } else { q }
}

#[derive(Debug)]
enum Exp { Val(usize, BigUint), Div0 }

fn expected(op: &str, w: usize, a: &BigUint, b: &BigUint) -> Exp {
    let m = pow2(w);
    let s = b.to_usize();
    match op {
        "add" => Exp::Val(w, (a + b) % &m),
        "sub" => Exp::Val(w, enc(w, &(BigInt::from(a.clone()) - BigInt::from(b.clone())))),
        "mul" => Exp::Val(w, (a * b) % &m),
        "divu" => if b.is_zero() { Exp::Div0 } else { Exp::Val(w, a / b) },
        "modu" => if b.is_zero() { Exp::Div0 } else { Exp::Val(w, a % b) },
        "divs" => if b.is_zero() { Exp::Div0 } else { Exp::Val(w, enc(w, &trunc_div(&sval(w, a), &sval(w, b)))) },
        "mods" => if b.is_zero() { Exp::Div0 } else {
            let (sa, sb) = (sval(w, a), sval(w, b));
            let q = trunc_div(&sa, &sb);
            Exp::Val(w, enc(w, &(sa - sb * q)))
        },
        "and" => Exp::Val(w, a & b),
        "or" => Exp::Val(w, a | b),
        "xor" => Exp::Val(w, a ^ b),
        "shl" => Exp::Val(w, match s { Some(s) if s < w => (a << s) % &m, _ => BigUint::zero() }),
        "shr" => Exp::Val(w, match s { Some(s) if s < w => a >> s, _ => BigUint::zero() }),
        "ashr" | "sra" => Exp::Val(w, match s {
            Some(s) if s < w => enc(w, &floor_div_pow2(&sval(w, a), s)),
            _ => if sval(w, a).sign() == num_bigint::Sign::Minus { &m - BigUint::one() } else { BigUint::zero() },
        }),
        "cmpeq" => Exp::Val(1, if a == b { BigUint::one() } else { BigUint::zero() }),
        "cmpneq" => Exp::Val(1, if a != b { BigUint::one() } else { BigUint::zero() }),
        "cmpltu" => Exp::Val(1, if a < b { BigUint::one() } else { BigUint::zero() }),
        "cmplts" => Exp::Val(1, if sval(w, a) < sval(w, b) { BigUint::one() } else { BigUint::zero() }),
        "rotl" => {
            let k = s.unwrap();
            Exp::Val(w, ((a % pow2(w - k)) << k) + (a >> (w - k)))
        }
        _ => unreachable!(),
    }
}

fn call(op: &str, x: &Constant, y: &Constant) -> Result<Constant, falcon::Error> {
    match op {
        "add" => x.add(y), "sub" => x.sub(y), "mul" => x.mul(y), "divu" => x.divu(y), "modu" => x.modu(y),
        "divs" => x.divs(y), "mods" => x.mods(y), "and" => x.and(y), "or" => x.or(y), "xor" => x.xor(y),
        "shl" => x.shl(y), "shr" => x.shr(y), "ashr" => x.ashr(y), "cmpeq" => x.cmpeq(y), "cmpneq" => x.cmpneq(y),
        "cmpltu" => x.cmpltu(y), "cmplts" => x.cmplts(y),
        "sra" => eval(&Expression::sra(x.clone().into(), y.clone().into())?),
        "rotl" => eval(&Expression::rotl(x.clone().into(), y.clone().into())?),
        _ => unreachable!(),
    }
}

fn via_eval(op: &str, x: &Constant, y: &Constant) -> Result<Constant, falcon::Error> {
    let (l, r): (Expression, Expression) = (x.clone().into(), y.clone().into());
    let e = match op {
        "add" => Expression::add(l, r), "sub" => Expression::sub(l, r), "mul" => Expression::mul(l, r),
        "divu" => Expression::divu(l, r), "modu" => Expression::modu(l, r), "divs" => Expression::divs(l, r),
        "mods" => Expression::mods(l, r), "and" => Expression::and(l, r), "or" => Expression::or(l, r),
        "xor" => Expression::xor(l, r), "shl" => Expression::shl(l, r), "shr" => Expression::shr(l, r),
        "ashr" => Expression::ashr(l, r), "cmpeq" => Expression::cmpeq(l, r), "cmpneq" => Expression::cmpneq(l, r),
        "cmpltu" => Expression::cmpltu(l, r), "cmplts" => Expression::cmplts(l, r),
        _ => return call(op, x, y),
    }?;
    eval(&e)
}

const OPS: &[&str] = &["add", "sub", "mul", "divu", "modu", "divs", "mods", "and", "or", "xor", "shl", "shr", "ashr",
    "cmpeq", "cmpneq", "cmpltu", "cmplts", "sra", "rotl"];

fn deep() -> bool { std::env::var("VERIF_TIER").map(|t| t == "thorough").unwrap_or(false) } // thorough tier: wider bounds
fn main() {
    std::panic::set_hook(Box::new(|_| {}));
    let mut found = 0usize;
    let mut evals = 0u64;
    let report = |op: &str, w: usize, a: &BigUint, b: &BigUint, got: String, exp: String, found: &mut usize| {
        if *found < 20 {
            println!("{{\"witness\":true,\"op\":\"{}\",\"width\":{},\"a\":\"0x{:x}\",\"b\":\"0x{:x}\",\"got\":\"{}\",\"expected\":\"{}\",\"call\":\"Constant::new_big(a,{}).{}(&Constant::new_big(b,{}))\"}}", op, w, a, b, got, exp, w, op, w);
        }
        *found += 1;
    };
    let check = |op: &str, w: usize, a: &BigUint, b: &BigUint, found: &mut usize| {
        if op == "rotl" && b.to_usize().map(|k| k > w).unwrap_or(true) { return; }
        let x = Constant::new_big(a.clone(), w);
        let y = Constant::new_big(b.clone(), w);
        let exp = expected(op, w, a, b);
        for route in 0..2 {
            let got = catch_unwind(AssertUnwindSafe(|| if route == 0 { call(op, &x, &y) } else { via_eval(op, &x, &y) }));
            let gs = match &got {
                Err(_) => "panic".to_string(),
                Ok(Err(falcon::Error::DivideByZero)) => "Div0".to_string(),
                Ok(Err(e)) => format!("Err({})", e),
                Ok(Ok(c)) => format!("Val({}, {:x})", c.bits(), c.value()),
            };
            let es = match &exp { Exp::Div0 => "Div0".to_string(), Exp::Val(w, v) => format!("Val({}, {:x})", w, v) };
            if gs != es { report(op, w, a, b, gs, es, found); }
        }
    };
    // exhaustive: widths 1..=6, all operand pairs, all operators
    for w in 1..=(if deep() { 8usize } else { 6usize }) {
        for a in 0u64..(1 << w) { for b in 0u64..(1 << w) { for op in OPS {
            check(op, w, &BigUint::from(a), &BigUint::from(b), &mut found); evals += 1;
        } } }
    }
    // boundary values at widths 7, 8, 31, 32, 33, 63, 64, 65, 127, 128, 129, 256
    for &w in &[7usize, 8, 31, 32, 33, 63, 64, 65, 127, 128, 129, 256] {
        let m = pow2(w);
        let h = pow2(w - 1);
        let mut vals: Vec<BigUint> = vec![BigUint::zero(), BigUint::one(), BigUint::from(2u32), BigUint::from(3u32), &h - 1u32, h.clone(), &h + 1u32,
            &m - 1u32, &m - 2u32, BigUint::from(w as u64), BigUint::from(w as u64 - 1), BigUint::from(w as u64 + 1), BigUint::from(7u32), BigUint::from(0x55u32)];
        if w > 32 { vals.push(pow2(32)); vals.push(pow2(32) + 1u32); vals.push(pow2(32) + 4u32); vals.push(pow2(32) - 1u32); }
        if w > 64 { vals.push(pow2(64)); vals.push(pow2(64) + 1u32); vals.push(pow2(64) - 1u32); vals.push(pow2(64) + 8u32); }
        vals.retain(|v| *v < m);
        for a in &vals { for b in &vals { for op in OPS { check(op, w, a, b, &mut found); evals += 1; } } }
    }
    // extension / truncation
    for w in 1..=9usize { for a in 0u64..(1 << w) {
        let x = Constant::new(a, w);
        for t in (w + 1)..=(w + 9) {
            evals += 2;
            let z = catch_unwind(AssertUnwindSafe(|| x.zext(t)));
            let ok = matches!(&z, Ok(Ok(c)) if c.bits() == t && *c.value() == BigUint::from(a));
            if !ok { report("zext", w, &BigUint::from(a), &BigUint::from(t as u64), format!("{:?}", z.map(|r| r.map(|c| format!("{}", c)).map_err(|e| e.to_string()))), format!("Val({}, {:x})", t, a), &mut found); }
            let s = catch_unwind(AssertUnwindSafe(|| x.sext(t)));
            let e = enc(t, &sval(w, &BigUint::from(a)));
            let ok = matches!(&s, Ok(Ok(c)) if c.bits() == t && *c.value() == e);
            if !ok { report("sext", w, &BigUint::from(a), &BigUint::from(t as u64), format!("{:?}", s.map(|r| r.map(|c| format!("{}", c)).map_err(|e| e.to_string()))), format!("Val({}, {:x})", t, e), &mut found); }
        }
        for t in 1..w {
            evals += 1;
            let z = catch_unwind(AssertUnwindSafe(|| x.trun(t)));
            let e = BigUint::from(a) % pow2(t);
            let ok = matches!(&z, Ok(Ok(c)) if c.bits() == t && *c.value() == e);
            if !ok { report("trun", w, &BigUint::from(a), &BigUint::from(t as u64), format!("{:?}", z.map(|r| r.map(|c| format!("{}", c)).map_err(|e| e.to_string()))), format!("Val({}, {:x})", t, e), &mut found); }
        }
    } }
    println!("{{\"summary\":true,\"evaluations\":{},\"disagreements\":{}}}", evals, found);
}
