// C11 witness 2: dominance frontier entry of a vertex that is unreachable from the root
use falcon::graph::*;
fn main() {
    // vertices 0 (root), 1, 2 ; edges 0->1, 2->1 ; vertex 2 is unreachable from 0 but is a predecessor of 1
    let mut g: Graph<NullVertex, NullEdge> = Graph::new();
    for i in 0..3 { g.insert_vertex(NullVertex::new(i)).unwrap(); }
    g.insert_edge(NullEdge::new(0, 1)).unwrap();
    g.insert_edge(NullEdge::new(2, 1)).unwrap();
    let df = g.compute_dominance_frontiers(0).unwrap();
    let mut keys: Vec<_> = df.keys().cloned().collect(); keys.sort();
    for k in keys { let mut v: Vec<_> = df[&k].iter().cloned().collect(); v.sort(); println!("DF({}) = {:?}", k, v); }
    println!("reachable from 0: {:?}", { let mut r: Vec<_> = g.reachable_vertices(0).unwrap().into_iter().collect(); r.sort(); r });
    // same with the unreachable vertex as predecessor of the root
    let mut h: Graph<NullVertex, NullEdge> = Graph::new();
    for i in 0..2 { h.insert_vertex(NullVertex::new(i)).unwrap(); }
    h.insert_edge(NullEdge::new(1, 0)).unwrap();
    let df = h.compute_dominance_frontiers(0).unwrap();
    let mut keys: Vec<_> = df.keys().cloned().collect(); keys.sort();
    for k in keys { let mut v: Vec<_> = df[&k].iter().cloned().collect(); v.sort(); println!("h: DF({}) = {:?}", k, v); }
}
