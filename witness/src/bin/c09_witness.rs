//! Bounded witness search for unit C09 (labelled bounded, never counted as proved): every function with up to 3
//! blocks (0..=2 instructions), every edge set, entry = block 0 / exit = each block; two monotone analyses over
//! finite lattices (set of visited blocks with union; capped distance with max, distinguishing "no input"); the
//! forward and backward solvers are compared with an independently computed least solution of the data-flow
//! equations on the closure of the start location.
use falcon::analysis::fixed_point::*;
use falcon::il::*;
use falcon::Error;
use std::cmp::Ordering;
use std::collections::{BTreeMap, BTreeSet};
use std::cell::RefCell;
use std::rc::Rc;
use std::panic::{catch_unwind, AssertUnwindSafe};

#[derive(Clone, Debug, PartialEq, Eq, PartialOrd, Ord)]
enum Loc { I(usize, usize), E(usize, usize), B(usize) }

fn loc_of(l: &RefFunctionLocation) -> Loc {
    match l {
        RefFunctionLocation::Instruction(b, i) => Loc::I(b.index(), i.index()),
        RefFunctionLocation::Edge(e) => Loc::E(e.head(), e.tail()),
        RefFunctionLocation::EmptyBlock(b) => Loc::B(b.index()),
    }
}
fn loc_of_owned(l: &ProgramLocation) -> Loc {
    match l.function_location() {
        FunctionLocation::Instruction(b, i) => Loc::I(*b, *i),
        FunctionLocation::Edge(h, t) => Loc::E(*h, *t),
        FunctionLocation::EmptyBlock(b) => Loc::B(*b),
    }
}
fn block_of(l: &Loc) -> usize { match l { Loc::I(b, _) => *b, Loc::E(h, _) => *h, Loc::B(b) => *b } }

struct Model { blocks: Vec<Vec<usize>>, edges: BTreeSet<(usize, usize)> }
impl Model {
    fn start(&self, b: usize) -> Loc { match self.blocks[b].first() { Some(i) => Loc::I(b, *i), None => Loc::B(b) } }
    fn end(&self, b: usize) -> Loc { match self.blocks[b].last() { Some(i) => Loc::I(b, *i), None => Loc::B(b) } }
    fn out_edges(&self, b: usize) -> Vec<Loc> { self.edges.iter().filter(|e| e.0 == b).map(|e| Loc::E(e.0, e.1)).collect() }
    fn in_edges(&self, b: usize) -> Vec<Loc> { self.edges.iter().filter(|e| e.1 == b).map(|e| Loc::E(e.0, e.1)).collect() }
    fn succ(&self, l: &Loc) -> Vec<Loc> {
        match l {
            Loc::I(b, i) => { let p = self.blocks[*b].iter().position(|x| x == i).unwrap();
                if p + 1 < self.blocks[*b].len() { vec![Loc::I(*b, self.blocks[*b][p + 1])] } else { self.out_edges(*b) } }
            Loc::E(_, t) => vec![self.start(*t)],
            Loc::B(b) => self.out_edges(*b),
        }
    }
    fn pred(&self, l: &Loc) -> Vec<Loc> {
        match l {
            Loc::I(b, i) => { let p = self.blocks[*b].iter().position(|x| x == i).unwrap();
                if p > 0 { vec![Loc::I(*b, self.blocks[*b][p - 1])] } else { self.in_edges(*b) } }
            Loc::E(h, _) => vec![self.end(*h)],
            Loc::B(b) => self.in_edges(*b),
        }
    }
}

// ---- analysis 1: set of blocks seen on some path (union) --------------------------------------
#[derive(Clone, Debug, PartialEq, Eq)]
struct Seen(BTreeSet<usize>);
impl PartialOrd for Seen {
    fn partial_cmp(&self, o: &Seen) -> Option<Ordering> {
        if self.0 == o.0 { Some(Ordering::Equal) } else if self.0.is_subset(&o.0) { Some(Ordering::Less) } else if o.0.is_subset(&self.0) { Some(Ordering::Greater) } else { None }
    }
}
struct SeenAnalysis;
impl<'f> FixedPointAnalysis<'f, Seen> for SeenAnalysis {
    fn trans(&self, location: RefProgramLocation<'f>, state: Option<Seen>) -> Result<Seen, Error> {
        let mut s = state.unwrap_or(Seen(BTreeSet::new()));
        s.0.insert(block_of(&loc_of(location.function_location())));
        Ok(s)
    }
    fn join(&self, mut a: Seen, b: &Seen) -> Result<Seen, Error> { a.0.extend(b.0.iter().cloned()); Ok(a) }
}
// ---- analysis 2: capped distance, "no input" is distinguishable from every state -----------------
#[derive(Clone, Debug, PartialEq, Eq, PartialOrd)]
struct Dist(u8);
struct DistAnalysis;
impl<'f> FixedPointAnalysis<'f, Dist> for DistAnalysis {
    fn trans(&self, _l: RefProgramLocation<'f>, state: Option<Dist>) -> Result<Dist, Error> {
        Ok(match state { None => Dist(0), Some(Dist(d)) => Dist((d + 1).min(5)) })
    }
    fn join(&self, a: Dist, b: &Dist) -> Result<Dist, Error> { Ok(Dist(a.0.max(b.0))) }
}

// ---- analysis 3: NOT monotone. States are sets of small integers under inclusion, join = union; a location selected
// by `variant` replaces its input by { |input| % modulus }. The engine must answer such an analysis with an error as
// soon as a recomputed state is not above the stored one; every transfer output is logged to check exactly that.
struct CardAnalysis { variant: usize, log: Rc<RefCell<Vec<(Loc, Seen)>>> }
fn card_trans(variant: usize, l: &Loc, s: Option<Seen>) -> Seen {
    let s = match s { None => return Seen([0usize].into_iter().collect()), Some(s) => s };
    let hit = match variant % 3 { 0 => matches!(l, Loc::I(..)), 1 => true, _ => block_of(l) % 2 == 1 };
    let modulus = if variant / 3 == 0 { 4 } else { 2 };
    if hit { Seen([s.0.len() % modulus].into_iter().collect()) } else { s }
}
impl<'f> FixedPointAnalysis<'f, Seen> for CardAnalysis {
    fn trans(&self, location: RefProgramLocation<'f>, state: Option<Seen>) -> Result<Seen, Error> {
        let l = loc_of(location.function_location());
        let out = card_trans(self.variant, &l, state);
        self.log.borrow_mut().push((l, out.clone()));
        Ok(out)
    }
    fn join(&self, mut a: Seen, b: &Seen) -> Result<Seen, Error> { a.0.extend(b.0.iter().cloned()); Ok(a) }
}
/// first (location, previous, next) in the log where a recomputed state is not above the previous one at that location
fn non_ascending(log: &[(Loc, Seen)]) -> Option<(Loc, Seen, Seen)> {
    let mut last: BTreeMap<Loc, Seen> = BTreeMap::new();
    for (l, s) in log {
        if let Some(p) = last.get(l) { if !p.0.is_subset(&s.0) { return Some((l.clone(), p.clone(), s.clone())); } }
        last.insert(l.clone(), s.clone());
    }
    None
}
/// is `st` a solution of the data-flow equations on the closure of `start`?
fn is_solution(m: &Model, start: &Loc, fwd: bool, variant: usize, st: &BTreeMap<Loc, Seen>) -> bool {
    let prev = |l: &Loc| if fwd { m.pred(l) } else { m.succ(l) };
    st.iter().all(|(l, v)| {
        let ps: Vec<&Seen> = prev(l).iter().filter_map(|p| st.get(p)).collect();
        if ps.is_empty() && l != start { return false; }
        let mut it = ps.into_iter();
        let inp = it.next().cloned().map(|first| it.fold(first, |mut a, b| { a.0.extend(b.0.iter().cloned()); a }));
        &card_trans(variant, l, inp) == v
    })
}

/// least solution on the closure of `start` (forward: preds = model.pred, succs = model.succ; backward: swapped)
fn solve<S: Clone + PartialEq>(m: &Model, start: &Loc, fwd: bool, trans: &dyn Fn(&Loc, Option<S>) -> S, join: &dyn Fn(S, &S) -> S) -> BTreeMap<Loc, S> {
    let next = |l: &Loc| if fwd { m.succ(l) } else { m.pred(l) };
    let prev = |l: &Loc| if fwd { m.pred(l) } else { m.succ(l) };
    let mut closure: BTreeSet<Loc> = [start.clone()].into_iter().collect();
    let mut work = vec![start.clone()];
    while let Some(l) = work.pop() { for n in next(&l) { if closure.insert(n.clone()) { work.push(n); } } }
    let mut st: BTreeMap<Loc, S> = BTreeMap::new();
    loop {
        let mut changed = false;
        for l in &closure {
            let ps: Vec<&S> = prev(l).iter().filter_map(|p| st.get(p)).collect();
            if ps.is_empty() && l != start { continue; }
            let mut it = ps.into_iter();
            let inp = it.next().cloned().map(|first| it.fold(first, |a, b| join(a, b)));
            let out = trans(l, inp);
            if st.get(l) != Some(&out) { st.insert(l.clone(), out); changed = true; }
        }
        if !changed { break; }
    }
    st
}

fn deep() -> bool { std::env::var("VERIF_TIER").map(|t| t == "thorough").unwrap_or(false) } // thorough tier: wider bounds
fn main() {
    std::panic::set_hook(Box::new(|_| {}));
    let mut found = 0usize;
    let mut evals = 0u64;
    let mut per_op: BTreeMap<String, usize> = BTreeMap::new();
    macro_rules! report {
        ($op:expr, $m:expr, $what:expr, $got:expr, $exp:expr) => {{
            let c = per_op.entry($op.to_string()).or_insert(0);
            *c += 1;
            if *c <= 3 {
                println!("{{\"witness\":true,\"op\":\"{}\",\"blocks\":\"{:?}\",\"edges\":\"{:?}\",\"query\":\"{}\",\"got\":\"{}\",\"expected\":\"{}\"}}",
                    $op, $m.blocks, $m.edges, $what, format!("{:?}", $got).replace('"', "'").chars().take(400).collect::<String>(), format!("{:?}", $exp).replace('"', "'").chars().take(400).collect::<String>());
            }
            found += 1;
        }};
    }
    for nb in 1..=3usize {
        for shape in 0..3usize.pow(nb as u32) { for bits in 0u32..(1u32 << (nb * nb)) { for exit in 0..nb {
            if nb == 3 && !deep() && (shape + bits as usize + exit) % 2 != 0 { continue; }
            let mut cfg = ControlFlowGraph::new();
            let mut model = Model { blocks: vec![], edges: BTreeSet::new() };
            let mut s = shape;
            for _ in 0..nb { let n = s % 3; s /= 3; let b = cfg.new_block().unwrap(); for _ in 0..n { b.nop(); } model.blocks.push(b.instructions().iter().map(|i| i.index()).collect()); }
            for h in 0..nb { for t in 0..nb { if bits & (1 << (h * nb + t)) != 0 { cfg.unconditional_edge(h, t).unwrap(); model.edges.insert((h, t)); } } }
            cfg.set_entry(0).unwrap();
            cfg.set_exit(exit).unwrap();
            let function = Function::new(0, cfg);
            let desc = format!("exit={}", exit);
            // forward
            for which in 0..2 {
                evals += 2;
                let fstart = model.start(0);
                let bstart = model.end(exit);
                if which == 0 {
                    let tr = |l: &Loc, s: Option<Seen>| { let mut s = s.unwrap_or(Seen(BTreeSet::new())); s.0.insert(block_of(l)); s };
                    let jn = |mut a: Seen, b: &Seen| { a.0.extend(b.0.iter().cloned()); a };
                    let exp = solve(&model, &fstart, true, &tr, &jn);
                    match catch_unwind(AssertUnwindSafe(|| fixed_point_forward(SeenAnalysis, &function))) {
                        Ok(Ok(r)) => { let got: BTreeMap<Loc, Seen> = r.iter().map(|(k, v)| (loc_of_owned(k), v.clone())).collect(); if got != exp { report!("forward", model, format!("Seen analysis, {}", desc), got, exp); } }
                        other => report!("forward", model, format!("Seen analysis, {}", desc), other.map(|r| r.map(|_| ()).map_err(|e| e.to_string())).map_err(|_| "panic"), "Ok"),
                    }
                    let exp = solve(&model, &bstart, false, &tr, &jn);
                    match catch_unwind(AssertUnwindSafe(|| fixed_point_backward(SeenAnalysis, &function))) {
                        Ok(Ok(r)) => { let got: BTreeMap<Loc, Seen> = r.iter().map(|(k, v)| (loc_of(k.function_location()), v.clone())).collect(); if got != exp { report!("backward", model, format!("Seen analysis, {}", desc), got, exp); } }
                        other => report!("backward", model, format!("Seen analysis, {}", desc), other.map(|r| r.map(|_| ()).map_err(|e| e.to_string())).map_err(|_| "panic"), "Ok"),
                    }
                } else {
                    let tr = |_l: &Loc, s: Option<Dist>| match s { None => Dist(0), Some(Dist(d)) => Dist((d + 1).min(5)) };
                    let jn = |a: Dist, b: &Dist| Dist(a.0.max(b.0));
                    let exp = solve(&model, &fstart, true, &tr, &jn);
                    match catch_unwind(AssertUnwindSafe(|| fixed_point_forward(DistAnalysis, &function))) {
                        Ok(Ok(r)) => { let got: BTreeMap<Loc, Dist> = r.iter().map(|(k, v)| (loc_of_owned(k), v.clone())).collect(); if got != exp { report!("forward", model, format!("Dist analysis, {}", desc), got, exp); } }
                        other => report!("forward", model, format!("Dist analysis, {}", desc), other.map(|r| r.map(|_| ()).map_err(|e| e.to_string())).map_err(|_| "panic"), "Ok"),
                    }
                    let exp = solve(&model, &bstart, false, &tr, &jn);
                    match catch_unwind(AssertUnwindSafe(|| fixed_point_backward(DistAnalysis, &function))) {
                        Ok(Ok(r)) => { let got: BTreeMap<Loc, Dist> = r.iter().map(|(k, v)| (loc_of(k.function_location()), v.clone())).collect(); if got != exp { report!("backward", model, format!("Dist analysis, {}", desc), got, exp); } }
                        other => report!("backward", model, format!("Dist analysis, {}", desc), other.map(|r| r.map(|_| ()).map_err(|e| e.to_string())).map_err(|_| "panic"), "Ok"),
                    }
                }
            }
            // non-monotone analyses: Ok only if no recomputed state was ever non-ascending (and then it is a solution);
            // an ordering error only if one was
            for variant in 0..6usize { for fwd in [true, false] {
                // enough examples: on a broken engine every further oscillating run costs the full step budget
                if per_op.get("non_monotone").cloned().unwrap_or(0) >= 12 { continue; }
                evals += 1;
                let log = Rc::new(RefCell::new(vec![]));
                let a = CardAnalysis { variant, log: log.clone() };
                let start = if fwd { model.start(0) } else { model.end(exit) };
                let res: Result<Result<BTreeMap<Loc, Seen>, Error>, ()> = if fwd {
                    catch_unwind(AssertUnwindSafe(|| fixed_point_forward(a, &function).map(|r| r.iter().map(|(k, v)| (loc_of_owned(k), v.clone())).collect()))).map_err(|_| ())
                } else {
                    catch_unwind(AssertUnwindSafe(|| fixed_point_backward(a, &function).map(|r| r.iter().map(|(k, v)| (loc_of(k.function_location()), v.clone())).collect()))).map_err(|_| ())
                };
                let bad = non_ascending(&log.borrow());
                let what = format!("non-monotone Card analysis variant {} {}, {}", variant, if fwd { "forward" } else { "backward" }, desc);
                match res {
                    Ok(Ok(got)) => {
                        if let Some(b) = &bad { report!("non_monotone", model, what, format!("Ok({:?})", got), format!("an error: the state recomputed at {:?} went from {:?} to {:?}, which is not above it", b.0, b.1, b.2)); }
                        else if !is_solution(&model, &start, fwd, variant, &got) { report!("non_monotone", model, what, got, "a solution of the data-flow equations"); }
                    }
                    Ok(Err(Error::FixedPointOrdering(..))) => if bad.is_none() { report!("non_monotone", model, what, "FixedPointOrdering error", "Ok: every recomputed state was above the previous one"); },
                    Ok(Err(Error::FixedPointMaxSteps)) => {}
                    Ok(Err(e)) => report!("non_monotone", model, what, e.to_string(), "Ok or an ordering error"),
                    Err(()) => report!("non_monotone", model, what, "panic", "Ok or an ordering error"),
                }
            } }
        } } }
    }
    let po: Vec<String> = per_op.iter().map(|(k, v)| format!("\"{}\":{}", k, v)).collect();
    println!("{{\"summary\":true,\"evaluations\":{},\"disagreements\":{},\"per_op\":{{{}}}}}", evals, found, po.join(","));
}
