//! Bounded stand-in for unit C10 (labelled BOUNDED, never counted as proved): small IL functions are
//! enumerated and `transformation::ssa_transformation` of the real crate is checked against an INDEPENDENT checker
//! written here (own model of the IL, own reaching-version data-flow, own interpreters - nothing of falcon's
//! analysis / executor code is used on the checking side).
//!
//! Space: 1-4 blocks (block 0..n-1); EVERY edge set over the blocks (self-loops, loops through the entry, blocks
//! unreachable from the entry); per block 0-2 operations drawn from
//!     x = K | x = x + y | y = x | [y] = x | y = [x] | branch x | c = K1 | c = x <u y          (x, y: 32 bit, c: 1 bit)
//! a block with >= 2 out-edges gets conditional edges guarded alternately by G and G == 0, where G is the 1-bit
//! scalar `c` or the 1-bit expression `x <u y`; optionally a single out-edge is guarded too.
//! n <= 2: every content assignment x both entry choices; n = 3: every edge set x 160 sampled assignments;
//! n = 4: every edge set x 3 sampled assignments (deterministic generator).
//!
//! Checks (one JSON line per disagreement, at most 3 printed per op; a final summary line):
//!  succeeds             the transformation returns Ok (no panic)
//!  structure            same blocks, edges, entry, instruction positions / indices, and every operation and guard is
//!                       the original one up to scalar versions
//!  single_assignment    every assigned scalar (instruction destination, phi output) carries a version and no
//!                       (name, version) is assigned in two places; `.unreachable_block` when the offending assignment
//!                       sits in a block that is unreachable from the entry
//!  phi_incoming         every phi of block b has exactly one incoming per predecessor of b, none for other blocks, an
//!                       (unversioned) entry incoming iff b is the entry block
//!  use.instruction / use.guard / use.phi_incoming
//!                       the version named by a use is THE version that reaches it on every path from the entry:
//!                       forward data-flow over the SSA function (sets of versions per name; `None` = value live on
//!                       entry); the set at the use must be the singleton of the named version
//!  semantics            lock-step execution of the original and of the SSA form (phi nodes select by incoming edge,
//!                       unversioned scalars hold the values live on entry) from 4 initial states, every enabled path,
//!                       up to 12 steps: same enabled edges, same stores / branches / loads, same value at every
//!                       instruction
use falcon::il;
use falcon::transformation::ssa_transformation;
use std::collections::{BTreeMap, BTreeSet};
use std::panic::{catch_unwind, AssertUnwindSafe};

// ------------------------------------------------------------------------------------------------
// independent model of an IL function

#[derive(Clone, Debug, PartialEq, Eq, PartialOrd, Ord)]
struct Var {
    name: String,
    bits: usize,
    ssa: Option<usize>,
}

#[derive(Clone, Debug, PartialEq, Eq)]
enum Ex {
    S(Var),
    C(u64, usize),
    Add(Box<Ex>, Box<Ex>),
    Eq(Box<Ex>, Box<Ex>),
    Ltu(Box<Ex>, Box<Ex>),
}

#[derive(Clone, Debug, PartialEq, Eq)]
enum Op {
    Assign(Var, Ex),
    Store(Ex, Ex),
    Load(Var, Ex),
    Branch(Ex),
    Nop,
}

#[derive(Clone, Debug)]
struct Phi {
    out: Var,
    incoming: BTreeMap<usize, Var>,
    entry: Option<Var>,
    shown: usize, // number of "[.., ..]" items in the Display text (= all incoming items, probing-independent)
}

#[derive(Clone, Debug)]
struct Blk {
    phis: Vec<Phi>,
    ins: Vec<(usize, Op)>, // (instruction index, operation), in position order
}

#[derive(Clone, Debug)]
struct Fun {
    entry: Option<usize>,
    blocks: BTreeMap<usize, Blk>,
    edges: BTreeMap<(usize, usize), Option<Ex>>,
}

const PROBE: usize = 12; // phi incoming entries are probed for block indices 0..PROBE (blocks are 0..=3)

fn var_of(s: &il::Scalar) -> Var {
    Var { name: s.name().to_string(), bits: s.bits(), ssa: s.ssa() }
}

fn ex_of(e: &il::Expression) -> Result<Ex, String> {
    Ok(match e {
        il::Expression::Scalar(s) => Ex::S(var_of(s)),
        il::Expression::Constant(c) => Ex::C(c.value_u64().ok_or("wide constant")?, c.bits()),
        il::Expression::Add(l, r) => Ex::Add(Box::new(ex_of(l)?), Box::new(ex_of(r)?)),
        il::Expression::Cmpeq(l, r) => Ex::Eq(Box::new(ex_of(l)?), Box::new(ex_of(r)?)),
        il::Expression::Cmpltu(l, r) => Ex::Ltu(Box::new(ex_of(l)?), Box::new(ex_of(r)?)),
        other => return Err(format!("expression form outside the enumerated space: {}", other)),
    })
}

fn op_of(o: &il::Operation) -> Result<Op, String> {
    Ok(match o {
        il::Operation::Assign { dst, src } => Op::Assign(var_of(dst), ex_of(src)?),
        il::Operation::Store { index, src } => Op::Store(ex_of(index)?, ex_of(src)?),
        il::Operation::Load { dst, index } => Op::Load(var_of(dst), ex_of(index)?),
        il::Operation::Branch { target } => Op::Branch(ex_of(target)?),
        il::Operation::Nop { .. } => Op::Nop,
        other => return Err(format!("operation outside the enumerated space: {}", other)),
    })
}

fn model(f: &il::Function) -> Result<Fun, String> {
    let cfg = f.control_flow_graph();
    let mut blocks = BTreeMap::new();
    for b in cfg.blocks() {
        let mut phis = vec![];
        for p in b.phi_nodes() {
            let mut incoming = BTreeMap::new();
            for i in 0..PROBE {
                if let Some(s) = p.incoming_scalar(i) {
                    incoming.insert(i, var_of(s));
                }
            }
            let shown = format!("{}", p).matches('[').count();
            phis.push(Phi { out: var_of(p.out()), incoming, entry: p.entry_scalar().map(var_of), shown });
        }
        let mut ins = vec![];
        for i in b.instructions() {
            ins.push((i.index(), op_of(i.operation())?));
        }
        if blocks.insert(b.index(), Blk { phis, ins }).is_some() {
            return Err(format!("block index {} listed twice", b.index()));
        }
    }
    let mut edges = BTreeMap::new();
    for e in cfg.edges() {
        let c = match e.condition() {
            Some(c) => Some(ex_of(c)?),
            None => None,
        };
        if edges.insert((e.head(), e.tail()), c).is_some() {
            return Err(format!("edge {}->{} listed twice", e.head(), e.tail()));
        }
    }
    Ok(Fun { entry: cfg.entry(), blocks, edges })
}

fn strip_v(v: &Var) -> Var {
    Var { name: v.name.clone(), bits: v.bits, ssa: None }
}
fn strip_e(e: &Ex) -> Ex {
    match e {
        Ex::S(v) => Ex::S(strip_v(v)),
        Ex::C(a, b) => Ex::C(*a, *b),
        Ex::Add(l, r) => Ex::Add(Box::new(strip_e(l)), Box::new(strip_e(r))),
        Ex::Eq(l, r) => Ex::Eq(Box::new(strip_e(l)), Box::new(strip_e(r))),
        Ex::Ltu(l, r) => Ex::Ltu(Box::new(strip_e(l)), Box::new(strip_e(r))),
    }
}
fn strip_o(o: &Op) -> Op {
    match o {
        Op::Assign(d, s) => Op::Assign(strip_v(d), strip_e(s)),
        Op::Store(i, s) => Op::Store(strip_e(i), strip_e(s)),
        Op::Load(d, i) => Op::Load(strip_v(d), strip_e(i)),
        Op::Branch(t) => Op::Branch(strip_e(t)),
        Op::Nop => Op::Nop,
    }
}
fn uses_e(e: &Ex, out: &mut Vec<Var>) {
    match e {
        Ex::S(v) => out.push(v.clone()),
        Ex::C(..) => {}
        Ex::Add(l, r) | Ex::Eq(l, r) | Ex::Ltu(l, r) => {
            uses_e(l, out);
            uses_e(r, out);
        }
    }
}
fn uses_o(o: &Op) -> Vec<Var> {
    let mut v = vec![];
    match o {
        Op::Assign(_, s) => uses_e(s, &mut v),
        Op::Store(i, s) => {
            uses_e(i, &mut v);
            uses_e(s, &mut v);
        }
        Op::Load(_, i) => uses_e(i, &mut v),
        Op::Branch(t) => uses_e(t, &mut v),
        Op::Nop => {}
    }
    v
}
fn def_o(o: &Op) -> Option<&Var> {
    match o {
        Op::Assign(d, _) | Op::Load(d, _) => Some(d),
        _ => None,
    }
}

impl Fun {
    fn preds(&self, b: usize) -> BTreeSet<usize> {
        self.edges.keys().filter(|e| e.1 == b).map(|e| e.0).collect()
    }
    fn succs(&self, b: usize) -> Vec<usize> {
        self.edges.keys().filter(|e| e.0 == b).map(|e| e.1).collect()
    }
    fn reachable(&self) -> BTreeSet<usize> {
        let mut seen = BTreeSet::new();
        if let Some(e) = self.entry {
            let mut st = vec![e];
            seen.insert(e);
            while let Some(b) = st.pop() {
                for s in self.succs(b) {
                    if seen.insert(s) {
                        st.push(s);
                    }
                }
            }
        }
        seen
    }
}

// ------------------------------------------------------------------------------------------------
// checks (2) - (5)

type Finding = (&'static str, String, String); // (op, got, expected)

fn check_structure(o: &Fun, s: &Fun, out: &mut Vec<Finding>) -> bool {
    let mut ok = true;
    let bad = |g: String, e: String, out: &mut Vec<Finding>| {
        out.push(("structure", g, e));
    };
    if o.entry != s.entry {
        bad(format!("entry {:?}", s.entry), format!("entry {:?}", o.entry), out);
        ok = false;
    }
    if o.blocks.keys().collect::<Vec<_>>() != s.blocks.keys().collect::<Vec<_>>() {
        bad(format!("blocks {:?}", s.blocks.keys()), format!("blocks {:?}", o.blocks.keys()), out);
        return false;
    }
    if o.edges.keys().collect::<Vec<_>>() != s.edges.keys().collect::<Vec<_>>() {
        bad(format!("edges {:?}", s.edges.keys()), format!("edges {:?}", o.edges.keys()), out);
        return false;
    }
    for (k, c) in &o.edges {
        if s.edges[k].as_ref().map(strip_e) != *c {
            bad(format!("guard of {:?}: {:?}", k, s.edges[k]), format!("{:?} up to versions", c), out);
            ok = false;
        }
    }
    for (k, b) in &o.blocks {
        let sb = &s.blocks[k];
        if !b.phis.is_empty() {
            bad(format!("input block {} already has phi nodes", k), "none".into(), out);
        }
        if b.ins.len() != sb.ins.len() {
            bad(format!("block {} has {} instructions", k, sb.ins.len()), format!("{}", b.ins.len()), out);
            ok = false;
            continue;
        }
        for (i, (idx, op)) in b.ins.iter().enumerate() {
            if sb.ins[i].0 != *idx || strip_o(&sb.ins[i].1) != *op {
                bad(format!("block {} position {}: #{} {:?}", k, i, sb.ins[i].0, sb.ins[i].1), format!("#{} {:?} up to versions", idx, op), out);
                ok = false;
            }
        }
    }
    ok
}

fn check_single_assignment(s: &Fun, out: &mut Vec<Finding>) {
    let reach = s.reachable();
    let mut seen: BTreeMap<(String, usize), String> = BTreeMap::new();
    let mut note = |v: &Var, place: String, blk: usize, out: &mut Vec<Finding>| {
        let op = if reach.contains(&blk) { "single_assignment" } else { "single_assignment.unreachable_block" };
        match v.ssa {
            None => out.push((op, format!("{} assigns the unversioned scalar {}", place, v.name), "every assigned scalar carries its own version".into())),
            Some(n) => {
                if let Some(first) = seen.insert((v.name.clone(), n), place.clone()) {
                    out.push((op, format!("{}.{} is assigned at {} and at {}", v.name, n, first, place), "each version is assigned in exactly one place".into()));
                }
            }
        }
    };
    for (k, b) in &s.blocks {
        for (i, p) in b.phis.iter().enumerate() {
            note(&p.out, format!("block {} phi {}", k, i), *k, out);
        }
        for (i, (_, op)) in b.ins.iter().enumerate() {
            if let Some(d) = def_o(op) {
                note(d, format!("block {} position {}", k, i), *k, out);
            }
        }
    }
}

fn check_phi_shape(s: &Fun, out: &mut Vec<Finding>) {
    for (k, b) in &s.blocks {
        let preds = s.preds(*k);
        for (i, p) in b.phis.iter().enumerate() {
            let got: BTreeSet<usize> = p.incoming.keys().cloned().collect();
            let total = p.incoming.len() + p.entry.is_some() as usize;
            if got != preds || p.shown != total {
                out.push(("phi_incoming", format!("block {} phi {} ({}): incoming from {:?} ({} items shown)", k, i, p.out.name, got, p.shown), format!("exactly one incoming per predecessor {:?}", preds)));
            }
            for v in p.incoming.values() {
                if v.name != p.out.name {
                    out.push(("phi_incoming", format!("block {} phi {} for {} has an incoming {}", k, i, p.out.name, v.name), "incoming versions of the same scalar".into()));
                }
            }
            let is_entry = s.entry == Some(*k);
            match (&p.entry, is_entry) {
                (Some(v), true) => {
                    if v.ssa.is_some() || v.name != p.out.name {
                        out.push(("phi_incoming", format!("block {} phi {}: entry incoming {:?}", k, i, v), "the unversioned value live on entry".into()));
                    }
                }
                (None, true) => out.push(("phi_incoming", format!("entry block {} phi {} ({}) has no entry incoming", k, i, p.out.name), "an incoming for the function entry".into())),
                (Some(_), false) => out.push(("phi_incoming", format!("block {} phi {} has an entry incoming but is not the entry block", k, i), "none".into())),
                (None, false) => {}
            }
        }
    }
}

type Versions = BTreeMap<String, BTreeSet<Option<usize>>>;

fn transfer(b: &Blk, mut st: Versions, upto: usize) -> Versions {
    for p in &b.phis {
        st.insert(p.out.name.clone(), [p.out.ssa].into_iter().collect());
    }
    for (_, op) in b.ins.iter().take(upto) {
        if let Some(d) = def_o(op) {
            st.insert(d.name.clone(), [d.ssa].into_iter().collect());
        }
    }
    st
}

/// (4): reaching versions by a forward data-flow over the SSA function itself
fn check_uses(s: &Fun, out: &mut Vec<Finding>) {
    let entry = match s.entry {
        Some(e) => e,
        None => return,
    };
    let mut names: BTreeSet<String> = BTreeSet::new();
    for b in s.blocks.values() {
        for p in &b.phis {
            names.insert(p.out.name.clone());
        }
        for (_, op) in &b.ins {
            for u in uses_o(op) {
                names.insert(u.name);
            }
            if let Some(d) = def_o(op) {
                names.insert(d.name.clone());
            }
        }
    }
    for c in s.edges.values().flatten() {
        let mut v = vec![];
        uses_e(c, &mut v);
        for u in v {
            names.insert(u.name);
        }
    }
    let mut inn: BTreeMap<usize, Versions> = BTreeMap::new();
    let start: Versions = names.iter().map(|n| (n.clone(), [None].into_iter().collect())).collect();
    inn.insert(entry, start);
    let mut work = vec![entry];
    while let Some(b) = work.pop() {
        let o = transfer(&s.blocks[&b], inn[&b].clone(), usize::MAX);
        for t in s.succs(b) {
            let first = !inn.contains_key(&t);
            let cur = inn.entry(t).or_default();
            let mut changed = false;
            for (n, vs) in &o {
                let e = cur.entry(n.clone()).or_default();
                for v in vs {
                    changed |= e.insert(*v);
                }
            }
            // a block is (re)processed on its first visit and whenever its IN set grew
            if changed || first {
                work.push(t);
            }
        }
    }
    let exact = |st: &Versions, u: &Var| -> bool { st.get(&u.name).map(|vs| vs.len() == 1 && vs.contains(&u.ssa)).unwrap_or(false) };
    let show = |st: &Versions, u: &Var| -> String { format!("{:?}", st.get(&u.name).map(|vs| vs.iter().cloned().collect::<Vec<_>>()).unwrap_or_default()) };
    let reach: BTreeSet<usize> = s.reachable();
    for (k, b) in &s.blocks {
        if !reach.contains(k) {
            continue; // no path from the entry: "on every path from the entry" is vacuous
        }
        let i0 = match inn.get(k) {
            Some(x) => x.clone(),
            None => names.iter().map(|n| (n.clone(), BTreeSet::new())).collect(), // reachable, names empty
        };
        for (i, (_, op)) in b.ins.iter().enumerate() {
            let st = transfer(b, i0.clone(), i);
            for u in uses_o(op) {
                if !exact(&st, &u) {
                    out.push(("use.instruction", format!("block {} position {} reads {}.{:?}", k, i, u.name, u.ssa), format!("the reaching version(s) {}", show(&st, &u))));
                }
            }
        }
        let end = transfer(b, i0.clone(), usize::MAX);
        for t in s.succs(*k) {
            if let Some(c) = &s.edges[&(*k, t)] {
                let mut v = vec![];
                uses_e(c, &mut v);
                for u in v {
                    if !exact(&end, &u) {
                        out.push(("use.guard", format!("guard of edge {}->{} reads {}.{:?}", k, t, u.name, u.ssa), format!("the version(s) reaching the end of block {}: {}", k, show(&end, &u))));
                    }
                }
            }
            for (pi, p) in s.blocks[&t].phis.iter().enumerate() {
                if let Some(u) = p.incoming.get(k) {
                    if !exact(&end, u) {
                        out.push(("use.phi_incoming", format!("block {} phi {}: incoming from {} is {}.{:?}", t, pi, k, u.name, u.ssa), format!("the version(s) reaching the end of block {}: {}", k, show(&end, u))));
                    }
                }
            }
        }
    }
}

// ------------------------------------------------------------------------------------------------
// (6) interpreters

type Env = BTreeMap<(String, Option<usize>), u64>;
type Mem = BTreeMap<u64, u64>;

fn mask(bits: usize) -> u64 {
    if bits >= 64 { u64::MAX } else { (1u64 << bits) - 1 }
}
fn bits_of(e: &Ex) -> usize {
    match e {
        Ex::S(v) => v.bits,
        Ex::C(_, b) => *b,
        Ex::Add(l, _) => bits_of(l),
        Ex::Eq(..) | Ex::Ltu(..) => 1,
    }
}
fn eval(e: &Ex, env: &Env) -> Result<u64, String> {
    Ok(match e {
        Ex::S(v) => *env.get(&(v.name.clone(), v.ssa)).ok_or_else(|| format!("{}.{:?} is read before any assignment", v.name, v.ssa))? & mask(v.bits),
        Ex::C(c, b) => *c & mask(*b),
        Ex::Add(l, r) => eval(l, env)?.wrapping_add(eval(r, env)?) & mask(bits_of(l)),
        Ex::Eq(l, r) => (eval(l, env)? == eval(r, env)?) as u64,
        Ex::Ltu(l, r) => (eval(l, env)? < eval(r, env)?) as u64,
    })
}

#[derive(Debug, PartialEq)]
enum Event {
    Value(u64),
    Store(u64, u64),
    Load(u64, u64),
    Branch(u64),
    Nop,
}

fn exec(op: &Op, env: &mut Env, mem: &mut Mem) -> Result<Event, String> {
    Ok(match op {
        Op::Assign(d, s) => {
            let v = eval(s, env)? & mask(d.bits);
            env.insert((d.name.clone(), d.ssa), v);
            Event::Value(v)
        }
        Op::Store(i, s) => {
            let a = eval(i, env)?;
            let v = eval(s, env)?;
            mem.insert(a, v);
            Event::Store(a, v)
        }
        Op::Load(d, i) => {
            let a = eval(i, env)?;
            let v = mem.get(&a).cloned().unwrap_or(a.wrapping_mul(2654435761).wrapping_add(12345)) & mask(d.bits);
            env.insert((d.name.clone(), d.ssa), v);
            Event::Load(a, v)
        }
        Op::Branch(t) => Event::Branch(eval(t, env)?),
        Op::Nop => Event::Nop,
    })
}

struct Run<'a> {
    o: &'a Fun,
    s: &'a Fun,
    budget: usize,
}

impl<'a> Run<'a> {
    /// lock-step execution from block `b`, entered over the edge from `from` (None = function entry)
    fn go(&mut self, b: usize, from: Option<usize>, mut oe: Env, mut om: Mem, mut se: Env, mut sm: Mem, mut steps: usize, path: &mut Vec<usize>) -> Result<(), String> {
        if self.budget == 0 {
            return Ok(());
        }
        self.budget -= 1;
        path.push(b);
        let sb = &self.s.blocks[&b];
        // phi nodes: all read the state at the end of the predecessor
        let mut upd = vec![];
        for (i, p) in sb.phis.iter().enumerate() {
            let src = match from {
                Some(f) => p.incoming.get(&f).ok_or_else(|| format!("path {:?}: block {} phi {} has no incoming for predecessor {}", path, b, i, f))?,
                None => p.entry.as_ref().ok_or_else(|| format!("path {:?}: entry block {} phi {} has no entry incoming", path, b, i))?,
            };
            let v = *se.get(&(src.name.clone(), src.ssa)).ok_or_else(|| format!("path {:?}: block {} phi {} selects {}.{:?}, which has no value", path, b, i, src.name, src.ssa))?;
            upd.push(((p.out.name.clone(), p.out.ssa), v));
        }
        for (k, v) in upd {
            se.insert(k, v);
        }
        let ob = &self.o.blocks[&b];
        for (i, (_, op)) in ob.ins.iter().enumerate() {
            if steps >= 12 {
                path.pop();
                return Ok(());
            }
            steps += 1;
            let eo = exec(op, &mut oe, &mut om).map_err(|e| format!("original: {}", e))?;
            let es = exec(&sb.ins[i].1, &mut se, &mut sm).map_err(|e| format!("path {:?}: block {} position {}: {}", path, b, i, e))?;
            if eo != es {
                return Err(format!("path {:?}: block {} position {}: SSA form {:?}, original {:?}", path, b, i, es, eo));
            }
        }
        if steps >= 12 {
            path.pop();
            return Ok(());
        }
        for t in self.o.succs(b) {
            let en_o = match &self.o.edges[&(b, t)] {
                Some(c) => eval(c, &oe).map_err(|e| format!("original: {}", e))? == 1,
                None => true,
            };
            let en_s = match &self.s.edges[&(b, t)] {
                Some(c) => eval(c, &se).map_err(|e| format!("path {:?}: guard of {}->{}: {}", path, b, t, e))? == 1,
                None => true,
            };
            if en_o != en_s {
                return Err(format!("path {:?}: edge {}->{} enabled in the SSA form: {}, in the original: {}", path, b, t, en_s, en_o));
            }
            if en_o {
                self.go(t, Some(b), oe.clone(), om.clone(), se.clone(), sm.clone(), steps + 1, path)?;
            }
        }
        path.pop();
        Ok(())
    }
}

fn check_semantics(o: &Fun, s: &Fun, out: &mut Vec<Finding>) {
    let entry = match o.entry {
        Some(e) => e,
        None => return,
    };
    for (x, y, c) in [(0u64, 0u64, 0u64), (1, 2, 1), (5, 5, 0), (7, 3, 1)] {
        let mut env = Env::new();
        env.insert(("x".into(), None), x);
        env.insert(("y".into(), None), y);
        env.insert(("c".into(), None), c);
        let mut r = Run { o, s, budget: 96 };
        let mut path = vec![];
        if let Err(e) = r.go(entry, None, env.clone(), Mem::new(), env, Mem::new(), 0, &mut path) {
            out.push(("semantics", format!("initial x={} y={} c={}: {}", x, y, c, e), "same path, same stores / branches, same values".into()));
            return;
        }
    }
}

// ------------------------------------------------------------------------------------------------
// enumeration

const NOPS: usize = 8;
const NCONT: usize = 1 + NOPS + NOPS * NOPS;

fn x32() -> il::Scalar { il::scalar("x", 32) }
fn y32() -> il::Scalar { il::scalar("y", 32) }
fn c1() -> il::Scalar { il::scalar("c", 1) }

fn push_op(b: &mut il::Block, op: usize, k: u64) {
    match op {
        0 => b.assign(x32(), il::expr_const(k, 32)),
        1 => b.assign(x32(), il::Expression::add(il::expr_scalar("x", 32), il::expr_scalar("y", 32)).unwrap()),
        2 => b.assign(y32(), il::expr_scalar("x", 32)),
        3 => b.store(il::expr_scalar("y", 32), il::expr_scalar("x", 32)),
        4 => b.load(y32(), il::expr_scalar("x", 32)),
        5 => b.branch(il::expr_scalar("x", 32)),
        6 => b.assign(c1(), il::expr_const(k & 1, 1)),
        _ => b.assign(c1(), il::Expression::cmpltu(il::expr_scalar("x", 32), il::expr_scalar("y", 32)).unwrap()),
    }
}

fn ops_of(code: usize) -> Vec<usize> {
    if code == 0 { vec![] } else if code <= NOPS { vec![code - 1] } else { vec![(code - 1 - NOPS) / NOPS, (code - 1 - NOPS) % NOPS] }
}

/// `gk` bit 0: guards read the scalar c / the expression x <u y; bit 1: a single out-edge is guarded as well
fn build(n: usize, edges: u32, cont: &[usize], gk: usize, entry: usize) -> il::Function {
    let mut cfg = il::ControlFlowGraph::new();
    for (bi, code) in cont.iter().enumerate().take(n) {
        let b = cfg.new_block().unwrap();
        for (pos, op) in ops_of(*code).into_iter().enumerate() {
            push_op(b, op, 10 + 10 * bi as u64 + pos as u64 + (bi as u64 & 1));
        }
    }
    let guard = |neg: bool| -> il::Expression {
        let g = if gk & 1 == 0 { il::expr_scalar("c", 1) } else { il::Expression::cmpltu(il::expr_scalar("x", 32), il::expr_scalar("y", 32)).unwrap() };
        if neg { il::Expression::cmpeq(g, il::expr_const(0, 1)).unwrap() } else { g }
    };
    for h in 0..n {
        let outs: Vec<usize> = (0..n).filter(|t| edges & (1 << (h * n + t)) != 0).collect();
        for (k, t) in outs.iter().enumerate() {
            if outs.len() >= 2 || gk & 2 != 0 {
                cfg.conditional_edge(h, *t, guard(k % 2 == 1)).unwrap();
            } else {
                cfg.unconditional_edge(h, *t).unwrap();
            }
        }
    }
    cfg.set_entry(entry).unwrap();
    il::Function::new(0, cfg)
}

fn splitmix(s: &mut u64) -> u64 {
    *s = s.wrapping_add(0x9E3779B97F4A7C15);
    let mut z = *s;
    z = (z ^ (z >> 30)).wrapping_mul(0xBF58476D1CE4E5B9);
    z = (z ^ (z >> 27)).wrapping_mul(0x94D049BB133111EB);
    z ^ (z >> 31)
}

/// `c10_witness probe`: the diamond of defect (i) - c is assigned on both branches, read only by the guards after the join
fn probe() {
    let mut cfg = il::ControlFlowGraph::new();
    for _ in 0..5 { cfg.new_block().unwrap(); }
    cfg.block_mut(1).unwrap().assign(c1(), il::expr_const(0, 1));
    cfg.block_mut(2).unwrap().assign(c1(), il::expr_const(1, 1));
    cfg.unconditional_edge(0, 1).unwrap();
    cfg.unconditional_edge(0, 2).unwrap();
    cfg.unconditional_edge(1, 3).unwrap();
    cfg.unconditional_edge(2, 3).unwrap();
    cfg.conditional_edge(3, 4, il::expr_scalar("c", 1)).unwrap();
    cfg.conditional_edge(3, 0, il::Expression::cmpeq(il::expr_scalar("c", 1), il::expr_const(0, 1)).unwrap()).unwrap();
    cfg.set_entry(0).unwrap();
    let f = il::Function::new(0, cfg);
    let g = ssa_transformation(&f).unwrap();
    for b in g.control_flow_graph().blocks() {
        println!("block {}: phi nodes [{}] instructions [{}]", b.index(),
            b.phi_nodes().iter().map(|p| format!("{}", p)).collect::<Vec<_>>().join("; "),
            b.instructions().iter().map(|i| format!("{}", i.operation())).collect::<Vec<_>>().join("; "));
    }
    for e in g.control_flow_graph().edges() {
        println!("edge {} -> {} guard {}", e.head(), e.tail(), e.condition().map(|c| format!("{}", c)).unwrap_or("-".into()));
    }
    let (o, s) = (model(&f).unwrap(), model(&g).unwrap());
    let mut fs: Vec<Finding> = vec![];
    check_structure(&o, &s, &mut fs);
    check_single_assignment(&s, &mut fs);
    check_phi_shape(&s, &mut fs);
    check_uses(&s, &mut fs);
    check_semantics(&o, &s, &mut fs);
    for (op, got, exp) in fs { println!("FINDING {}: {} (expected: {})", op, got, exp); }
}

fn deep() -> bool { std::env::var("VERIF_TIER").map(|t| t == "thorough").unwrap_or(false) } // thorough tier: wider bounds
fn main() {
    if std::env::args().nth(1).as_deref() == Some("probe") { probe(); return; }
    std::panic::set_hook(Box::new(|_| {}));
    let mut found = 0usize;
    let mut evals = 0u64;
    let mut functions = 0u64;
    let mut per_op: BTreeMap<String, usize> = BTreeMap::new();
    let mut with_unreachable = 0u64;
    let mut with_phi = 0u64;
    let mut lines: Vec<(usize, String)> = vec![];
    // report order: the most serious class first (the framework quotes the first line)
    let rank = |op: &str| -> usize {
        ["succeeds", "structure", "semantics", "use.guard", "use.instruction", "use.phi_incoming", "phi_incoming", "single_assignment", "single_assignment.unreachable_block"]
            .iter().position(|x| *x == op).unwrap_or(99)
    };

    let mut one = |n: usize, edges: u32, cont: &[usize], gk: usize, entry: usize| {
        functions += 1;
        let f = build(n, edges, cont, gk, entry);
        let desc = format!("blocks={} edges={:#b} (bit h*{}+t = edge h->t) entry={} ops={:?} guards={}{}", n, edges, n, entry,
            cont.iter().take(n).map(|c| ops_of(*c)).collect::<Vec<_>>(), if gk & 1 == 0 { "c" } else { "x<u y" }, if gk & 2 != 0 { " (single out-edges guarded)" } else { "" });
        let mut fs: Vec<Finding> = vec![];
        evals += 1;
        let r = catch_unwind(AssertUnwindSafe(|| ssa_transformation(&f).map_err(|e| e.to_string())));
        match r {
            Ok(Ok(g)) => match (model(&f), model(&g)) {
                (Ok(o), Ok(s)) => {
                    if o.reachable().len() != o.blocks.len() { with_unreachable += 1; }
                    if s.blocks.values().any(|b| !b.phis.is_empty()) { with_phi += 1; }
                    evals += 5;
                    let same = check_structure(&o, &s, &mut fs);
                    check_single_assignment(&s, &mut fs);
                    check_phi_shape(&s, &mut fs);
                    check_uses(&s, &mut fs);
                    if same { check_semantics(&o, &s, &mut fs); }
                }
                (a, b) => fs.push(("structure", format!("{:?} / {:?}", a.err(), b.err()), "a function inside the enumerated space".into())),
            },
            Ok(Err(e)) => fs.push(("succeeds", format!("Err({})", e), "Ok".into())),
            Err(_) => fs.push(("succeeds", "panic".into(), "Ok".into())),
        }
        let mut seen_ops = BTreeSet::new();
        for (op, got, exp) in fs {
            found += 1;
            let c = per_op.entry(op.to_string()).or_insert(0);
            *c += 1;
            if *c <= 3 && seen_ops.insert(op) {
                lines.push((rank(op), format!("{{\"witness\":true,\"op\":\"{}\",\"input\":\"{}\",\"got\":\"{}\",\"expected\":\"{}\"}}", op, desc,
                    got.replace('"', "'").replace('\\', "/").chars().take(400).collect::<String>(), exp.replace('"', "'").replace('\\', "/").chars().take(300).collect::<String>())));
            }
        }
    };

    // n = 1, 2: exhaustive over edge sets, contents, entry, guard variants
    for n in 1..=2usize {
        for edges in 0u32..(1 << (n * n)) {
            for c0 in 0..NCONT {
                for c1 in 0..(if n == 2 { NCONT } else { 1 }) {
                    for entry in 0..n {
                        // guard variants only matter when there is an edge; rotate them over the contents, all four for n = 1
                        if n == 1 {
                            for gk in 0..4 { one(n, edges, &[c0, c1], gk, entry); }
                        } else {
                            one(n, edges, &[c0, c1], (c0 + 3 * c1 + edges as usize) % 4, entry);
                        }
                    }
                }
            }
        }
    }
    // n = 3, 4: every edge set, sampled contents
    for (n, samples) in [(3usize, if deep() { 1600usize } else { 160usize }), (4, if deep() { 24 } else { 3 })] {
        for edges in 0u32..(1 << (n * n)) {
            let mut seed = 0xC10u64 ^ ((n as u64) << 40) ^ ((edges as u64) << 8);
            for _ in 0..samples {
                let r = splitmix(&mut seed);
                let cont: Vec<usize> = (0..4).map(|i| {
                    let v = ((r >> (12 * i)) & 0xfff) as usize;
                    // half of the blocks get a single operation or none: keeps definitions sparse enough for joins to matter
                    if v & 1 == 0 { (v >> 1) % (1 + NOPS) } else { (v >> 1) % NCONT }
                }).collect();
                let gk = ((r >> 50) & 3) as usize;
                let entry = if (r >> 55) & 7 == 0 { n - 1 } else { 0 };
                one(n, edges, &cont, gk, entry);
            }
        }
    }
    lines.sort_by_key(|l| l.0);
    for (_, l) in &lines {
        println!("{}", l);
    }
    let po: Vec<String> = per_op.iter().map(|(k, v)| format!("\"{}\":{}", k, v)).collect();
    println!("{{\"summary\":true,\"evaluations\":{},\"functions\":{},\"functions_with_unreachable_blocks\":{},\"functions_with_phi_nodes\":{},\"disagreements\":{},\"per_op\":{{{}}}}}",
        evals, functions, with_unreachable, with_phi, found, po.join(","));
}
