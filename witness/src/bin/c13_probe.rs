// C13 probe: concrete inputs for the defects found while verifying lib/analysis/constants.rs
use falcon::analysis::constants::constants;
use falcon::il::*;
use std::panic;

fn run(tag: &str, function: &Function) {
    println!("{}", tag);
    let f = function.clone();
    let r = panic::catch_unwind(move || {
        match constants(&f) {
            Ok(map) => {
                let mut keys: Vec<_> = map.keys().cloned().collect();
                keys.sort();
                for k in keys {
                    println!("    {} -> {:?}", k, map[&k]);
                }
                "Ok".to_string()
            }
            Err(e) => format!("Err({})", e),
        }
    });
    match r {
        Ok(s) => println!("  constants() = {}", s),
        Err(_) => println!("  constants() PANICKED   <-- the property demands completion"),
    }
}

fn main() {
    panic::set_hook(Box::new(|info| {
        println!("  panic: {}", info);
    }));

    // (i) a live block with an additional predecessor block that is unreachable from the entry
    //     0 (entry): x = 1      0 -> 2
    //     1 (dead) : x = 2      1 -> 2
    //     2        : y = x
    println!("(i) live block 2 has the additional predecessor block 1 which is unreachable from the entry block 0");
    let mut cfg = ControlFlowGraph::new();
    let b0 = { let b = cfg.new_block().unwrap(); b.assign(scalar("x", 32), expr_const(1, 32)); b.index() };
    let b1 = { let b = cfg.new_block().unwrap(); b.assign(scalar("x", 32), expr_const(2, 32)); b.index() };
    let b2 = { let b = cfg.new_block().unwrap(); b.assign(scalar("y", 32), expr_scalar("x", 32)); b.index() };
    cfg.unconditional_edge(b0, b2).unwrap();
    cfg.unconditional_edge(b1, b2).unwrap();
    cfg.set_entry(b0).unwrap();
    cfg.set_exit(b2).unwrap();
    run("  function: 0:[x=1] -> 2:[y=x] <- 1:[x=2], entry 0", &Function::new(0, cfg));

    // (ii) a width-inconsistent assignment: x:32 = 1:8 ; y:32 = x:32 + 1:32
    //      (Operation::assign / Block::assign do not check widths; the executor reports Error::Sort here)
    println!("(ii) x:32 = 0x1:8 ; y:32 = x:32 + 0x1:32   (no scalar is read before it is assigned)");
    let mut cfg = ControlFlowGraph::new();
    let b0 = {
        let b = cfg.new_block().unwrap();
        b.assign(scalar("x", 32), expr_const(1, 8));
        b.assign(scalar("y", 32), Expression::add(expr_scalar("x", 32), expr_const(1, 32)).unwrap());
        b.nop();
        b.index()
    };
    cfg.set_entry(b0).unwrap();
    cfg.set_exit(b0).unwrap();
    run("  function: 0:[x:32 = 1:8, y:32 = x:32 + 1:32, nop]", &Function::new(0, cfg));

    // (ii') a raw ill-sorted expression (enum variants are public): y:32 = x:32 + 1:8 with x a known constant
    println!("(ii') x:32 = 0x1:32 ; y:32 = Expression::Add(x:32, 0x1:8)   (variant built directly)");
    let mut cfg = ControlFlowGraph::new();
    let b0 = {
        let b = cfg.new_block().unwrap();
        b.assign(scalar("x", 32), expr_const(1, 32));
        b.assign(scalar("y", 32), Expression::Add(Box::new(expr_scalar("x", 32)), Box::new(expr_const(1, 8))));
        b.nop();
        b.index()
    };
    cfg.set_entry(b0).unwrap();
    cfg.set_exit(b0).unwrap();
    run("  function: 0:[x:32 = 1:32, y:32 = Add(x:32, 1:8), nop]", &Function::new(0, cfg));

    // (iii) Constants::partial_cmp: Some(Equal) for two states that differ
    println!("(iii) partial_cmp of the states {{x: 5}} and {{x: 6}}");
    let mk = |v: u64| {
        let mut cfg = ControlFlowGraph::new();
        let b0 = { let b = cfg.new_block().unwrap(); b.assign(scalar("x", 32), expr_const(v, 32)); b.nop(); b.index() };
        cfg.set_entry(b0).unwrap();
        cfg.set_exit(b0).unwrap();
        let f = Function::new(0, cfg);
        let map = constants(&f).unwrap();
        let loc = ProgramLocation::new(None, FunctionLocation::Instruction(0, 1));
        map.get(&loc).cloned()
    };
    let a = mk(5);
    let b = mk(6);
    match (a, b) {
        (Some(a), Some(b)) => {
            println!("  a = {:?}", a);
            println!("  b = {:?}", b);
            println!("  a == b          : {}", a == b);
            println!("  a.partial_cmp(b): {:?}   <-- PartialOrd demands `== Some(Equal)` iff `a == b`; the engine skips the update on Equal", a.partial_cmp(&b));
        }
        _ => println!("  (could not obtain the two states: function index differs?)"),
    }

    // (iv) two scalars that share a name: the analysis keys on (name, bits, ssa), the executor on the name
    println!("(iv) x:32 = 5 ; x:8 = 1 ; nop      (same name, different widths)");
    let mut cfg = ControlFlowGraph::new();
    let b0 = {
        let b = cfg.new_block().unwrap();
        b.assign(scalar("x", 32), expr_const(5, 32));
        b.assign(scalar("x", 8), expr_const(1, 8));
        b.nop();
        b.index()
    };
    cfg.set_entry(b0).unwrap();
    cfg.set_exit(b0).unwrap();
    let f = Function::new(0, cfg);
    run("  function: 0:[x:32 = 5, x:8 = 1, nop]", &f);
    {
        use falcon::executor::{Memory, State};
        let mut state = State::new(Memory::new(falcon::architecture::Endian::Little));
        let block = f.block(0).unwrap();
        for ins in block.instructions().iter().take(2) {
            state = state.execute(ins.operation()).unwrap().state().clone();
        }
        println!("  executor after the two assignments: x = {:?}   (the analysis reports x:32 = 0x5 at the nop)", state.get_scalar("x"));
    }

    // (v) a scalar that is assigned on one path only and then read: absent entries are the identity of join,
    //     so the constant of the assigning path survives the join and is used to fold the reader
    //     0: nop -> 1: x = 5 -> 3 ;  0 -> 2: nop -> 3 ;  3: y = x + 1 ; nop
    println!("(v) x is assigned on one of two paths, then y = x + 1   (x is read before it is assigned on the path through block 2)");
    let mut cfg = ControlFlowGraph::new();
    let b0 = { let b = cfg.new_block().unwrap(); b.nop(); b.index() };
    let b1 = { let b = cfg.new_block().unwrap(); b.assign(scalar("x", 32), expr_const(5, 32)); b.index() };
    let b2 = { let b = cfg.new_block().unwrap(); b.nop(); b.index() };
    let b3 = {
        let b = cfg.new_block().unwrap();
        b.assign(scalar("y", 32), Expression::add(expr_scalar("x", 32), expr_const(1, 32)).unwrap());
        b.nop();
        b.index()
    };
    cfg.unconditional_edge(b0, b1).unwrap();
    cfg.unconditional_edge(b0, b2).unwrap();
    cfg.unconditional_edge(b1, b3).unwrap();
    cfg.unconditional_edge(b2, b3).unwrap();
    cfg.set_entry(b0).unwrap();
    cfg.set_exit(b3).unwrap();
    let f = Function::new(0, cfg);
    run("  function: 0:[nop] -> 1:[x=5] -> 3:[y=x+1, nop] ; 0 -> 2:[nop] -> 3", &f);
    {
        use falcon::executor::{Memory, State};
        // the execution 0 -> 2 -> 3 with the caller's x = 100
        let mut state = State::new(Memory::new(falcon::architecture::Endian::Little));
        state.set_scalar("x", Constant::new(100, 32));
        let block = f.block(3).unwrap();
        state = state.execute(block.instructions()[0].operation()).unwrap().state().clone();
        println!("  executor, path 0 -> 2 -> 3 with incoming x = 100: y = {:?} after `y = x + 1`   (y HAS been assigned by the function; the analysis reports y = 0x6 at 0x3:01)", state.get_scalar("y"));
    }
}
