// C12 probe: concrete inputs for the defects found while verifying lib/analysis/{reaching_definitions,
// use_def,def_use}.rs.  Prints the reaching definitions (state AFTER each location), the use-def and the
// def-use chains, and compares them with what the property demands.
use falcon::analysis::{dead_code_elimination, def_use, reaching_definitions, use_def};
use falcon::il::*;
use std::panic;

fn show(tag: &str, function: &Function) {
    println!("{}", tag);
    for block in function.blocks() {
        for ins in block.instructions() {
            println!("      {:X}:{:02X}  {}", block.index(), ins.index(), ins.operation());
        }
    }
    let f = function.clone();
    let r = panic::catch_unwind(move || {
        let rd = reaching_definitions(&f).unwrap();
        let mut keys: Vec<_> = rd.keys().cloned().collect();
        keys.sort();
        println!("    reaching definitions (state after the location):");
        for k in &keys {
            let mut v: Vec<_> = rd[k].locations().iter().cloned().collect();
            v.sort();
            println!("      {} -> {{{}}}", k, v.iter().map(|x| format!("{}", x)).collect::<Vec<_>>().join(", "));
        }
        let ud = use_def(&f).unwrap();
        println!("    use_def:");
        for k in &keys {
            let mut v: Vec<_> = ud[k].locations().iter().cloned().collect();
            v.sort();
            println!("      {} -> {{{}}}", k, v.iter().map(|x| format!("{}", x)).collect::<Vec<_>>().join(", "));
        }
        let du = def_use(&f).unwrap();
        let mut dkeys: Vec<_> = du.keys().cloned().collect();
        dkeys.sort();
        println!("    def_use:");
        for k in &dkeys {
            let mut v: Vec<_> = du[k].locations().iter().cloned().collect();
            v.sort();
            println!("      {} -> {{{}}}", k, v.iter().map(|x| format!("{}", x)).collect::<Vec<_>>().join(", "));
        }
        // inverse relation check
        let mut inverse_ok = true;
        for (u, defs) in ud.iter() {
            for d in defs.locations() {
                if !du.get(d).map(|s| s.contains(u)).unwrap_or(false) { inverse_ok = false; }
            }
        }
        for (d, uses) in du.iter() {
            for u in uses.locations() {
                if !ud.get(u).map(|s| s.contains(d)).unwrap_or(false) { inverse_ok = false; }
            }
        }
        println!("    def_use is the inverse of use_def: {}", inverse_ok);
    });
    if r.is_err() {
        println!("    PANICKED   <-- the property demands completion");
    }
}

fn main() {
    panic::set_hook(Box::new(|info| {
        println!("    panic: {}", info);
    }));

    // (i)+(ii)  a=1; b=2; c=a+b; esp=esp-4; [esp]=c
    println!("(i)+(ii) straight-line block: a=1; b=2; c=a+b; esp=esp-4; [esp]=c");
    let mut cfg = ControlFlowGraph::new();
    let b0 = {
        let b = cfg.new_block().unwrap();
        b.assign(scalar("a", 32), expr_const(1, 32));
        b.assign(scalar("b", 32), expr_const(2, 32));
        b.assign(scalar("c", 32), Expression::add(expr_scalar("a", 32), expr_scalar("b", 32)).unwrap());
        b.assign(scalar("esp", 32), Expression::sub(expr_scalar("esp", 32), expr_const(4, 32)).unwrap());
        b.store(expr_scalar("esp", 32), expr_scalar("c", 32));
        b.index()
    };
    cfg.set_entry(b0).unwrap();
    cfg.set_exit(b0).unwrap();
    show("  expected: use_def[0:02] = {0:00, 0:01}; use_def[0:03] = {} (esp is an input); use_def[0:04] = {0:02, 0:03}", &Function::new(0, cfg));

    // (ii') esp = 8; esp = esp - 4: the reaching definition of the read is 0:00, not the instruction itself
    println!("(ii') esp=8; esp=esp-4");
    let mut cfg = ControlFlowGraph::new();
    let b0 = {
        let b = cfg.new_block().unwrap();
        b.assign(scalar("esp", 32), expr_const(8, 32));
        b.assign(scalar("esp", 32), Expression::sub(expr_scalar("esp", 32), expr_const(4, 32)).unwrap());
        b.index()
    };
    cfg.set_entry(b0).unwrap();
    cfg.set_exit(b0).unwrap();
    show("  expected: use_def[0:01] = {0:00}", &Function::new(0, cfg));

    // (iv) Store / Branch / Nop as "definitions"; guarded edge
    println!("(iv) x=1; [x]=x; nop; edge guarded by x");
    let mut cfg = ControlFlowGraph::new();
    let b0 = {
        let b = cfg.new_block().unwrap();
        b.assign(scalar("x", 1), expr_const(1, 1));
        b.store(expr_scalar("x", 1), expr_scalar("x", 1));
        b.nop();
        b.index()
    };
    let b1 = {
        let b = cfg.new_block().unwrap();
        b.assign(scalar("y", 1), expr_scalar("x", 1));
        b.index()
    };
    cfg.conditional_edge(b0, b1, expr_scalar("x", 1)).unwrap();
    cfg.set_entry(b0).unwrap();
    cfg.set_exit(b1).unwrap();
    show("  expected: use_def[edge 0->1] = {0:00}; reaching definitions only contain 0:00 (and 1:00 after it)", &Function::new(0, cfg));

    // (v) intrinsic writing two scalars, then one of them is overwritten
    println!("(v) intrinsic writes {{p, q}} ; p = 0 ; r = p + q");
    let mut cfg = ControlFlowGraph::new();
    let b0 = {
        let b = cfg.new_block().unwrap();
        b.intrinsic(Intrinsic::new(
            "two", "two p, q", vec![],
            Some(vec![expr_scalar("p", 32), expr_scalar("q", 32)]),
            Some(vec![]),
            vec![0x90],
        ));
        b.assign(scalar("p", 32), expr_const(0, 32));
        b.assign(scalar("r", 32), Expression::add(expr_scalar("p", 32), expr_scalar("q", 32)).unwrap());
        b.index()
    };
    cfg.set_entry(b0).unwrap();
    cfg.set_exit(b0).unwrap();
    show("  expected: RD after 0:02 = {0:00 (for q), 0:01, 0:02}; use_def[0:02] = {0:00, 0:01}", &Function::new(0, cfg));

    // (vi) two intrinsics with the same written vector / an intrinsic overwriting ONE scalar of a pair
    println!("(vi) intrinsic writes {{p, q}} ; intrinsic writes {{q}} ; r = p");
    let mut cfg = ControlFlowGraph::new();
    let b0 = {
        let b = cfg.new_block().unwrap();
        b.intrinsic(Intrinsic::new(
            "two", "two p, q", vec![],
            Some(vec![expr_scalar("p", 32), expr_scalar("q", 32)]),
            Some(vec![]),
            vec![0x90],
        ));
        b.intrinsic(Intrinsic::new(
            "one", "one q", vec![],
            Some(vec![expr_scalar("q", 32)]),
            Some(vec![]),
            vec![0x90],
        ));
        b.assign(scalar("r", 32), expr_scalar("p", 32));
        b.index()
    };
    cfg.set_entry(b0).unwrap();
    cfg.set_exit(b0).unwrap();
    show("  expected: RD after 0:01 = {0:00 (for p), 0:01}; use_def[0:02] = {0:00}", &Function::new(0, cfg));

    // (vii) undeclared intrinsic
    println!("(vii) x=1 ; intrinsic with undeclared effects ; y = x");
    let mut cfg = ControlFlowGraph::new();
    let b0 = {
        let b = cfg.new_block().unwrap();
        b.assign(scalar("x", 32), expr_const(1, 32));
        b.intrinsic(Intrinsic::new("unk", "unk", vec![], None, None, vec![0x90]));
        b.assign(scalar("y", 32), expr_scalar("x", 32));
        b.index()
    };
    cfg.set_entry(b0).unwrap();
    cfg.set_exit(b0).unwrap();
    show("  (an undeclared intrinsic may have written x: the 'last writer' of x is then the intrinsic, which no chain reports)", &Function::new(0, cfg));

    // (viii) loop: self-use through the back edge
    println!("(viii) loop: 0:[i=0] -> 1:[i=i+1] -> 1, 1 -> 2:[r=i]");
    let mut cfg = ControlFlowGraph::new();
    let b0 = { let b = cfg.new_block().unwrap(); b.assign(scalar("i", 32), expr_const(0, 32)); b.index() };
    let b1 = { let b = cfg.new_block().unwrap(); b.assign(scalar("i", 32), Expression::add(expr_scalar("i", 32), expr_const(1, 32)).unwrap()); b.index() };
    let b2 = { let b = cfg.new_block().unwrap(); b.assign(scalar("r", 32), expr_scalar("i", 32)); b.index() };
    cfg.unconditional_edge(b0, b1).unwrap();
    cfg.unconditional_edge(b1, b1).unwrap();
    cfg.unconditional_edge(b1, b2).unwrap();
    cfg.set_entry(b0).unwrap();
    cfg.set_exit(b2).unwrap();
    show("  expected: use_def[1:00] = {0:00, 1:00} (through the back edge); use_def[2:00] = {1:00}", &Function::new(0, cfg));

    // (ix) consequence for a client: dead_code_elimination consults def_use
    println!("(ix) dead_code_elimination of a=1; b=2; c=a+b; a=0; b=0   (a=1 and b=2 are used by c=a+b and must survive)");
    let mut cfg = ControlFlowGraph::new();
    let b0 = {
        let b = cfg.new_block().unwrap();
        b.assign(scalar("a", 32), expr_const(1, 32));
        b.assign(scalar("b", 32), expr_const(2, 32));
        b.assign(scalar("c", 32), Expression::add(expr_scalar("a", 32), expr_scalar("b", 32)).unwrap());
        b.assign(scalar("a", 32), expr_const(0, 32));
        b.assign(scalar("b", 32), expr_const(0, 32));
        b.index()
    };
    cfg.set_entry(b0).unwrap();
    cfg.set_exit(b0).unwrap();
    let f = Function::new(0, cfg);
    match dead_code_elimination(&f) {
        Ok(g) => {
            for block in g.blocks() {
                for ins in block.instructions() {
                    println!("      {:X}:{:02X}  {}", block.index(), ins.index(), ins.operation());
                }
            }
        }
        Err(e) => println!("    Err({})", e),
    }
}
