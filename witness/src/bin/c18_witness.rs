//! Bounded witness search for unit C18 (labelled bounded, never counted as proved): every function with up to 3
//! blocks (0..=2 instructions each, one variant with a removed middle instruction so indices are not 0..n), every
//! edge set (self-loops included), entry = block 0, placed as the second function of a two-function program; the
//! location API is compared with a model of the IL's location graph.
use falcon::il::*;
use std::collections::BTreeSet;
use std::panic::{catch_unwind, AssertUnwindSafe};

#[derive(Clone, Debug, PartialEq, Eq, PartialOrd, Ord)]
enum Loc { I(usize, usize), E(usize, usize), B(usize) }

fn loc_of(l: &RefFunctionLocation) -> Loc {
    match l {
        RefFunctionLocation::Instruction(b, i) => Loc::I(b.index(), i.index()),
        RefFunctionLocation::Edge(e) => Loc::E(e.head(), e.tail()),
        RefFunctionLocation::EmptyBlock(b) => Loc::B(b.index()),
    }
}

struct Model { blocks: Vec<Vec<usize>>, edges: BTreeSet<(usize, usize)> }

impl Model {
    fn start(&self, b: usize) -> Loc { match self.blocks[b].first() { Some(i) => Loc::I(b, *i), None => Loc::B(b) } }
    fn end(&self, b: usize) -> Loc { match self.blocks[b].last() { Some(i) => Loc::I(b, *i), None => Loc::B(b) } }
    fn out_edges(&self, b: usize) -> BTreeSet<Loc> { self.edges.iter().filter(|e| e.0 == b).map(|e| Loc::E(e.0, e.1)).collect() }
    fn in_edges(&self, b: usize) -> BTreeSet<Loc> { self.edges.iter().filter(|e| e.1 == b).map(|e| Loc::E(e.0, e.1)).collect() }
    fn succ(&self, l: &Loc) -> BTreeSet<Loc> {
        match l {
            Loc::I(b, i) => { let p = self.blocks[*b].iter().position(|x| x == i).unwrap();
                if p + 1 < self.blocks[*b].len() { [Loc::I(*b, self.blocks[*b][p + 1])].into_iter().collect() } else { self.out_edges(*b) } }
            Loc::E(_, t) => [self.start(*t)].into_iter().collect(),
            Loc::B(b) => self.out_edges(*b),
        }
    }
    fn pred(&self, l: &Loc) -> BTreeSet<Loc> {
        match l {
            Loc::I(b, i) => { let p = self.blocks[*b].iter().position(|x| x == i).unwrap();
                if p > 0 { [Loc::I(*b, self.blocks[*b][p - 1])].into_iter().collect() } else { self.in_edges(*b) } }
            Loc::E(h, _) => [self.end(*h)].into_iter().collect(),
            Loc::B(b) => self.in_edges(*b),
        }
    }
    fn all(&self) -> BTreeSet<Loc> {
        let mut s = BTreeSet::new();
        for (b, is) in self.blocks.iter().enumerate() { if is.is_empty() { s.insert(Loc::B(b)); } for i in is { s.insert(Loc::I(b, *i)); } }
        for e in &self.edges { s.insert(Loc::E(e.0, e.1)); }
        s
    }
}

fn deep() -> bool { std::env::var("VERIF_TIER").map(|t| t == "thorough").unwrap_or(false) } // thorough tier: wider bounds
fn main() {
    std::panic::set_hook(Box::new(|_| {}));
    let mut found = 0usize;
    let mut evals = 0u64;
    let mut per_op: std::collections::BTreeMap<String, usize> = Default::default();
    macro_rules! report {
        ($op:expr, $m:expr, $what:expr, $got:expr, $exp:expr) => {{
            let c = per_op.entry($op.to_string()).or_insert(0);
            *c += 1;
            if *c <= 3 {
                println!("{{\"witness\":true,\"op\":\"{}\",\"blocks\":\"{:?}\",\"edges\":\"{:?}\",\"query\":\"{}\",\"got\":\"{}\",\"expected\":\"{}\"}}",
                    $op, $m.blocks, $m.edges, $what, format!("{:?}", $got).replace('"', "'"), format!("{:?}", $exp).replace('"', "'"));
            }
            found += 1;
        }};
    }
    // shapes of one block: number of instructions, and whether the middle one of three is removed afterwards
    // (instructions, index of the instruction removed afterwards)
    let shapes: [(usize, Option<usize>); 5] = [(0, None), (1, None), (2, None), (3, Some(1)), (3, Some(0))];
    for nb in 1..=3usize {
        let nshape = shapes.len().pow(nb as u32);
        for sc in 0..nshape {
            for bits in 0u32..(1u32 << (nb * nb)) {
                // thin out the 3-block space deterministically (1 in 3)
                if nb == 3 && !deep() && (sc as u32 * 512 + bits) % 5 != 0 { continue; }
                let mut cfg = ControlFlowGraph::new();
                let mut model = Model { blocks: vec![], edges: BTreeSet::new() };
                let mut s = sc;
                let mut addr = 0x1000u64;
                for _b in 0..nb {
                    let (n, rm) = shapes[s % shapes.len()]; s /= shapes.len();
                    let block = cfg.new_block().unwrap();
                    for _ in 0..n { block.nop(); }
                    if let Some(r) = rm { block.remove_instruction(r).unwrap(); }
                    let mut idx = vec![];
                    for ins in block.instructions_mut() { ins.set_address(Some(addr)); addr += if addr % 3 == 0 { 0 } else { 4 }; addr += 1; idx.push(ins.index()); }
                    model.blocks.push(idx);
                }
                for h in 0..nb { for t in 0..nb { if bits & (1 << (h * nb + t)) != 0 { cfg.unconditional_edge(h, t).unwrap(); model.edges.insert((h, t)); } } }
                cfg.set_entry(0).unwrap();
                let function = Function::new(if (sc + bits as usize) % 2 == 0 { 0x1000 } else { 0x2000 }, cfg);
                let mut program = Program::new();
                // a first function holding one instruction whose address also occurs nowhere else
                let mut cfg0 = ControlFlowGraph::new();
                { let b = cfg0.new_block().unwrap(); b.nop(); b.instructions_mut()[0].set_address(Some(0x9000)); }
                cfg0.set_entry(0).unwrap();
                program.add_function(Function::new(0x9000, cfg0));
                program.add_function(function);
                let f = program.function(1).unwrap();
                evals += 1;
                // enumeration
                let locs = f.locations();
                let got: Vec<Loc> = locs.iter().map(loc_of).collect();
                let gset: BTreeSet<Loc> = got.iter().cloned().collect();
                if gset != model.all() || gset.len() != got.len() { report!("locations", model, "Function::locations()", got, model.all()); }
                // stepping
                let mut fwd_rel: BTreeSet<(Loc, Loc)> = BTreeSet::new();
                let mut bwd_rel: BTreeSet<(Loc, Loc)> = BTreeSet::new();
                for l in &locs {
                    let a = loc_of(l);
                    let rpl = RefProgramLocation::new(f, l.clone());
                    evals += 4;
                    match catch_unwind(AssertUnwindSafe(|| rpl.forward())) {
                        Ok(Ok(v)) => { let g: Vec<Loc> = v.iter().map(|x| loc_of(x.function_location())).collect(); let gs: BTreeSet<Loc> = g.iter().cloned().collect();
                            if gs != model.succ(&a) || gs.len() != g.len() { report!("forward", model, format!("forward({:?})", a), g, model.succ(&a)); }
                            for b in gs { fwd_rel.insert((a.clone(), b)); } }
                        other => report!("forward", model, format!("forward({:?})", a), other.is_ok(), "Ok"),
                    }
                    match catch_unwind(AssertUnwindSafe(|| rpl.backward())) {
                        Ok(Ok(v)) => { let g: Vec<Loc> = v.iter().map(|x| loc_of(x.function_location())).collect(); let gs: BTreeSet<Loc> = g.iter().cloned().collect();
                            if gs != model.pred(&a) || gs.len() != g.len() { report!("backward", model, format!("backward({:?})", a), g, model.pred(&a)); }
                            for b in gs { bwd_rel.insert((b, a.clone())); } }
                        other => report!("backward", model, format!("backward({:?})", a), other.is_ok(), "Ok"),
                    }
                    // owned form round trip on the same and on a cloned program
                    let owned: ProgramLocation = rpl.clone().into();
                    match owned.apply(&program) { Ok(back) if back == rpl => {}, other => report!("roundtrip", model, format!("ProgramLocation::from({:?}).apply(&program)", a), other.map(|x| loc_of(x.function_location())).map_err(|e| e.to_string()), &a) }
                    let p2 = program.clone();
                    match owned.apply(&p2) { Ok(back) if loc_of(back.function_location()) == a && back.function().index() == Some(1) => {}, other => report!("roundtrip", model, format!("ProgramLocation::from({:?}).apply(&clone)", a), other.map(|x| loc_of(x.function_location())).map_err(|e| e.to_string()), &a) }
                    let fl: FunctionLocation = l.clone().into();
                    match fl.apply(f) { Ok(back) if back == *l => {}, other => report!("roundtrip", model, format!("FunctionLocation::from({:?}).apply(f)", a), other.map(|x| loc_of(&x)).map_err(|e| e.to_string()), &a) }
                    // address lookup
                    if let RefFunctionLocation::Instruction(_, ins) = l {
                        let ad = ins.address().unwrap();
                        match RefProgramLocation::from_address(&program, ad) {
                            Some(x) if x.address() == Some(ad) => {}
                            other => report!("from_address", model, format!("from_address({:#x})", ad), other.map(|x| x.address()), Some(ad)),
                        }
                    }
                }
                if fwd_rel != bwd_rel { let d: Vec<_> = fwd_rel.symmetric_difference(&bwd_rel).cloned().collect(); report!("converse", model, "forward/backward converse", d, "equal relations"); }
                if RefProgramLocation::from_address(&program, 0x7777).is_some() { report!("from_address", model, "from_address(0x7777)", "Some", "None"); }
                match RefProgramLocation::from_address(&program, 0x9000) { Some(x) if x.function().index() == Some(0) => {}, other => report!("from_address", model, "from_address(0x9000)", other.map(|x| x.address()), "the instruction of function 0") }
                // forward closure from the entry == locations of blocks / edges on paths from block 0
                let entry = model.start(0);
                let mut reach: BTreeSet<Loc> = [entry.clone()].into_iter().collect();
                let mut work = vec![entry];
                while let Some(l) = work.pop() { for n in model.succ(&l) { if reach.insert(n.clone()) { work.push(n); } } }
                let mut got_reach: BTreeSet<Loc> = BTreeSet::new();
                if let Some(Ok(e)) = RefProgramLocation::from_function(f) {
                    let mut work = vec![e.clone()];
                    got_reach.insert(loc_of(e.function_location()));
                    let mut guard = 0;
                    while let Some(l) = work.pop() { guard += 1; if guard > 10000 { break; }
                        if let Ok(v) = l.forward() { for n in v { if got_reach.insert(loc_of(n.function_location())) { work.push(n); } } } }
                }
                if got_reach != reach { report!("closure", model, "forward closure of from_function(f)", got_reach, reach); }
            }
        }
    }
    let po: Vec<String> = per_op.iter().map(|(k, v)| format!("\"{}\":{}", k, v)).collect();
    println!("{{\"summary\":true,\"evaluations\":{},\"disagreements\":{},\"per_op\":{{{}}}}}", evals, found, po.join(","));
}
