//! C09 probe: concrete inputs for the findings made while verifying lib/analysis/fixed_point.rs, run against the real crate.
//!  (1) the backward solver has no step budget: an analysis with an infinite ascending chain on a loop makes
//!      fixed_point_backward spin forever, while fixed_point_forward_options answers Err(FixedPointMaxSteps);
//!  (2) a failing `join` inside the predecessor fold panics (unwrap) instead of being propagated;
//!  (3) sanity: on a loop the forward / backward solvers return a state for every location and the equations hold
//!      for a finite-height monotone analysis (capped distance).
use falcon::analysis::fixed_point::*;
use falcon::il;
use falcon::Error;
use std::sync::mpsc;
use std::time::Duration;

/// infinite ascending chain: state = number of transfer steps, join = max
struct Counting;
impl<'f> FixedPointAnalysis<'f, usize> for Counting {
    fn trans(&self, _l: il::RefProgramLocation<'f>, s: Option<usize>) -> Result<usize, Error> { Ok(s.unwrap_or(0) + 1) }
    fn join(&self, a: usize, b: &usize) -> Result<usize, Error> { Ok(std::cmp::max(a, *b)) }
}

/// finite height: distance from the start capped at 2
struct Capped;
impl<'f> FixedPointAnalysis<'f, u8> for Capped {
    fn trans(&self, _l: il::RefProgramLocation<'f>, s: Option<u8>) -> Result<u8, Error> {
        Ok(match s { None => 1, Some(v) => if v >= 2 { 2 } else { v + 1 } })
    }
    fn join(&self, a: u8, b: &u8) -> Result<u8, Error> { Ok(std::cmp::max(a, *b)) }
}

/// a join that refuses to join
struct FailingJoin;
impl<'f> FixedPointAnalysis<'f, u8> for FailingJoin {
    fn trans(&self, _l: il::RefProgramLocation<'f>, _s: Option<u8>) -> Result<u8, Error> { Ok(1) }
    fn join(&self, _a: u8, _b: &u8) -> Result<u8, Error> { Err(Error::Custom("join failed".to_string())) }
}

/// block 0 (entry, nop) -> block 1 (nop) -> block 2 (exit, nop), and the back edge 1 -> 1 (a self-loop)
fn loop_function() -> il::Function {
    let mut cfg = il::ControlFlowGraph::new();
    let b0 = { let b = cfg.new_block().unwrap(); b.nop(); b.index() };
    let b1 = { let b = cfg.new_block().unwrap(); b.nop(); b.index() };
    let b2 = { let b = cfg.new_block().unwrap(); b.nop(); b.index() };
    cfg.unconditional_edge(b0, b1).unwrap();
    cfg.unconditional_edge(b1, b1).unwrap();
    cfg.unconditional_edge(b1, b2).unwrap();
    cfg.set_entry(b0).unwrap();
    cfg.set_exit(b2).unwrap();
    il::Function::new(0, cfg)
}

/// diamond 0 -> {1, 2} -> 3: block 3 has two predecessors, so the fold calls join
fn diamond_function() -> il::Function {
    let mut cfg = il::ControlFlowGraph::new();
    let ids: Vec<usize> = (0..4).map(|_| { let b = cfg.new_block().unwrap(); b.nop(); b.index() }).collect();
    cfg.unconditional_edge(ids[0], ids[1]).unwrap();
    cfg.unconditional_edge(ids[0], ids[2]).unwrap();
    cfg.unconditional_edge(ids[1], ids[3]).unwrap();
    cfg.unconditional_edge(ids[2], ids[3]).unwrap();
    cfg.set_entry(ids[0]).unwrap();
    cfg.set_exit(ids[3]).unwrap();
    il::Function::new(0, cfg)
}

fn main() {
    std::panic::set_hook(Box::new(|info| println!("  panic: {}", info)));

    println!("(1) infinite ascending chain (counting analysis) on a function with a self-loop block");
    let f = loop_function();
    match fixed_point_forward_options(Counting, &f, false, 1000) {
        Ok(m) => println!("  forward, budget 1000: Ok with {} states   <-- unexpected", m.len()),
        Err(e) => println!("  forward, budget 1000: Err({})", e),
    }
    let (tx, rx) = mpsc::channel();
    std::thread::spawn(move || {
        let f = loop_function();
        let r = fixed_point_backward(Counting, &f).map(|m| m.len()).map_err(|e| format!("{}", e));
        let _ = tx.send(r);
    });
    match rx.recv_timeout(Duration::from_secs(5)) {
        Ok(r) => println!("  backward: returned {:?}", r),
        Err(_) => println!("  backward: STILL RUNNING after 5 s   <-- no step budget: the property demands an error when the budget is exhausted"),
    }

    println!("(2) an analysis whose join returns Err, on a diamond (block 3 has two predecessors)");
    let d = diamond_function();
    let r = std::panic::catch_unwind(|| fixed_point_forward(FailingJoin, &d).map(|m| m.len()).map_err(|e| format!("{}", e)));
    match r {
        Ok(x) => println!("  forward: returned {:?}", x),
        Err(_) => println!("  forward: PANICKED   <-- the error of join is unwrapped inside the predecessor fold instead of being returned"),
    }
    let r = std::panic::catch_unwind(|| fixed_point_backward(FailingJoin, &d).map(|m| m.len()).map_err(|e| format!("{}", e)));
    match r {
        Ok(x) => println!("  backward: returned {:?}", x),
        Err(_) => println!("  backward: PANICKED   <-- same unwrap in the successor fold"),
    }

    println!("(3) sanity, capped-distance analysis on the loop function (9 locations: 3 instructions, 3 edges ... )");
    let f = loop_function();
    let nlocs = f.locations().len();
    match fixed_point_forward(Capped, &f) {
        Ok(m) => {
            let mut bad = 0;
            for l in f.locations() {
                let rpl = il::RefProgramLocation::new(&f, l);
                let key: il::ProgramLocation = rpl.clone().into();
                let preds = rpl.backward().unwrap();
                let j = preds.into_iter().filter_map(|p| m.get(&p.into()).cloned()).max();
                let expect = Capped.trans(rpl.clone(), j).unwrap();
                if m.get(&key) != Some(&expect) { bad += 1; }
            }
            println!("  forward: {} states for {} locations, {} equation violations", m.len(), nlocs, bad);
        }
        Err(e) => println!("  forward: Err({})", e),
    }
    match fixed_point_backward(Capped, &f) {
        Ok(m) => {
            let mut bad = 0;
            for l in f.locations() {
                let rpl = il::RefProgramLocation::new(&f, l);
                let succs = rpl.forward().unwrap();
                let j = succs.iter().filter_map(|p| m.get(p).cloned()).max();
                let expect = Capped.trans(rpl.clone(), j).unwrap();
                if m.get(&rpl) != Some(&expect) { bad += 1; }
            }
            println!("  backward: {} states for {} locations, {} equation violations", m.len(), nlocs, bad);
        }
        Err(e) => println!("  backward: Err({})", e),
    }
    std::process::exit(0);
}
