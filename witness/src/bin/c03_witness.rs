//! Bounded differential witness for unit C03 (AArch64 lifter), labelled BOUNDED, never counted as proved.
//!
//! PROPERTY: "AArch64 lifter agrees with the Arm architecture pseudocode": for every A64 instruction the lifter accepts
//! (integer add/sub with and without flags, moves, B/H/W/X loads and stores including pairs, sign-extending loads,
//! pre/post-index write-back, direct / indirect / conditional / compare-and-branch / test-bit branches) and every state,
//! running the lifted IL yields the X0-X30 / SP values, NZCV flags, memory contents and next program counter of the
//! Arm ARM pseudocode; XZR reads as zero and discards writes; 32-bit destinations clear the upper half.
//!
//! WHAT IT DOES
//!  * a tiny A64 assembler (enum `I` + `enc`) produces u32 encodings from the Arm ARM bit layouts,
//!  * the encodings are lifted through the PUBLIC API: `falcon::translator::aarch64::{AArch64, AArch64Eb}` ->
//!    `Translator::translate_function(&backing, A)`; the lifted IL is run by `falcon::executor::Driver`,
//!  * an INDEPENDENT model of the Arm pseudocode (`exec`, AddWithCarry / ShiftReg / ExtendReg / DecodeBitMasks /
//!    ConditionHolds written here from the Arm ARM; nothing of falcon's translator is called) gives the expected state,
//!  * ALL of X0..X30, SP, N Z C V, every byte of the touched memory window (+/- 32 bytes) and the next pc are compared.
//!
//! HARNESS (found by experiment, see lib/executor/driver.rs):
//!  * memory image per encoding: code segment [B, B+0x70) = NOPs (0xd503201f) with the tested instruction(s) at
//!    A = B+0x40 (READ|EXECUTE); a literal pool [B+0x80, B+0xc0) and, when B != 0, a second pool [B-0x40, B) (READ|EXECUTE
//!    so that nothing depends on permissions, never reached by fall-through: the code segment simply ends at B+0x70 and the
//!    function lifter produces an empty block there); a data segment [0x20000, 0x2a000) (READ|WRITE) filled with a hashed byte
//!    pattern. B is 0 and 0x10000.
//!  * the function is lifted at A; the executor state owns a `Memory::new_with_backing(endian, backing)` so that the
//!    Driver can follow `Branch` (BL / BR / BLR / RET) to ANY code address: when the target is not an instruction of the
//!    already lifted program the Driver lifts a new function at the target from the state memory (all NOPs) itself.
//!  * the Driver is stepped until it sits on an IL instruction whose address is outside [A, A+4*len): that address is
//!    the "next pc" (targets and fall-through always hold a NOP). Branch-to-self is never generated.
//!  * ENDIANNESS: variant "le" = translator AArch64 + architecture::AArch64 (endian() == Little) + executor memory
//!    Endian::Little + little-endian data accesses in the model. Variant "be" = AArch64Eb + architecture::AArch64Eb
//!    (endian() == Big) + executor memory Endian::Big + big-endian data accesses in the model (Arm BE: data big-endian,
//!    instruction fetch ALWAYS little-endian, which is what mod.rs does with from_le_bytes). The crate's own tests pair
//!    the LE translator with Endian::Big memory; that is not an architectural configuration and is not used here.
//!  * a PANIC while lifting or executing is a disagreement ("kind":"panic"); an `Err` from translate_function is a
//!    REJECTED encoding (not a disagreement; counted per op); an `Err` from the Driver is "kind":"exec_error".
//!  * the bad64 decoder is not a dependency of this crate, the "asm" text is produced by the assembler here.
//!  * states: 4 register files x NZCV {0000,1111,0110,1001}; arithmetic additionally drives the operands through
//!    boundary pairs; memory operations point the base (also SP) into the data segment (aligned and unaligned) and choose
//!    the base so that base+offset lands in the data segment even for 0xfffffff8-style index registers (wrap-around), so a
//!    wrong extension ends in unmapped memory; B.cond is run under all 16 NZCV values.
//!  * thinning: every encoding is lifted and run in both variants at both bases; only the non-memory, non-pc-relative
//!    classes of the "be" variant run every 3rd state instead of all of them.
//!  * NOT generated (architecturally UNPREDICTABLE / UNDEFINED): write-back with Rn == Rt (Rn != 31), LDP with Rt == Rt2,
//!    shift type 0b11 for add/sub, imm6 >= 32 with sf = 0, hw >= 2 with sf = 0, extended-register imm3 > 4, branch to self.
//! KNOWN DEFECT TAGGING: a disagreement is additionally re-checked against a DELIBERATELY DEFECTIVE reference model of the one
//! listed known defect C03-D1 (SUBS sets C := borrow; everything else, including B.cond and later instructions reading that
//! C, per the Arm pseudocode). It carries the extra field `"known_defect":"C03-D1"` if and only if EVERY compared location
//! (X0..X30, SP, NZCV, memory window, next pc) equals what that defective model yields and differs from the correct model.
//! Tagged lines have their own cap (3 per op and defect), are NOT counted in `disagreements` / `per_op` and are totalled in the
//! summary field `tagged_known_defect`; tools/verdict.py turns them into ONE KNOWN-FINDING line while the defect is listed in
//! /verif/known_findings.json and treats an unlisted tag as a violation. Untagged disagreements stay violations.
//! Output: one JSON line per printed disagreement (<= 3 per op, all counted; C03_WITNESS_PRINT=n overrides, C03_WITNESS_OP=substr
//! restricts the ops), then one summary line. Exit code 0 always.
use falcon::architecture;
use falcon::architecture::Endian;
use falcon::executor::{Driver, Memory, State};
use falcon::il;
use falcon::memory;
use falcon::translator::aarch64::{AArch64 as TLe, AArch64Eb as TBe};
use falcon::translator::Translator;
use falcon::RC;
use std::collections::BTreeMap;
use std::panic::{catch_unwind, AssertUnwindSafe};
use std::rc::Rc;

const NOP: u32 = 0xd503_201f;
const DATA: u64 = 0x20000;
const DATA_LEN: usize = 0xa000;
const CODE_LEN: u64 = 0x70;
const A_OFF: u64 = 0x40;

/// the functions of lib/translator/aarch64/{semantics,register}.rs an op class goes through (unit C03 matches failed
/// obligations with witness lines through this list)
fn related(op: &str) -> String {
    let reg = ["get", "set", "get_register", "get_full", "operand_load", "operand_store", "operand_storing_width"];
    let sh = ["shift", "maybe_shift", "lsl", "lsr", "asr", "ror", "imm_to_u64"];
    let mem = ["mem_operand_address", "apply"];
    let mut v: Vec<&str> = Vec::new();
    let head: Vec<&str> = op.split('_').collect();
    let first = if op.starts_with("seq_") { head.get(1).copied().unwrap_or("") } else { head.first().copied().unwrap_or("") };
    let name: &str = match first {
        "adds" | "cmn" => "adds", "subs" | "cmp" | "negs" => "subs", "add" => "add", "sub" | "neg" => "sub",
        "mov" | "movz" | "movn" | "movk" | "orr" => "mov",
        "ldr" | "ldur" | "ldar" | "ldlar" => "ldr", "ldrb" | "ldurb" | "ldarb" | "ldlarb" => "ldrb", "ldrh" | "ldurh" | "ldarh" | "ldlarh" => "ldrh",
        "ldrsb" | "ldursb" => "ldrsb", "ldrsh" | "ldursh" => "ldrsh", "ldrsw" | "ldursw" => "ldrsw",
        "str" | "stur" | "stlr" | "stllr" | "stlur" => "str", "strb" | "sturb" | "stlrb" | "stllrb" | "stlurb" => "strb", "strh" | "sturh" | "stlrh" | "stllrh" | "stlurh" => "strh",
        "ldp" | "ldnp" => "ldp", "ldpsw" => "ldpsw", "stp" | "stnp" => "stp",
        "b" => if head.len() > 1 && !op.starts_with("seq_") { "b_cc" } else { "b" },
        "bl" | "blr" => "bl", "br" => "br", "ret" => "ret",
        "cbz" | "cbnz" | "tbz" | "tbnz" => "cbz_cbnz_tbz_tbnz",
        "prfm" => "nop",
        "zr" => "set",
        _ => "",
    };
    if !name.is_empty() { v.push(name); }
    if op.starts_with("seq_subs") { v.push("subs"); v.push("b_cc"); }
    if op.starts_with("seq_zr") { v.extend(["get", "set", "adds", "add", "subs", "ldr", "ldp", "mov", "str"]); }
    match first { "cbz" => v.push("cbz"), "cbnz" => v.push("cbnz"), "tbz" => v.push("tbz"), "tbnz" => v.push("tbnz"), _ => {} }
    v.extend(reg);
    if ["adds", "subs", "add", "sub", "mov"].contains(&name) || name.starts_with("ld") || name.starts_with("st") { v.extend(sh); }
    if name.starts_with("ld") || name.starts_with("st") { v.extend(mem); v.push("temp0"); v.push("temp1"); }
    v.sort(); v.dedup();
    format!("[{}]", v.iter().map(|s| format!("\"{}\"", s)).collect::<Vec<_>>().join(","))
}

/// KNOWN DEFECT C03-D1 (listed in /verif/known_findings.json): SUBS sets the IL scalar c to the BORROW (C = 1 iff a < b
/// unsigned) instead of the Arm ARM's NOT borrow; the crate's own test aarch64::test::subs_xn pins that value, so the lifter is
/// not repaired. While this switch is on, `exec` is the DELIBERATELY DEFECTIVE reference model: SUBS writes C := borrow,
/// everything else - including B.cond and every later instruction that reads that C - follows the Arm pseudocode.
static D1_MODEL: std::sync::atomic::AtomicBool = std::sync::atomic::AtomicBool::new(false);
fn d1() -> bool { D1_MODEL.load(std::sync::atomic::Ordering::Relaxed) }

fn mask(n: u32) -> u64 { if n >= 64 { u64::MAX } else { (1u64 << n) - 1 } }
fn sint(v: u64, n: u32) -> i128 { let v = v & mask(n); if (v >> (n - 1)) & 1 == 1 { v as i128 - (1i128 << n) } else { v as i128 } }
fn sext(v: u64, from: u32) -> u64 { sint(v, from) as i64 as u64 }

// ------------------------------------------------------------------ instruction descriptions (assembler input)
#[derive(Clone, Copy, Debug, PartialEq)]
enum I {
    AddSubImm { sf: bool, sub: bool, s: bool, sh: bool, imm12: u32, rn: u8, rd: u8 },
    AddSubSh { sf: bool, sub: bool, s: bool, sh: u8, rm: u8, imm6: u8, rn: u8, rd: u8 },
    AddSubExt { sf: bool, sub: bool, s: bool, rm: u8, opt: u8, imm3: u8, rn: u8, rd: u8 },
    MovW { sf: bool, opc: u8, hw: u8, imm16: u32, rd: u8 },
    OrrImm { sf: bool, n: u8, immr: u8, imms: u8, rn: u8, rd: u8 },
    OrrSh { sf: bool, sh: u8, rm: u8, imm6: u8, rn: u8, rd: u8 },
    LsUimm { size: u8, opc: u8, imm12: u32, rn: u8, rt: u8 },
    /// mode: 0 unscaled (LDUR/STUR), 1 post-index, 3 pre-index
    LsImm9 { size: u8, opc: u8, imm9: u32, mode: u8, rn: u8, rt: u8 },
    LsReg { size: u8, opc: u8, rm: u8, opt: u8, s: bool, rn: u8, rt: u8 },
    /// opc: 0 LDR Wt, 1 LDR Xt, 2 LDRSW
    LdrLit { opc: u8, imm19: u32, rt: u8 },
    /// opc: 0 32-bit, 1 LDPSW, 2 64-bit; mode: 0 no-allocate (LDNP/STNP), 1 post, 2 signed offset, 3 pre
    LsPair { opc: u8, mode: u8, l: bool, imm7: u32, rt2: u8, rn: u8, rt: u8 },
    /// LDAR/STLR (o0) and LDLAR/STLLR (!o0)
    LsOrd { size: u8, l: bool, o0: bool, rn: u8, rt: u8 },
    Stlur { size: u8, imm9: u32, rn: u8, rt: u8 },
    Prfm { imm12: u32, rn: u8, prfop: u8 },
    B { link: bool, imm26: u32 },
    /// opc: 0 BR, 1 BLR, 2 RET
    BReg { opc: u8, rn: u8 },
    BCond { cond: u8, imm19: u32 },
    Cbz { sf: bool, nz: bool, imm19: u32, rt: u8 },
    Tbz { bit: u8, nz: bool, imm14: u32, rt: u8 },
}

fn r5(r: u8) -> u32 { (r & 31) as u32 }

/// Arm ARM encodings (C4 "A64 instruction set encoding")
fn enc(i: &I) -> u32 {
    match *i {
        // sf op S 100010 sh imm12 Rn Rd
        I::AddSubImm { sf, sub, s, sh, imm12, rn, rd } =>
            ((sf as u32) << 31) | ((sub as u32) << 30) | ((s as u32) << 29) | 0x1100_0000 | ((sh as u32) << 22) | ((imm12 & 0xfff) << 10) | (r5(rn) << 5) | r5(rd),
        // sf op S 01011 shift 0 Rm imm6 Rn Rd
        I::AddSubSh { sf, sub, s, sh, rm, imm6, rn, rd } =>
            ((sf as u32) << 31) | ((sub as u32) << 30) | ((s as u32) << 29) | 0x0b00_0000 | (((sh & 3) as u32) << 22) | (r5(rm) << 16) | (((imm6 & 63) as u32) << 10) | (r5(rn) << 5) | r5(rd),
        // sf op S 01011 00 1 Rm option imm3 Rn Rd
        I::AddSubExt { sf, sub, s, rm, opt, imm3, rn, rd } =>
            ((sf as u32) << 31) | ((sub as u32) << 30) | ((s as u32) << 29) | 0x0b20_0000 | (r5(rm) << 16) | (((opt & 7) as u32) << 13) | (((imm3 & 7) as u32) << 10) | (r5(rn) << 5) | r5(rd),
        // sf opc 100101 hw imm16 Rd
        I::MovW { sf, opc, hw, imm16, rd } =>
            ((sf as u32) << 31) | (((opc & 3) as u32) << 29) | 0x1280_0000 | (((hw & 3) as u32) << 21) | ((imm16 & 0xffff) << 5) | r5(rd),
        // sf 01 100100 N immr imms Rn Rd
        I::OrrImm { sf, n, immr, imms, rn, rd } =>
            ((sf as u32) << 31) | 0x3200_0000 | (((n & 1) as u32) << 22) | (((immr & 63) as u32) << 16) | (((imms & 63) as u32) << 10) | (r5(rn) << 5) | r5(rd),
        // sf 01 01010 shift 0 Rm imm6 Rn Rd
        I::OrrSh { sf, sh, rm, imm6, rn, rd } =>
            ((sf as u32) << 31) | 0x2a00_0000 | (((sh & 3) as u32) << 22) | (r5(rm) << 16) | (((imm6 & 63) as u32) << 10) | (r5(rn) << 5) | r5(rd),
        // size 111 0 01 opc imm12 Rn Rt
        I::LsUimm { size, opc, imm12, rn, rt } =>
            (((size & 3) as u32) << 30) | 0x3900_0000 | (((opc & 3) as u32) << 22) | ((imm12 & 0xfff) << 10) | (r5(rn) << 5) | r5(rt),
        // size 111 0 00 opc 0 imm9 mode Rn Rt
        I::LsImm9 { size, opc, imm9, mode, rn, rt } =>
            (((size & 3) as u32) << 30) | 0x3800_0000 | (((opc & 3) as u32) << 22) | ((imm9 & 0x1ff) << 12) | (((mode & 3) as u32) << 10) | (r5(rn) << 5) | r5(rt),
        // size 111 0 00 opc 1 Rm option S 10 Rn Rt
        I::LsReg { size, opc, rm, opt, s, rn, rt } =>
            (((size & 3) as u32) << 30) | 0x3820_0800 | (((opc & 3) as u32) << 22) | (r5(rm) << 16) | (((opt & 7) as u32) << 13) | ((s as u32) << 12) | (r5(rn) << 5) | r5(rt),
        // opc 011 0 00 imm19 Rt
        I::LdrLit { opc, imm19, rt } => (((opc & 3) as u32) << 30) | 0x1800_0000 | ((imm19 & 0x7ffff) << 5) | r5(rt),
        // opc 101 0 mode(3) L imm7 Rt2 Rn Rt
        I::LsPair { opc, mode, l, imm7, rt2, rn, rt } =>
            (((opc & 3) as u32) << 30) | 0x2800_0000 | (((mode & 3) as u32) << 23) | ((l as u32) << 22) | ((imm7 & 0x7f) << 15) | (r5(rt2) << 10) | (r5(rn) << 5) | r5(rt),
        // size 001000 1 L 0 11111 o0 11111 Rn Rt
        I::LsOrd { size, l, o0, rn, rt } =>
            (((size & 3) as u32) << 30) | 0x0880_0000 | ((l as u32) << 22) | (31 << 16) | ((o0 as u32) << 15) | (31 << 10) | (r5(rn) << 5) | r5(rt),
        // size 011001 00 0 imm9 00 Rn Rt
        I::Stlur { size, imm9, rn, rt } => (((size & 3) as u32) << 30) | 0x1900_0000 | ((imm9 & 0x1ff) << 12) | (r5(rn) << 5) | r5(rt),
        // 11 111 0 01 10 imm12 Rn Rt(prfop)
        I::Prfm { imm12, rn, prfop } => 0xf980_0000 | ((imm12 & 0xfff) << 10) | (r5(rn) << 5) | r5(prfop),
        // op 00101 imm26
        I::B { link, imm26 } => ((link as u32) << 31) | 0x1400_0000 | (imm26 & 0x03ff_ffff),
        // 1101011 0 0 opc(2) 11111 000000 Rn 00000
        I::BReg { opc, rn } => 0xd61f_0000 | (((opc & 3) as u32) << 21) | (r5(rn) << 5),
        // 0101010 0 imm19 0 cond
        I::BCond { cond, imm19 } => 0x5400_0000 | ((imm19 & 0x7ffff) << 5) | ((cond & 15) as u32),
        // sf 011010 op imm19 Rt
        I::Cbz { sf, nz, imm19, rt } => ((sf as u32) << 31) | 0x3400_0000 | ((nz as u32) << 24) | ((imm19 & 0x7ffff) << 5) | r5(rt),
        // b5 011011 op b40 imm14 Rt
        I::Tbz { bit, nz, imm14, rt } =>
            ((((bit >> 5) & 1) as u32) << 31) | 0x3600_0000 | ((nz as u32) << 24) | (((bit & 31) as u32) << 19) | ((imm14 & 0x3fff) << 5) | r5(rt),
    }
}

// ------------------------------------------------------------------ asm text and op names
fn rn_(r: u8, sf: bool, sp: bool) -> String {
    if r == 31 { (match (sf, sp) { (true, true) => "sp", (false, true) => "wsp", (true, false) => "xzr", (false, false) => "wzr" }).to_string() }
    else { format!("{}{}", if sf { "x" } else { "w" }, r) }
}
const EXT: [&str; 8] = ["uxtb", "uxth", "uxtw", "uxtx", "sxtb", "sxth", "sxtw", "sxtx"];
const SHIFT: [&str; 4] = ["lsl", "lsr", "asr", "ror"];
const COND: [&str; 16] = ["eq", "ne", "cs", "cc", "mi", "pl", "vs", "vc", "hi", "ls", "ge", "lt", "gt", "le", "al", "nv"];
fn w_(sf: bool) -> &'static str { if sf { "64" } else { "32" } }
fn simm(v: u32, bits: u32) -> i64 { sint(v as u64, bits) as i64 }

/// (is_load, signed, regsize) of a load/store register encoding, None = not an integer load/store
fn ls_kind(size: u8, opc: u8) -> Option<(bool, bool, u32)> {
    match opc {
        0 => Some((false, false, if size == 3 { 64 } else { 32 })),
        1 => Some((true, false, if size == 3 { 64 } else { 32 })),
        2 => if size == 3 { None } else { Some((true, true, 64)) },
        _ => if size >= 2 { None } else { Some((true, true, 32)) },
    }
}
fn ls_mnem(size: u8, opc: u8, unscaled: bool) -> String {
    let (load, signed, _) = ls_kind(size, opc).unwrap();
    let base = if unscaled { if load { "ldur" } else { "stur" } } else if load { "ldr" } else { "str" };
    format!("{}{}{}", base, if signed { "s" } else { "" }, match size { 0 => "b", 1 => "h", 2 => if signed { "w" } else { "" }, _ => "" })
}
fn ls_suffix(size: u8, opc: u8) -> String {
    let (_, _, rs) = ls_kind(size, opc).unwrap();
    format!("{}", if rs == 64 { "x" } else { "w" })
}

/// MoveWidePreferred() of the Arm ARM (only used to NAME the ORR-immediate op as the alias bad64 will print)
fn move_wide_preferred(sf: bool, n: u8, imms: u8, immr: u8) -> bool {
    let (s, r, width) = (imms as i32, immr as i32, if sf { 64 } else { 32 });
    if sf && n != 1 { return false; }
    if !sf && !(n == 0 && (imms >> 5) & 1 == 0) { return false; }
    if s < 16 { return (-r).rem_euclid(16) <= 15 - s; }
    if s >= width - 15 { return r % 16 <= s - (width - 15); }
    false
}

fn opname(i: &I) -> String {
    match *i {
        I::AddSubImm { sf, sub, s, sh, imm12, rn, rd } => {
            let m = if s && rd == 31 { if sub { "cmp" } else { "cmn" } }
                else if !sub && !s && !sh && imm12 == 0 && (rd == 31 || rn == 31) { "mov_sp" }
                else { match (sub, s) { (false, false) => "add", (false, true) => "adds", (true, false) => "sub", (true, true) => "subs" } };
            format!("{}_imm{}_{}", m, if sh { "_lsl12" } else { "" }, w_(sf))
        }
        I::AddSubSh { sf, sub, s, rn, rd, .. } => {
            let m = if s && rd == 31 { if sub { "cmp" } else { "cmn" } } else if sub && rn == 31 { if s { "negs" } else { "neg" } }
                else { match (sub, s) { (false, false) => "add", (false, true) => "adds", (true, false) => "sub", (true, true) => "subs" } };
            format!("{}_shifted_{}", m, w_(sf))
        }
        I::AddSubExt { sf, sub, s, rd, .. } => {
            let m = if s && rd == 31 { if sub { "cmp" } else { "cmn" } }
                else { match (sub, s) { (false, false) => "add", (false, true) => "adds", (true, false) => "sub", (true, true) => "subs" } };
            format!("{}_ext_{}", m, w_(sf))
        }
        I::MovW { sf, opc, hw, imm16, .. } => {
            let alias = match opc { 2 => !(imm16 == 0 && hw != 0), 0 => !(imm16 == 0 && hw != 0) && (sf || imm16 != 0xffff), _ => false };
            format!("{}{}_{}", if alias { "mov_" } else { "" }, match opc { 0 => "movn", 2 => "movz", _ => "movk" }, w_(sf))
        }
        I::OrrImm { sf, n, immr, imms, rn, .. } => format!("{}_{}", if rn == 31 && !move_wide_preferred(sf, n, imms, immr) { "mov_bitmask" } else { "orr_imm" }, w_(sf)),
        I::OrrSh { sf, sh, imm6, rn, .. } => format!("{}_{}", if rn == 31 && sh == 0 && imm6 == 0 { "mov_reg" } else { "orr_shifted" }, w_(sf)),
        I::LsUimm { size, opc, .. } => format!("{}_uimm_{}", ls_mnem(size, opc, false), ls_suffix(size, opc)),
        I::LsImm9 { size, opc, mode, .. } => format!("{}_{}_{}", ls_mnem(size, opc, mode == 0), match mode { 0 => "unscaled", 1 => "post", _ => "pre" }, ls_suffix(size, opc)),
        I::LsReg { size, opc, .. } => format!("{}_reg_{}", ls_mnem(size, opc, false), ls_suffix(size, opc)),
        I::LdrLit { opc, .. } => (match opc { 0 => "ldr_lit_w", 1 => "ldr_lit_x", _ => "ldrsw_lit" }).to_string(),
        I::LsPair { opc, mode, l, .. } => format!("{}_{}{}", match (opc, l, mode) { (1, _, _) => "ldpsw", (_, true, 0) => "ldnp", (_, false, 0) => "stnp", (_, true, _) => "ldp", _ => "stp" },
            match mode { 0 | 2 => "off", 1 => "post", _ => "pre" }, match opc { 0 => "_32", 2 => "_64", _ => "" }),
        I::LsOrd { size, l, o0, .. } => format!("{}{}", match (l, o0) { (true, true) => "ldar", (false, true) => "stlr", (true, false) => "ldlar", _ => "stllr" }, ["b", "h", "_w", "_x"][size as usize]),
        I::Stlur { size, .. } => format!("stlur{}", ["b", "h", "_w", "_x"][size as usize]),
        I::Prfm { .. } => "prfm".to_string(),
        I::B { link, .. } => (if link { "bl" } else { "b" }).to_string(),
        I::BReg { opc, .. } => (match opc { 0 => "br", 1 => "blr", _ => "ret" }).to_string(),
        I::BCond { cond, .. } => format!("b_{}", COND[cond as usize]),
        I::Cbz { sf, nz, .. } => format!("{}_{}", if nz { "cbnz" } else { "cbz" }, w_(sf)),
        I::Tbz { nz, .. } => (if nz { "tbnz" } else { "tbz" }).to_string(),
    }
}

fn asm(i: &I, pc: u64) -> String {
    match *i {
        I::AddSubImm { sf, sub, s, sh, imm12, rn, rd } => format!("{}{} {}, {}, #0x{:x}{}", if sub { "sub" } else { "add" }, if s { "s" } else { "" },
            rn_(rd, sf, !s), rn_(rn, sf, true), imm12, if sh { ", lsl #12" } else { "" }),
        I::AddSubSh { sf, sub, s, sh, rm, imm6, rn, rd } => format!("{}{} {}, {}, {}, {} #{}", if sub { "sub" } else { "add" }, if s { "s" } else { "" },
            rn_(rd, sf, false), rn_(rn, sf, false), rn_(rm, sf, false), SHIFT[sh as usize], imm6),
        I::AddSubExt { sf, sub, s, rm, opt, imm3, rn, rd } => format!("{}{} {}, {}, {}, {} #{}", if sub { "sub" } else { "add" }, if s { "s" } else { "" },
            rn_(rd, sf, !s), rn_(rn, sf, true), rn_(rm, sf && (opt & 3) == 3, false), EXT[opt as usize], imm3),
        I::MovW { sf, opc, hw, imm16, rd } => format!("{} {}, #0x{:x}, lsl #{}", match opc { 0 => "movn", 2 => "movz", _ => "movk" }, rn_(rd, sf, false), imm16, 16 * hw),
        I::OrrImm { sf, n, immr, imms, rn, rd } => format!("orr {}, {}, #0x{:x}", rn_(rd, sf, true), rn_(rn, sf, false), decode_bit_masks(n, imms, immr, if sf { 64 } else { 32 }).unwrap_or(0)),
        I::OrrSh { sf, sh, rm, imm6, rn, rd } => format!("orr {}, {}, {}, {} #{}", rn_(rd, sf, false), rn_(rn, sf, false), rn_(rm, sf, false), SHIFT[sh as usize], imm6),
        I::LsUimm { size, opc, imm12, rn, rt } => format!("{} {}, [{}, #{}]", ls_mnem(size, opc, false), rn_(rt, ls_kind(size, opc).unwrap().2 == 64, false), rn_(rn, true, true), (imm12 as u64) << size),
        I::LsImm9 { size, opc, imm9, mode, rn, rt } => {
            let (m, t, b, o) = (ls_mnem(size, opc, mode == 0), rn_(rt, ls_kind(size, opc).unwrap().2 == 64, false), rn_(rn, true, true), simm(imm9, 9));
            match mode { 1 => format!("{} {}, [{}], #{}", m, t, b, o), 3 => format!("{} {}, [{}, #{}]!", m, t, b, o), _ => format!("{} {}, [{}, #{}]", m, t, b, o) }
        }
        I::LsReg { size, opc, rm, opt, s, rn, rt } => format!("{} {}, [{}, {}, {}{}]", ls_mnem(size, opc, false), rn_(rt, ls_kind(size, opc).unwrap().2 == 64, false), rn_(rn, true, true),
            rn_(rm, (opt & 1) == 1, false), if opt == 3 { "lsl" } else { EXT[opt as usize] }, if s { format!(" #{}", size) } else { String::new() }),
        I::LdrLit { opc, imm19, rt } => format!("{} {}, 0x{:x}", if opc == 2 { "ldrsw" } else { "ldr" }, rn_(rt, opc != 0, false), pc.wrapping_add((simm(imm19, 19) * 4) as u64)),
        I::LsPair { opc, mode, l, imm7, rt2, rn, rt } => {
            let m = match (opc, l, mode) { (1, _, _) => "ldpsw", (_, true, 0) => "ldnp", (_, false, 0) => "stnp", (_, true, _) => "ldp", _ => "stp" };
            let (x, o) = (opc != 0, simm(imm7, 7) << if opc == 2 { 3 } else { 2 });
            let (a, b_, c) = (rn_(rt, x, false), rn_(rt2, x, false), rn_(rn, true, true));
            match mode { 1 => format!("{} {}, {}, [{}], #{}", m, a, b_, c, o), 3 => format!("{} {}, {}, [{}, #{}]!", m, a, b_, c, o), _ => format!("{} {}, {}, [{}, #{}]", m, a, b_, c, o) }
        }
        I::LsOrd { size, rn, rt, .. } => format!("{} {}, [{}]", opname(i).trim_end_matches("_w").trim_end_matches("_x"), rn_(rt, size == 3, false), rn_(rn, true, true)),
        I::Stlur { size, imm9, rn, rt } => format!("{} {}, [{}, #{}]", opname(i).trim_end_matches("_w").trim_end_matches("_x"), rn_(rt, size == 3, false), rn_(rn, true, true), simm(imm9, 9)),
        I::Prfm { imm12, rn, prfop } => format!("prfm #{}, [{}, #{}]", prfop, rn_(rn, true, true), imm12 * 8),
        I::B { link, imm26 } => format!("{} 0x{:x}", if link { "bl" } else { "b" }, pc.wrapping_add((simm(imm26, 26) * 4) as u64)),
        I::BReg { opc, rn } => format!("{} {}", match opc { 0 => "br", 1 => "blr", _ => "ret" }, rn_(rn, true, false)),
        I::BCond { cond, imm19 } => format!("b.{} 0x{:x}", COND[cond as usize], pc.wrapping_add((simm(imm19, 19) * 4) as u64)),
        I::Cbz { sf, nz, imm19, rt } => format!("{} {}, 0x{:x}", if nz { "cbnz" } else { "cbz" }, rn_(rt, sf, false), pc.wrapping_add((simm(imm19, 19) * 4) as u64)),
        I::Tbz { bit, nz, imm14, rt } => format!("{} {}, #{}, 0x{:x}", if nz { "tbnz" } else { "tbz" }, rn_(rt, bit >= 32, false), bit, pc.wrapping_add((simm(imm14, 14) * 4) as u64)),
    }
}

// ------------------------------------------------------------------ the memory image shared by the model and the executor
struct Image { segs: Vec<(u64, Rc<Vec<u8>>, bool)> } // (start, bytes, writable)
impl Image {
    fn get(&self, a: u64) -> Option<u8> {
        for (s, b, _) in &self.segs { if a >= *s && a - *s < b.len() as u64 { return Some(b[(a - *s) as usize]); } }
        None
    }
    fn writable(&self, a: u64) -> bool { self.segs.iter().any(|(s, b, w)| *w && a >= *s && a - *s < b.len() as u64) }
}
fn pat(a: u64) -> u8 { let x = a.wrapping_mul(0x9e37_79b9_7f4a_7c15) ^ (a >> 3); ((x >> 56) as u8) ^ ((x >> 24) as u8) ^ 0x80 }

// ------------------------------------------------------------------ the independent model of the Arm pseudocode
#[derive(Clone, PartialEq, Debug)]
struct Cpu { x: [u64; 31], sp: u64, n: bool, z: bool, c: bool, v: bool, mem: BTreeMap<u64, u8>, pc: u64 }

#[derive(Clone, Copy)]
struct Touched { lo: u64, hi: u64 } // [lo, hi)

impl Cpu {
    /// X[n] / W[n]: register 31 is the zero register
    fn xr(&self, r: u8, n: u32) -> u64 { if r == 31 { 0 } else { self.x[r as usize] & mask(n) } }
    /// X[n] = v (64-bit) or W[n] = v (zero-extended); register 31 discards
    fn xw(&mut self, r: u8, n: u32, v: u64) { if r != 31 { self.x[r as usize] = v & mask(n); } }
    fn spr(&self, n: u32) -> u64 { self.sp & mask(n) }
    fn spw(&mut self, n: u32, v: u64) { self.sp = v & mask(n); }
    fn read8(&self, img: &Image, a: u64) -> Option<u8> { self.mem.get(&a).cloned().or_else(|| img.get(a)) }
    fn load(&self, img: &Image, be: bool, a: u64, bytes: u32, t: &mut Touched) -> Result<u64, String> {
        let mut v = 0u64;
        for k in 0..bytes as u64 {
            let b = self.read8(img, a.wrapping_add(k)).ok_or_else(|| format!("model: load of unmapped 0x{:x}", a.wrapping_add(k)))? as u64;
            if be { v = (v << 8) | b } else { v |= b << (8 * k) }
        }
        touch(t, a, bytes);
        Ok(v)
    }
    fn store(&mut self, img: &Image, be: bool, a: u64, bytes: u32, v: u64, t: &mut Touched) -> Result<(), String> {
        for k in 0..bytes as u64 {
            let ad = a.wrapping_add(k);
            if !img.writable(ad) { return Err(format!("model: store to unmapped 0x{:x}", ad)); }
            let b = if be { (v >> (8 * (bytes as u64 - 1 - k))) as u8 } else { (v >> (8 * k)) as u8 };
            self.mem.insert(ad, b);
        }
        touch(t, a, bytes);
        Ok(())
    }
}
fn touch(t: &mut Touched, a: u64, bytes: u32) {
    let (lo, hi) = (a, a.wrapping_add(bytes as u64));
    if t.lo == t.hi { t.lo = lo; t.hi = hi; } else { t.lo = t.lo.min(lo); t.hi = t.hi.max(hi); }
}

/// AddWithCarry(x, y, carry_in) at width n: (result, N, Z, C, V)
fn add_with_carry(x: u64, y: u64, cin: bool, n: u32) -> (u64, bool, bool, bool, bool) {
    let (x, y) = (x & mask(n), y & mask(n));
    let unsigned_sum: u128 = x as u128 + y as u128 + cin as u128;
    let signed_sum: i128 = sint(x, n) + sint(y, n) + cin as i128;
    let result = (unsigned_sum as u64) & mask(n);
    ((result), (result >> (n - 1)) & 1 == 1, result == 0, result as u128 != unsigned_sum, sint(result, n) != signed_sum)
}
/// ShiftReg: LSL / LSR / ASR / ROR of an n-bit value
fn shift_reg(v: u64, ty: u8, amount: u32, n: u32) -> u64 {
    let v = v & mask(n);
    if amount == 0 { return v; }
    match ty {
        0 => (v << amount) & mask(n),
        1 => v >> amount,
        2 => ((sint(v, n) >> amount) as u64) & mask(n),
        _ => ((v >> amount) | (v << (n - amount))) & mask(n),
    }
}
/// ExtendReg(reg value, option, shift, N): len = Min(len(type), N - shift); Extend(val<len-1:0> : Zeros(shift), N, unsigned)
fn extend_reg(val: u64, opt: u8, shift: u32, n: u32) -> u64 {
    let (unsigned, tlen) = match opt { 0 => (true, 8), 1 => (true, 16), 2 => (true, 32), 3 => (true, 64), 4 => (false, 8), 5 => (false, 16), 6 => (false, 32), _ => (false, 64) };
    let len = tlen.min(n - shift);
    let field = val & mask(len);
    let total = len + shift; // bits of val<len-1:0>:Zeros(shift)
    let shifted = if shift >= 64 { 0 } else { (field << shift) & mask(total) };
    let ext = if unsigned || total >= 64 { shifted } else { sext(shifted, total) };
    ext & mask(n)
}
/// DecodeBitMasks(N, imms, immr, immediate = TRUE) -> wmask at M bits; None = UNDEFINED
fn decode_bit_masks(n: u8, imms: u8, immr: u8, m: u32) -> Option<u64> {
    if m == 32 && n != 0 { return None; }
    let v = (((n & 1) as u32) << 6) | ((!imms & 0x3f) as u32);
    if v == 0 { return None; }
    let len = 31 - v.leading_zeros();
    if len < 1 { return None; }
    let levels = ((1u32 << len) - 1) as u8;
    if imms & levels == levels { return None; }
    let (s, r, esize) = ((imms & levels) as u32, (immr & levels) as u32, 1u32 << len);
    if esize > m { return None; }
    let welem = mask(s + 1);
    let rot = if r == 0 { welem } else { ((welem >> r) | (welem << (esize - r))) & mask(esize) };
    let mut w = 0u64;
    let mut k = 0;
    while k < m { w |= rot << k; k += esize; }
    Some(w & mask(m))
}
/// ConditionHolds(cond)
fn condition_holds(c: &Cpu, cond: u8) -> bool {
    let r = match cond >> 1 { 0 => c.z, 1 => c.c, 2 => c.n, 3 => c.v, 4 => c.c && !c.z, 5 => c.n == c.v, 6 => c.n == c.v && !c.z, _ => true };
    if cond & 1 == 1 && cond != 15 { !r } else { r }
}

/// one instruction of the Arm pseudocode; Err = the state is outside the modelled domain (unmapped access): skipped
fn exec(c: &mut Cpu, img: &Image, be: bool, i: &I, t: &mut Touched) -> Result<(), String> {
    let pc = c.pc;
    let mut next = pc.wrapping_add(4);
    match *i {
        I::AddSubImm { sf, sub, s, sh, imm12, rn, rd } => {
            let n = if sf { 64 } else { 32 };
            let imm = (imm12 as u64) << if sh { 12 } else { 0 };
            let op1 = if rn == 31 { c.spr(n) } else { c.xr(rn, n) };
            let (op2, cin) = if sub { (!imm, true) } else { (imm, false) };
            let (r, nf, zf, cf, vf) = add_with_carry(op1, op2, cin, n);
            if s { c.n = nf; c.z = zf; c.c = if sub && d1() { !cf } else { cf }; c.v = vf; }
            if rd == 31 && !s { c.spw(n, r) } else { c.xw(rd, n, r) }
        }
        I::AddSubSh { sf, sub, s, sh, rm, imm6, rn, rd } => {
            let n = if sf { 64 } else { 32 };
            let op1 = c.xr(rn, n);
            let op2 = shift_reg(c.xr(rm, n), sh, imm6 as u32, n);
            let (op2, cin) = if sub { (!op2, true) } else { (op2, false) };
            let (r, nf, zf, cf, vf) = add_with_carry(op1, op2, cin, n);
            if s { c.n = nf; c.z = zf; c.c = if sub && d1() { !cf } else { cf }; c.v = vf; }
            c.xw(rd, n, r)
        }
        I::AddSubExt { sf, sub, s, rm, opt, imm3, rn, rd } => {
            let n = if sf { 64 } else { 32 };
            let op1 = if rn == 31 { c.spr(n) } else { c.xr(rn, n) };
            let op2 = extend_reg(c.xr(rm, n), opt, imm3 as u32, n);
            let (op2, cin) = if sub { (!op2, true) } else { (op2, false) };
            let (r, nf, zf, cf, vf) = add_with_carry(op1, op2, cin, n);
            if s { c.n = nf; c.z = zf; c.c = if sub && d1() { !cf } else { cf }; c.v = vf; }
            if rd == 31 && !s { c.spw(n, r) } else { c.xw(rd, n, r) }
        }
        I::MovW { sf, opc, hw, imm16, rd } => {
            let n = if sf { 64 } else { 32 };
            let pos = 16 * hw as u32;
            let r = match opc {
                0 => !((imm16 as u64) << pos),
                2 => (imm16 as u64) << pos,
                _ => (c.xr(rd, n) & !(0xffffu64 << pos)) | ((imm16 as u64) << pos),
            };
            c.xw(rd, n, r)
        }
        I::OrrImm { sf, n, immr, imms, rn, rd } => {
            let w = if sf { 64 } else { 32 };
            let imm = decode_bit_masks(n, imms, immr, w).ok_or("model: UNDEFINED bitmask immediate")?;
            let r = c.xr(rn, w) | imm;
            if rd == 31 { c.spw(w, r) } else { c.xw(rd, w, r) }
        }
        I::OrrSh { sf, sh, rm, imm6, rn, rd } => {
            let n = if sf { 64 } else { 32 };
            let r = c.xr(rn, n) | shift_reg(c.xr(rm, n), sh, imm6 as u32, n);
            c.xw(rd, n, r)
        }
        I::LsUimm { size, opc, imm12, rn, rt } => {
            let base = if rn == 31 { c.sp } else { c.xr(rn, 64) };
            ls_access(c, img, be, size, opc, base.wrapping_add((imm12 as u64) << size), rt, t)?;
        }
        I::LsImm9 { size, opc, imm9, mode, rn, rt } => {
            let base = if rn == 31 { c.sp } else { c.xr(rn, 64) };
            let off = sext(imm9 as u64, 9);
            let address = if mode == 1 { base } else { base.wrapping_add(off) };
            ls_access(c, img, be, size, opc, address, rt, t)?;
            if mode != 0 {
                let wb = if mode == 1 { address.wrapping_add(off) } else { address };
                if rn == 31 { c.sp = wb } else { c.xw(rn, 64, wb) }
            }
        }
        I::LsReg { size, opc, rm, opt, s, rn, rt } => {
            let base = if rn == 31 { c.sp } else { c.xr(rn, 64) };
            let off = extend_reg(c.xr(rm, 64), opt, if s { size as u32 } else { 0 }, 64);
            ls_access(c, img, be, size, opc, base.wrapping_add(off), rt, t)?;
        }
        I::LdrLit { opc, imm19, rt } => {
            let address = pc.wrapping_add(sext((imm19 as u64) << 2, 21));
            let d = c.load(img, be, address, if opc == 1 { 8 } else { 4 }, t)?;
            match opc { 0 => c.xw(rt, 32, d), 1 => c.xw(rt, 64, d), _ => c.xw(rt, 64, sext(d, 32)) }
        }
        I::LsPair { opc, mode, l, imm7, rt2, rn, rt } => {
            let scale = if opc == 2 { 3 } else { 2 };
            let (dbytes, signed) = (1u32 << scale, opc == 1);
            let off = sext(imm7 as u64, 7) << scale;
            let base = if rn == 31 { c.sp } else { c.xr(rn, 64) };
            let address = if mode == 1 { base } else { base.wrapping_add(off) };
            if l {
                let d1 = c.load(img, be, address, dbytes, t)?;
                let d2 = c.load(img, be, address.wrapping_add(dbytes as u64), dbytes, t)?;
                if signed { c.xw(rt, 64, sext(d1, 32)); c.xw(rt2, 64, sext(d2, 32)); }
                else { c.xw(rt, 8 * dbytes, d1); c.xw(rt2, 8 * dbytes, d2); }
            } else {
                let (d1, d2) = (c.xr(rt, 8 * dbytes), c.xr(rt2, 8 * dbytes));
                c.store(img, be, address, dbytes, d1, t)?;
                c.store(img, be, address.wrapping_add(dbytes as u64), dbytes, d2, t)?;
            }
            if mode == 1 || mode == 3 {
                let wb = if mode == 1 { address.wrapping_add(off) } else { address };
                if rn == 31 { c.sp = wb } else { c.xw(rn, 64, wb) }
            }
        }
        I::LsOrd { size, l, rn, rt, .. } => {
            let base = if rn == 31 { c.sp } else { c.xr(rn, 64) };
            ls_access(c, img, be, size, if l { 1 } else { 0 }, base, rt, t)?;
        }
        I::Stlur { size, imm9, rn, rt } => {
            let base = if rn == 31 { c.sp } else { c.xr(rn, 64) };
            ls_access(c, img, be, size, 0, base.wrapping_add(sext(imm9 as u64, 9)), rt, t)?;
        }
        I::Prfm { .. } => {}
        I::B { link, imm26 } => {
            if link { c.xw(30, 64, pc.wrapping_add(4)); }
            next = pc.wrapping_add(sext((imm26 as u64) << 2, 28));
        }
        I::BReg { opc, rn } => {
            let target = c.xr(rn, 64); // read BEFORE the link register is written
            if opc == 1 { c.xw(30, 64, pc.wrapping_add(4)); }
            next = target;
        }
        I::BCond { cond, imm19 } => if condition_holds(c, cond) { next = pc.wrapping_add(sext((imm19 as u64) << 2, 21)); },
        I::Cbz { sf, nz, imm19, rt } => {
            let zero = c.xr(rt, if sf { 64 } else { 32 }) == 0;
            if zero != nz { next = pc.wrapping_add(sext((imm19 as u64) << 2, 21)); }
        }
        I::Tbz { bit, nz, imm14, rt } => {
            let b = (c.xr(rt, if bit >= 32 { 64 } else { 32 }) >> bit) & 1 == 1;
            if b == nz { next = pc.wrapping_add(sext((imm14 as u64) << 2, 16)); }
        }
    }
    c.pc = next;
    Ok(())
}

/// the single-register load / store data path: Mem[address, 2^size bytes] <-> X[t] / W[t]
fn ls_access(c: &mut Cpu, img: &Image, be: bool, size: u8, opc: u8, address: u64, rt: u8, t: &mut Touched) -> Result<(), String> {
    let (load, signed, regsize) = ls_kind(size, opc).ok_or("model: not an integer load/store")?;
    let bytes = 1u32 << size;
    if load {
        let d = c.load(img, be, address, bytes, t)?;
        let v = if signed { sext(d, 8 * bytes) } else { d };
        c.xw(rt, regsize, v);
    } else {
        let d = c.xr(rt, 8 * bytes);
        c.store(img, be, address, bytes, d, t)?;
    }
    Ok(())
}

// ------------------------------------------------------------------ cases and states
#[derive(Clone, Copy, Debug, PartialEq)]
enum Src { X(u8), Sp, None }

#[derive(Clone, Debug)]
enum Spec {
    /// 4 register files x 4 NZCV
    Plain,
    /// Plain + boundary values of width n driven through the operand sources (ext: extension boundaries as well)
    Arith { a: Src, b: Src, n: u32, ext: bool },
    /// base register, optional (rm, option, shift) index, displacement applied by the instruction, alignment required
    Mem { base: Src, index: Option<(u8, u8, u32)>, aligned: bool },
    /// indirect branch through register rn
    BranchReg { rn: u8 },
    /// all 16 NZCV values x 2 register files
    BCond,
    /// compare / test register
    Cbz { rt: u8 },
    Tbz { rt: u8, bit: u8 },
}

struct Case { op: String, insns: Vec<I>, spec: Spec, mem: bool, pcrel: bool }

fn regfile(k: usize) -> ([u64; 31], u64) {
    let mut x = [0u64; 31];
    match k {
        0 => { for i in 0..31 { x[i] = 0x8123_4567_89ab_cdefu64.rotate_left(4 * i as u32) ^ (0x0101_0101_0101_0101u64.wrapping_mul(i as u64)); } (x, 0x9abc_def0_1234_5670) }
        1 => ([u64::MAX; 31], u64::MAX),
        2 => { let m = [0x8000_0000_0000_0000u64, 0x7fff_ffff_ffff_ffff, 0x0000_0000_ffff_ffff, 0x0000_0001_0000_0000, 0, 1]; for i in 0..31 { x[i] = m[i % 6]; } (x, 0x7fff_ffff_ffff_fff0) }
        _ => { let m = [0x0000_0000_8000_0000u64, 0xffff_ffff_7fff_ffff, 0x8000_0000_0000_0001, 0x7fff_ffff_8000_0000, 0xffff_ffff_0000_0000, 0x0000_0000_7fff_ffff, 0x0000_0000_0000_8080];
               for i in 0..31 { x[i] = m[i % 7]; } (x, 0x0000_0000_ffff_fff0) }
    }
}
const NZCV: [u8; 4] = [0b0000, 0b1111, 0b0110, 0b1001];
fn mk(k: usize, nzcv: u8, pc: u64) -> Cpu {
    let (x, sp) = regfile(k);
    Cpu { x, sp, n: nzcv & 8 != 0, z: nzcv & 4 != 0, c: nzcv & 2 != 0, v: nzcv & 1 != 0, mem: BTreeMap::new(), pc }
}
fn set_src(c: &mut Cpu, s: Src, v: u64) { match s { Src::X(r) => if r != 31 { c.x[r as usize] = v }, Src::Sp => c.sp = v, Src::None => {} } }
fn boundary(n: u32) -> Vec<u64> { let m = mask(n); vec![0, 1, 2, m >> 1, (m >> 1) + 1, m] }

fn states(case: &Case, a: u64, b: u64) -> Vec<Cpu> {
    let mut v = Vec::new();
    let plain = |v: &mut Vec<Cpu>| for k in 0..4 { for f in NZCV { v.push(mk(k, f, a)); } };
    match &case.spec {
        Spec::Plain => plain(&mut v),
        Spec::Arith { a: sa, b: sb, n, ext } => {
            plain(&mut v);
            let mut lb = boundary(*n);
            if *ext { lb.extend([0x7f, 0x80, 0xff, 0x7fff, 0x8000, 0xffff, 0x7fff_ffff, 0x8000_0000, 0xffff_ffff, 0x1234_5678_8000_0080]); }
            // high garbage above a 32-bit operand must be ignored
            let hi = if *n == 32 { 0xa5a5_a5a5_0000_0000u64 } else { 0 };
            let la: Vec<u64> = if *sa == Src::None { vec![0] } else { boundary(*n) };
            let lb: Vec<u64> = if *sb == Src::None || sb == sa { vec![0] } else { lb };
            for &x in &la { for &y in &lb {
                let mut c = mk(0, 0b0110, a);
                set_src(&mut c, *sb, y | hi);
                set_src(&mut c, *sa, x | hi);
                v.push(c);
            } }
        }
        Spec::Mem { base, index, aligned } => {
            let targets: Vec<u64> = if *aligned || *base == Src::Sp { vec![DATA + 0x1240, DATA + 0x0c20] } else { vec![DATA + 0x1238, DATA + 0x0c13] };
            let idx: Vec<u64> = if index.is_some() { vec![0xdead_beef_0000_0010, 0x1234_5678_ffff_fff8, 0x0000_0000_8000_0040, 0xffff_ffff_ffff_ffc0, 0x0000_0001_0000_0008] } else { vec![0] };
            for k in 0..4 { for (ti, &e) in targets.iter().enumerate() { for &iv in &idx {
                if index.is_some() && ti == 1 && k != 0 { continue; }
                let mut c = mk(k, NZCV[k], a);
                let mut off = 0u64;
                if let Some((rm, opt, sh)) = index {
                    if *rm != 31 { c.x[*rm as usize] = iv; }
                    // the state is CHOSEN so that the architectural address is `e`; the expected result still comes from exec()
                    off = extend_reg(c.xr(*rm, 64), *opt, *sh, 64);
                }
                set_src(&mut c, *base, e.wrapping_sub(off));
                v.push(c);
            } } }
        }
        Spec::BranchReg { rn } => {
            let targets = [a + 8, a + 4, b, a + 0x20];
            for k in 0..4 { for (ti, &tg) in targets.iter().enumerate() {
                let mut c = mk(k, NZCV[(k + ti) % 4], a);
                c.x[30] = a + 0x10;
                if *rn != 31 { c.x[*rn as usize] = tg; }
                v.push(c);
            } }
        }
        Spec::BCond => for k in 0..2 { for f in 0..16u8 { v.push(mk(k * 2, f, a)); } },
        Spec::Cbz { rt } => {
            plain(&mut v);
            for x in [0u64, 1, 0x1_0000_0000, 0x8000_0000, 0xffff_ffff_0000_0000, u64::MAX, 1 << 63] {
                let mut c = mk(0, 0b1001, a); set_src(&mut c, Src::X(*rt), x); v.push(c);
            }
        }
        Spec::Tbz { rt, bit } => {
            plain(&mut v);
            let one = 1u64 << bit;
            for x in [0u64, one, !one, u64::MAX, 1u64 << ((bit + 32) % 64), 1u64 << ((bit + 1) % 64)] {
                let mut c = mk(0, 0b0110, a); set_src(&mut c, Src::X(*rt), x); v.push(c);
            }
        }
    }
    v
}

fn sp_or_x(r: u8) -> Src { if r == 31 { Src::Sp } else { Src::X(r) } }
fn zr_or_x(r: u8) -> Src { if r == 31 { Src::None } else { Src::X(r) } }

fn one(i: I, spec: Spec) -> Case {
    let mem = matches!(i, I::LsUimm { .. } | I::LsImm9 { .. } | I::LsReg { .. } | I::LdrLit { .. } | I::LsPair { .. } | I::LsOrd { .. } | I::Stlur { .. } | I::Prfm { .. });
    let pcrel = matches!(i, I::LdrLit { .. } | I::B { .. } | I::BReg { .. } | I::BCond { .. } | I::Cbz { .. } | I::Tbz { .. });
    Case { op: opname(&i), insns: vec![i], spec, mem, pcrel }
}
fn seq(name: &str, insns: Vec<I>, spec: Spec) -> Case {
    let mem = insns.iter().any(|i| matches!(i, I::LsUimm { .. } | I::LsImm9 { .. } | I::LsReg { .. } | I::LsPair { .. }));
    Case { op: format!("seq_{}", name), insns, spec, mem, pcrel: false }
}

fn cases() -> Vec<Case> {
    let mut out: Vec<Case> = Vec::new();
    // ---------------- add / sub immediate
    for sf in [false, true] { for sub in [false, true] { for s in [false, true] {
        let n = if sf { 64 } else { 32 };
        for (rd, rn) in [(0u8, 1u8), (2, 2), (31, 3), (4, 31), (31, 31), (30, 29)] {
            for sh in [false, true] { for imm12 in [0u32, 1, 0x123, 0x7ff, 0x800, 0xfff] {
                out.push(one(I::AddSubImm { sf, sub, s, sh, imm12, rn, rd }, Spec::Arith { a: sp_or_x(rn), b: Src::None, n, ext: false }));
            } }
        }
        // ---------------- add / sub shifted register
        for (rd, rn, rm) in [(0u8, 1u8, 2u8), (3, 3, 4), (5, 6, 5), (7, 8, 8), (9, 9, 9), (31, 1, 2), (0, 31, 2), (0, 1, 31), (30, 29, 28), (31, 31, 31), (17, 18, 19)] {
            for sh in 0..3u8 {
                let amounts: &[u8] = if sf { &[0, 1, 31, 32, 63] } else { &[0, 1, 31] };
                for &imm6 in amounts {
                    if sh != 0 && imm6 == 0 && rd != 0 { continue; }
                    out.push(one(I::AddSubSh { sf, sub, s, sh, rm, imm6, rn, rd }, Spec::Arith { a: zr_or_x(rn), b: zr_or_x(rm), n, ext: false }));
                }
            }
        }
        // ---------------- add / sub extended register
        for (rd, rn, rm) in [(0u8, 1u8, 2u8), (3, 3, 4), (5, 6, 5), (31, 1, 2), (0, 31, 2), (31, 31, 2), (0, 1, 31), (29, 30, 30)] {
            for opt in 0..8u8 { for imm3 in [0u8, 1, 2, 4] {
                if imm3 == 2 && rd != 0 { continue; }
                out.push(one(I::AddSubExt { sf, sub, s, rm, opt, imm3, rn, rd }, Spec::Arith { a: sp_or_x(rn), b: zr_or_x(rm), n, ext: true }));
            } }
        }
    } } }
    // ---------------- moves
    for sf in [false, true] {
        for rd in [0u8, 17, 30, 31] { for opc in [0u8, 2, 3] { for hw in 0..(if sf { 4u8 } else { 2 }) { for imm16 in [0u32, 1, 0x1234, 0x8000, 0xffff] {
            out.push(one(I::MovW { sf, opc, hw, imm16, rd }, Spec::Plain));
        } } } }
        for (rd, rm) in [(0u8, 1u8), (2, 2), (31, 3), (4, 31), (30, 29), (31, 31)] {
            out.push(one(I::OrrSh { sf, sh: 0, rm, imm6: 0, rn: 31, rd }, Spec::Plain));
        }
        out.push(one(I::OrrSh { sf, sh: 0, rm: 2, imm6: 3, rn: 31, rd: 0 }, Spec::Plain));
        out.push(one(I::OrrSh { sf, sh: 0, rm: 2, imm6: 0, rn: 1, rd: 0 }, Spec::Plain));
        out.push(one(I::OrrSh { sf, sh: 3, rm: 2, imm6: 7, rn: 1, rd: 0 }, Spec::Plain));
        // mov Xd, SP / mov SP, Xn  (ADD #0)
        for (rd, rn) in [(0u8, 31u8), (31, 1), (31, 31), (29, 31)] {
            let i = I::AddSubImm { sf, sub: false, s: false, sh: false, imm12: 0, rn, rd };
            if !out.iter().any(|c| c.insns[0] == i) { out.push(one(i, Spec::Plain)); }
        }
        // ORR (immediate) / MOV (bitmask immediate): (N, immr, imms)
        let bm: &[(u8, u8, u8)] = if sf { &[(1, 0, 0), (1, 0, 0x1f), (1, 1, 0), (0, 0, 0x3c), (0, 0, 0x30), (1, 8, 7), (1, 0, 0x3e), (0, 3, 0x21), (1, 60, 59), (0, 16, 0x0f)] }
            else { &[(0, 0, 0), (0, 8, 7), (0, 0, 0x3c), (0, 1, 0x1e), (0, 0, 0x30), (0, 16, 0x0f), (0, 31, 0)] };
        for &(n, immr, imms) in bm { for (rd, rn) in [(0u8, 31u8), (31, 31), (5, 6), (7, 7)] {
            if decode_bit_masks(n, imms, immr, if sf { 64 } else { 32 }).is_none() { continue; }
            out.push(one(I::OrrImm { sf, n, immr, imms, rn, rd }, Spec::Plain));
        } }
    }
    // ---------------- single register loads / stores
    for size in 0..4u8 { for opc in 0..4u8 {
        let (load, _, _) = match ls_kind(size, opc) { Some(k) => k, None => continue };
        for (rt, rn) in [(0u8, 1u8), (2, 31), (31, 3), (30, 29), (1, 1), (31, 31)] {
            for imm12 in [0u32, 1, 0x21, 0xfff] {
                out.push(one(I::LsUimm { size, opc, imm12, rn, rt }, Spec::Mem { base: sp_or_x(rn), index: None, aligned: false }));
            }
            for mode in [0u8, 1, 3] { for imm9 in [0u32, 8, 0xff, 0x100, 0x1ff, 0x1f8] {
                if mode != 0 && rt == rn && rn != 31 { continue; } // UNPREDICTABLE write-back
                out.push(one(I::LsImm9 { size, opc, imm9, mode, rn, rt }, Spec::Mem { base: sp_or_x(rn), index: None, aligned: false }));
            } }
        }
        for (rt, rn, rm) in [(0u8, 1u8, 2u8), (3, 31, 4), (31, 5, 6), (7, 8, 31), (9, 10, 9), (11, 11, 12)] {
            if !load && rt == rn { continue; }
            for opt in [2u8, 3, 6, 7] { for s in [false, true] {
                out.push(one(I::LsReg { size, opc, rm, opt, s, rn, rt }, Spec::Mem { base: sp_or_x(rn), index: Some((rm, opt, if s { size as u32 } else { 0 })), aligned: false }));
            } }
        }
    } }
    // ---------------- LDR (literal): pool after the code (A+0x40..A+0x80), pool before (A-0x80..A-0x40, base != 0 only), code words
    for opc in 0..3u8 { for rt in [0u8, 30, 31] { for imm19 in [2u32, 0x10, 0x11, 0x1d, 0x7ffe0, 0x7ffe3] {
        out.push(one(I::LdrLit { opc, imm19, rt }, Spec::Plain));
    } } }
    // ---------------- pairs
    for (opc, l) in [(0u8, false), (0, true), (1, true), (2, false), (2, true)] { for mode in 0..4u8 {
        if opc == 1 && mode == 0 { continue; }
        for (rt, rt2, rn) in [(0u8, 1u8, 2u8), (3, 4, 31), (31, 5, 6), (7, 31, 8), (29, 30, 31), (9, 9, 10), (31, 31, 11), (12, 13, 12)] {
            if l && rt == rt2 { continue; } // UNPREDICTABLE
            if (mode == 1 || mode == 3) && (rt == rn || rt2 == rn) && rn != 31 { continue; } // UNPREDICTABLE write-back
            for imm7 in [0u32, 1, 0x3f, 0x40, 0x7f] {
                out.push(one(I::LsPair { opc, mode, l, imm7, rt2, rn, rt }, Spec::Mem { base: sp_or_x(rn), index: None, aligned: false }));
            }
        }
    } }
    // ---------------- load-acquire / store-release forms the lifter maps onto ldr / str, prefetch
    for size in 0..4u8 { for l in [false, true] { for o0 in [false, true] { for (rt, rn) in [(0u8, 1u8), (2, 31), (31, 3)] {
        out.push(one(I::LsOrd { size, l, o0, rn, rt }, Spec::Mem { base: sp_or_x(rn), index: None, aligned: true }));
    } } }
        for imm9 in [0u32, 8, 0x1f8] { for (rt, rn) in [(0u8, 1u8), (31, 31)] {
            out.push(one(I::Stlur { size, imm9, rn, rt }, Spec::Mem { base: sp_or_x(rn), index: None, aligned: true }));
        } }
    }
    for (rn, prfop) in [(1u8, 0u8), (31, 5)] { out.push(one(I::Prfm { imm12: 2, rn, prfop }, Spec::Mem { base: sp_or_x(rn), index: None, aligned: true })); }
    // ---------------- branches (never to self)
    for link in [false, true] { for off in [1i32, 2, 4, 8, -2, -16] {
        out.push(one(I::B { link, imm26: off as u32 & 0x03ff_ffff }, Spec::Plain));
    } }
    for opc in 0..3u8 { for rn in [0u8, 1, 17, 30, 31] { out.push(one(I::BReg { opc, rn }, Spec::BranchReg { rn })); } }
    for cond in 0..16u8 { for off in [2i32, 8, -2] { out.push(one(I::BCond { cond, imm19: off as u32 & 0x7ffff }, Spec::BCond)); } }
    for sf in [false, true] { for nz in [false, true] { for rt in [0u8, 5, 30, 31] { for off in [2i32, -4] {
        out.push(one(I::Cbz { sf, nz, imm19: off as u32 & 0x7ffff, rt }, Spec::Cbz { rt }));
    } } } }
    for bit in [0u8, 5, 31, 32, 63] { for nz in [false, true] { for rt in [0u8, 7, 31] { for off in [2i32, -4] {
        out.push(one(I::Tbz { bit, nz, imm14: off as u32 & 0x3fff, rt }, Spec::Tbz { rt, bit }));
    } } } }
    // ---------------- the zero register discards writes and still reads as zero (two-instruction sequences)
    let rd_zr_add = I::AddSubSh { sf: true, sub: false, s: false, sh: 0, rm: 31, imm6: 0, rn: 31, rd: 3 }; // add x3, xzr, xzr
    let rd_zr_adds = I::AddSubSh { sf: true, sub: false, s: true, sh: 0, rm: 31, imm6: 0, rn: 31, rd: 3 }; // adds x3, xzr, xzr
    let rd_zr_mov = I::OrrSh { sf: true, sh: 0, rm: 31, imm6: 0, rn: 31, rd: 3 }; // mov x3, xzr
    let ar = Spec::Arith { a: Src::X(1), b: Src::X(2), n: 64, ext: false };
    let mm = |r: u8| Spec::Mem { base: sp_or_x(r), index: None, aligned: false };
    out.push(seq("zr_add_add", vec![I::AddSubSh { sf: true, sub: false, s: false, sh: 0, rm: 2, imm6: 0, rn: 1, rd: 31 }, rd_zr_add], ar.clone()));
    out.push(seq("zr_sub_adds", vec![I::AddSubSh { sf: true, sub: true, s: false, sh: 0, rm: 2, imm6: 0, rn: 1, rd: 31 }, rd_zr_adds], ar.clone()));
    out.push(seq("zr_addw_add", vec![I::AddSubSh { sf: false, sub: false, s: false, sh: 0, rm: 2, imm6: 0, rn: 1, rd: 31 }, rd_zr_add], ar.clone()));
    out.push(seq("zr_adds_ext_add", vec![I::AddSubExt { sf: true, sub: false, s: true, rm: 2, opt: 6, imm3: 1, rn: 1, rd: 31 }, rd_zr_add], ar.clone()));
    out.push(seq("zr_subs_add", vec![I::AddSubSh { sf: true, sub: true, s: true, sh: 0, rm: 2, imm6: 0, rn: 1, rd: 31 }, rd_zr_add], ar.clone()));
    out.push(seq("zr_mov_mov", vec![I::OrrSh { sf: true, sh: 0, rm: 1, imm6: 0, rn: 31, rd: 31 }, rd_zr_mov], Spec::Plain));
    out.push(seq("zr_mov_add", vec![I::OrrSh { sf: true, sh: 0, rm: 1, imm6: 0, rn: 31, rd: 31 }, rd_zr_add], Spec::Plain));
    out.push(seq("zr_ldr_add", vec![I::LsUimm { size: 3, opc: 1, imm12: 1, rn: 1, rt: 31 }, rd_zr_add], mm(1)));
    out.push(seq("zr_ldrw_adds", vec![I::LsUimm { size: 2, opc: 1, imm12: 0, rn: 1, rt: 31 }, rd_zr_adds], mm(1)));
    out.push(seq("zr_ldrsw_add", vec![I::LsUimm { size: 2, opc: 2, imm12: 0, rn: 1, rt: 31 }, rd_zr_add], mm(1)));
    out.push(seq("zr_ldrb_post_add", vec![I::LsImm9 { size: 0, opc: 1, imm9: 8, mode: 1, rn: 31, rt: 31 }, rd_zr_add], mm(31)));
    out.push(seq("zr_ldp_add", vec![I::LsPair { opc: 2, mode: 2, l: true, imm7: 0, rt2: 5, rn: 1, rt: 31 }, rd_zr_add], mm(1)));
    out.push(seq("zr_ldp2_str", vec![I::LsPair { opc: 2, mode: 2, l: true, imm7: 0, rt2: 31, rn: 1, rt: 5 }, I::LsUimm { size: 3, opc: 0, imm12: 4, rn: 1, rt: 31 }], mm(1)));
    out.push(seq("zr_add_str", vec![I::AddSubSh { sf: true, sub: false, s: false, sh: 0, rm: 2, imm6: 0, rn: 4, rd: 31 }, I::LsUimm { size: 3, opc: 0, imm12: 0, rn: 1, rt: 31 }], mm(1)));
    out.push(seq("zr_add_cbz", vec![I::AddSubSh { sf: true, sub: false, s: false, sh: 0, rm: 2, imm6: 0, rn: 1, rd: 31 }, I::Cbz { sf: true, nz: true, imm19: 2, rt: 31 }], ar.clone()));
    out.push(seq("subs_bhs", vec![I::AddSubSh { sf: true, sub: true, s: true, sh: 0, rm: 2, imm6: 0, rn: 1, rd: 0 }, I::BCond { cond: 2, imm19: 2 }], ar.clone()));
    out.push(seq("subs_bhi", vec![I::AddSubSh { sf: true, sub: true, s: true, sh: 0, rm: 2, imm6: 0, rn: 1, rd: 0 }, I::BCond { cond: 8, imm19: 2 }], ar.clone()));
    out
}

// ------------------------------------------------------------------ lifting and running
#[derive(Clone, Copy, PartialEq)]
enum Var { Le, Be }
impl Var { fn name(self) -> &'static str { if self == Var::Le { "le" } else { "be" } } fn endian(self) -> Endian { if self == Var::Le { Endian::Little } else { Endian::Big } } }

fn image(words: &[u32], b: u64, data: &Rc<Vec<u8>>) -> Image {
    let mut code: Vec<u32> = vec![NOP; (CODE_LEN / 4) as usize];
    for (k, w) in words.iter().enumerate() { code[(A_OFF / 4) as usize + k] = *w; }
    let code: Vec<u8> = code.iter().flat_map(|w| w.to_le_bytes()).collect(); // instruction fetch is little-endian in both variants
    let pool = |start: u64| -> Rc<Vec<u8>> { Rc::new((0..0x40u64).map(|k| pat(start + k)).collect()) };
    let mut segs = vec![(b, Rc::new(code), false), (b + 0x80, pool(b + 0x80), false), (DATA, data.clone(), true)];
    if b >= 0x40 { segs.push((b - 0x40, pool(b - 0x40), false)); }
    Image { segs }
}

struct Lifted { program: RC<il::Program>, backing: RC<memory::backing::Memory>, start: il::ProgramLocation }

fn lift(var: Var, img: &Image, a: u64) -> Result<Lifted, String> {
    let mut backing = memory::backing::Memory::new(var.endian());
    for (s, bytes, w) in &img.segs {
        let p = if *w { memory::MemoryPermissions::READ | memory::MemoryPermissions::WRITE } else { memory::MemoryPermissions::READ | memory::MemoryPermissions::EXECUTE };
        backing.set_memory(*s, bytes.as_ref().clone(), p);
    }
    let function = match var {
        Var::Le => TLe::new().translate_function(&backing, a),
        Var::Be => TBe::new().translate_function(&backing, a),
    }.map_err(|e| format!("{}", e))?;
    let mut program = il::Program::new();
    program.add_function(function);
    let start: il::ProgramLocation = {
        let f = program.function(0).ok_or("no function")?;
        il::RefProgramLocation::from_function(f).ok_or("function without entry")?.map_err(|e| format!("{}", e))?.into()
    };
    Ok(Lifted { program: RC::new(program), backing: RC::new(backing), start })
}

struct Outcome { x: [u64; 31], sp: u64, n: bool, z: bool, c: bool, v: bool, pc: u64, mem: Vec<(u64, Option<u8>)> }

fn run(var: Var, l: &Lifted, a: u64, len: u64, cpu: &Cpu, window: (u64, u64)) -> Result<Outcome, String> {
    let mut state = State::new(Memory::new_with_backing(var.endian(), l.backing.clone()));
    for i in 0..31 { state.set_scalar(format!("x{}", i), il::const_(cpu.x[i], 64)); }
    state.set_scalar("sp", il::const_(cpu.sp, 64));
    for (n, v) in [("n", cpu.n), ("z", cpu.z), ("c", cpu.c), ("v", cpu.v)] { state.set_scalar(n, il::const_(v as u64, 1)); }
    let arch: RC<dyn architecture::Architecture> = match var { Var::Le => RC::new(architecture::AArch64::new()), Var::Be => RC::new(architecture::AArch64Eb::new()) };
    let mut driver = Driver::new(l.program.clone(), l.start.clone(), state, arch);
    let mut steps = 0;
    let pc = loop {
        let at = driver.location().apply(driver.program()).map_err(|e| format!("{}", e))?.address();
        if let Some(x) = at { if x < a || x >= a + 4 * len { break x; } }
        steps += 1;
        if steps > 200 { return Err("did not leave the instruction within 200 IL steps".to_string()); }
        driver = driver.step().map_err(|e| format!("step: {}", e))?;
    };
    let st = driver.state();
    let mut o = Outcome { x: [0; 31], sp: 0, n: false, z: false, c: false, v: false, pc, mem: Vec::new() };
    let reg = |n: &str, bits: usize| -> Result<u64, String> {
        let c = st.get_scalar(n).ok_or(format!("scalar {} vanished", n))?;
        if c.bits() != bits { return Err(format!("scalar {} has width {} after the instruction", n, c.bits())); }
        c.value_u64().ok_or("value does not fit u64".to_string())
    };
    for i in 0..31 { o.x[i] = reg(&format!("x{}", i), 64)?; }
    o.sp = reg("sp", 64)?;
    o.n = reg("n", 1)? == 1; o.z = reg("z", 1)? == 1; o.c = reg("c", 1)? == 1; o.v = reg("v", 1)? == 1;
    let mut ad = window.0;
    while ad != window.1 {
        let b = st.memory().load(ad, 8).map_err(|e| format!("reading back 0x{:x}: {}", ad, e))?.and_then(|c| c.value_u64()).map(|v| v as u8);
        o.mem.push((ad, b));
        ad = ad.wrapping_add(1);
    }
    Ok(o)
}

/// every differing field: (field, expected, got)
fn diff(exp: &Cpu, img: &Image, got: &Outcome) -> Vec<(String, String, String)> {
    let mut d = Vec::new();
    for i in 0..31 { if exp.x[i] != got.x[i] { d.push((format!("x{}", i), format!("0x{:x}", exp.x[i]), format!("0x{:x}", got.x[i]))); } }
    if exp.sp != got.sp { d.push(("sp".to_string(), format!("0x{:x}", exp.sp), format!("0x{:x}", got.sp))); }
    for (n, e, g) in [("n", exp.n, got.n), ("z", exp.z, got.z), ("c", exp.c, got.c), ("v", exp.v, got.v)] {
        if e != g { d.push((n.to_string(), format!("{}", e as u8), format!("{}", g as u8))); }
    }
    if exp.pc != got.pc { d.push(("pc".to_string(), format!("0x{:x}", exp.pc), format!("0x{:x}", got.pc))); }
    let mut memd = 0;
    for (a, g) in &got.mem {
        let e = exp.read8(img, *a);
        if e != *g {
            memd += 1;
            if memd <= 4 { d.push((format!("mem[0x{:x}]", a), e.map(|b| format!("0x{:02x}", b)).unwrap_or("unmapped".to_string()), g.map(|b| format!("0x{:02x}", b)).unwrap_or("unmapped".to_string()))); }
        }
    }
    d
}

/// Is this disagreement an instance of a LISTED known defect? Re-runs the instruction(s) on the deliberately defective
/// reference model of that defect and compares EVERY compared location (X0..X30, SP, N Z C V, the memory window, the next
/// pc). Only called when the correct model disagrees, so a tag means: differs from the Arm pseudocode, and differs in
/// precisely the documented way. Anything else stays untagged = a violation.
///   C03-D1: SUBS sets C := borrow (see D1_MODEL).
fn classify(case: &Case, st: &Cpu, img: &Image, be: bool, a: u64, b: u64, len: u64, got: &Outcome) -> Option<&'static str> {
    if !case.insns.iter().any(|i| matches!(*i, I::AddSubImm { sub: true, s: true, .. } | I::AddSubSh { sub: true, s: true, .. } | I::AddSubExt { sub: true, s: true, .. })) { return None; }
    D1_MODEL.store(true, std::sync::atomic::Ordering::Relaxed);
    let mut alt = st.clone();
    let mut t = Touched { lo: 0, hi: 0 };
    let mut ok = true;
    for (k, i) in case.insns.iter().enumerate() {
        if alt.pc != a + 4 * k as u64 { ok = false; break; }
        if exec(&mut alt, img, be, i, &mut t).is_err() { ok = false; break; }
    }
    D1_MODEL.store(false, std::sync::atomic::Ordering::Relaxed);
    if !ok || alt.pc < b || alt.pc >= b + CODE_LEN || alt.pc % 4 != 0 || (alt.pc >= a && alt.pc < a + 4 * len) { return None; }
    if diff(&alt, img, got).is_empty() { Some("C03-D1") } else { None }
}

fn regs_of(i: &I) -> Vec<u8> {
    match *i {
        I::AddSubImm { rn, rd, .. } => vec![rd, rn],
        I::AddSubSh { rm, rn, rd, .. } | I::AddSubExt { rm, rn, rd, .. } | I::OrrSh { rm, rn, rd, .. } => vec![rd, rn, rm],
        I::MovW { rd, .. } => vec![rd],
        I::OrrImm { rn, rd, .. } => vec![rd, rn],
        I::LsUimm { rn, rt, .. } | I::LsImm9 { rn, rt, .. } | I::LsOrd { rn, rt, .. } | I::Stlur { rn, rt, .. } => vec![rt, rn],
        I::LsReg { rm, rn, rt, .. } => vec![rt, rn, rm],
        I::LdrLit { rt, .. } => vec![rt],
        I::LsPair { rt2, rn, rt, .. } => vec![rt, rt2, rn],
        I::Prfm { rn, .. } => vec![rn],
        I::B { .. } => vec![30],
        I::BReg { rn, .. } => vec![rn, 30],
        I::BCond { .. } => vec![],
        I::Cbz { rt, .. } | I::Tbz { rt, .. } => vec![rt],
    }
}
fn state_json(case: &Case, c: &Cpu) -> String {
    let mut rs: Vec<u8> = case.insns.iter().flat_map(regs_of).filter(|r| *r != 31).collect();
    rs.sort(); rs.dedup();
    let mut parts: Vec<String> = rs.iter().map(|r| format!("\"x{}\":\"0x{:x}\"", r, c.x[*r as usize])).collect();
    parts.push(format!("\"sp\":\"0x{:x}\"", c.sp));
    parts.push(format!("\"nzcv\":\"{}{}{}{}\"", c.n as u8, c.z as u8, c.c as u8, c.v as u8));
    parts.push(format!("\"pc\":\"0x{:x}\"", c.pc));
    format!("{{{}}}", parts.join(","))
}
fn esc(s: &str) -> String { s.replace('\\', "/").replace('"', "'").replace('\n', " ").replace('`', "'") }

#[derive(Default)]
struct OpStat { encodings: u64, evaluations: u64, disagreements: u64, rejected: u64, skipped: u64, printed: u64, fields: BTreeMap<String, u64>, printed_fields: BTreeMap<String, u64>, rejected_example: Option<String> }

fn main() {
    std::panic::set_hook(Box::new(|_| {}));
    let limit: u64 = std::env::var("C03_WITNESS_PRINT").ok().and_then(|s| s.parse().ok()).unwrap_or(3);
    let filter: Option<String> = std::env::var("C03_WITNESS_OP").ok();
    let data: Rc<Vec<u8>> = Rc::new((0..DATA_LEN as u64).map(|k| pat(DATA + k)).collect());
    let all = cases();
    let mut per_op: BTreeMap<String, OpStat> = BTreeMap::new();
    let (mut evals, mut found, mut rejected, mut encodings, mut skipped) = (0u64, 0u64, 0u64, 0u64, 0u64);
    // disagreements classified as instances of a listed known defect: (op, defect id) -> (count, printed); printed under their OWN
    // cap (3 per op and defect), NOT counted in `disagreements` / `per_op`
    let mut tagged: BTreeMap<(String, String), (u64, u64)> = BTreeMap::new();
    for var in [Var::Le, Var::Be] { for b in [0u64, 0x10000] {
        let a = b + A_OFF;
        let be = var == Var::Be;
        for case in &all {
            if let Some(f) = &filter { if !case.op.contains(f.as_str()) { continue; } }
            let words: Vec<u32> = case.insns.iter().map(enc).collect();
            let img = image(&words, b, &data);
            let len = words.len() as u64;
            let enc_s = words.iter().map(|w| format!("0x{:08x}", w)).collect::<Vec<_>>().join(" ");
            let asm_s = case.insns.iter().enumerate().map(|(k, i)| asm(i, a + 4 * k as u64)).collect::<Vec<_>>().join(" ; ");
            encodings += 1;
            let stat = per_op.entry(case.op.clone()).or_default();
            stat.encodings += 1;
            let report = |stat: &mut OpStat, st: &Cpu, field: &str, exp: &str, got: &str, kind: &str, detail: &str| {
                stat.disagreements += 1;
                *stat.fields.entry(format!("{}:{}", kind, field)).or_insert(0) += 1;
                let pf = stat.printed_fields.entry(format!("{}:{}", kind, field)).or_insert(0);
                if stat.printed < limit && (*pf < 2 || limit > 3) {
                    *pf += 1; stat.printed += 1;
                    println!("{{\"witness\":true,\"op\":\"{}\",\"ops_related\":{},\"variant\":\"{}\",\"encoding\":\"{}\",\"asm\":\"{}\",\"state\":{},\"field\":\"{}\",\"expected\":\"{}\",\"got\":\"{}\",\"kind\":\"{}\",\"detail\":\"{}\"}}",
                        case.op, related(&case.op), var.name(), enc_s, esc(&asm_s), state_json(case, st), field, esc(exp), esc(got), kind, esc(detail));
                }
            };
            let lifted = match catch_unwind(AssertUnwindSafe(|| lift(var, &img, a))) {
                Ok(Ok(l)) => l,
                Ok(Err(e)) => {
                    rejected += 1; stat.rejected += 1;
                    if stat.rejected_example.is_none() { stat.rejected_example = Some(format!("{} ({}): {}", enc_s, asm_s, esc(&e))); }
                    continue;
                }
                Err(p) => {
                    let msg = p.downcast_ref::<String>().cloned().or_else(|| p.downcast_ref::<&str>().map(|s| s.to_string())).unwrap_or_default();
                    evals += 1; stat.evaluations += 1; found += 1;
                    report(stat, &mk(0, 0, a), "lifting", "Ok or Err", "panic", "panic", &format!("panic while lifting: {}", msg));
                    continue;
                }
            };
            let mut sts = states(case, a, b);
            // thinning: the translator ignores its endian argument, so the non-memory classes of the "be" variant run every 3rd state
            let full = var == Var::Le || case.mem || case.pcrel;
            if !full { sts = sts.into_iter().step_by(3).collect(); }
            for st in &sts {
                let mut exp = st.clone();
                let mut t = Touched { lo: 0, hi: 0 };
                let mut ok = true;
                for (k, i) in case.insns.iter().enumerate() {
                    if exp.pc != a + 4 * k as u64 { ok = false; break; }
                    if exec(&mut exp, &img, be, i, &mut t).is_err() { ok = false; break; }
                }
                // the next pc must hold lifted code (a NOP) for the executor to get there
                if !ok || exp.pc < b || exp.pc >= b + CODE_LEN || exp.pc % 4 != 0 || (exp.pc >= a && exp.pc < a + 4 * len) { skipped += 1; stat.skipped += 1; continue; }
                evals += 1; stat.evaluations += 1;
                let window = if t.lo == t.hi { (0, 0) } else { (t.lo.wrapping_sub(32), t.hi.wrapping_add(32)) };
                match catch_unwind(AssertUnwindSafe(|| run(var, &lifted, a, len, st, window))) {
                    Ok(Ok(g)) => {
                        let d = diff(&exp, &img, &g);
                        if let Some((f, e, gv)) = d.first() {
                            let detail = d.iter().map(|(f, e, g)| format!("{} expected {} got {}", f, e, g)).collect::<Vec<_>>().join("; ");
                            if let Some(defect) = classify(case, st, &img, be, a, b, len, &g) {
                                let ent = tagged.entry((case.op.clone(), defect.to_string())).or_insert((0, 0));
                                ent.0 += 1;
                                if ent.1 < 3 {
                                    ent.1 += 1;
                                    println!("{{\"witness\":true,\"op\":\"{}\",\"ops_related\":{},\"variant\":\"{}\",\"encoding\":\"{}\",\"asm\":\"{}\",\"state\":{},\"field\":\"{}\",\"expected\":\"{}\",\"got\":\"{}\",\"kind\":\"value\",\"detail\":\"{}\",\"known_defect\":\"{}\"}}",
                                        case.op, related(&case.op), var.name(), enc_s, esc(&asm_s), state_json(case, st), f, esc(e), esc(gv), esc(&detail), defect);
                                }
                            } else {
                                found += 1;
                                report(stat, st, f, e, gv, "value", &detail);
                            }
                        }
                    }
                    Ok(Err(e)) => { found += 1; report(stat, st, "execution", &format!("next pc 0x{:x}", exp.pc), "error", "exec_error", &e); }
                    Err(p) => {
                        let msg = p.downcast_ref::<String>().cloned().or_else(|| p.downcast_ref::<&str>().map(|s| s.to_string())).unwrap_or_default();
                        found += 1; report(stat, st, "execution", &format!("next pc 0x{:x}", exp.pc), "panic", "panic", &format!("panic while executing: {}", msg));
                    }
                }
            }
        }
    } }
    let per: Vec<String> = per_op.iter().map(|(k, v)| {
        let fields: Vec<String> = v.fields.iter().map(|(f, n)| format!("\"{}\":{}", f, n)).collect();
        format!("\"{}\":{{\"encodings\":{},\"evaluations\":{},\"disagreements\":{},\"rejected\":{},\"skipped\":{},\"fields\":{{{}}}}}", k, v.encodings, v.evaluations, v.disagreements, v.rejected, v.skipped, fields.join(","))
    }).collect();
    let rej: Vec<String> = per_op.iter().filter(|(_, v)| v.rejected > 0).map(|(k, v)| format!("\"{}\":{}", k, v.rejected)).collect();
    let rex: Vec<String> = per_op.iter().filter_map(|(k, v)| v.rejected_example.as_ref().map(|e| format!("\"{}\":\"{}\"", k, e))).collect();
    let mut tag_total: BTreeMap<String, u64> = BTreeMap::new();
    for ((_, d), (n, _)) in tagged.iter() { *tag_total.entry(d.clone()).or_insert(0) += n; }
    let tag_s: Vec<String> = tag_total.iter().map(|(d, n)| format!("\"{}\":{}", d, n)).collect();
    let tag_op: Vec<String> = tagged.iter().map(|((o, d), (n, _))| format!("\"{}/{}\":{}", o, d, n)).collect();
    println!("{{\"summary\":true,\"evaluations\":{},\"disagreements\":{},\"tagged_known_defect\":{{{}}},\"tagged_by_op\":{{{}}},\"per_op\":{{{}}},\"rejected_encodings\":{},\"rejected_per_op\":{{{}}},\"rejected_examples\":{{{}}},\"encodings\":{},\"skipped_states\":{}}}",
        evals, found, tag_s.join(","), tag_op.join(","), per.join(","), rejected, rej.join(","), rex.join(","), encodings, skipped);
}
