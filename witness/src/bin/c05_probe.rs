//! Reproductions of the defects unit C05's enumerator found (units/C05/known_findings_proposed.json, proposed_fix_1..5.diff).
//! Each is the five-line call a maintainer can paste into a test; the probe prints what the tree under test does.
//! `cargo run --offline --bin c05_probe` (debug build: D5 panics with `attempt to add with overflow`; release: wraps).
use falcon::il::Operation;
use falcon::translator::aarch64::AArch64;
use falcon::translator::mips::Mips;
use falcon::translator::ppc::Ppc;
use falcon::translator::x86::{Amd64, X86};
use falcon::translator::{BlockTranslationResult, Options, OptionsBuilder, Translator};
use std::panic::{catch_unwind, AssertUnwindSafe};

fn show(name: &str, f: impl FnOnce() -> Result<BlockTranslationResult, falcon::Error>) {
    match catch_unwind(AssertUnwindSafe(f)) {
        Err(_) => println!("{}: PANIC", name),
        Ok(Err(e)) => println!("{}: Err({})", name, e),
        Ok(Ok(r)) => {
            let mut ops = Vec::new();
            for (_, g) in r.instructions() {
                for b in g.blocks() {
                    for i in b.instructions() {
                        if let Operation::Assign { dst, src } = i.operation() { if dst.bits() != src.bits() { ops.push(format!("ILL-FORMED `{}` ({} bits := {} bits)", i.operation(), dst.bits(), src.bits())); } }
                    }
                }
                let reach: Vec<usize> = g.blocks().iter().map(|b| b.index()).filter(|b| Some(*b) != g.exit() && g.edges_out(*b).map(|e| e.is_empty()).unwrap_or(true)).collect();
                if !reach.is_empty() { ops.push(format!("blocks {:?} are not the exit and have no out-edge", reach)); }
            }
            let succ: Vec<String> = r.successors().iter().map(|(a, c)| format!("({:#x}, {})", a, c.as_ref().map(|c| c.to_string()).unwrap_or("-".into()))).collect();
            println!("{}: Ok, {} instruction graphs, successors [{}] {}", name, r.instructions().len(), succ.join(", "), ops.join("; "));
        }
    }
}

fn main() {
    std::panic::set_hook(Box::new(|i| eprintln!("  panic: {}", i)));
    let err = Options::new();
    let intr = OptionsBuilder::new().unsupported_are_intrinsics(true).build();
    // D1: a 16-bit value assigned to the 32-bit segment base (`mov es, [eax]`), a 64-bit one to xmm0 (`movsd xmm0, [ebx]` with 67)
    show("D1 x86   8e 00        ", || X86::new().translate_block(&[0x8e, 0x00], 0x1000, &err));
    show("D1 amd64 f2 67 0f 10 03", || Amd64::new().translate_block(&[0xf2, 0x67, 0x0f, 0x10, 0x03], 0x1000, &err));
    // D2: MIPS branch without the bytes of its delay slot; branch in a delay slot
    show("D2 mips  04000000 (bltz, no delay slot)", || Mips::new().translate_block(&[0x04, 0, 0, 0], 0x1000, &err));
    show("D2 mips  08000000 (j, no delay slot)   ", || Mips::new().translate_block(&[0x08, 0, 0, 0], 0x1000, &err));
    show("D2 mips  bltz ; bgez ; nop             ", || Mips::new().translate_block(&[0x04, 0x60, 0xaa, 0xaa, 0x05, 0x00, 0x00, 0x04, 0, 0, 0, 0], 0x1000, &err));
    // D3: AArch64 panics on SVE forms of add / sub and on an arrangement of a predicate register
    show("D3 a64   ffff6025 (add z31.h, z31.h, #255)", || AArch64::new().translate_block(&[0xff, 0xff, 0x60, 0x25], 0x1000, &err));
    show("D3 a64   ffff6125 (sub)                   ", || AArch64::new().translate_block(&[0xff, 0xff, 0x61, 0x25], 0x1000, &err));
    show("D3 a64   01408025 (p1.h)                  ", || AArch64::new().translate_block(&[0x01, 0x40, 0x80, 0x25], 0x1000, &err));
    // D4: AArch64, intrinsics policy: the half-built block of the semantics that gave up stays in the graph
    show("D4 a64   00000004 (intrinsics policy)", || AArch64::new().translate_block(&[0, 0, 0, 4], 0x1000, &intr));
    // D5: address arithmetic at the end of the address space
    show("D5 x86   16 x 00 at 0xffff_ffff_ffff_fff0", || X86::new().translate_block(&[0u8; 16], 0xffff_ffff_ffff_fff0, &err));
    show("D5 mips  4 x nop at 0xffff_ffff_ffff_fff0", || Mips::new().translate_block(&[0u8; 16], 0xffff_ffff_ffff_fff0, &err));
    let ppc_li: Vec<u8> = [0x38u8, 0x60, 0x00, 0x10].iter().cycle().take(16).cloned().collect();
    show("D5 ppc   4 x li r3,16 at 0xffff_ffff_ffff_fff0", || Ppc::new().translate_block(&ppc_li, 0xffff_ffff_ffff_fff0, &err));
    let a64_nop: Vec<u8> = [0x1fu8, 0x20, 0x03, 0xd5].iter().cycle().take(16).cloned().collect();
    show("D5 a64   4 x nop at 0xffff_ffff_ffff_fff0", || AArch64::new().translate_block(&a64_nop, 0xffff_ffff_ffff_fff0, &err));
}
