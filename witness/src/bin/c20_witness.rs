//! Bounded witness search for unit C20 (labelled BOUNDED, never counted as proved).
//!
//! For each of the seven architectures the descriptor object (`falcon::architecture::*`) is compared with
//!  (1) an independent transcription of the platform ABI (argument registers in order, result register, where the
//!      return address lives, stack-argument slot size / first offset, stack pointer, byte order, word size);
//!  (2) what the REAL translator emits: hand-assembled machine code naming EVERY architectural integer register
//!      (and the 128-bit SIMD registers on AArch64, the link register on PowerPC) is lifted through
//!      `arch.translator().translate_block(..)`; the (name, width) of every scalar the lifted IL reads or writes
//!      is collected; the descriptor's stack pointer and every register of its default calling convention must be
//!      among them;
//!  (3) byte order: the probe instructions are encoded in the ISA's instruction byte order and must lift; a word load
//!      from the stack (`mov eax,[esp]`, `lw $v0,0($sp)`, `lwz r3,0(r1)`, `ldr w0,[sp]`) is lifted, executed on
//!      falcon's executor over a memory of `arch.endian()` holding the bytes 11 22 33 44, and must deliver the value
//!      the machine would read;
//!  (4) ELF headers: minimal ELF headers for every (machine, class, data) falcon supports are handed to
//!      `loader::Elf::new`; the architecture it selects must have the header's byte order, word size and machine.
//! Output: one JSON line per disagreement, then a summary line.
use falcon::analysis::calling_convention::{ArgumentType, CallingConvention, ReturnAddressType};
use falcon::architecture::{AArch64, AArch64Eb, Amd64, Architecture, Endian, Mips, Mipsel, Ppc, X86};
use falcon::executor::{Memory, State};
use falcon::il;
use falcon::loader::{Elf, Loader};
use falcon::translator::Options;
use std::collections::{BTreeMap, BTreeSet};
use std::panic::{catch_unwind, AssertUnwindSafe};

struct Abi {
    name: &'static str,
    big: bool,        // data byte order of the machine
    instr_big: bool,  // byte order of the instruction stream
    word: usize,      // bits
    sp: (&'static str, usize),
    args: Vec<(&'static str, usize)>,
    ret: (&'static str, usize),
    ra_reg: Option<(&'static str, usize)>, // None: on the stack at offset 0
    stack_first: usize,
}

fn abi_rows() -> Vec<Abi> {
    vec![
        Abi { name: "x86", big: false, instr_big: false, word: 32, sp: ("esp", 32), args: vec![], ret: ("eax", 32), ra_reg: None, stack_first: 4 },
        Abi { name: "amd64", big: false, instr_big: false, word: 64, sp: ("rsp", 64),
              args: vec![("rdi", 64), ("rsi", 64), ("rdx", 64), ("rcx", 64), ("r8", 64), ("r9", 64)], ret: ("rax", 64), ra_reg: None, stack_first: 8 },
        Abi { name: "mips", big: true, instr_big: true, word: 32, sp: ("$sp", 32),
              args: vec![("$a0", 32), ("$a1", 32), ("$a2", 32), ("$a3", 32)], ret: ("$v0", 32), ra_reg: Some(("$ra", 32)), stack_first: 16 },
        Abi { name: "mipsel", big: false, instr_big: false, word: 32, sp: ("$sp", 32),
              args: vec![("$a0", 32), ("$a1", 32), ("$a2", 32), ("$a3", 32)], ret: ("$v0", 32), ra_reg: Some(("$ra", 32)), stack_first: 16 },
        Abi { name: "ppc", big: true, instr_big: true, word: 32, sp: ("r1", 32),
              args: vec![("r3", 32), ("r4", 32), ("r5", 32), ("r6", 32), ("r7", 32), ("r8", 32), ("r9", 32), ("r10", 32)],
              ret: ("r3", 32), ra_reg: Some(("lr", 32)), stack_first: 8 },
        Abi { name: "aarch64", big: false, instr_big: false, word: 64, sp: ("sp", 64),
              args: (0..8).map(|i| (XN[i], 64)).collect(), ret: ("x0", 64), ra_reg: Some(("x30", 64)), stack_first: 0 },
        // A64 instructions are little-endian in both data byte orders (Arm ARM B2.6.2)
        Abi { name: "aarch64eb", big: true, instr_big: false, word: 64, sp: ("sp", 64),
              args: (0..8).map(|i| (XN[i], 64)).collect(), ret: ("x0", 64), ra_reg: Some(("x30", 64)), stack_first: 0 },
    ]
}

const XN: [&str; 8] = ["x0", "x1", "x2", "x3", "x4", "x5", "x6", "x7"];

fn arch_of(name: &str) -> Box<dyn Architecture> {
    match name {
        "x86" => Box::new(X86::new()),
        "amd64" => Box::new(Amd64::new()),
        "mips" => Box::new(Mips::new()),
        "mipsel" => Box::new(Mipsel::new()),
        "ppc" => Box::new(Ppc::new()),
        "aarch64" => Box::new(AArch64::new()),
        _ => Box::new(AArch64Eb::new()),
    }
}

fn word(w: u32, big: bool) -> Vec<u8> { if big { w.to_be_bytes().to_vec() } else { w.to_le_bytes().to_vec() } }

/// machine code that names every architectural register of the class the calling conventions talk about
/// (label, bytes)
fn probes(a: &Abi) -> Vec<(String, Vec<u8>)> {
    let mut v = Vec::new();
    match a.name {
        "x86" => {
            for r in 0..8u8 { v.push((format!("mov r{0},r{0}", r), vec![0x89, 0xC0 | (r << 3) | r])); }
            v.push(("push eax".into(), vec![0x50]));
        }
        "amd64" => {
            for r in 0..16u8 {
                let rex = 0x48 | if r >= 8 { 0x05 } else { 0 };
                v.push((format!("mov r{0},r{0}", r), vec![rex, 0x89, 0xC0 | ((r & 7) << 3) | (r & 7)]));
            }
            v.push(("push rax".into(), vec![0x50]));
        }
        "mips" | "mipsel" => {
            for r in 1..32u32 { v.push((format!("addiu ${0},${0},0", r), word((9 << 26) | (r << 21) | (r << 16), a.instr_big))); }
            v.push(("addiu $sp,$sp,-32".into(), word(0x27bdffe0, a.instr_big)));
            // jal 0x1000 ; nop  (writes $ra)
            let mut j = word(0x0c000400, a.instr_big); j.extend(word(0, a.instr_big));
            v.push(("jal".into(), j));
        }
        "ppc" => {
            for r in 0..32u32 { v.push((format!("mr r{0},r{0}", r), word((31 << 26) | (r << 21) | (r << 16) | (r << 11) | (444 << 1), true))); }
            v.push(("stwu r1,-16(r1)".into(), word(0x9421fff0, true)));
            v.push(("mflr r0".into(), word(0x7c0802a6, true)));
            v.push(("mtlr r0".into(), word(0x7c0803a6, true)));
            v.push(("blr".into(), word(0x4e800020, true)));
            v.push(("bl".into(), word(0x48000011, true)));
        }
        _ => {
            for r in 0..31u32 { v.push((format!("mov x{0},x{0}", r), word(0xAA0003E0 | (r << 16) | r, false))); }
            v.push(("add sp,sp,#16".into(), word(0x910043FF, false)));
            v.push(("mov x0,sp".into(), word(0x910003E0, false)));
            for r in 0..32u32 {
                v.push((format!("ldr q{},[sp]", r), word(0x3DC003E0 | r, false)));
                v.push((format!("str q{},[sp]", r), word(0x3D8003E0 | r, false)));
            }
            v.push(("ret".into(), word(0xD65F03C0, false)));
            v.push(("bl".into(), word(0x94000004, false)));
        }
    }
    v
}

/// word load from the stack into (the low 32 bits of) the result register
fn load_probe(a: &Abi) -> (Vec<u8>, &'static str) {
    match a.name {
        "x86" => (vec![0x8B, 0x04, 0x24], "eax"),
        "amd64" => (vec![0x8B, 0x04, 0x24], "rax"),
        "mips" | "mipsel" => (word(0x8FA20000, a.instr_big), "$v0"),
        "ppc" => (word(0x80610000, true), "r3"),
        _ => (word(0xB94003E0, false), "x0"),
    }
}

fn collect(cfg: &il::ControlFlowGraph, out: &mut BTreeSet<(String, usize)>) {
    for b in cfg.blocks() {
        for i in b.instructions() {
            if let Some(ss) = i.scalars() { for s in ss { out.insert((s.name().to_string(), s.bits())); } }
        }
    }
    for e in cfg.edges() {
        if let Some(c) = e.condition() { for s in c.scalars() { out.insert((s.name().to_string(), s.bits())); } }
    }
}

fn minimal_elf(machine: u16, class64: bool, big: bool) -> Vec<u8> {
    let mut b = vec![0x7f, b'E', b'L', b'F', if class64 { 2 } else { 1 }, if big { 2 } else { 1 }, 1, 0, 0, 0, 0, 0, 0, 0, 0, 0];
    let p16 = |b: &mut Vec<u8>, v: u16| if big { b.extend(v.to_be_bytes()) } else { b.extend(v.to_le_bytes()) };
    let p32 = |b: &mut Vec<u8>, v: u32| if big { b.extend(v.to_be_bytes()) } else { b.extend(v.to_le_bytes()) };
    let p64 = |b: &mut Vec<u8>, v: u64| if big { b.extend(v.to_be_bytes()) } else { b.extend(v.to_le_bytes()) };
    p16(&mut b, 2); p16(&mut b, machine); p32(&mut b, 1);
    if class64 { p64(&mut b, 0); p64(&mut b, 0); p64(&mut b, 0); } else { p32(&mut b, 0); p32(&mut b, 0); p32(&mut b, 0); }
    p32(&mut b, 0);
    p16(&mut b, if class64 { 64 } else { 52 });
    p16(&mut b, if class64 { 56 } else { 32 }); p16(&mut b, 0);
    p16(&mut b, if class64 { 64 } else { 40 }); p16(&mut b, 0); p16(&mut b, 0);
    b
}

fn main() {
    std::panic::set_hook(Box::new(|_| {}));
    let mut found = 0usize;
    let mut evals = 0u64;
    let mut per_op: BTreeMap<String, usize> = BTreeMap::new();
    // `related`: the functions / lemmas of unit C20 whose obligation states the same fact
    macro_rules! report {
        ($op:expr, $arch:expr, $what:expr, $got:expr, $exp:expr, $related:expr) => {{
            let c = per_op.entry($op.to_string()).or_insert(0);
            *c += 1;
            if *c <= 6 {
                let rel: Vec<String> = $related.iter().map(|s: &&str| format!("\"{}\"", s)).collect();
                println!("{{\"witness\":true,\"op\":\"{}\",\"arch\":\"{}\",\"query\":\"{}\",\"got\":\"{}\",\"expected\":\"{}\",\"ops_related\":[{}]}}",
                    $op, $arch, $what, format!("{}", $got).replace('"', "'"), format!("{}", $exp).replace('"', "'"), rel.join(","));
            }
            found += 1;
        }};
    }
    let opts = Options::default();
    for a in abi_rows() {
        let arch = arch_of(a.name);
        let cc: CallingConvention = arch.calling_convention();
        let sc = |p: &(&str, usize)| il::scalar(p.0, p.1);

        // ---- (1) descriptors against the ABI transcription
        evals += 1;
        if arch.name() != a.name { report!("name", a.name, "name()", arch.name(), a.name, ["name"]); }
        evals += 1;
        let e_big = arch.endian() == Endian::Big;
        if e_big != a.big { report!("endian", a.name, "endian()", format!("{:?}", arch.endian()), if a.big { "Big" } else { "Little" }, ["endian"]); }
        evals += 1;
        if arch.word_size() != a.word { report!("word_size", a.name, "word_size()", arch.word_size(), a.word, ["word_size"]); }
        evals += 1;
        if arch.stack_pointer() != sc(&a.sp) { report!("stack_pointer", a.name, "stack_pointer()", arch.stack_pointer(), sc(&a.sp), ["stack_pointer"]); }
        evals += 1;
        let want_args: Vec<il::Scalar> = a.args.iter().map(|p| sc(p)).collect();
        if cc.argument_registers() != &want_args[..] {
            report!("abi_args", a.name, "calling_convention().argument_registers()", format!("{:?}", cc.argument_registers().iter().map(|s| s.to_string()).collect::<Vec<_>>()),
                format!("{:?}", want_args.iter().map(|s| s.to_string()).collect::<Vec<_>>()), ["new", "lemma_abi_args", "calling_convention"]);
        }
        for n in 0..a.args.len() + 3 {
            evals += 1;
            let want = if n < a.args.len() { ArgumentType::Register(sc(&a.args[n])) } else { ArgumentType::Stack(a.stack_first + (a.word / 8) * (n - a.args.len())) };
            let got = cc.argument_type(n);
            if got != want {
                let op = if n < a.args.len() { "abi_args" } else if let ArgumentType::Stack(o) = got {
                    if o.wrapping_sub(cc.stack_argument_offset()) == (a.word / 8) * (n - a.args.len()) { "stack_first" } else { "stack_args" }
                } else { "abi_args" };
                let rel: [&str; 4] = match op {
                    "abi_args" => ["new", "argument_type", "lemma_abi_args", "calling_convention"],
                    "stack_first" => ["new", "argument_type", "lemma_stack_first", "calling_convention"],
                    _ => ["new", "argument_type", "lemma_stack_args", "calling_convention"],
                };
                report!(op, a.name, format!("calling_convention().argument_type({})", n), format!("{:?}", got), format!("{:?}", want), rel);
            }
        }
        evals += 1;
        if cc.stack_argument_length() * 8 != a.word { report!("stack_args", a.name, "stack_argument_length()", cc.stack_argument_length(), a.word / 8, ["new", "lemma_stack_args", "calling_convention"]); }
        evals += 1;
        if cc.stack_argument_offset() != a.stack_first { report!("stack_first", a.name, "stack_argument_offset()", cc.stack_argument_offset(), a.stack_first, ["new", "lemma_stack_first", "calling_convention"]); }
        evals += 1;
        if cc.return_register() != &sc(&a.ret) { report!("abi_return", a.name, "return_register()", cc.return_register(), sc(&a.ret), ["new", "lemma_abi_return", "calling_convention"]); }
        evals += 1;
        let want_ra = match &a.ra_reg { Some(p) => ReturnAddressType::Register(sc(p)), None => ReturnAddressType::Stack(0) };
        if cc.return_address_type() != &want_ra { report!("return_address", a.name, "return_address_type()", format!("{:?}", cc.return_address_type()), format!("{:?}", want_ra), ["new", "lemma_return_address", "calling_convention"]); }
        evals += 1;
        if !cc.preserved_registers().contains(&sc(&a.sp)) || cc.is_preserved(&sc(&a.sp)) != Some(true) {
            report!("sp_preserved", a.name, "is_preserved(stack pointer)", format!("{:?}", cc.is_preserved(&sc(&a.sp))), "Some(true)", ["new", "lemma_sp_preserved", "calling_convention"]);
        }
        for p in cc.preserved_registers() {
            evals += 1;
            if let Some(t) = cc.trashed_registers().iter().find(|t| t.name() == p.name()) {
                report!("disjoint", a.name, "preserved and trashed", format!("{} preserved, {} trashed", p, t), "no register in both sets", ["new", "lemma_disjoint", "calling_convention"]);
            }
        }
        for s in cc.argument_registers().iter().chain(std::iter::once(cc.return_register())).chain(cc.return_address_type().register().into_iter()) {
            evals += 1;
            if s.bits() != a.word { report!("widths", a.name, "width of an argument / result / return-address register", s, a.word, ["new", "lemma_widths", "calling_convention"]); }
        }

        // ---- (2) what the translator emits
        let tr = arch.translator();
        let mut emitted: BTreeSet<(String, usize)> = BTreeSet::new();
        for (label, bytes) in probes(&a) {
            evals += 1;
            let r = catch_unwind(AssertUnwindSafe(|| tr.translate_block(&bytes, 0x1000, &opts)));
            match r {
                Ok(Ok(btr)) => { for (_, cfg) in btr.instructions() { collect(cfg, &mut emitted); } }
                Ok(Err(e)) => { report!("lift", a.name, format!("translate_block({}) bytes {:02x?}", label, bytes), format!("Err({})", e), "lifted IL", ["translator", "endian"]); }
                Err(_) => { report!("lift", a.name, format!("translate_block({}) bytes {:02x?}", label, bytes), "panic", "lifted IL", ["translator", "endian"]); }
            }
        }
        let has = |s: &il::Scalar| emitted.contains(&(s.name().to_string(), s.bits()));
        let near = |s: &il::Scalar| -> String {
            let same: Vec<String> = emitted.iter().filter(|e| e.0 == s.name()).map(|e| format!("{}:{}", e.0, e.1)).collect();
            if same.is_empty() { "a scalar the lifted code uses (no scalar of that name is emitted)".to_string() } else { format!("a scalar the lifted code uses (emitted: {})", same.join(", ")) }
        };
        evals += 1;
        let sp = arch.stack_pointer();
        if !has(&sp) { report!("sp_produced", a.name, "stack_pointer() among the scalars of the lifted code", sp, near(&sp), ["stack_pointer", "lemma_sp_produced"]); }
        for s in cc.argument_registers() {
            evals += 1;
            if !has(s) { report!("produced_args", a.name, "argument register among the scalars of the lifted code", s, near(s), ["new", "lemma_produced_args", "calling_convention"]); }
        }
        for s in cc.preserved_registers() {
            evals += 1;
            if !has(s) { report!("produced_preserved", a.name, "preserved register among the scalars of the lifted code", s, near(s), ["new", "lemma_produced_preserved", "calling_convention"]); }
        }
        for s in cc.trashed_registers() {
            evals += 1;
            if !has(s) { report!("produced_trashed", a.name, "trashed register among the scalars of the lifted code", s, near(s), ["new", "lemma_produced_trashed", "calling_convention"]); }
        }
        for s in std::iter::once(cc.return_register()).chain(cc.return_address_type().register().into_iter()) {
            evals += 1;
            if !has(s) { report!("produced_ret", a.name, "result / return-address register among the scalars of the lifted code", s, near(s), ["new", "lemma_produced_ret", "calling_convention"]); }
        }

        // ---- (3) byte order of a word load, executed with a memory of arch.endian()
        evals += 1;
        let (bytes, dst) = load_probe(&a);
        let r = catch_unwind(AssertUnwindSafe(|| -> Result<Option<u64>, String> {
            let btr = tr.translate_block(&bytes, 0x1000, &opts).map_err(|e| format!("{}", e))?;
            let mut st = State::new(Memory::new(arch.endian()));
            let base = 0x8000u64;
            for (k, v) in [0x11u64, 0x22, 0x33, 0x44, 0, 0, 0, 0].iter().enumerate() {
                st.memory_mut().store(base + k as u64, il::const_(*v, 8)).map_err(|e| format!("{}", e))?;
            }
            st.set_scalar(sp.name(), il::const_(base, sp.bits()));
            for (_, cfg) in btr.instructions() {
                let b = cfg.block(cfg.entry().ok_or("no entry")?).map_err(|e| format!("{}", e))?;
                for i in b.instructions() {
                    st = st.execute(i.operation()).map_err(|e| format!("{}", e))?.into();
                }
            }
            Ok(st.get_scalar(dst).and_then(|c| c.value_u64()).map(|v| v & 0xffff_ffff))
        }));
        let want = if a.big { 0x11223344u64 } else { 0x44332211u64 };
        match r {
            Ok(Ok(Some(v))) if v == want => {}
            Ok(Ok(v)) => { report!("endian", a.name, "word load from the stack through the lifted code, memory of arch.endian() = 11 22 33 44", format!("{:x?}", v), format!("{:#x}", want), ["endian"]); }
            Ok(Err(e)) => { report!("endian", a.name, "word load from the stack through the lifted code", e, format!("{:#x}", want), ["endian"]); }
            Err(_) => { report!("endian", a.name, "word load from the stack through the lifted code", "panic", format!("{:#x}", want), ["endian"]); }
        }
    }

    // ---- (4) ELF header -> architecture
    let headers: [(u16, bool, bool, &str); 7] = [
        (3, false, false, "x86"), (62, true, false, "amd64"), (8, false, true, "mips"), (8, false, false, "mipsel"),
        (20, false, true, "ppc"), (183, true, false, "aarch64"), (183, true, true, "aarch64eb"),
    ];
    for (machine, class64, big, name) in headers {
        evals += 1;
        let bytes = minimal_elf(machine, class64, big);
        match catch_unwind(AssertUnwindSafe(|| Elf::new(bytes, 0))) {
            Ok(Ok(elf)) => {
                let ar = elf.architecture();
                let got = format!("{} {:?} {}", ar.name(), ar.endian(), ar.word_size());
                let want = format!("{} {} {}", name, if big { "Big" } else { "Little" }, if class64 { 64 } else { 32 });
                if got != want { report!("elf_architecture", name, format!("Elf::new(header e_machine={} class64={} big={}).architecture()", machine, class64, big), got, want, ["new", "elf_new", "endian", "word_size", "name"]); }
            }
            Ok(Err(e)) => { report!("elf_architecture", name, format!("Elf::new(header e_machine={} class64={} big={})", machine, class64, big), format!("Err({})", e), name, ["new", "elf_new", "endian"]); }
            Err(_) => { report!("elf_architecture", name, format!("Elf::new(header e_machine={})", machine), "panic", name, ["new", "elf_new", "endian"]); }
        }
    }

    // every (machine, class, byte order) combination, also the ones falcon does not support: whenever an architecture IS
    // selected it must be of the header's machine, and for the machines that exist in both byte orders (MIPS, PowerPC,
    // AArch64) its byte order must be the header's (an unsupported combination has to be rejected, not mapped to the
    // other byte order)
    for (machine, family) in [(3u16, "x86"), (62, "amd64"), (8, "mips"), (20, "ppc"), (183, "aarch64")] {
        for class64 in [false, true] { for big in [false, true] {
            evals += 1;
            let bytes = minimal_elf(machine, class64, big);
            if let Ok(Ok(elf)) = catch_unwind(AssertUnwindSafe(|| Elf::new(bytes, 0))) {
                let ar = elf.architecture();
                let name_ok = ar.name().starts_with(family);
                let order_ok = machine == 3 || machine == 62 || (format!("{:?}", ar.endian()) == if big { "Big" } else { "Little" });
                if !name_ok || !order_ok {
                    report!("elf_architecture", family, format!("Elf::new(header e_machine={} class64={} big={}).architecture()", machine, class64, big),
                        format!("{} {:?}", ar.name(), ar.endian()), format!("an error, or a {} architecture of the header's byte order ({})", family, if big { "Big" } else { "Little" }), ["new", "elf_new", "endian", "name"]);
                }
            }
        } }
    }

    let per: Vec<String> = per_op.iter().map(|(k, v)| format!("\"{}\":{}", k, v)).collect();
    println!("{{\"summary\":true,\"evaluations\":{},\"disagreements\":{},\"per_op\":{{{}}}}}", evals, found, per.join(","));
}
