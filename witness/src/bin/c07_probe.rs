//! Probe for unit C07 (the concrete executor): reproduces, on the REAL crate, the finding and the observations
//! recorded by the unit.  Prints one line per case; exits 0 always (the lines say what happened).
//!
//!  (i)   FINDING: a block whose ONLY out-edge is conditional with a guard that evaluates to 0 -
//!        the property says "reports an error when no guard holds"; `step()` follows the edge and returns Ok.
//!        Both for a block that ends in an instruction and for an empty block.
//!  (ii)  observation: an out-edge WITHOUT condition among several: Error::Custom("Failed to get edge condition")
//!        in the Instruction arm, Error::ExecutorNoEdgeCondition in the EmptyBlock arm.
//!  (iii) observation: `Assign` stores the evaluated value whatever `dst.bits()` says.
//!  (iv)  observation: `Driver::address()` panics when the location does not apply.
use falcon::architecture;
use falcon::architecture::Endian;
use falcon::executor::{Driver, Memory, State};
use falcon::il::*;
use falcon::RC;
use std::panic::{catch_unwind, AssertUnwindSafe};

fn driver(function: Function, location: ProgramLocation, scalars: Vec<(&str, Constant)>) -> Driver {
    let mut program = Program::new();
    program.add_function(function);
    let mut state = State::new(Memory::new(Endian::Little));
    for (n, c) in scalars {
        state.set_scalar(n, c);
    }
    Driver::new(RC::new(program), location, state, RC::new(architecture::Mips::new()))
}

fn show(r: &Result<Driver, falcon::Error>) -> String {
    match r {
        Ok(d) => format!("Ok(location = {:?})", d.location()),
        Err(e) => format!("Err({:?})", e),
    }
}

fn main() {
    std::panic::set_hook(Box::new(|_| {}));

    // (i-a) block 0: [ x = 7 ]  --(c == 1)-->  block 1: [ nop ];   c = 0
    {
        let mut cfg = ControlFlowGraph::new();
        let b0 = {
            let b = cfg.new_block().unwrap();
            b.assign(scalar("x", 8), expr_const(7, 8));
            b.index()
        };
        let b1 = {
            let b = cfg.new_block().unwrap();
            b.nop();
            b.index()
        };
        cfg.conditional_edge(b0, b1, Expression::cmpeq(expr_scalar("c", 1), expr_const(1, 1)).unwrap()).unwrap();
        cfg.set_entry(b0).unwrap();
        let f = Function::new(0x1000, cfg);
        let d = driver(f, ProgramLocation::new(Some(0), FunctionLocation::Instruction(0, 0)), vec![("c", const_(0, 1))]);
        let r = d.step();
        println!("(i-a) single conditional out-edge after an instruction, guard evaluates to 0: step() = {}   [property: Err(ExecutorNoValidLocation)]", show(&r));
    }

    // (i-b) the same with an empty block 0
    {
        let mut cfg = ControlFlowGraph::new();
        let b0 = cfg.new_block().unwrap().index();
        let b1 = {
            let b = cfg.new_block().unwrap();
            b.nop();
            b.index()
        };
        cfg.conditional_edge(b0, b1, Expression::cmpeq(expr_scalar("c", 1), expr_const(1, 1)).unwrap()).unwrap();
        cfg.set_entry(b0).unwrap();
        let f = Function::new(0x1000, cfg);
        let d = driver(f, ProgramLocation::new(Some(0), FunctionLocation::EmptyBlock(0)), vec![("c", const_(0, 1))]);
        let r = d.step();
        println!("(i-b) single conditional out-edge of an empty block, guard evaluates to 0: step() = {}   [property: Err(ExecutorNoValidLocation)]", show(&r));
    }

    // (i-c) control: two conditional out-edges, both guards 0 -> the error is reported
    {
        let mut cfg = ControlFlowGraph::new();
        let b0 = {
            let b = cfg.new_block().unwrap();
            b.nop();
            b.index()
        };
        let b1 = { let b = cfg.new_block().unwrap(); b.nop(); b.index() };
        let b2 = { let b = cfg.new_block().unwrap(); b.nop(); b.index() };
        cfg.conditional_edge(b0, b1, Expression::cmpeq(expr_scalar("c", 1), expr_const(1, 1)).unwrap()).unwrap();
        cfg.conditional_edge(b0, b2, Expression::cmpeq(expr_scalar("d", 1), expr_const(1, 1)).unwrap()).unwrap();
        cfg.set_entry(b0).unwrap();
        let f = Function::new(0x1000, cfg);
        let d = driver(f, ProgramLocation::new(Some(0), FunctionLocation::Instruction(0, 0)), vec![("c", const_(0, 1)), ("d", const_(0, 1))]);
        let r = d.step();
        println!("(i-c) control: two conditional out-edges, both guards 0: step() = {}", show(&r));
    }

    // (ii) an unconditional edge among several
    {
        for empty in [false, true] {
            let mut cfg = ControlFlowGraph::new();
            let b0 = {
                let b = cfg.new_block().unwrap();
                if !empty { b.nop(); }
                b.index()
            };
            let b1 = { let b = cfg.new_block().unwrap(); b.nop(); b.index() };
            let b2 = { let b = cfg.new_block().unwrap(); b.nop(); b.index() };
            cfg.unconditional_edge(b0, b1).unwrap();
            cfg.unconditional_edge(b0, b2).unwrap();
            cfg.set_entry(b0).unwrap();
            let f = Function::new(0x1000, cfg);
            let loc = if empty { FunctionLocation::EmptyBlock(0) } else { FunctionLocation::Instruction(0, 0) };
            let d = driver(f, ProgramLocation::new(Some(0), loc), vec![]);
            let r = d.step();
            println!("(ii) two unconditional out-edges, {}: step() = {}", if empty { "empty block" } else { "after an instruction" }, show(&r));
        }
    }

    // (iii) Assign of a 16-bit value to an 8-bit scalar
    {
        let mut cfg = ControlFlowGraph::new();
        let b0 = {
            let b = cfg.new_block().unwrap();
            b.assign(scalar("x", 8), expr_const(0x1234, 16));
            b.nop();
            b.index()
        };
        cfg.set_entry(b0).unwrap();
        let f = Function::new(0x1000, cfg);
        let d = driver(f, ProgramLocation::new(Some(0), FunctionLocation::Instruction(0, 0)), vec![]);
        match d.step() {
            Ok(d) => println!("(iii) x:8 = 0x1234:16 : x = {:?}", d.state().get_scalar("x")),
            Err(e) => println!("(iii) x:8 = 0x1234:16 : Err({:?})", e),
        }
    }

    // (iv) address() on a location that does not apply
    {
        let mut cfg = ControlFlowGraph::new();
        let b0 = { let b = cfg.new_block().unwrap(); b.nop(); b.index() };
        cfg.set_entry(b0).unwrap();
        let f = Function::new(0x1000, cfg);
        let d = driver(f, ProgramLocation::new(Some(7), FunctionLocation::Instruction(0, 0)), vec![]);
        let r = catch_unwind(AssertUnwindSafe(|| d.address()));
        println!("(iv) address() with function index 7 (no such function): {}", match r { Ok(a) => format!("{:?}", a), Err(_) => "PANIC".to_string() });
        let r = d.step();
        println!("(iv) step() on the same driver: {}", show(&r));
    }
}
