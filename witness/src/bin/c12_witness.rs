//! Bounded witness search for unit C12 (labelled bounded, never counted as proved): functions with 1-3 blocks
//! (entry block 0), every edge set, conditional edges guarded by a 1-bit scalar, 0-2 operations per block from an
//! alphabet with single and double reads, loads, stores, an intrinsic with declared effects and nops. Every walk
//! from the entry up to 9 locations is replayed while tracking the last writer of each scalar; the reaching
//! definitions, use-def and def-use chains are compared with what the property prescribes.
use falcon::analysis::{def_use, reaching_definitions, use_def};
use falcon::il::*;
use std::collections::{BTreeMap, BTreeSet};
use std::panic::{catch_unwind, AssertUnwindSafe};

#[derive(Clone, Copy, Debug, PartialEq, Eq, PartialOrd, Ord)]
enum Op { AK, BA, CAB, AA1, LdA, StA, CK, Nop, IntrAB, IntrW2 }
const OPS: [Op; 10] = [Op::AK, Op::BA, Op::CAB, Op::AA1, Op::LdA, Op::StA, Op::CK, Op::Nop, Op::IntrAB, Op::IntrW2];

fn writes(o: Op) -> Vec<&'static str> { match o { Op::AK | Op::AA1 | Op::LdA => vec!["a"], Op::BA => vec!["b"], Op::CAB => vec!["c"], Op::CK => vec!["g"], Op::IntrAB => vec!["a"], Op::IntrW2 => vec!["a", "b"], _ => vec![] } }
fn reads(o: Op) -> Vec<&'static str> { match o { Op::BA | Op::AA1 | Op::StA => vec!["a"], Op::CAB => vec!["a", "b"], Op::IntrAB => vec!["b"], _ => vec![] } }
fn is_assign_or_load(o: Op) -> bool { matches!(o, Op::AK | Op::BA | Op::CAB | Op::AA1 | Op::LdA | Op::CK) }

fn emit(b: &mut Block, o: Op) {
    let s = |n: &str| scalar(n, 32);
    let e = |n: &str| expr_scalar(n, 32);
    match o {
        Op::AK => b.assign(s("a"), expr_const(7, 32)),
        Op::BA => b.assign(s("b"), e("a")),
        Op::CAB => b.assign(s("c"), Expression::add(e("a"), e("b")).unwrap()),
        Op::AA1 => b.assign(s("a"), Expression::add(e("a"), expr_const(1, 32)).unwrap()),
        Op::LdA => b.load(s("a"), expr_const(0x100, 32)),
        Op::StA => b.store(expr_const(0x200, 32), e("a")),
        Op::CK => b.assign(scalar("g", 1), expr_const(1, 1)),
        Op::Nop => b.nop(),
        Op::IntrAB => b.intrinsic(Intrinsic::new("i", "i a, b", vec![], Some(vec![e("a")]), Some(vec![e("b")]), vec![0x90])),
        Op::IntrW2 => b.intrinsic(Intrinsic::new("j", "j a, b", vec![], Some(vec![e("a"), e("b")]), Some(vec![]), vec![0x91])),
    }
}

#[derive(Clone, Debug, PartialEq, Eq, PartialOrd, Ord)]
enum Loc { I(usize, usize), E(usize, usize), B(usize) }
fn loc_of_owned(l: &ProgramLocation, shift: usize) -> Loc {
    match l.function_location() { FunctionLocation::Instruction(b, i) => Loc::I(*b, i.wrapping_sub(shift)), FunctionLocation::Edge(h, t) => Loc::E(*h, *t), FunctionLocation::EmptyBlock(b) => Loc::B(*b) }
}

struct Model { blocks: Vec<Vec<Op>>, edges: BTreeSet<(usize, usize)>, cond: BTreeSet<(usize, usize)> }
impl Model {
    fn start(&self, b: usize) -> Loc { if self.blocks[b].is_empty() { Loc::B(b) } else { Loc::I(b, 0) } }
    fn succ(&self, l: &Loc) -> Vec<Loc> {
        let outs = |b: usize| -> Vec<Loc> { self.edges.iter().filter(|e| e.0 == b).map(|e| Loc::E(e.0, e.1)).collect() };
        match l { Loc::I(b, i) => if i + 1 < self.blocks[*b].len() { vec![Loc::I(*b, i + 1)] } else { outs(*b) }, Loc::E(_, t) => vec![self.start(*t)], Loc::B(b) => outs(*b) }
    }
    fn op(&self, l: &Loc) -> Option<Op> { if let Loc::I(b, i) = l { Some(self.blocks[*b][*i]) } else { None } }
    fn reads_of(&self, l: &Loc) -> Vec<&'static str> { match l { Loc::I(..) => reads(self.op(l).unwrap()), Loc::E(h, t) => if self.cond.contains(&(*h, *t)) { vec!["g"] } else { vec![] }, _ => vec![] } }
}

fn deep() -> bool { std::env::var("VERIF_TIER").map(|t| t == "thorough").unwrap_or(false) } // thorough tier: wider bounds
fn main() {
    std::panic::set_hook(Box::new(|_| {}));
    let mut found = 0usize;
    let mut evals = 0u64;
    let mut per_op: BTreeMap<String, usize> = BTreeMap::new();
    macro_rules! report {
        ($op:expr, $m:expr, $what:expr, $got:expr, $exp:expr) => {{
            let c = per_op.entry($op.to_string()).or_insert(0);
            *c += 1;
            if *c <= 3 {
                println!("{{\"witness\":true,\"op\":\"{}\",\"blocks\":\"{:?}\",\"edges\":\"{:?}\",\"query\":\"{}\",\"got\":\"{}\",\"expected\":\"{}\"}}",
                    $op, $m.blocks, $m.edges, $what, format!("{:?}", $got).replace('"', "'").chars().take(300).collect::<String>(), format!("{:?}", $exp).replace('"', "'").chars().take(300).collect::<String>());
            }
            found += 1;
        }};
    }
    // block contents: all sequences of length 0..=2 over OPS
    let mut contents: Vec<Vec<Op>> = vec![vec![]];
    for a in OPS { contents.push(vec![a]); }
    for a in OPS { for b in OPS { contents.push(vec![a, b]); } }
    let nc = contents.len();
    let mut counter = 0u64;
    let mut evals_fn = 0u64;
    for nb in 1..=3usize {
        let total = (nc as u64).pow(nb as u32);
        for cc in 0..total { for bits in 0u32..(1u32 << (nb * nb)) {
            counter += 1;
            // thin out deterministically: all 1-block, 1 in 11 of 2-block, 1 in 4001 of 3-block functions
            if nb == 2 && counter % (if deep() { 2 } else { 11 }) != 0 { continue; }
            if nb == 3 && counter % (if deep() { 307 } else { 4001 }) != 0 { continue; }
            let shift = (evals_fn % 2) as usize; evals_fn += 1;
            let mut cfg = ControlFlowGraph::new();
            let mut model = Model { blocks: vec![], edges: BTreeSet::new(), cond: BTreeSet::new() };
            let mut c = cc;
            for _ in 0..nb { let ops = contents[(c % nc as u64) as usize].clone(); c /= nc as u64; let b = cfg.new_block().unwrap();
                // every other function gets non-dense instruction indices (1, 2 instead of 0, 1): a leading nop is removed again
                if shift == 1 && !ops.is_empty() { b.nop(); }
                for o in &ops { emit(b, *o); }
                if shift == 1 && !ops.is_empty() { b.remove_instruction(0).unwrap(); }
                model.blocks.push(ops); }
            for h in 0..nb { let outs: Vec<usize> = (0..nb).filter(|t| bits & (1 << (h * nb + t)) != 0).collect();
                for (k, t) in outs.iter().enumerate() {
                    if outs.len() > 1 { let g = expr_scalar("g", 1); let cnd = if k == 0 { g } else { Expression::cmpeq(g, expr_const(0, 1)).unwrap() }; cfg.conditional_edge(h, *t, cnd).unwrap(); model.cond.insert((h, *t)); }
                    else { cfg.unconditional_edge(h, *t).unwrap(); }
                    model.edges.insert((h, *t));
                } }
            cfg.set_entry(0).unwrap();
            let function = Function::new(0, cfg);
            evals += 1;
            let res = catch_unwind(AssertUnwindSafe(|| (reaching_definitions(&function), use_def(&function), def_use(&function))));
            let (rd, ud, du) = match res {
                Ok((Ok(a), Ok(b), Ok(c))) => (a, b, c),
                other => { report!("completes", model, "reaching_definitions/use_def/def_use", other.is_ok(), "Ok"); continue; }
            };
            let conv = |m: &std::collections::HashMap<ProgramLocation, falcon::analysis::LocationSet>| -> BTreeMap<Loc, BTreeSet<Loc>> {
                m.iter().map(|(k, v)| (loc_of_owned(k, shift), v.locations().iter().map(|x| loc_of_owned(x, shift)).collect())).collect() };
            let (rd, ud, du) = (conv(&rd), conv(&ud), conv(&du));
            // def-use is exactly the inverse of use-def
            for (u, ds) in &ud { for d in ds { if !du.get(d).map(|s| s.contains(u)).unwrap_or(false) { report!("def_use", model, format!("d={:?} in use_def[{:?}]", d, u), "u not in def_use[d]", "inverse relation"); } } }
            for (d, us) in &du { for u in us { if !ud.get(u).map(|s| s.contains(d)).unwrap_or(false) { report!("def_use", model, format!("u={:?} in def_use[{:?}]", u, d), "d not in use_def[u]", "inverse relation"); } } }
            // walks from the entry, tracking the last writer of every scalar
            let mut work: Vec<(Loc, BTreeMap<&'static str, Loc>, usize)> = vec![(model.start(0), BTreeMap::new(), 0)];
            while let Some((l, mut lw, depth)) = work.pop() {
                evals += 1;
                // use-def: the last writer of every scalar the location reads
                for x in model.reads_of(&l) { if let Some(d) = lw.get(x) {
                    if !ud.get(&l).map(|s| s.contains(d)).unwrap_or(false) { report!("use_def", model, format!("use_def[{:?}] for scalar {}", l, x), ud.get(&l), d); } } }
                if let Some(o) = model.op(&l) { for x in writes(o) { lw.insert(x, l.clone()); } }
                // reaching definitions after l: the last writer of every scalar
                match rd.get(&l) {
                    Some(s) => for (x, d) in &lw { if !s.contains(d) { report!("reaching_definitions", model, format!("after {:?}, last writer of {}", l, x), s, d); } },
                    None => report!("reaching_definitions", model, format!("state of reachable location {:?}", l), "missing", "present"),
                }
                if depth < 9 { for n in model.succ(&l) { work.push((n, lw.clone(), depth + 1)); } }
            }
            // precision: every reported assignment or load reaches the location along a def-clear path
            for (l, s) in &rd { for d in s {
                let od = match model.op(d) { Some(o) if is_assign_or_load(o) => o, _ => continue };
                let xs = writes(od);
                // search: from d forward to l, not passing another assign/load of the same scalar strictly in between
                let mut seen: BTreeSet<Loc> = BTreeSet::new();
                let mut st = vec![d.clone()];
                let mut ok = d == l;
                while let Some(c) = st.pop() { for n in model.succ(&c) {
                    if &n == l { ok = true; }
                    let blocked = model.op(&n).map(|o| is_assign_or_load(o) && writes(o).iter().any(|w| xs.contains(w))).unwrap_or(false);
                    if !blocked && seen.insert(n.clone()) { st.push(n); }
                } }
                if !ok { report!("precision", model, format!("{:?} reported at {:?}", d, l), "no def-clear path", "a def-clear path"); }
            } }
        } }
    }
    let po: Vec<String> = per_op.iter().map(|(k, v)| format!("\"{}\":{}", k, v)).collect();
    println!("{{\"summary\":true,\"evaluations\":{},\"disagreements\":{},\"per_op\":{{{}}}}}", evals, found, po.join(","));
}
