//! Bounded witness search for unit C19, LINKER part (labelled bounded, never counted as proved).
//! Stand-alone binary AND module of c19_witness (`#[path] mod`), which calls `run` and merges the counts.
//!
//! Small dynamically linked programs are BUILT here byte by byte - an executable plus one to three shared objects with
//! DT_NEEDED, .dynsym/.dynstr (DT_HASH), .rel.dyn / .rela.dyn / .rel.plt, PT_INTERP, two PT_LOAD segments (text RX, data RW
//! with zero fill), for ELF32-LE i386, ELF32-BE/LE MIPS (GOT + DT_MIPS_* tags), ELF64-LE x86-64, ELF32-BE PPC and
//! ELF64-LE AArch64 - written to a fresh directory under /tmp and loaded through the real
//! `ElfLinkerBuilder::new(path).do_relocations(..).just_interpreter(..).ld_paths(..).link()`.
//! Everything the linker reports is compared with an INDEPENDENT model computed from the enumerated specification of
//! the objects (never re-parsed from the bytes): load order = depth-first over DT_NEEDED, bases 0 / 0x42000000 /
//! 0x44000000 / ..., symbol table = first exported definition in load order at st_value + ONE base of the defining
//! object; relocated words per the processor supplements (i386: R_386_32 = S + A, GLOB_DAT = JMP_SLOT = S, RELATIVE =
//! B + A with the addend in place; MIPS: local GOT entries + B, global GOT entries of undefined symbols = S, of defined
//! ones + B, R_MIPS_REL32 = A + B for symbol index 0 and A + S for a symbol with a GOT entry); every other byte and the
//! permissions of every segment of every object as in the file image at the object's base; nothing else mapped;
//! symbols() / function_entries() = those of the objects, each rebased once; program_entry() = the executable's;
//! architecture and byte order from the header; loaded() = the objects with their bases; get_interpreter().
//! Numbers in the `got` / `expected` fields of the witness lines are hexadecimal.
#![allow(dead_code)]
use falcon::architecture::Endian;
use falcon::loader::{ElfLinkerBuilder, Loader};
use falcon::memory::MemoryPermissions as P;
use std::collections::{BTreeMap, BTreeSet};
use std::panic::{catch_unwind, AssertUnwindSafe};
use std::path::PathBuf;

// ---- file layout (valid for both classes) -----------------------------------------------------------------
const PH: usize = 0x40;
const DYN: usize = 0x120;
const HASH: usize = 0x280;
const DYNSYM: usize = 0x290;
const DYNSTR: usize = 0x3b0;
const REL: usize = 0x450;
const RELA: usize = 0x490;
const PLT: usize = 0x4f0;
const PAY: usize = 0x550;
const INTERP: usize = 0x5d0;
const T_SIZE: usize = 0x600;
const D_OFF: usize = 0x600;
const D_FILESZ: usize = 0x100;
const D_MEMSZ: usize = 0x180;
const D_DELTA: u64 = 0x1000; // data vaddr = vbase + D_DELTA + file offset
const SHDR: usize = 0x700;
const LEN: usize = 0x800;

const LIB_BASE0: u64 = 0x4000_0000;
const LIB_STEP: u64 = 0x0200_0000;

#[derive(Clone, Copy, Debug, PartialEq)]
pub struct LCfg { pub name: &'static str, pub is64: bool, pub be: bool, pub machine: u16, pub arch: &'static str }
pub const I386: LCfg = LCfg { name: "ELF32-LE-386", is64: false, be: false, machine: 3, arch: "x86" };
pub const MIPSBE: LCfg = LCfg { name: "ELF32-BE-MIPS", is64: false, be: true, machine: 8, arch: "mips" };
pub const MIPSLE: LCfg = LCfg { name: "ELF32-LE-MIPS", is64: false, be: false, machine: 8, arch: "mipsel" };
pub const AMD64: LCfg = LCfg { name: "ELF64-LE-X86_64", is64: true, be: false, machine: 62, arch: "amd64" };
pub const PPC: LCfg = LCfg { name: "ELF32-BE-PPC", is64: false, be: true, machine: 20, arch: "ppc" };
pub const A64: LCfg = LCfg { name: "ELF64-LE-AARCH64", is64: true, be: false, machine: 183, arch: "aarch64" };

const STT_NOTYPE: u8 = 0; const STT_OBJECT: u8 = 1; const STT_FUNC: u8 = 2;
const STB_LOCAL: u8 = 0; const STB_GLOBAL: u8 = 1; const STB_WEAK: u8 = 2;

const R_386_32: u32 = 1; const R_386_GLOB_DAT: u32 = 6; const R_386_JMP_SLOT: u32 = 7; const R_386_RELATIVE: u32 = 8;
const R_MIPS_REL32: u32 = 3;

#[derive(Clone, Debug)]
struct LSym { name: &'static str, typ: u8, bind: u8, shndx: u16, value: u64 }
#[derive(Clone, Debug)]
struct LRel { off: u64, typ: u32, sym: usize, addend: i64 }
#[derive(Clone, Debug)]
struct Obj {
    file: &'static str,          // file name == DT_NEEDED name
    e_type: u16,
    vbase: u64,                  // link-time address of the text segment
    entry: u64,
    needed: Vec<&'static str>,
    interp: Option<&'static str>,
    syms: Vec<LSym>,             // .dynsym without the null symbol; `value` is the link-time address
    rel: Vec<LRel>,              // .rel.dyn
    rela: Vec<LRel>,             // .rela.dyn
    plt: Vec<LRel>,              // .rel.plt (REL on 32-bit, RELA on 64-bit)
    words: Vec<(u64, u32)>,      // 32-bit words in place in the data segment (link-time address, value)
    mips: Option<(u64, u64, u64)>, // (DT_MIPS_LOCAL_GOTNO, DT_MIPS_GOTSYM, DT_PLTGOT)
}

fn text_addr(o: &Obj, off: usize) -> u64 { o.vbase + off as u64 }
fn data_addr(o: &Obj, off: usize) -> u64 { o.vbase + D_DELTA + off as u64 }

struct Img { v: Vec<u8>, is64: bool, be: bool, at: usize }
impl Img {
    fn seek(&mut self, at: usize) { self.at = at; }
    fn raw(&mut self, b: &[u8]) { self.v[self.at..self.at + b.len()].copy_from_slice(b); self.at += b.len(); }
    fn u8(&mut self, x: u8) { self.raw(&[x]); }
    fn u16(&mut self, x: u16) { let b = if self.be { x.to_be_bytes() } else { x.to_le_bytes() }; self.raw(&b); }
    fn u32(&mut self, x: u32) { let b = if self.be { x.to_be_bytes() } else { x.to_le_bytes() }; self.raw(&b); }
    fn u64(&mut self, x: u64) { let b = if self.be { x.to_be_bytes() } else { x.to_le_bytes() }; self.raw(&b); }
    fn word(&mut self, x: u64) { if self.is64 { self.u64(x) } else { self.u32(x as u32) } }
}

fn build(cfg: &LCfg, o: &Obj) -> Vec<u8> {
    let mut w = Img { v: (0..LEN).map(|i| (((i * 11 + 5) % 249) as u8) | 1).collect(), is64: cfg.is64, be: cfg.be, at: 0 };
    let symsize: u64 = if cfg.is64 { 24 } else { 16 };
    let relsize: u64 = if cfg.is64 { 16 } else { 8 };
    let relasize: u64 = if cfg.is64 { 24 } else { 12 };
    let dynsize: usize = if cfg.is64 { 16 } else { 8 };
    // string table
    let mut dynstr = vec![0u8];
    let mut at: BTreeMap<&str, u32> = BTreeMap::new();
    for n in o.syms.iter().map(|s| s.name).chain(o.needed.iter().cloned()) {
        if !n.is_empty() && !at.contains_key(n) { at.insert(n, dynstr.len() as u32); dynstr.extend_from_slice(n.as_bytes()); dynstr.push(0); }
    }
    assert!(DYNSTR + dynstr.len() <= REL);
    // ELF header
    w.raw(&[0x7f, b'E', b'L', b'F', if cfg.is64 { 2 } else { 1 }, if cfg.be { 2 } else { 1 }, 1, 0, 0, 0, 0, 0, 0, 0, 0, 0]);
    let nph: u16 = if o.interp.is_some() { 4 } else { 3 };
    w.u16(o.e_type); w.u16(cfg.machine); w.u32(1);
    w.word(o.entry); w.word(PH as u64); w.word(SHDR as u64);
    w.u32(0);
    w.u16(if cfg.is64 { 64 } else { 52 }); w.u16(if cfg.is64 { 56 } else { 32 }); w.u16(nph);
    w.u16(if cfg.is64 { 64 } else { 40 }); w.u16(2); w.u16(0);
    // dynamic entries
    let plt_is_rela = cfg.is64;
    let mut dyns: Vec<(u64, u64)> = vec![];
    for n in &o.needed { dyns.push((1, at[n] as u64)); }
    dyns.push((4, text_addr(o, HASH))); dyns.push((5, text_addr(o, DYNSTR))); dyns.push((6, text_addr(o, DYNSYM)));
    dyns.push((10, dynstr.len() as u64)); dyns.push((11, symsize));
    if !o.rel.is_empty() { dyns.push((17, text_addr(o, REL))); dyns.push((18, o.rel.len() as u64 * relsize)); dyns.push((19, relsize)); }
    if !o.rela.is_empty() { dyns.push((7, text_addr(o, RELA))); dyns.push((8, o.rela.len() as u64 * relasize)); dyns.push((9, relasize)); }
    if !o.plt.is_empty() {
        dyns.push((23, text_addr(o, PLT))); dyns.push((2, o.plt.len() as u64 * if plt_is_rela { relasize } else { relsize })); dyns.push((20, if plt_is_rela { 7 } else { 17 }));
    }
    if let Some((local_gotno, gotsym, pltgot)) = o.mips {
        dyns.push((3, pltgot)); dyns.push((0x7000_000a, local_gotno)); dyns.push((0x7000_0013, gotsym)); dyns.push((0x7000_0011, o.syms.len() as u64 + 1));
    }
    dyns.push((0, 0));
    assert!(DYN + dyns.len() * dynsize <= HASH);
    // program headers: text, data, dynamic, [interp]
    w.seek(PH);
    let mut phs: Vec<(u32, u32, u64, u64, u64, u64)> = vec![
        (1, 5, 0, o.vbase, T_SIZE as u64, T_SIZE as u64),
        (1, 6, D_OFF as u64, data_addr(o, D_OFF), D_FILESZ as u64, D_MEMSZ as u64),
        (2, 6, DYN as u64, text_addr(o, DYN), (dyns.len() * dynsize) as u64, (dyns.len() * dynsize) as u64),
    ];
    if let Some(i) = o.interp { phs.push((3, 4, INTERP as u64, text_addr(o, INTERP), i.len() as u64 + 1, i.len() as u64 + 1)); }
    for (typ, flags, off, vaddr, filesz, memsz) in phs {
        if cfg.is64 { w.u32(typ); w.u32(flags); w.u64(off); w.u64(vaddr); w.u64(vaddr); w.u64(filesz); w.u64(memsz); w.u64(0x1000); }
        else { w.u32(typ); w.u32(off as u32); w.u32(vaddr as u32); w.u32(vaddr as u32); w.u32(filesz as u32); w.u32(memsz as u32); w.u32(flags); w.u32(0x1000); }
    }
    assert!(w.at <= DYN);
    w.seek(DYN);
    for (t, v) in &dyns { w.word(*t); w.word(*v); }
    w.seek(HASH); w.u32(1); w.u32(o.syms.len() as u32 + 1); w.u32(0); w.u32(0);
    // .dynsym
    w.seek(DYNSYM);
    assert!(DYNSYM as u64 + (o.syms.len() as u64 + 1) * symsize <= DYNSTR as u64);
    let null = LSym { name: "", typ: 0, bind: 0, shndx: 0, value: 0 };
    for s in std::iter::once(&null).chain(o.syms.iter()) {
        let name = if s.name.is_empty() { 0 } else { at[s.name] };
        let info = (s.bind << 4) | s.typ;
        if w.is64 { w.u32(name); w.u8(info); w.u8(0); w.u16(s.shndx); w.u64(s.value); w.u64(0); }
        else { w.u32(name); w.u32(s.value as u32); w.u32(0); w.u8(info); w.u8(0); w.u16(s.shndx); }
    }
    w.seek(DYNSTR); w.raw(&dynstr);
    // relocation tables
    let put_rel = |w: &mut Img, r: &LRel, rela: bool| {
        if w.is64 { w.u64(r.off); w.u64(((r.sym as u64) << 32) | r.typ as u64); if rela { w.u64(r.addend as u64); } }
        else { w.u32(r.off as u32); w.u32(((r.sym as u32) << 8) | r.typ); if rela { w.u32(r.addend as u32); } }
    };
    w.seek(REL); for r in &o.rel { put_rel(&mut w, r, false); } assert!(w.at <= RELA);
    w.seek(RELA); for r in &o.rela { put_rel(&mut w, r, true); } assert!(w.at <= PLT);
    w.seek(PLT); for r in &o.plt { put_rel(&mut w, r, plt_is_rela); } assert!(w.at <= PAY);
    if let Some(i) = o.interp { w.seek(INTERP); w.raw(i.as_bytes()); w.u8(0); assert!(w.at <= T_SIZE); }
    // words in place
    for (a, v) in &o.words {
        let off = (a - o.vbase - D_DELTA) as usize;
        assert!(off >= D_OFF && off + 4 <= D_OFF + D_FILESZ);
        w.seek(off); w.u32(*v);
    }
    // section headers: null, .dynstr (falcon's dt_needed() looks the dynamic string table up by section)
    w.seek(SHDR);
    let shsize = if cfg.is64 { 64 } else { 40 };
    w.raw(&vec![0u8; shsize * 2]);
    w.seek(SHDR + shsize);
    w.u32(0); w.u32(3); w.word(2); w.word(text_addr(o, DYNSTR)); w.word(DYNSTR as u64); w.word(dynstr.len() as u64); w.u32(0); w.u32(0); w.word(1); w.word(0);
    w.v
}

// ---- the model ---------------------------------------------------------------------------------------------
fn perm_bits(flags: u32) -> u32 {
    let mut p = P::NONE;
    if flags & 4 != 0 { p |= P::READ; }
    if flags & 2 != 0 { p |= P::WRITE; }
    if flags & 1 != 0 { p |= P::EXECUTE; }
    p.bits()
}
fn exported(s: &LSym) -> bool { s.value != 0 && s.shndx != 0 && (s.bind == STB_GLOBAL || s.bind == STB_WEAK) }

struct Model {
    order: Vec<usize>,                      // load order (indices into objs)
    base: BTreeMap<usize, u64>,
    symtab: BTreeMap<&'static str, u64>,
    mem: BTreeMap<u64, (u8, u32)>,
    relocated: Vec<(String, u64, u32)>,     // (description, absolute address, expected word)
    err: Option<String>,                    // Some(..): the link must fail
}

fn rd32(m: &BTreeMap<u64, (u8, u32)>, a: u64, be: bool) -> Option<u32> {
    let b: Option<Vec<u8>> = (0..4).map(|i| m.get(&(a + i)).map(|v| v.0)).collect();
    b.map(|b| if be { u32::from_be_bytes([b[0], b[1], b[2], b[3]]) } else { u32::from_le_bytes([b[0], b[1], b[2], b[3]]) })
}
fn wr32(m: &mut BTreeMap<u64, (u8, u32)>, a: u64, v: u32, be: bool) {
    let b = if be { v.to_be_bytes() } else { v.to_le_bytes() };
    for i in 0..4 { let e = m.get_mut(&(a + i as u64)).expect("model: relocated word outside every segment"); e.0 = b[i]; }
}

/// `bases`: None = the layout falcon documents (first library at 0x42000000, step 0x2000000); Some = the bases the linker
/// reports (name -> base), used after they passed the consistency check in `run` (primary at 0, images disjoint)
fn model(cfg: &LCfg, objs: &[Obj], files: &[Vec<u8>], primary: usize, relocate: bool, just_interp: bool, bases: Option<&BTreeMap<String, u64>>) -> Model {
    let index: BTreeMap<&str, usize> = objs.iter().enumerate().map(|(i, o)| (o.file, i)).collect();
    let mut m = Model { order: vec![], base: BTreeMap::new(), symtab: BTreeMap::new(), mem: BTreeMap::new(), relocated: vec![], err: None };
    // load order and bases
    let mut next = LIB_BASE0;
    fn visit(i: usize, b: u64, objs: &[Obj], index: &BTreeMap<&str, usize>, m: &mut Model, next: &mut u64, just_interp: bool, post: &mut Vec<usize>) {
        m.order.push(i); m.base.insert(i, b);
        if just_interp {
            if let Some(ip) = objs[i].interp {
                let name = ip.rsplit('/').next().unwrap();
                let j = index[name];
                visit(j, LIB_BASE0, objs, index, m, next, just_interp, post);
            }
        } else {
            for n in &objs[i].needed {
                let j = index[n];
                if !m.base.contains_key(&j) { *next += LIB_STEP; let b = *next; visit(j, b, objs, index, m, next, just_interp, post); }
            }
        }
        post.push(i);
    }
    let mut post = vec![];
    visit(primary, 0, objs, &index, &mut m, &mut next, just_interp, &mut post);
    if let Some(bs) = bases { for i in m.order.clone() { if let Some(b) = bs.get(objs[i].file) { m.base.insert(i, *b); } } }
    // images and symbol table, in load order
    for &i in &m.order.clone() {
        let (o, b, f) = (&objs[i], m.base[&i], &files[i]);
        for (off, vaddr, filesz, memsz, flags) in [(0usize, o.vbase, T_SIZE, T_SIZE, 5u32), (D_OFF, data_addr(o, D_OFF), D_FILESZ, D_MEMSZ, 6u32)] {
            for k in 0..memsz { m.mem.insert(vaddr + b + k as u64, (if k < filesz { f[off + k] } else { 0 }, perm_bits(flags))); }
        }
        for s in &o.syms { if exported(s) && !m.symtab.contains_key(s.name) { m.symtab.insert(s.name, s.value + b); } }
    }
    if !relocate { return m; }
    if cfg.machine != 3 && cfg.machine != 8 { m.err = Some("ElfLinkerRelocationsUnsupported".to_string()); return m; }
    // relocations; an object is relocated once its dependencies are loaded (targets are disjoint: the order is immaterial)
    for &i in &post {
        let (o, b) = (&objs[i], m.base[&i]);
        let sym_of = |k: usize| -> Option<&LSym> { if k == 0 { None } else { o.syms.get(k - 1) } };
        if cfg.machine == 3 {
            for r in o.rela.iter().chain(o.rel.iter()).chain(o.plt.iter()) {
                let a = r.off + b;
                let s = sym_of(r.sym).and_then(|s| m.symtab.get(s.name).cloned());
                let inplace = rd32(&m.mem, a, cfg.be).unwrap();
                let v = match r.typ {
                    R_386_32 => match s { Some(s) => (s as u32).wrapping_add(inplace), None => { m.err = Some("unresolved".into()); return m; } },
                    R_386_GLOB_DAT => match s { Some(s) => s as u32, None => continue },
                    R_386_JMP_SLOT => match s { Some(s) => s as u32, None => { m.err = Some("unresolved".into()); return m; } },
                    R_386_RELATIVE => (b as u32).wrapping_add(inplace),
                    _ => { m.err = Some("unsupported relocation type".into()); return m; }
                };
                wr32(&mut m.mem, a, v, cfg.be);
                m.relocated.push((format!("{} type {} at {:#x} symbol {:?}", o.file, r.typ, r.off, sym_of(r.sym).map(|s| s.name)), a, v));
            }
        } else {
            let (local_gotno, gotsym, pltgot) = o.mips.expect("model: MIPS object without GOT tags");
            for k in 0..local_gotno {
                let a = pltgot + b + 4 * k;
                let v = rd32(&m.mem, a, cfg.be).unwrap().wrapping_add(b as u32);
                wr32(&mut m.mem, a, v, cfg.be);
                m.relocated.push((format!("{} local GOT entry {}", o.file, k), a, v));
            }
            for j in gotsym..(o.syms.len() as u64 + 1) {
                let a = pltgot + b + 4 * (local_gotno + j - gotsym);
                let s = sym_of(j as usize).unwrap();
                let v = if s.shndx == 0 {
                    match m.symtab.get(s.name) { Some(x) => *x as u32, None => { m.err = Some("ElfLinkerMissingSymbol".into()); return m; } }
                } else { rd32(&m.mem, a, cfg.be).unwrap().wrapping_add(b as u32) };
                wr32(&mut m.mem, a, v, cfg.be);
                m.relocated.push((format!("{} global GOT entry of {}", o.file, s.name), a, v));
            }
            for r in &o.rel {
                if r.typ != R_MIPS_REL32 { continue; }
                let a = r.off + b;
                let inplace = rd32(&m.mem, a, cfg.be).unwrap();
                // MIPS psABI / glibc: symbol index 0: A + B; a symbol with a GOT entry: A + its (relocated) GOT entry
                let v = if r.sym == 0 { inplace.wrapping_add(b as u32) }
                    else if (r.sym as u64) >= gotsym { inplace.wrapping_add(rd32(&m.mem, pltgot + b + 4 * (local_gotno + r.sym as u64 - gotsym), cfg.be).unwrap()) }
                    else { inplace.wrapping_add((sym_of(r.sym).unwrap().value + b) as u32) };
                wr32(&mut m.mem, a, v, cfg.be);
                m.relocated.push((format!("{} R_MIPS_REL32 at {:#x} symbol {:?}", o.file, r.off, sym_of(r.sym).map(|s| s.name)), a, v));
            }
        }
    }
    m
}

fn is_def_fn(s: &LSym) -> bool { s.typ == STT_FUNC && s.value != 0 && s.shndx != 0 }
fn model_symbols(o: &Obj, b: u64) -> Vec<(u64, String)> {
    let mut s: BTreeSet<(u64, String)> = BTreeSet::new();
    for d in &o.syms { if d.value != 0 { s.insert((d.value + b, d.name.to_string())); } }
    for r in &o.plt { if r.sym >= 1 && r.sym <= o.syms.len() { s.insert((r.off + b, o.syms[r.sym - 1].name.to_string())); } else if r.sym == 0 { s.insert((r.off + b, String::new())); } }
    s.into_iter().collect()
}
fn model_entries(o: &Obj, b: u64) -> Vec<(u64, Option<String>)> {
    let mut e: BTreeMap<u64, Option<String>> = BTreeMap::new();
    for d in &o.syms { if is_def_fn(d) { e.insert(d.value, Some(d.name.to_string())); } }
    e.entry(o.entry).or_insert(None);
    e.into_iter().map(|(a, n)| (a + b, n)).collect()
}

// ---- scenarios ------------------------------------------------------------------------------------------------
fn f(name: &'static str, typ: u8, bind: u8, shndx: u16, value: u64) -> LSym { LSym { name, typ, bind, shndx, value } }
fn r(off: u64, typ: u32, sym: usize) -> LRel { LRel { off, typ, sym, addend: 0 } }

/// i386: executable + libA + libB (+ ld.so); `order` permutes the DT_NEEDED lists, `dep` makes libA depend on libB
fn scenario_x86(order: usize, dep: bool, with_interp: bool) -> Vec<Obj> {
    let ev = 0x0804_8000u64;
    let exe = {
        let d = |off: usize| ev + D_DELTA + off as u64;
        Obj {
            file: "main", e_type: 2, vbase: ev, entry: ev + 0x560, interp: if with_interp { Some("/lib/ld.so.1") } else { None },
            needed: if order == 0 { vec!["libA.so", "libB.so"] } else { vec!["libB.so", "libA.so"] },
            syms: vec![
                f("main", STT_FUNC, STB_GLOBAL, 1, ev + 0x570), f("foo", STT_FUNC, STB_GLOBAL, 0, 0), f("bar", STT_OBJECT, STB_GLOBAL, 0, 0),
                f("baz_data", STT_OBJECT, STB_GLOBAL, 0, 0), f("dup", STT_FUNC, STB_GLOBAL, 1, ev + 0x580), f("missing_weak", STT_NOTYPE, STB_WEAK, 0, 0),
                f("exe_var", STT_OBJECT, STB_GLOBAL, 2, d(0x6e0)), f("qux", STT_FUNC, STB_GLOBAL, 0, 0),
            ],
            rel: vec![r(d(0x610), R_386_GLOB_DAT, 3), r(d(0x614), R_386_32, 4), r(d(0x618), R_386_32, 4), r(d(0x61c), R_386_RELATIVE, 0), r(d(0x620), R_386_GLOB_DAT, 6), r(d(0x624), R_386_32, 5)],
            rela: vec![],
            plt: vec![r(d(0x60c), R_386_JMP_SLOT, 2), r(d(0x628), R_386_JMP_SLOT, 8)],
            words: vec![(d(0x60c), (ev + 0x556) as u32), (d(0x610), 0), (d(0x614), 0), (d(0x618), 8), (d(0x61c), (ev + 0x1600) as u32), (d(0x620), 0x1111_1111), (d(0x624), 0xffff_fffc), (d(0x628), (ev + 0x566) as u32)],
            mips: None,
        }
    };
    let lib_a = {
        let d = |off: usize| D_DELTA + off as u64;
        Obj {
            file: "libA.so", e_type: 3, vbase: 0, entry: 0, interp: None, needed: if dep { vec!["libB.so"] } else { vec![] },
            syms: vec![
                f("foo", STT_FUNC, STB_GLOBAL, 1, 0x560), f("bar", STT_OBJECT, STB_GLOBAL, 2, d(0x6c0)), f("dup", STT_FUNC, STB_GLOBAL, 1, 0x570),
                f("qux", STT_FUNC, STB_GLOBAL, if dep { 0 } else { 1 }, if dep { 0 } else { 0x590 }), f("a_local", STT_FUNC, STB_LOCAL, 1, 0x580), f("main", STT_FUNC, STB_GLOBAL, 0, 0),
                f("a_weak", STT_FUNC, STB_WEAK, 1, 0x5a0),
            ],
            rel: vec![r(d(0x640), R_386_RELATIVE, 0), r(d(0x644), R_386_RELATIVE, 0), r(d(0x648), R_386_GLOB_DAT, 3), r(d(0x64c), R_386_32, 1), r(d(0x650), R_386_GLOB_DAT, 6), r(d(0x654), R_386_32, 2)],
            rela: vec![],
            plt: vec![r(d(0x630), R_386_JMP_SLOT, 4), r(d(0x634), R_386_JMP_SLOT, 1)],
            words: vec![(d(0x630), 0x536), (d(0x634), 0x546), (d(0x640), 0x560), (d(0x644), 0x16c0), (d(0x648), 0), (d(0x64c), 4), (d(0x650), 0), (d(0x654), 0x10)],
            mips: None,
        }
    };
    let lib_b = {
        let d = |off: usize| D_DELTA + off as u64;
        Obj {
            file: "libB.so", e_type: 3, vbase: 0, entry: 0x560, interp: None, needed: vec![],
            syms: vec![
                f("qux", STT_FUNC, STB_GLOBAL, 1, 0x568), f("baz_data", STT_OBJECT, STB_GLOBAL, 2, d(0x6d0)), f("dup", STT_FUNC, STB_WEAK, 1, 0x578),
                f("b_hidden", STT_OBJECT, STB_LOCAL, 2, d(0x6d8)),
            ],
            rel: vec![r(d(0x660), R_386_RELATIVE, 0), r(d(0x664), R_386_GLOB_DAT, 3), r(d(0x668), R_386_32, 2)],
            rela: vec![],
            plt: vec![r(d(0x66c), R_386_JMP_SLOT, 1)],
            words: vec![(d(0x660), 0x16d8), (d(0x664), 0), (d(0x668), 0), (d(0x66c), 0x556)],
            mips: None,
        }
    };
    let ld = Obj {
        file: "ld.so.1", e_type: 3, vbase: 0, entry: 0x560, interp: None, needed: vec![],
        syms: vec![f("_dl_start", STT_FUNC, STB_GLOBAL, 1, 0x560), f("_rtld_global", STT_OBJECT, STB_GLOBAL, 2, D_DELTA + 0x6c0)],
        rel: vec![r(D_DELTA + 0x680, R_386_RELATIVE, 0)], rela: vec![], plt: vec![],
        words: vec![(D_DELTA + 0x680, 0x16c0)], mips: None,
    };
    let mut v = vec![exe, lib_a, lib_b];
    if with_interp { v.push(ld); }
    v
}

/// executable with RELATIVE entries only + interpreter (for just_interpreter with relocations)
fn scenario_x86_static_interp() -> Vec<Obj> {
    let mut v = scenario_x86(0, false, true);
    let ev = v[0].vbase;
    let d = |off: usize| ev + D_DELTA + off as u64;
    v[0].rel = vec![r(d(0x61c), R_386_RELATIVE, 0)];
    v[0].plt = vec![];
    v
}

/// MIPS: executable + one library; GOT with local and global entries, R_MIPS_REL32 with and without a symbol
fn scenario_mips(named_rel32: bool) -> Vec<Obj> {
    let ev = 0x0040_0000u64;
    let exe = {
        let d = |off: usize| ev + D_DELTA + off as u64;
        let got = d(0x610);
        Obj {
            file: "mmain", e_type: 2, vbase: ev, entry: ev + 0x560, interp: None, needed: vec!["libM.so"],
            // gotsym = 2: symbols 2.. have GOT entries
            syms: vec![f("m_local", STT_FUNC, STB_LOCAL, 1, ev + 0x590), f("main", STT_FUNC, STB_GLOBAL, 1, ev + 0x570), f("mfoo", STT_FUNC, STB_GLOBAL, 0, 0), f("mdata", STT_OBJECT, STB_GLOBAL, 0, 0)],
            rel: vec![], rela: vec![], plt: vec![],
            // GOT: 2 local entries, then main, mfoo, mdata
            words: vec![(got, 0), (got + 4, 0x8000_0000), (got + 8, (ev + 0x570) as u32), (got + 12, 0), (got + 16, 0)],
            mips: Some((2, 2, got)),
        }
    };
    let lib = {
        let d = |off: usize| D_DELTA + off as u64;
        let got = d(0x620);
        let mut rel = vec![r(0, 0, 0), r(d(0x650), R_MIPS_REL32, 0), r(d(0x654), R_MIPS_REL32, 0)];
        let mut words = vec![(got, 0), (got + 4, 0x8000_0000), (got + 8, 0x16c0), (got + 12, 0x560), (got + 16, 0x16d0), (got + 20, 0), (d(0x650), 0x16c4), (d(0x654), 0x568)];
        if named_rel32 {
            // a data word that names a global symbol (e.g. `void *p = &main;` / `int *q = &mdata + 1;`)
            rel.push(r(d(0x658), R_MIPS_REL32, 5)); words.push((d(0x658), 0));
            rel.push(r(d(0x65c), R_MIPS_REL32, 4)); words.push((d(0x65c), 4));
            // ... and one that names the FIRST symbol with a GOT entry (index == gotsym)
            rel.push(r(d(0x660), R_MIPS_REL32, 3)); words.push((d(0x660), 8));
        }
        Obj {
            file: "libM.so", e_type: 3, vbase: 0, entry: 0, interp: None, needed: vec![],
            // gotsym = 3
            syms: vec![f("l_static", STT_FUNC, STB_LOCAL, 1, 0x580), f("l_sect", STT_NOTYPE, STB_LOCAL, 2, 0x16c0), f("mfoo", STT_FUNC, STB_GLOBAL, 1, 0x560), f("mdata", STT_OBJECT, STB_GLOBAL, 2, 0x16d0), f("main", STT_FUNC, STB_GLOBAL, 0, 0)],
            rel, rela: vec![], plt: vec![], words,
            mips: Some((3, 3, got)),
        }
    };
    vec![exe, lib]
}

/// architectures the linker has no relocation pass for: one executable, one library, no relocation entries needed
fn scenario_plain(cfg: &LCfg) -> Vec<Obj> {
    let ev = 0x0040_0000u64;
    let exe = Obj {
        file: "pmain", e_type: 2, vbase: ev, entry: ev + 0x560, interp: None, needed: vec!["libP.so"],
        syms: vec![f("main", STT_FUNC, STB_GLOBAL, 1, ev + 0x570), f("pfoo", STT_FUNC, STB_GLOBAL, 0, 0)],
        rel: vec![], rela: if cfg.is64 { vec![LRel { off: ev + D_DELTA + 0x610, typ: 6, sym: 2, addend: 0 }] } else { vec![] },
        plt: if cfg.is64 { vec![LRel { off: ev + D_DELTA + 0x618, typ: 7, sym: 2, addend: 0 }] } else { vec![] },
        words: vec![], mips: None,
    };
    let lib = Obj {
        file: "libP.so", e_type: 3, vbase: 0, entry: 0, interp: None, needed: vec![],
        syms: vec![f("pfoo", STT_FUNC, STB_GLOBAL, 1, 0x560), f("pvar", STT_OBJECT, STB_GLOBAL, 2, D_DELTA + 0x6c0)],
        rel: vec![], rela: if cfg.is64 { vec![LRel { off: D_DELTA + 0x640, typ: 8, sym: 0, addend: 0x16c0 }] } else { vec![] }, plt: vec![],
        words: vec![], mips: None,
    };
    vec![exe, lib]
}

fn js(s: &str) -> String {
    let mut o = String::new();
    for c in s.chars().take(700) {
        match c { '"' => o.push_str("\\\""), '\\' => o.push_str("\\\\"), c if (c as u32) < 0x20 => o.push(' '), c => o.push(c) }
    }
    o
}

pub struct Counts { pub evals: u64, pub found: usize, pub per_op: BTreeMap<String, usize>, pub links: u64 }

pub fn run(c: &mut Counts) {
    let root = PathBuf::from(format!("/tmp/vf_c19_link_{}", std::process::id()));
    let _ = std::fs::remove_dir_all(&root);
    macro_rules! report {
        ($op:expr, $ctx:expr, $what:expr, $got:expr, $exp:expr) => {{
            let n = c.per_op.entry($op.to_string()).or_insert(0);
            *n += 1;
            if *n <= 3 {
                let op: &str = $op;
                let related = if op.starts_with("reloc.R_386") { "\"relocations_x86\",\"load_elf\"" } else if op.starts_with("reloc.") { "\"relocations_mips\",\"load_elf\"" } else { "\"load_elf\"" };
                println!("{{\"witness\":true,\"op\":\"{}\",\"ops_related\":[{}],\"image\":\"{}\",\"query\":\"{}\",\"got\":\"{}\",\"expected\":\"{}\"}}",
                    op, related, js(&$ctx), js(&$what), js(&format!("{:x?}", $got)), js(&format!("{:x?}", $exp)));
            }
            c.found += 1;
        }};
    }
    // (configuration, scenario name, objects, index of the primary object)
    let mut cases: Vec<(LCfg, String, Vec<Obj>)> = vec![];
    for order in 0..2 { for dep in [false, true] { for wi in [false, true] {
        cases.push((I386, format!("i386 exe+libA+libB needed-order={} libA-needs-libB={} PT_INTERP={}", order, dep, wi), scenario_x86(order, dep, wi)));
    } } }
    cases.push((I386, "i386 exe (RELATIVE only) + ld.so.1".to_string(), scenario_x86_static_interp()));
    for cfg in [MIPSBE, MIPSLE] { for named in [false, true] {
        cases.push((cfg, format!("MIPS exe+libM R_MIPS_REL32-with-symbol={}", named), scenario_mips(named)));
    } }
    for cfg in [AMD64, PPC, A64] { cases.push((cfg, "exe+libP".to_string(), scenario_plain(&cfg))); }

    for (ci, (cfg, sname, objs)) in cases.iter().enumerate() {
        let dir = root.join(format!("case{}", ci));
        std::fs::create_dir_all(dir.join("lib")).unwrap();
        let files: Vec<Vec<u8>> = objs.iter().map(|o| build(cfg, o)).collect();
        for (o, fbytes) in objs.iter().zip(files.iter()) {
            let p = if o.file == "ld.so.1" { dir.join("lib").join(o.file) } else { dir.join(o.file) };
            std::fs::write(p, fbytes).unwrap();
        }
        let has_interp = objs[0].interp.is_some();
        for (relocate, just_interp) in [(true, false), (false, false), (true, true), (false, true)] {
            if just_interp && !has_interp { continue; }
            let ctx = format!("{} {} do_relocations={} just_interpreter={}", cfg.name, sname, relocate, just_interp);
            let mut m = model(cfg, objs, &files, 0, relocate, just_interp, None);
            c.links += 1; c.evals += 1;
            let linked = catch_unwind(AssertUnwindSafe(|| {
                ElfLinkerBuilder::new(dir.join(objs[0].file)).do_relocations(relocate).just_interpreter(just_interp).ld_paths(Some(vec![dir.clone()])).link()
            }));
            let mut linker = match (linked, &m.err) {
                (Ok(Ok(l)), None) => l,
                (Ok(Err(e)), Some(want)) => {
                    // the link must fail; for the architectures without a relocation pass the error kind is checked
                    if want == "ElfLinkerRelocationsUnsupported" && !matches!(e, falcon::Error::ElfLinkerRelocationsUnsupported) { report!("link", ctx, "link()".to_string(), format!("Err({})", e), want); }
                    continue;
                }
                (Ok(Ok(_)), Some(want)) => { report!("link", ctx, "link()".to_string(), "Ok", format!("Err({})", want)); continue; }
                (Ok(Err(e)), None) => { report!("link", ctx, "link()".to_string(), format!("Err({})", e), "Ok"); continue; }
                (Err(_), _) => { report!("link", ctx, "link()".to_string(), "panic", if m.err.is_some() { "Err" } else { "Ok" }); continue; }
            };
            // ---- loaded objects and their bases
            c.evals += 1;
            let got_loaded: Vec<(String, u64)> = linker.loaded().iter().map(|(k, e)| (k.clone(), e.base_address())).collect();
            let mut exp_loaded: Vec<(String, u64)> = m.order.iter().map(|i| (objs[*i].file.to_string(), m.base[i])).collect();
            exp_loaded.sort();
            // the property is about ANY base assignment: required are the right set of objects, the executable at base 0
            // and pairwise disjoint images; the concrete library bases are then taken from the linker
            let names_ok = got_loaded.iter().map(|x| &x.0).eq(exp_loaded.iter().map(|x| &x.0));
            let spans: Vec<(u64, u64)> = got_loaded.iter().map(|(n, b)| { let o = objs.iter().find(|o| o.file == n.as_str()); (o.map(|o| o.vbase + b).unwrap_or(*b), o.map(|o| o.vbase + b + D_DELTA + (D_OFF + D_MEMSZ) as u64).unwrap_or(*b)) }).collect();
            let disjoint = spans.iter().enumerate().all(|(i, a)| spans.iter().enumerate().all(|(j, b)| i == j || a.1 <= b.0 || b.1 <= a.0));
            let primary_at_0 = got_loaded.iter().any(|(n, b)| n == objs[0].file && *b == 0);
            if !names_ok || !disjoint || !primary_at_0 {
                report!("link.loaded", ctx, "loaded() as (name, base_address): the objects of the model, the executable at base 0, images pairwise disjoint".to_string(), got_loaded, exp_loaded);
                continue;
            }
            if got_loaded != exp_loaded {
                let bs: BTreeMap<String, u64> = got_loaded.iter().cloned().collect();
                m = model(cfg, objs, &files, 0, relocate, just_interp, Some(&bs));
                exp_loaded = got_loaded.clone();
            }
            // ---- memory: every address of every segment of every object, a margin, and nothing else
            let got = catch_unwind(AssertUnwindSafe(|| linker.memory().map(|mem| {
                let sections: Vec<(u64, Vec<u8>, u32)> = mem.sections().iter().map(|(a, s)| (*a, s.data().to_vec(), s.permissions().bits())).collect();
                let words: Vec<Option<u32>> = m.relocated.iter().map(|(_, a, _)| mem.get32(*a)).collect();
                (sections, words, mem.get32(objs[0].vbase) == Some(0x7f45_4c46))
            }).map_err(|e| e.to_string())));
            match got {
                Ok(Ok((sections, words, big))) => {
                    c.evals += 1;
                    if big != cfg.be { report!("link.endian", ctx, "memory().get32(start of the executable: 7f 45 4c 46) reads big-endian".to_string(), big, cfg.be); }
                    let mut mapped: BTreeMap<u64, (u8, u32)> = BTreeMap::new();
                    for (a, d, p) in &sections { for (k, b) in d.iter().enumerate() { mapped.insert(a + k as u64, (*b, *p)); } }
                    // each relocated word
                    for ((what, a, v), g) in m.relocated.iter().zip(words.iter()) {
                        c.evals += 1;
                        if *g != Some(*v) {
                            let op = if what.contains("type 1 ") { "reloc.R_386_32" } else if what.contains("type 6 ") { "reloc.R_386_GLOB_DAT" } else if what.contains("type 7 ") { "reloc.R_386_JMP_SLOT" }
                                else if what.contains("type 8 ") { "reloc.R_386_RELATIVE" } else if what.contains("local GOT") { "reloc.mips_got_local" } else if what.contains("global GOT") { "reloc.mips_got_global" }
                                else if what.contains("symbol None") { "reloc.R_MIPS_REL32" } else { "reloc.R_MIPS_REL32_symbol" };
                            report!(op, ctx, format!("memory().get32({:#x}) [{}; bases {:x?}]", a, what, exp_loaded), g, Some(*v));
                        }
                    }
                    // every byte and permission
                    let reloc_addrs: BTreeSet<u64> = m.relocated.iter().flat_map(|(_, a, _)| (0..4).map(move |k| a + k)).collect();
                    for (x, e) in &m.mem {
                        c.evals += 1;
                        let g = mapped.get(x);
                        if g != Some(e) {
                            if reloc_addrs.contains(x) && g.map(|v| v.1) == Some(e.1) { continue; } // already reported as a word
                            let op = if g.map(|v| v.1) != Some(e.1) { "link.permissions" } else { "link.memory" };
                            report!(op, ctx, format!("byte and permission bits at {:#x} [bases {:x?}]", x, exp_loaded), g, Some(e));
                        }
                    }
                    c.evals += 1;
                    let extra: Vec<u64> = mapped.keys().filter(|x| !m.mem.contains_key(x)).take(4).cloned().collect();
                    if !extra.is_empty() { report!("link.nothing_else", ctx, "addresses covered by memory().sections()".to_string(), format!("extra {:x?}", extra), "exactly the segments of the loaded objects"); }
                }
                Ok(Err(e)) => report!("link.memory", ctx, "memory()".to_string(), format!("Err({})", e), "Ok"),
                Err(_) => report!("link.memory", ctx, "memory()".to_string(), "panic", "Ok"),
            }
            // ---- program entry, architecture
            c.evals += 2;
            let pe = catch_unwind(AssertUnwindSafe(|| linker.program_entry()));
            if pe.as_ref().ok() != Some(&objs[0].entry) { report!("link.program_entry", ctx, "program_entry()".to_string(), pe.as_ref().ok(), objs[0].entry); }
            match catch_unwind(AssertUnwindSafe(|| (linker.architecture().name().to_string(), matches!(linker.architecture().endian(), Endian::Big)))) {
                Ok(g) if g == (cfg.arch.to_string(), cfg.be) => {}
                other => report!("link.architecture", ctx, "architecture().name(), endian() is big".to_string(), other.ok(), (cfg.arch, cfg.be)),
            }
            // ---- symbols: those of every object, each rebased once (objects in name order)
            c.evals += 1;
            let by_name: BTreeMap<&str, usize> = m.order.iter().map(|i| (objs[*i].file, *i)).collect();
            let gs = catch_unwind(AssertUnwindSafe(|| linker.symbols().iter().map(|s| (s.address(), s.name().to_string())).collect::<Vec<_>>()));
            let es: Vec<(u64, String)> = by_name.values().flat_map(|i| model_symbols(&objs[*i], m.base[i])).collect();
            if gs.as_ref().ok() != Some(&es) { report!("link.symbols", ctx, format!("symbols() as (address, name) [bases {:x?}]", exp_loaded), gs.as_ref().ok(), es); }
            // ---- function entries (+ user functions)
            c.evals += 1;
            linker.add_user_function(0x1234_5678);
            let ge = catch_unwind(AssertUnwindSafe(|| linker.function_entries().map(|v| v.iter().map(|f| (f.address(), f.name().map(|s| s.to_string()))).collect::<Vec<_>>()).map_err(|e| e.to_string())));
            let mut ee: Vec<(u64, Option<String>)> = by_name.values().flat_map(|i| model_entries(&objs[*i], m.base[i])).collect();
            ee.push((0x1234_5678, None));
            match ge {
                Ok(Ok(list)) => if list != ee { report!("link.function_entries", ctx, format!("function_entries() [bases {:x?}]", exp_loaded), list, ee); },
                Ok(Err(e)) => report!("link.function_entries", ctx, "function_entries()".to_string(), format!("Err({})", e), "Ok"),
                Err(_) => report!("link.function_entries", ctx, "function_entries()".to_string(), "panic", "Ok"),
            }
            // ---- get_elf / get_interpreter
            c.evals += 2;
            let gi = catch_unwind(AssertUnwindSafe(|| linker.get_interpreter().map(|o| o.map(|e| e.base_address())).map_err(|e| e.to_string())));
            let ei: Result<Option<u64>, String> = match objs[0].interp {
                None => Ok(None),
                Some(ip) => { let n = ip.rsplit('/').next().unwrap(); match by_name.get(n) { Some(i) => Ok(Some(m.base[i])), None => Err("not loaded".to_string()) } }
            };
            match (&gi, &ei) {
                (Ok(Ok(g)), Ok(e)) if g == e => {}
                (Ok(Err(_)), Err(_)) => {}
                _ => report!("link.get_interpreter", ctx, "get_interpreter() base address".to_string(), gi.ok(), ei),
            }
            let ge = catch_unwind(AssertUnwindSafe(|| linker.get_elf().map(|e| (e.base_address(), e.program_entry())).map_err(|e| e.to_string())));
            if ge.as_ref().ok() != Some(&Ok((0, objs[0].entry))) { report!("link.get_elf", ctx, "get_elf() (base, entry)".to_string(), ge.ok(), (0, objs[0].entry)); }
        }
    }
    let _ = std::fs::remove_dir_all(&root);
}

#[allow(dead_code)]
fn main() {
    std::panic::set_hook(Box::new(|_| {}));
    let mut c = Counts { evals: 0, found: 0, per_op: BTreeMap::new(), links: 0 };
    run(&mut c);
    let po: Vec<String> = c.per_op.iter().map(|(k, v)| format!("\"{}\":{}", k, v)).collect();
    println!("{{\"summary\":true,\"evaluations\":{},\"disagreements\":{},\"per_op\":{{{}}},\"links\":{}}}", c.evals, c.found, po.join(","), c.links);
}
