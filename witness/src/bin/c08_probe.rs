// Probe for property C08 (memory::paged::Memory): confirms each suspected defect against the real crate.
use falcon::architecture::Endian;
use falcon::il;
use falcon::memory::backing;
use falcon::memory::paged::Memory;
use falcon::memory::MemoryPermissions as P;
use falcon::RC;
use std::panic::{catch_unwind, AssertUnwindSafe};

fn show<T: std::fmt::Debug>(what: &str, f: impl FnOnce() -> T) {
    match catch_unwind(AssertUnwindSafe(f)) {
        Ok(v) => println!("{:<86} => {:?}", what, v),
        Err(e) => {
            let msg = e
                .downcast_ref::<String>()
                .cloned()
                .or_else(|| e.downcast_ref::<&str>().map(|s| s.to_string()))
                .unwrap_or_default();
            println!("{:<86} => PANIC: {}", what, msg)
        }
    }
}

fn ld(m: &Memory<il::Constant>, a: u64, bits: usize) -> String {
    match m.load(a, bits) {
        Ok(Some(c)) => format!("{}", c),
        Ok(None) => "None".to_string(),
        Err(e) => format!("Err({})", e),
    }
}

fn main() {
    std::panic::set_hook(Box::new(|_| {}));
    println!("build: debug_assertions={}", cfg!(debug_assertions));

    // sanity: page-crossing, overlapping stores, 16/64/128-bit widths, both endiannesses
    for e in [Endian::Little, Endian::Big] {
        let mut m: Memory<il::Constant> = Memory::new(e.clone());
        m.store(0x3fc, il::const_(0x1122334455667788, 64)).unwrap();
        m.store(0x3fe, il::const_(0xaabb, 16)).unwrap();
        m.store(0x402, il::const_(0xcc, 8)).unwrap();
        show(&format!("{:?}: store64@0x3fc, store16@0x3fe, store8@0x402; load(0x3fc,64)", e), || ld(&m, 0x3fc, 64));
        show(&format!("{:?}:   load(0x3fd,32)", e), || ld(&m, 0x3fd, 32));
        show(&format!("{:?}:   load(0x3fb,16) (first byte absent)", e), || ld(&m, 0x3fb, 16));
        show(&format!("{:?}:   load(0x3fc,128) (tail absent)", e), || ld(&m, 0x3fc, 128));
        m.store(0x404, il::const_(0x99, 64)).unwrap();
        show(&format!("{:?}:   +store64@0x404; load(0x3fc,128)", e), || ld(&m, 0x3fc, 128));
    }

    // (i) equality is not reflexive without a backing
    let mut m: Memory<il::Constant> = Memory::new(Endian::Little);
    show("(i)   unbacked, no store: m == m.clone()", || m == m.clone());
    m.store(0x100, il::const_(0xdead, 16)).unwrap();
    show("(i)   unbacked, one store: m == m.clone()", || m == m.clone());
    let mut b = backing::Memory::new(Endian::Little);
    b.set_memory(0x1000, vec![1, 2, 3, 4], P::READ);
    let mut mb: Memory<il::Constant> = Memory::new_with_backing(Endian::Little, RC::new(b.clone()));
    mb.store(0x100, il::const_(0xdead, 16)).unwrap();
    show("(i)   backed, one store: m == m.clone()", || mb == mb.clone());
    let mut mb2: Memory<il::Constant> = Memory::new_with_backing(Endian::Little, RC::new(b.clone()));
    mb2.store(0x100, il::const_(0xdead, 16)).unwrap();
    show("(i)   backed by equal but distinct backings: m1 == m2", || mb == mb2);
    show("(i)   backed vs unbacked with the same pages: mb == m", || mb == m);

    // (ii) set_permissions compares an address with a length
    let mut m: Memory<il::Constant> = Memory::new(Endian::Little);
    m.set_permissions(0x10000, 0x400, P::READ);
    show("(ii)  set_permissions(0x10000, 0x400, READ); permissions(0x10000)", || m.permissions(0x10000));
    show("(ii)                                         permissions(0x103ff)", || m.permissions(0x103ff));
    show("(ii)                                         pages().len()", || m.pages().len());
    let mut m: Memory<il::Constant> = Memory::new(Endian::Little);
    m.set_permissions(0x400, 0x800, P::READ);
    show("(ii)  set_permissions(0x400, 0x800, READ); permissions(0x400)", || m.permissions(0x400));
    show("(ii)                                       permissions(0x800)", || m.permissions(0x800));
    show("(ii)                                       permissions(0xbff) (last address of the range)", || m.permissions(0xbff));
    let mut m: Memory<il::Constant> = Memory::new(Endian::Little);
    m.set_permissions(0, 0x800, P::READ);
    show("(ii)  set_permissions(0, 0x800, READ); permissions(0), permissions(0x7ff), permissions(0x800)", || {
        (m.permissions(0), m.permissions(0x7ff), m.permissions(0x800))
    });
    let mut m: Memory<il::Constant> = Memory::new(Endian::Little);
    m.set_permissions(0x3ff, 2, P::READ);
    show("(ii)  set_permissions(0x3ff, 2, READ); permissions(0x3ff), permissions(0x400)", || {
        (m.permissions(0x3ff), m.permissions(0x400))
    });

    // (v) page granularity: addresses never in a set range, but in the same 1024-byte page, report the set permissions
    let mut b = backing::Memory::new(Endian::Little);
    b.set_memory(0x1000, vec![0; 0x400], P::READ);
    let mut m: Memory<il::Constant> = Memory::new_with_backing(Endian::Little, RC::new(b));
    m.set_permissions(0x1000, 4, P::READ | P::WRITE);
    show("(v)   backing READ on [0x1000,0x1400); set_permissions(0x1000, 4, RW); permissions(0x1003)", || m.permissions(0x1003));
    show("(v)                                    permissions(0x1004) (never set; backing says READ)", || m.permissions(0x1004));
    show("(v)                                    permissions(0x13ff) (never set; backing says READ)", || m.permissions(0x13ff));
    show("(v)                                    permissions(0x1400) (next page, unmapped)", || m.permissions(0x1400));

    // (iii) a store changes reported permissions
    let mut b = backing::Memory::new(Endian::Little);
    b.set_memory(0x1000, vec![0; 16], P::READ);
    let mut m: Memory<il::Constant> = Memory::new_with_backing(Endian::Little, RC::new(b));
    show("(iii) backing READ at [0x1000,0x1010): permissions(0x1000) before any store", || m.permissions(0x1000));
    m.store(0x1004, il::const_(0x55, 8)).unwrap();
    show("(iii) after store(0x1004, 0x55:8): permissions(0x1000)", || m.permissions(0x1000));
    show("(iii)                              permissions(0x1004)", || m.permissions(0x1004));
    show("(iii)                              load(0x1000, 8) (still readable)", || ld(&m, 0x1000, 8));

    // (iv) arithmetic at the top of the address space
    let mut m: Memory<il::Constant> = Memory::new(Endian::Little);
    show("(iv)  store(u64::MAX, 0x55:8)", || m.store(u64::MAX, il::const_(0x55, 8)).map_err(|e| format!("{}", e)));
    let mut m: Memory<il::Constant> = Memory::new(Endian::Little);
    show("(iv)  store(u64::MAX - 1, 0x55:8)", || m.store(u64::MAX - 1, il::const_(0x55, 8)).map_err(|e| format!("{}", e)));
    show("(iv)  load(u64::MAX - 1, 16) (second byte absent)", || ld(&m, u64::MAX - 1, 16));
    show("(iv)  load(u64::MAX - 1, 32) (would wrap)", || ld(&m, u64::MAX - 1, 32));
    let mut m: Memory<il::Constant> = Memory::new(Endian::Little);
    show("(iv)  set_permissions(u64::MAX - 0x10, 0x10, READ)", || m.set_permissions(u64::MAX - 0x10, 0x10, P::READ));
    show("(iv)  set_permissions(0x10, u64::MAX, READ)", || m.set_permissions(0x10, u64::MAX, P::READ));

    // width errors
    let mut m: Memory<il::Constant> = Memory::new(Endian::Little);
    show("      store(0x10, 1:1)", || m.store(0x10, il::const_(1, 1)).map_err(|e| format!("{}", e)));
    show("      load(0x10, 0)", || ld(&m, 0x10, 0));
    show("      load(0x10, 12)", || ld(&m, 0x10, 12));

    // clone independence
    let mut m: Memory<il::Constant> = Memory::new(Endian::Big);
    m.store(0x100, il::const_(0x11223344, 32)).unwrap();
    let c = m.clone();
    m.store(0x101, il::const_(0xff, 8)).unwrap();
    show("      clone, then store through the original: load through the clone", || ld(&c, 0x100, 32));
    show("                                              load through the original", || ld(&m, 0x100, 32));
}
