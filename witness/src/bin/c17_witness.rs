//! Bounded witness search for unit C17 (labelled bounded, never counted as proved): every function with 1..=3
//! blocks whose entry block 0 has no incoming edge, every edge set among the other blocks (self-loops and back
//! edges included; two out-edges are guarded by the 1-bit scalar `c` / `c == 0`), blocks holding 0..=2 operations
//! (one block: 0..=3; three blocks: 0..=1, plus a deterministic 1-in-1999 sample of the 0..=2 space) from a
//! 15-letter alphabet over the architecture's stack pointer and one other scalar of the same width.
//! `stack_pointer_offsets` must return Ok, and every `Value(k)` it reports is compared with CONCRETE executions of
//! the function by an interpreter written here (own operation semantics, own location successor relation): on
//! every explored execution, at every visited location, k must be the signed w-bit reading of
//! (sp after the location) - (sp at function entry).
use falcon::analysis::stack_pointer_offsets::{stack_pointer_offsets, StackPointerOffset};
use falcon::architecture::{AArch64, AArch64Eb, Amd64, Architecture, Mips, Mipsel, Ppc, X86};
use falcon::il;
use std::collections::{BTreeMap, BTreeSet};
use std::panic::{catch_unwind, AssertUnwindSafe};

#[derive(Clone, Copy, Debug, PartialEq, Eq)]
enum Op {
    SpSub4,     // sp = sp - 4
    SpAdd8,     // sp = sp + 8
    Sp16Plus,   // sp = 16 + sp
    SpSub4Sub4, // sp = (sp - 4) - 4
    SpAlign,    // sp = sp & ~0xf
    SpR,        // sp = r
    SpRPlus4,   // sp = r + 4
    RSp,        // r = sp
    LoadSp,     // sp = [r]
    StoreSp,    // [sp] = r
    Nop,
    SpSubHalf,  // sp = sp - 2^(w-1)   (0x80000000 at 32 bits): wrap-around / sign test
    SpAddBig,   // sp = sp + 0x7fffffff: with a following +8 the offset crosses 2^31 (wraps at 32 bits, must not at 64)
    SpNeg,      // sp = 8 - sp         (not a translation)
    SpNegNest,  // sp = 4 + (8 - sp)   (not a translation)
}
const OPS: [Op; 15] = [Op::SpSub4, Op::SpAdd8, Op::Sp16Plus, Op::SpSub4Sub4, Op::SpAlign, Op::SpR, Op::SpRPlus4, Op::RSp, Op::LoadSp, Op::StoreSp, Op::Nop, Op::SpSubHalf, Op::SpAddBig, Op::SpNeg, Op::SpNegNest];

#[derive(Clone, Debug, PartialEq, Eq, PartialOrd, Ord)]
enum Loc { I(usize, usize), E(usize, usize), B(usize) }

fn loc_of_owned(l: &il::ProgramLocation) -> Loc {
    match l.function_location() {
        il::FunctionLocation::Instruction(b, i) => Loc::I(*b, *i),
        il::FunctionLocation::Edge(h, t) => Loc::E(*h, *t),
        il::FunctionLocation::EmptyBlock(b) => Loc::B(*b),
    }
}

/// the witness's own picture of the function: per block the (instruction index, operation) list, and the edges
struct Model { blocks: Vec<Vec<(usize, Op)>>, edges: BTreeSet<(usize, usize)> }
impl Model {
    fn start(&self, b: usize) -> Loc { match self.blocks[b].first() { Some(i) => Loc::I(b, i.0), None => Loc::B(b) } }
    fn out_edges(&self, b: usize) -> Vec<Loc> { self.edges.iter().filter(|e| e.0 == b).map(|e| Loc::E(e.0, e.1)).collect() }
    fn succ(&self, l: &Loc) -> Vec<Loc> {
        match l {
            Loc::I(b, i) => { let p = self.blocks[*b].iter().position(|x| x.0 == *i).unwrap();
                if p + 1 < self.blocks[*b].len() { vec![Loc::I(*b, self.blocks[*b][p + 1].0)] } else { self.out_edges(*b) } }
            Loc::E(_, t) => vec![self.start(*t)],
            Loc::B(b) => self.out_edges(*b),
        }
    }
    fn op_at(&self, l: &Loc) -> Option<Op> {
        match l { Loc::I(b, i) => self.blocks[*b].iter().find(|x| x.0 == *i).map(|x| x.1), _ => None }
    }
}

fn mask(w: usize) -> u64 { if w >= 64 { u64::MAX } else { (1u64 << w) - 1 } }
/// what a load from `addr` yields in the witness's executions (fixed, address dependent)
fn load_value(addr: u64, w: usize) -> u64 { (addr.wrapping_mul(0x9E37_79B9_7F4A_7C15) ^ 0x5bd1_e995_1234_5677).rotate_left(17) & mask(w) }
/// signed reading of a w-bit value
fn signed(v: u64, w: usize) -> i64 { if w >= 64 { v as i64 } else if v >> (w - 1) & 1 == 1 { (v | !mask(w)) as i64 } else { v as i64 } }

/// the witness's own semantics of one operation on (sp, r), all arithmetic modulo 2^w
fn step(op: Op, sp: u64, r: u64, w: usize) -> (u64, u64) {
    let m = mask(w);
    match op {
        Op::SpSub4 => (sp.wrapping_sub(4) & m, r),
        Op::SpAdd8 => (sp.wrapping_add(8) & m, r),
        Op::Sp16Plus => (16u64.wrapping_add(sp) & m, r),
        Op::SpSub4Sub4 => (sp.wrapping_sub(4).wrapping_sub(4) & m, r),
        Op::SpAlign => (sp & !0xfu64 & m, r),
        Op::SpR => (r, r),
        Op::SpRPlus4 => (r.wrapping_add(4) & m, r),
        Op::RSp => (sp, sp),
        Op::LoadSp => (load_value(r, w), r),
        Op::StoreSp | Op::Nop => (sp, r),
        Op::SpSubHalf => (sp.wrapping_sub(1u64 << (w - 1)) & m, r),
        Op::SpAddBig => (sp.wrapping_add(0x7fff_ffff) & m, r),
        Op::SpNeg => (8u64.wrapping_sub(sp) & m, r),
        Op::SpNegNest => (4u64.wrapping_add(8u64.wrapping_sub(sp)) & m, r),
    }
}

/// the same operation as falcon IL
fn emit(block: &mut il::Block, op: Op, sp: &il::Scalar, r: &il::Scalar) {
    let w = sp.bits();
    let spe = || il::Expression::scalar(sp.clone());
    let re = || il::Expression::scalar(r.clone());
    let k = |v: u64| il::expr_const(v & mask(w), w);
    match op {
        Op::SpSub4 => block.assign(sp.clone(), il::Expression::sub(spe(), k(4)).unwrap()),
        Op::SpAdd8 => block.assign(sp.clone(), il::Expression::add(spe(), k(8)).unwrap()),
        Op::Sp16Plus => block.assign(sp.clone(), il::Expression::add(k(16), spe()).unwrap()),
        Op::SpSub4Sub4 => block.assign(sp.clone(), il::Expression::sub(il::Expression::sub(spe(), k(4)).unwrap(), k(4)).unwrap()),
        Op::SpAlign => block.assign(sp.clone(), il::Expression::and(spe(), k(!0xfu64)).unwrap()),
        Op::SpR => block.assign(sp.clone(), re()),
        Op::SpRPlus4 => block.assign(sp.clone(), il::Expression::add(re(), k(4)).unwrap()),
        Op::RSp => block.assign(r.clone(), spe()),
        Op::LoadSp => block.load(sp.clone(), re()),
        Op::StoreSp => block.store(spe(), re()),
        Op::Nop => block.nop(),
        Op::SpSubHalf => block.assign(sp.clone(), il::Expression::sub(spe(), k(1u64 << (w - 1))).unwrap()),
        Op::SpAddBig => block.assign(sp.clone(), il::Expression::add(spe(), k(0x7fff_ffff)).unwrap()),
        Op::SpNeg => block.assign(sp.clone(), il::Expression::sub(k(8), spe()).unwrap()),
        Op::SpNegNest => block.assign(sp.clone(), il::Expression::add(k(4), il::Expression::sub(k(8), spe()).unwrap()).unwrap()),
    }
}

/// block contents with `lo..=hi` operations
fn contents(lo: usize, hi: usize) -> Vec<Vec<Op>> {
    let mut v: Vec<Vec<Op>> = vec![];
    for n in lo..=hi {
        let total = OPS.len().pow(n as u32);
        for mut code in 0..total { let mut ops = vec![]; for _ in 0..n { ops.push(OPS[code % OPS.len()]); code /= OPS.len(); } v.push(ops); }
    }
    v
}

const MAX_VISITS: usize = 12;

/// text -> body of a JSON string
fn js(s: &str) -> String {
    let mut o = String::new();
    for c in s.chars().take(400) {
        match c { '"' => o.push_str("\\\""), '\\' => o.push_str("\\\\"), c if (c as u32) < 0x20 => o.push(' '), c => o.push(c) }
    }
    o
}

fn deep() -> bool { std::env::var("VERIF_TIER").map(|t| t == "thorough").unwrap_or(false) } // thorough tier: wider bounds
fn main() {
    std::panic::set_hook(Box::new(|_| {}));
    let mut found = 0usize;
    let mut evals = 0u64;
    let mut functions = 0u64;
    let mut value_checks = 0u64;
    let mut unreported_visited = 0u64;
    let mut per_op: BTreeMap<String, usize> = BTreeMap::new();
    macro_rules! report {
        ($op:expr, $arch:expr, $m:expr, $what:expr, $got:expr, $exp:expr) => {{
            let c = per_op.entry($op.to_string()).or_insert(0);
            *c += 1;
            if *c <= 3 {
                let blocks: Vec<Vec<Op>> = $m.blocks.iter().map(|b| b.iter().map(|x| x.1).collect()).collect();
                println!("{{\"witness\":true,\"op\":\"{}\",\"arch\":\"{}\",\"blocks\":\"{:?}\",\"edges\":\"{:?}\",\"query\":\"{}\",\"got\":\"{}\",\"expected\":\"{}\"}}",
                    $op, $arch, blocks, $m.edges, js(&format!("{}", $what)), js(&format!("{}", $got)), js(&format!("{}", $exp)));
            }
            found += 1;
        }};
    }

    // (name, architecture, runs on every function?) - the other five architectures run on every tenth function each
    let archs: Vec<(&str, Box<dyn Architecture>, bool)> = vec![
        ("X86", Box::new(X86::new()), true),
        ("Amd64", Box::new(Amd64::new()), true),
        ("Mips", Box::new(Mips::new()), false),
        ("AArch64", Box::new(AArch64::new()), false),
        ("Mipsel", Box::new(Mipsel::new()), false),
        ("Ppc", Box::new(Ppc::new()), false),
        ("AArch64Eb", Box::new(AArch64Eb::new()), false),
    ];

    let c03 = contents(0, 3);
    let c02 = contents(0, 2);
    let c01 = contents(0, 1);
    let mut fcount = 0usize;
    for nb in 1..=3usize {
        // possible edges: every (h, t) with t != 0, so that the entry block has no incoming edge
        let cand: Vec<(usize, usize)> = (0..nb).flat_map(|h| (1..nb).map(move |t| (h, t))).collect();
        // which block-content table, and how many combinations of it
        let passes: Vec<(&Vec<Vec<Op>>, usize)> = match nb { 1 => vec![(&c03, 1)], 2 => vec![(&c02, 1)], _ => vec![(&c01, 1), (&c02, 1999)] };
        for (table, thin) in passes {
            let ncomb = table.len().pow(nb as u32);
            for comb in 0..ncomb {
                for bits in 0u32..(1u32 << cand.len()) {
                    if thin > 1 && (comb * 64 + bits as usize) % thin != 0 { continue; }
                    let edges: BTreeSet<(usize, usize)> = cand.iter().enumerate().filter(|(i, _)| bits & (1 << i) != 0).map(|(_, e)| *e).collect();
                    let mut ops: Vec<&Vec<Op>> = vec![];
                    let mut cc = comb;
                    for _ in 0..nb { ops.push(&table[cc % table.len()]); cc /= table.len(); }
                    fcount += 1;
                    functions += 1;
                    for (ai, (aname, arch, always)) in archs.iter().enumerate() {
                        if !always && (fcount + ai) % (if deep() { 2 } else { 10 }) != 0 { continue; }
                        let sp = arch.stack_pointer();
                        let w = sp.bits();
                        if w == 0 || w > 64 { report!("completes", aname, Model { blocks: vec![], edges: BTreeSet::new() }, "stack_pointer().bits()", w, "1..=64"); continue; }
                        let r = il::scalar("r_other", w);
                        let c = il::scalar("c", 1);
                        // ---- build the function through the public IL API
                        let mut cfg = il::ControlFlowGraph::new();
                        let mut model = Model { blocks: vec![], edges: edges.clone() };
                        for b in 0..nb {
                            let block = cfg.new_block().unwrap();
                            for op in ops[b] { emit(block, *op, &sp, &r); }
                            model.blocks.push(block.instructions().iter().map(|i| i.index()).zip(ops[b].iter().cloned()).collect());
                        }
                        for h in 0..nb {
                            let outs: Vec<usize> = edges.iter().filter(|e| e.0 == h).map(|e| e.1).collect();
                            match outs.len() {
                                0 => {}
                                1 => cfg.unconditional_edge(h, outs[0]).unwrap(),
                                _ => {
                                    cfg.conditional_edge(h, outs[0], il::Expression::scalar(c.clone())).unwrap();
                                    cfg.conditional_edge(h, outs[1], il::Expression::cmpeq(il::Expression::scalar(c.clone()), il::expr_const(0, 1)).unwrap()).unwrap();
                                }
                            }
                        }
                        cfg.set_entry(0).unwrap();
                        let function = il::Function::new(0x1000, cfg);
                        // ---- the analysis completes
                        evals += 1;
                        let rep: BTreeMap<Loc, StackPointerOffset> = match catch_unwind(AssertUnwindSafe(|| stack_pointer_offsets(&function, arch.as_ref()))) {
                            Ok(Ok(r)) => r.iter().map(|(k, v)| (loc_of_owned(k), v.clone())).collect(),
                            Ok(Err(e)) => { report!("completes", aname, model, "stack_pointer_offsets(function, arch)", format!("Err({})", e), "Ok(..)"); continue; }
                            Err(_) => { report!("completes", aname, model, "stack_pointer_offsets(function, arch)", "panic", "Ok(..)"); continue; }
                        };
                        // ---- concrete executions
                        let m = mask(w);
                        let entries: [(u64, u64); 3] = if w <= 32 {
                            [(0x1000 & m, 0x2468_ace4 & m), (0x7fff_fff0 & m, 0x0000_0ff8 & m), (0xffff_fff8 & m, 0x8000_0010 & m)]
                        } else {
                            [(0x1000 & m, 0x2468_ace4 & m), (0x7fff_ffff_ffff_fff0 & m, 0x7fff_fff0 & m), (0xffff_ffff_ffff_fff8 & m, 0x8000_0000_0000_0010 & m)]
                        };
                        // a location already shown wrong is not reported again for this function
                        let mut bad: BTreeSet<Loc> = BTreeSet::new();
                        for (sp0, r0) in entries {
                            let mut work: Vec<(Loc, u64, u64, usize)> = vec![(model.start(0), sp0, r0, 1)];
                            while let Some((loc, spv, rv, depth)) = work.pop() {
                                let (sp_after, r_after) = match model.op_at(&loc) { Some(op) => step(op, spv, rv, w), None => (spv, rv) };
                                evals += 1;
                                match rep.get(&loc) {
                                    Some(StackPointerOffset::Value(k)) => {
                                        value_checks += 1;
                                        let actual = signed(sp_after.wrapping_sub(sp0) & m, w);
                                        if *k as i128 != actual as i128 && bad.insert(loc.clone()) {
                                            report!("offset", aname, model, format!("report at {:?}; execution from sp0={:#x} r0={:#x} reaches it with sp={:#x} before, sp={:#x} after", loc, sp0, r0, spv, sp_after),
                                                format!("Value({})", k), format!("unknown, or Value({}) = signed {}-bit reading of sp_after - sp0", actual, w));
                                        }
                                    }
                                    Some(_) => {}
                                    None => { unreported_visited += 1; }
                                }
                                if depth < MAX_VISITS {
                                    // both values of `c` are tried where a block has two out-edges: every successor is followed
                                    for n in model.succ(&loc) { work.push((n, sp_after, r_after, depth + 1)); }
                                }
                            }
                        }
                    }
                }
            }
        }
    }
    let po: Vec<String> = per_op.iter().map(|(k, v)| format!("\"{}\":{}", k, v)).collect();
    println!("{{\"summary\":true,\"evaluations\":{},\"disagreements\":{},\"per_op\":{{{}}},\"functions\":{},\"numeric_reports_checked\":{},\"visited_locations_without_report\":{}}}",
        evals, found, po.join(","), functions, value_checks, unreported_visited);
}
