// Probe for property C17 (analysis::stack_pointer_offsets): confirms each suspected defect against the real crate.
use falcon::analysis::stack_pointer_offsets::{stack_pointer_offsets, StackPointerOffset};
use falcon::architecture::{AArch64, AArch64Eb, Amd64, Architecture, Mips, Mipsel, Ppc, X86};
use falcon::il;
use std::panic::{catch_unwind, AssertUnwindSafe};

fn show<T: std::fmt::Debug>(what: &str, f: impl FnOnce() -> T) {
    match catch_unwind(AssertUnwindSafe(f)) {
        Ok(v) => println!("{:<70} => {:?}", what, v),
        Err(e) => {
            let msg = e
                .downcast_ref::<String>()
                .cloned()
                .or_else(|| e.downcast_ref::<&str>().map(|s| s.to_string()))
                .unwrap_or_default();
            println!("{:<70} => PANIC: {}", what, msg)
        }
    }
}

/// one block, entry = exit, the given assignments / loads in order
fn function_of(build: impl FnOnce(&mut il::Block)) -> il::Function {
    let mut cfg = il::ControlFlowGraph::new();
    let index = {
        let block = cfg.new_block().unwrap();
        build(block);
        block.index()
    };
    cfg.set_entry(index).unwrap();
    cfg.set_exit(index).unwrap();
    il::Function::new(0, cfg)
}

/// the offsets in instruction order (all instructions are in block 0)
fn offsets(function: &il::Function, arch: &dyn Architecture) -> Result<Vec<StackPointerOffset>, String> {
    let r = stack_pointer_offsets(function, arch).map_err(|e| format!("{:?}", e))?;
    let mut v: Vec<(usize, StackPointerOffset)> = r
        .into_iter()
        .map(|(l, o)| (l.instruction_index().unwrap_or(usize::MAX), o))
        .collect();
    v.sort_by_key(|x| x.0);
    Ok(v.into_iter().map(|x| x.1).collect())
}

fn main() {
    std::panic::set_hook(Box::new(|_| {}));
    println!("build: debug_assertions={}", cfg!(debug_assertions));

    let archs: Vec<(&str, Box<dyn Architecture>)> = vec![
        ("Amd64", Box::new(Amd64::new())),
        ("AArch64", Box::new(AArch64::new())),
        ("AArch64Eb", Box::new(AArch64Eb::new())),
        ("Mips", Box::new(Mips::new())),
        ("Mipsel", Box::new(Mipsel::new())),
        ("Ppc", Box::new(Ppc::new())),
        ("X86", Box::new(X86::new())),
    ];

    // (i)+(ii): sp = sp - 8 for every architecture (width taken from the architecture's stack pointer)
    for (name, arch) in archs.iter() {
        let sp = arch.stack_pointer();
        let w = sp.bits();
        let f = function_of(|b| {
            b.assign(sp.clone(), il::Expression::sub(sp.clone().into(), il::expr_const(8, w)).unwrap());
        });
        show(&format!("(i)/(ii) {:8} {} = {} - 8:{}", name, sp, sp, w), || offsets(&f, arch.as_ref()));
    }

    // (i) the property's own example
    let amd64 = Amd64::new();
    let rsp = il::scalar("rsp", 64);
    let f = function_of(|b| {
        b.assign(rsp.clone(), il::Expression::sub(rsp.clone().into(), il::expr_const(8, 64)).unwrap());
    });
    show("(i)   Amd64: rsp = rsp - 8", || offsets(&f, &amd64));
    // a 64-bit function that does not touch the stack pointer still completes
    let f = function_of(|b| {
        b.assign(il::scalar("rax", 64), il::expr_const(1, 64));
    });
    show("(i)   Amd64: rax = 1 (sp untouched)", || offsets(&f, &amd64));

    // (ii) signed reading at 32 bits
    let x86 = X86::new();
    let esp = il::scalar("esp", 32);
    let f = function_of(|b| {
        b.assign(esp.clone(), il::Expression::sub(esp.clone().into(), il::expr_const(4, 32)).unwrap());
        b.assign(esp.clone(), il::Expression::add(esp.clone().into(), il::expr_const(8, 32)).unwrap());
    });
    show("(ii)  X86: esp = esp - 4; esp = esp + 8", || offsets(&f, &x86));

    // (iii) right-hand sides that are not translations of sp
    let f = function_of(|b| {
        b.assign(esp.clone(), il::Expression::sub(esp.clone().into(), il::expr_const(4, 32)).unwrap());
        b.assign(esp.clone(), il::Expression::and(esp.clone().into(), il::expr_const(0xffff_fff0, 32)).unwrap());
    });
    show("(iii) X86: esp = esp - 4; esp = esp & 0xfffffff0", || offsets(&f, &x86));
    let f = function_of(|b| {
        b.assign(esp.clone(), il::expr_const(0x1000, 32));
    });
    show("(iii) X86: esp = 0x1000 (absolute)", || offsets(&f, &x86));
    let f = function_of(|b| {
        b.assign(esp.clone(), il::Expression::mul(esp.clone().into(), il::expr_const(2, 32)).unwrap());
    });
    show("(iii) X86: esp = esp * 2", || offsets(&f, &x86));
    let f = function_of(|b| {
        b.assign(esp.clone(), il::Expression::sub(il::expr_const(0, 32), esp.clone().into()).unwrap());
    });
    show("(iii) X86: esp = 0 - esp", || offsets(&f, &x86));

    // expected-unknown cases that are handled
    let f = function_of(|b| {
        b.assign(esp.clone(), il::scalar("ebp", 32).into());
    });
    show("      X86: esp = ebp", || offsets(&f, &x86));
    let f = function_of(|b| {
        b.load(esp.clone(), il::scalar("ebp", 32).into());
    });
    show("      X86: esp = [ebp]", || offsets(&f, &x86));
    // nested translation
    let f = function_of(|b| {
        let e = il::Expression::add(
            il::Expression::sub(esp.clone().into(), il::expr_const(16, 32)).unwrap(),
            il::expr_const(4, 32),
        )
        .unwrap();
        b.assign(esp.clone(), e);
        b.assign(
            esp.clone(),
            il::Expression::add(il::expr_const(12, 32), esp.clone().into()).unwrap(),
        );
    });
    show("      X86: esp = (esp - 16) + 4; esp = 12 + esp", || offsets(&f, &x86));
}
