// C11 witness: concrete failing inputs for the defects found while verifying lib/graph/mod.rs
use falcon::graph::*;
use std::panic::{catch_unwind, AssertUnwindSafe};

fn g3() -> Graph<NullVertex, NullEdge> {
    // vertices 0,1,2 ; edge 0->1 ; vertex 2 is unreachable from 0
    let mut g = Graph::new();
    g.insert_vertex(NullVertex::new(0)).unwrap();
    g.insert_vertex(NullVertex::new(1)).unwrap();
    g.insert_vertex(NullVertex::new(2)).unwrap();
    g.insert_edge(NullEdge::new(0, 1)).unwrap();
    g
}

fn show<T: std::fmt::Debug>(what: &str, f: impl FnOnce() -> T) {
    let r = catch_unwind(AssertUnwindSafe(f));
    match r {
        Ok(v) => println!("{:<55} -> returned {:?}", what, v),
        Err(_) => println!("{:<55} -> PANIC", what),
    }
}

fn main() {
    std::panic::set_hook(Box::new(|i| println!("    panic: {}", i)));
    let g = g3();
    // (i) unreachable vertex 2
    show("(i) compute_immediate_dominators(0), vertex 2 unreachable", || g.compute_immediate_dominators(0).map(|m| m.len()).map_err(|e| e.to_string()));
    show("(i) compute_dominators(0)", || g.compute_dominators(0).map(|m| m.len()).map_err(|e| e.to_string()));
    show("(i) compute_dominator_tree(0)", || g.compute_dominator_tree(0).map(|m| m.num_vertices()).map_err(|e| e.to_string()));
    show("(i) compute_dominance_frontiers(0)", || g.compute_dominance_frontiers(0).map(|m| m.len()).map_err(|e| e.to_string()));
    show("(i) compute_loops(0)", || g.compute_loops(0).map(|m| m.len()).map_err(|e| e.to_string()));
    show("(i) compute_loop_tree(0)", || g.compute_loop_tree(0).map(|m| m.num_vertices()).map_err(|e| e.to_string()));
    show("(i) is_reducible(0)", || g.is_reducible(0).map_err(|e| e.to_string()));
    // (ii) missing root
    show("(ii) compute_post_order(7), 7 is not a vertex", || g.compute_post_order(7).map_err(|e| e.to_string()));
    show("     compute_pre_order(7) (for comparison)", || g.compute_pre_order(7).map_err(|e| e.to_string()));
    // other root-less queries
    show("(iv) compute_acyclic(7), 7 is not a vertex", || g.compute_acyclic(7).map(|m| m.num_vertices()).map_err(|e| e.to_string()));
    show("(v) is_acyclic(7), 7 is not a vertex", || g.is_acyclic(7));
    show("(vi) compute_dominance_frontiers(7)", || g.compute_dominance_frontiers(7).map(|m| m.len()).map_err(|e| e.to_string()));
    // (iii) remove_unreachable_vertices: unwrap in for_each
    let mut h = g3();
    show("(iii) remove_unreachable_vertices(0)", || { let r = h.remove_unreachable_vertices(0).map_err(|e| e.to_string()); (r, h.num_vertices()) });
}
