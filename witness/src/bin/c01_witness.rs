//! Bounded witness / enumerator for unit C01 (labelled BOUNDED, never counted as proved).
//!
//! Lifts REAL machine code through the public API of the crate (`falcon::translator::x86::{X86, Amd64}` ->
//! `Translator::translate_function`), executes the lifted IL with `falcon::executor::Driver` (the pattern of the
//! crate's own tests in lib/translator/x86/tests/mod.rs: code + `nop`, step until the address of the `nop`) from
//! a few register / flag states, and compares EVERY general-purpose register and the CF/ZF/SF/OF/DF flags with an
//! INDEPENDENT model of the processor written here, for the tiny instruction subset whose semantics is beyond
//! doubt:  mov r,imm / mov r/m,imm / mov r,r (both directions) / xchg / movzx / movsx / movsxd / add / sub / cmp
//! (register and immediate forms) / inc / dec / neg / one-operand mul / imul / div / idiv (states in which the
//! processor raises #DE are skipped), on EVERY 8/16/32/64-bit register name of the two modes
//! (al..bh, spl..dil, r8b..r15b, ax.., r8w.., eax.., r8d.., rax.., r8..r15), hand-encoded (opcodes B0+r, B8+r,
//! C6, C7, 88-8B, 86, 87, 90+r, 0F B6/B7/BE/BF, 63, 00-03, 28-2B, 38-3B, 04/05, 2C/2D, 3C/3D, 80, 81, 83, FE, FF,
//! F6 /3../7, F7 /3../7, 40+r, 48+r with 66 and REX prefixes).
//! Model rules (x86 architecture): a write to an 8- or 16-bit register leaves every other bit of the full register
//! unchanged; a write to a 32-bit register in 64-bit mode clears bits 63..32; every other register is unchanged;
//! ZF = (result == 0), SF = msb(result), CF / OF = unsigned / signed overflow of the addition resp. subtraction;
//! inc / dec keep CF; neg sets CF = (operand != 0); mov / xchg / movzx / movsx change no flag; DF is never changed;
//! mul / imul: hi:lo = product, CF = OF = (the upper half is significant), ZF / SF undefined (not compared); div / idiv:
//! lo = quotient, hi = remainder (truncating), all arithmetic flags undefined (not compared).
//! An encoding the lifter REJECTS (any error other than a sort error) is outside the property; such encodings are counted
//! and listed in the summary (`rejected_encodings`), a sort error while lifting IS a disagreement.
//! One JSON line per disagreement (at most 40 printed, all counted; C01_WITNESS_PRINT=n overrides), then a summary line.
use falcon::architecture;
use falcon::architecture::Endian;
use falcon::executor::{Driver, Memory, State};
use falcon::il;
use falcon::memory;
use falcon::translator::x86::{Amd64 as TAmd64, X86 as TX86};
use falcon::translator::Translator;
use falcon::RC;
use std::collections::BTreeMap;
use std::panic::{catch_unwind, AssertUnwindSafe};

#[derive(Clone, Copy, PartialEq, Eq, Debug)]
enum M { X86, Amd64 }

/// a register operand: hardware register `idx`, width in bits, `high` = ah/ch/dh/bh (bits 15..8 of idx 0..3)
#[derive(Clone, Copy, PartialEq, Eq, Debug)]
struct R { idx: u8, w: u8, high: bool }

const N64: [&str; 16] = ["rax", "rcx", "rdx", "rbx", "rsp", "rbp", "rsi", "rdi", "r8", "r9", "r10", "r11", "r12", "r13", "r14", "r15"];
const N32: [&str; 16] = ["eax", "ecx", "edx", "ebx", "esp", "ebp", "esi", "edi", "r8d", "r9d", "r10d", "r11d", "r12d", "r13d", "r14d", "r15d"];
const N16: [&str; 16] = ["ax", "cx", "dx", "bx", "sp", "bp", "si", "di", "r8w", "r9w", "r10w", "r11w", "r12w", "r13w", "r14w", "r15w"];
const N8: [&str; 16] = ["al", "cl", "dl", "bl", "spl", "bpl", "sil", "dil", "r8b", "r9b", "r10b", "r11b", "r12b", "r13b", "r14b", "r15b"];
const N8H: [&str; 4] = ["ah", "ch", "dh", "bh"];

impl R {
    fn name(&self) -> &'static str {
        match (self.w, self.high) {
            (8, true) => N8H[self.idx as usize],
            (8, false) => N8[self.idx as usize],
            (16, _) => N16[self.idx as usize],
            (32, _) => N32[self.idx as usize],
            _ => N64[self.idx as usize],
        }
    }
    /// 3-bit register number in the encoding
    fn enc(&self) -> u8 { if self.high { self.idx + 4 } else { self.idx & 7 } }
    fn ext(&self) -> bool { self.idx >= 8 }
    /// needs a REX prefix to be named at all (spl, bpl, sil, dil)
    fn needs_rex(&self) -> bool { self.w == 8 && !self.high && (4..8).contains(&self.idx) }
}

fn full_name(m: M, idx: usize) -> &'static str { if m == M::X86 { N32[idx] } else { N64[idx] } }
fn nregs(m: M) -> usize { if m == M::X86 { 8 } else { 16 } }
fn wmask(w: u8) -> u64 { if w >= 64 { u64::MAX } else { (1u64 << w) - 1 } }

/// every register operand of width `w` that exists in mode `m`
fn regs(m: M, w: u8) -> Vec<R> {
    let mut v = Vec::new();
    if w == 64 && m == M::X86 { return v; }
    for idx in 0..nregs(m) as u8 {
        let r = R { idx, w, high: false };
        if m == M::X86 && r.needs_rex() { continue; }
        v.push(r);
    }
    if w == 8 { for idx in 0..4u8 { v.push(R { idx, w: 8, high: true }); } }
    v
}

// ------------------------------------------------------------------ the independent processor model
#[derive(Clone, PartialEq, Debug)]
struct Cpu { r: [u64; 16], cf: bool, zf: bool, sf: bool, of: bool, df: bool }

impl Cpu {
    fn read(&self, x: R) -> u64 {
        let v = self.r[x.idx as usize];
        if x.high { (v >> 8) & 0xff } else { v & wmask(x.w) }
    }
    fn write(&mut self, m: M, x: R, v: u64) {
        let v = v & wmask(x.w);
        let old = self.r[x.idx as usize];
        let new = match (x.w, x.high) {
            (8, true) => (old & !0xff00u64) | (v << 8),
            (8, false) => (old & !0xffu64) | v,
            (16, _) => (old & !0xffffu64) | v,
            (32, _) => v, // 32-bit mode: the whole register; 64-bit mode: zero-extended into the 64-bit register
            _ => v,
        };
        self.r[x.idx as usize] = if m == M::X86 { new & 0xffff_ffff } else { new };
    }
}

#[derive(Clone, Copy, Debug, PartialEq)]
enum Alu { Add, Sub, Cmp }
#[derive(Clone, Copy, Debug, PartialEq)]
enum Un { Inc, Dec, Neg }
#[derive(Clone, Copy, Debug)]
enum Src { Reg(R), Imm(u64) }
#[derive(Clone, Copy, Debug)]
enum Sem { MovImm(R, u64), Mov(R, R), Xchg(R, R), Movzx(R, R), Movsx(R, R), Alu(Alu, R, Src), Un(Un, R), MulDiv(Md, R) }
#[derive(Clone, Copy, Debug, PartialEq)]
enum Md { Mul, Imul, Div, Idiv }

fn sext(v: u64, from: u8, to: u8) -> u64 {
    let v = v & wmask(from);
    let s = if (v >> (from - 1)) & 1 == 1 { v | !wmask(from) } else { v };
    s & wmask(to)
}
fn msb(v: u64, w: u8) -> bool { (v >> (w - 1)) & 1 == 1 }

fn flags_add(c: &mut Cpu, w: u8, a: u64, b: u64, set_cf: bool) -> u64 {
    let res = a.wrapping_add(b) & wmask(w);
    let wide = a as u128 + b as u128;
    if set_cf { c.cf = wide > wmask(w) as u128; }
    c.zf = res == 0;
    c.sf = msb(res, w);
    c.of = msb(a, w) == msb(b, w) && msb(res, w) != msb(a, w);
    res
}
fn flags_sub(c: &mut Cpu, w: u8, a: u64, b: u64, set_cf: bool) -> u64 {
    let res = a.wrapping_sub(b) & wmask(w);
    if set_cf { c.cf = a < b; }
    c.zf = res == 0;
    c.sf = msb(res, w);
    c.of = msb(a, w) != msb(b, w) && msb(res, w) != msb(a, w);
    res
}

fn model(c: &mut Cpu, m: M, s: &Sem) -> bool {
    match *s {
        Sem::MulDiv(op, src) => return muldiv(c, m, op, src),
        Sem::MovImm(d, v) => c.write(m, d, v),
        Sem::Mov(d, s) => { let v = c.read(s); c.write(m, d, v) }
        Sem::Xchg(a, b) => { let (va, vb) = (c.read(a), c.read(b)); c.write(m, a, vb); c.write(m, b, va) }
        Sem::Movzx(d, s) => { let v = c.read(s); c.write(m, d, v) }
        Sem::Movsx(d, s) => { let v = sext(c.read(s), s.w, d.w); c.write(m, d, v) }
        Sem::Alu(op, d, s) => {
            let a = c.read(d);
            let b = match s { Src::Reg(r) => c.read(r), Src::Imm(v) => v & wmask(d.w) };
            match op {
                Alu::Add => { let r = flags_add(c, d.w, a, b, true); c.write(m, d, r) }
                Alu::Sub => { let r = flags_sub(c, d.w, a, b, true); c.write(m, d, r) }
                Alu::Cmp => { flags_sub(c, d.w, a, b, true); }
            }
        }
        Sem::Un(op, d) => {
            let a = c.read(d);
            match op {
                Un::Inc => { let r = flags_add(c, d.w, a, 1, false); c.write(m, d, r) }
                Un::Dec => { let r = flags_sub(c, d.w, a, 1, false); c.write(m, d, r) }
                Un::Neg => { let r = flags_sub(c, d.w, 0, a, true); c.write(m, d, r) }
            }
        }
    }
    true
}

/// one-operand mul / imul / div / idiv on the accumulator pair. Returns false when the processor
/// raises #DE (zero divisor, quotient out of range). Flags: mul / imul define CF = OF only; div / idiv define none.
fn muldiv(c: &mut Cpu, m: M, op: Md, src: R) -> bool {
    let w = src.w;
    let lo = R { idx: 0, w, high: false };
    let hi = if w == 8 { R { idx: 0, w: 8, high: true } } else { R { idx: 2, w, high: false } };
    let b = c.read(src);
    let (a_lo, a_hi) = (c.read(lo), c.read(hi));
    let sx = |v: u64| -> i128 { sext(v, w, 64) as i64 as i128 };
    match op {
        Md::Mul | Md::Imul => {
            let p: u128 = if op == Md::Mul { (a_lo as u128) * (b as u128) } else { (sx(a_lo) * sx(b)) as u128 };
            let (rl, rh) = ((p as u64) & wmask(w), ((p >> w) as u64) & wmask(w));
            // 8-bit: AX = AL * src (ah = high half); wider: hi:lo
            c.write(m, lo, rl);
            c.write(m, hi, rh);
            let over = if op == Md::Mul { rh != 0 } else { sx(rl) != (sx(a_lo) * sx(b)) };
            c.cf = over; c.of = over;
            true
        }
        Md::Div => {
            if b == 0 { return false; }
            let n: u128 = ((a_hi as u128) << w) | a_lo as u128;
            let (q, r) = (n / b as u128, n % b as u128);
            if q > wmask(w) as u128 { return false; }
            c.write(m, lo, q as u64);
            c.write(m, hi, r as u64);
            true
        }
        Md::Idiv => {
            if b == 0 { return false; }
            let n: i128 = if w == 64 { (((a_hi as u128) << 64) | a_lo as u128) as i128 } else { sext(((a_hi << w) | a_lo) & wmask(2 * w), 2 * w, 64) as i64 as i128 };
            let d = sx(b);
            if n == i128::MIN && d == -1 { return false; }
            let (q, r) = (n / d, n % d);
            let (minq, maxq) = (-(1i128 << (w - 1)), (1i128 << (w - 1)) - 1);
            if q < minq || q > maxq { return false; }
            c.write(m, lo, q as u64);
            c.write(m, hi, r as u64);
            true
        }
    }
}

// ------------------------------------------------------------------ hand encoder
/// prefixes for an instruction of operand size `w` whose ModRM.reg operand is `reg` (None for /digit) and
/// ModRM.rm (or opcode+r) operand is `rm`; `other` = a further register operand that constrains REX (movzx source).
fn prefixes(m: M, w: u8, reg: Option<R>, rm: R) -> Option<Vec<u8>> {
    let ops: Vec<R> = reg.into_iter().chain(std::iter::once(rm)).collect();
    let rex_w = w == 64;
    let rex_r = reg.map(|r| r.ext()).unwrap_or(false);
    let rex_b = rm.ext();
    let need = rex_w || rex_r || rex_b || ops.iter().any(|r| r.needs_rex());
    let forbid = ops.iter().any(|r| r.high);
    if need && (forbid || m == M::X86) { return None; }
    let mut v = Vec::new();
    if w == 16 { v.push(0x66); }
    if need { v.push(0x40 | ((rex_w as u8) << 3) | ((rex_r as u8) << 2) | (rex_b as u8)); }
    Some(v)
}
fn rr(m: M, w: u8, opc: &[u8], reg: R, rm: R) -> Option<Vec<u8>> {
    let mut v = prefixes(m, w, Some(reg), rm)?;
    v.extend_from_slice(opc);
    v.push(0xC0 | (reg.enc() << 3) | rm.enc());
    Some(v)
}
fn digit(m: M, w: u8, opc: &[u8], d: u8, rm: R) -> Option<Vec<u8>> {
    let mut v = prefixes(m, w, None, rm)?;
    v.extend_from_slice(opc);
    v.push(0xC0 | (d << 3) | rm.enc());
    Some(v)
}
fn plus_r(m: M, w: u8, base: u8, r: R) -> Option<Vec<u8>> {
    let mut v = prefixes(m, w, None, r)?;
    v.push(base + r.enc());
    Some(v)
}
fn imm_bytes(v: u64, n: usize) -> Vec<u8> { (0..n).map(|i| (v >> (8 * i)) as u8).collect() }

struct Case { op: &'static str, asm: String, bytes: Vec<u8>, sem: Sem, kind: Kind }
#[derive(Clone, Copy, PartialEq)]
enum Kind { Move, Alu2, Alu1, MulDiv }

fn boundary(w: u8) -> Vec<u64> {
    let m = wmask(w);
    vec![0, 1, m >> 1, (m >> 1) + 1, m]
}
fn imm_values(w: u8) -> Vec<u64> {
    let m = wmask(w);
    vec![0, 1, 0x12 & m, 0x1234_5678_9abc_def0 & m, m >> 1, (m >> 1) + 1, m]
}

fn cases(m: M) -> Vec<Case> {
    let mut out: Vec<Case> = Vec::new();
    let widths: &[u8] = if m == M::X86 { &[8, 16, 32] } else { &[8, 16, 32, 64] };
    let mut push = |op: &'static str, asm: String, bytes: Option<Vec<u8>>, sem: Sem, kind: Kind| {
        if let Some(bytes) = bytes { out.push(Case { op, asm, bytes, sem, kind }); }
    };
    for &w in widths {
        let rs = regs(m, w);
        let (o8, ow) = (w == 8, w != 8);
        let _ = ow;
        // ---- mov r, imm (B0+r / B8+r) and mov r/m, imm (C6 /0, C7 /0)
        for &d in &rs {
            for v in imm_values(w) {
                let n = (w / 8) as usize;
                let b = plus_r(m, w, if o8 { 0xB0 } else { 0xB8 }, d).map(|mut b| { b.extend(imm_bytes(v, n)); b });
                push("mov_r_imm", format!("mov {}, 0x{:x}", d.name(), v), b, Sem::MovImm(d, v), Kind::Move);
            }
            for v in imm_values(if w == 64 { 32 } else { w }) {
                let n = if w == 64 { 4 } else { (w / 8) as usize };
                let val = if w == 64 { sext(v, 32, 64) } else { v };
                let b = digit(m, w, &[if o8 { 0xC6 } else { 0xC7 }], 0, d).map(|mut b| { b.extend(imm_bytes(v, n)); b });
                push("mov_rm_imm", format!("mov {}, 0x{:x} (C6/C7)", d.name(), val), b, Sem::MovImm(d, val), Kind::Move);
            }
        }
        // ---- mov r/m, r (88/89) ; mov r, r/m (8A/8B) ; xchg (86/87) ; add/sub/cmp r/m, r and r, r/m
        for &a in &rs {
            for &b in &rs {
                push("mov_rm_r", format!("mov {}, {}", a.name(), b.name()), rr(m, w, &[if o8 { 0x88 } else { 0x89 }], b, a), Sem::Mov(a, b), Kind::Move);
                push("mov_r_rm", format!("mov {}, {} (8A/8B)", a.name(), b.name()), rr(m, w, &[if o8 { 0x8A } else { 0x8B }], a, b), Sem::Mov(a, b), Kind::Move);
                push("xchg", format!("xchg {}, {}", a.name(), b.name()), rr(m, w, &[if o8 { 0x86 } else { 0x87 }], b, a), Sem::Xchg(a, b), Kind::Move);
                for (op, name, base) in [(Alu::Add, "add", 0x00u8), (Alu::Sub, "sub", 0x28), (Alu::Cmp, "cmp", 0x38)] {
                    let opname: &'static str = match op { Alu::Add => "add", Alu::Sub => "sub", Alu::Cmp => "cmp" };
                    push(opname, format!("{} {}, {}", name, a.name(), b.name()), rr(m, w, &[base + if o8 { 0 } else { 1 }], b, a), Sem::Alu(op, a, Src::Reg(b)), Kind::Alu2);
                    // the reverse encoding for a thinner slice (same destination index parity) keeps the run time down
                    if a.idx % 3 == 0 {
                        push(opname, format!("{} {}, {} (r, r/m form)", name, a.name(), b.name()), rr(m, w, &[base + if o8 { 2 } else { 3 }], a, b), Sem::Alu(op, a, Src::Reg(b)), Kind::Alu2);
                    }
                }
            }
        }
        // ---- xchg eAX, r (90+r), not the nop encoding
        if !o8 {
            let acc = R { idx: 0, w, high: false };
            for &b in &rs {
                if b.idx == 0 { continue; }
                push("xchg", format!("xchg {}, {} (90+r)", acc.name(), b.name()), plus_r(m, w, 0x90, b), Sem::Xchg(acc, b), Kind::Move);
            }
        }
        // ---- immediate forms of add / sub / cmp: 80 /d ib ; 81 /d iw|id ; 83 /d ib (sign-extended) ; short forms on the accumulator
        for &d in &rs {
            for (op, name, dg, short) in [(Alu::Add, "add", 0u8, 0x04u8), (Alu::Sub, "sub", 5, 0x2C), (Alu::Cmp, "cmp", 7, 0x3C)] {
                let opname: &'static str = match op { Alu::Add => "add", Alu::Sub => "sub", Alu::Cmp => "cmp" };
                if o8 {
                    for v in boundary(8) {
                        push(opname, format!("{} {}, 0x{:x}", name, d.name(), v), digit(m, 8, &[0x80], dg, d).map(|mut b| { b.push(v as u8); b }), Sem::Alu(op, d, Src::Imm(v)), Kind::Alu2);
                        if d.idx == 0 && !d.high {
                            push(opname, format!("{} al, 0x{:x} (short form)", name, v), Some(vec![short, v as u8]), Sem::Alu(op, d, Src::Imm(v)), Kind::Alu2);
                        }
                    }
                } else {
                    for v in boundary(8) {
                        let val = sext(v, 8, w);
                        push(opname, format!("{} {}, 0x{:x} (83, imm8 sign-extended)", name, d.name(), val), digit(m, w, &[0x83], dg, d).map(|mut b| { b.push(v as u8); b }), Sem::Alu(op, d, Src::Imm(val)), Kind::Alu2);
                    }
                    let iw = if w == 64 { 32 } else { w };
                    for v in boundary(iw) {
                        let val = sext(v, iw, w);
                        let n = (iw / 8) as usize;
                        push(opname, format!("{} {}, 0x{:x} (81)", name, d.name(), val), digit(m, w, &[0x81], dg, d).map(|mut b| { b.extend(imm_bytes(v, n)); b }), Sem::Alu(op, d, Src::Imm(val)), Kind::Alu2);
                        if d.idx == 0 {
                            let b = prefixes(m, w, None, d).map(|mut b| { b.push(short + 1); b.extend(imm_bytes(v, n)); b });
                            push(opname, format!("{} {}, 0x{:x} (short form)", name, d.name(), val), b, Sem::Alu(op, d, Src::Imm(val)), Kind::Alu2);
                        }
                    }
                }
            }
            // ---- inc / dec / neg
            push("inc", format!("inc {}", d.name()), digit(m, w, &[if o8 { 0xFE } else { 0xFF }], 0, d), Sem::Un(Un::Inc, d), Kind::Alu1);
            push("dec", format!("dec {}", d.name()), digit(m, w, &[if o8 { 0xFE } else { 0xFF }], 1, d), Sem::Un(Un::Dec, d), Kind::Alu1);
            push("neg", format!("neg {}", d.name()), digit(m, w, &[if o8 { 0xF6 } else { 0xF7 }], 3, d), Sem::Un(Un::Neg, d), Kind::Alu1);
            if m == M::X86 && !o8 {
                push("inc", format!("inc {} (40+r)", d.name()), plus_r(m, w, 0x40, d), Sem::Un(Un::Inc, d), Kind::Alu1);
                push("dec", format!("dec {} (48+r)", d.name()), plus_r(m, w, 0x48, d), Sem::Un(Un::Dec, d), Kind::Alu1);
            }
        }
        // ---- one-operand mul / imul / div / idiv (F6 /4../7, F7 /4../7) on the accumulator pair
        for &d in &rs {
            for (op, name, dg) in [(Md::Mul, "mul", 4u8), (Md::Imul, "imul", 5), (Md::Div, "div", 6), (Md::Idiv, "idiv", 7)] {
                let opname: &'static str = match op { Md::Mul => "mul", Md::Imul => "imul", Md::Div => "div", Md::Idiv => "idiv" };
                push(opname, format!("{} {}", name, d.name()), digit(m, w, &[if o8 { 0xF6 } else { 0xF7 }], dg, d), Sem::MulDiv(op, d), Kind::MulDiv);
            }
        }
        // ---- movzx / movsx from 8- and 16-bit registers into this width ; movsxd
        if !o8 {
            for &sw in &[8u8, 16u8] {
                if sw >= w { continue; }
                for &d in &rs {
                    for &s in &regs(m, sw) {
                        push("movzx", format!("movzx {}, {}", d.name(), s.name()), rr(m, w, &[0x0F, if sw == 8 { 0xB6 } else { 0xB7 }], d, s), Sem::Movzx(d, s), Kind::Move);
                        push("movsx", format!("movsx {}, {}", d.name(), s.name()), rr(m, w, &[0x0F, if sw == 8 { 0xBE } else { 0xBF }], d, s), Sem::Movsx(d, s), Kind::Move);
                    }
                }
            }
            if w == 64 {
                for &d in &rs {
                    for &s in &regs(m, 32) {
                        push("movsxd", format!("movsxd {}, {}", d.name(), s.name()), rr(m, 64, &[0x63], d, s), Sem::Movsx(d, s), Kind::Move);
                    }
                }
            }
        }
    }
    out
}

// ------------------------------------------------------------------ running the lifted code
fn lift(m: M, bytes: &[u8]) -> Result<RC<il::Program>, String> {
    let mut code = bytes.to_vec();
    code.push(0x90);
    let mut backing = memory::backing::Memory::new(Endian::Little);
    backing.set_memory(0, code, memory::MemoryPermissions::EXECUTE | memory::MemoryPermissions::READ);
    let function = match m {
        M::X86 => TX86::new().translate_function(&backing, 0),
        M::Amd64 => TAmd64::new().translate_function(&backing, 0),
    }.map_err(|e| format!("{}", e))?;
    let mut program = il::Program::new();
    program.add_function(function);
    Ok(RC::new(program))
}

fn run(m: M, program: &RC<il::Program>, stop: u64, cpu: &Cpu) -> Result<Cpu, String> {
    let function = program.function(0).ok_or("no function")?;
    let location = if function.control_flow_graph().block(0).map_err(|e| format!("{}", e))?.instructions().is_empty() {
        il::ProgramLocation::new(Some(0), il::FunctionLocation::EmptyBlock(0))
    } else {
        il::ProgramLocation::new(Some(0), il::FunctionLocation::Instruction(0, 0))
    };
    let mut state = State::new(Memory::new(Endian::Little));
    let fb = if m == M::X86 { 32 } else { 64 };
    for i in 0..nregs(m) { state.set_scalar(full_name(m, i), il::const_(cpu.r[i], fb)); }
    for (n, v) in [("CF", cpu.cf), ("ZF", cpu.zf), ("SF", cpu.sf), ("OF", cpu.of), ("DF", cpu.df), ("AF", false), ("PF", false), ("IF", false)] {
        state.set_scalar(n, il::const_(v as u64, 1));
    }
    let arch: RC<dyn architecture::Architecture> = match m {
        M::X86 => RC::new(architecture::X86::new()),
        M::Amd64 => RC::new(architecture::Amd64::new()),
    };
    let mut driver = Driver::new(program.clone(), location, state, arch);
    let mut steps = 0;
    loop {
        let at = driver.location().apply(driver.program()).map_err(|e| format!("{}", e))?.address();
        if at == Some(stop) { break; }
        steps += 1;
        if steps > 200 { return Err("did not reach the next instruction address within 200 IL steps".to_string()); }
        driver = driver.step().map_err(|e| format!("step: {}", e))?;
    }
    let mut out = cpu.clone();
    for i in 0..nregs(m) {
        let c = driver.state().get_scalar(full_name(m, i)).ok_or(format!("scalar {} vanished", full_name(m, i)))?;
        if c.bits() != fb { return Err(format!("scalar {} has width {} after the instruction", full_name(m, i), c.bits())); }
        out.r[i] = c.value_u64().ok_or("value does not fit u64")?;
    }
    let flag = |n: &str| -> Result<bool, String> {
        let c = driver.state().get_scalar(n).ok_or(format!("flag {} vanished", n))?;
        if c.bits() != 1 { return Err(format!("flag {} has width {}", n, c.bits())); }
        Ok(c.value_u64() == Some(1))
    };
    out.cf = flag("CF")?; out.zf = flag("ZF")?; out.sf = flag("SF")?; out.of = flag("OF")?; out.df = flag("DF")?;
    Ok(out)
}

fn base_states(m: M) -> Vec<Cpu> {
    let mut a = Cpu { r: [0; 16], cf: false, zf: true, sf: false, of: true, df: true };
    for i in 0..16 { a.r[i] = 0x1122_3344_5566_7788u64.rotate_left(4 * i as u32) ^ (0x0101_0101_0101_0101u64.wrapping_mul(i as u64)); }
    let b = Cpu { r: [u64::MAX; 16], cf: true, zf: false, sf: true, of: false, df: false };
    let mut c = Cpu { r: [0; 16], cf: true, zf: true, sf: true, of: true, df: false };
    for i in 0..16 { c.r[i] = if i % 2 == 0 { 0x8000_0000_8000_8080 } else { 0x7fff_ffff_7fff_7f7f }; }
    let mut v = vec![a, b, c];
    if m == M::X86 { for s in v.iter_mut() { for i in 0..16 { s.r[i] = if i < 8 { s.r[i] & 0xffff_ffff } else { 0 }; } } }
    v
}

fn diff(m: M, exp: &Cpu, got: &Cpu) -> Option<(String, String, String)> {
    for i in 0..nregs(m) {
        if exp.r[i] != got.r[i] { return Some((full_name(m, i).to_string(), format!("0x{:x}", exp.r[i]), format!("0x{:x}", got.r[i]))); }
    }
    for (n, e, g) in [("CF", exp.cf, got.cf), ("ZF", exp.zf, got.zf), ("SF", exp.sf, got.sf), ("OF", exp.of, got.of), ("DF", exp.df, got.df)] {
        if e != g { return Some((n.to_string(), format!("{}", e as u8), format!("{}", g as u8))); }
    }
    None
}

fn state_json(m: M, c: &Cpu) -> String {
    let regs: Vec<String> = (0..nregs(m)).map(|i| format!("\"{}\":\"0x{:x}\"", full_name(m, i), c.r[i])).collect();
    format!("{{{},\"CF\":{},\"ZF\":{},\"SF\":{},\"OF\":{},\"DF\":{}}}", regs.join(","), c.cf as u8, c.zf as u8, c.sf as u8, c.of as u8, c.df as u8)
}

fn related(kind: Kind) -> &'static str {
    match kind {
        Kind::Move => "[\"set\",\"get\",\"get_register\"]",
        Kind::Alu2 => "[\"set\",\"get\",\"get_register\",\"set_zf\",\"set_sf\",\"set_of\",\"set_cf\"]",
        Kind::Alu1 => "[\"set\",\"get\",\"get_register\",\"set_zf\",\"set_sf\",\"set_of\"]",
        Kind::MulDiv => "[\"set\",\"get\",\"get_register\"]",
    }
}

fn main() {
    std::panic::set_hook(Box::new(|_| {}));
    let mut evals = 0u64;
    let mut found = 0u64;
    let mut printed = 0u64;
    let mut encodings = 0u64;
    let mut rejected = 0u64;
    let mut rejected_examples: Vec<String> = Vec::new();
    let limit: u64 = std::env::var("C01_WITNESS_PRINT").ok().and_then(|s| s.parse().ok()).unwrap_or(40);
    let mut per_op: BTreeMap<String, (u64, u64, u64)> = BTreeMap::new(); // op -> (encodings, evaluations, disagreements)
    for m in [M::X86, M::Amd64] {
        let bases = base_states(m);
        for case in cases(m) {
            encodings += 1;
            let key = format!("{}:{}", if m == M::X86 { "x86" } else { "amd64" }, case.op);
            per_op.entry(key.clone()).or_insert((0, 0, 0)).0 += 1;
            let hex: Vec<String> = case.bytes.iter().map(|b| format!("{:02x}", b)).collect();
            let report = |st: &Cpu, what: String, exp: String, got: String, found: &mut u64, printed: &mut u64, per_op: &mut BTreeMap<String, (u64, u64, u64)>| {
                *found += 1;
                per_op.get_mut(&key).unwrap().2 += 1;
                if *printed < limit {
                    *printed += 1;
                    println!("{{\"witness\":true,\"op\":\"{}\",\"ops_related\":{},\"mode\":\"{}\",\"bytes\":\"{}\",\"asm\":\"{}\",\"state\":{},\"where\":\"{}\",\"expected\":\"{}\",\"got\":\"{}\"}}",
                        case.op, related(case.kind), if m == M::X86 { "x86" } else { "amd64" }, hex.join(" "), case.asm, state_json(m, st), what, exp, got);
                }
            };
            let lifted = catch_unwind(AssertUnwindSafe(|| lift(m, &case.bytes)));
            let program = match lifted {
                Ok(Ok(p)) => p,
                Ok(Err(e)) => {
                    // an encoding the lifter REJECTS is outside the property ("every encoding the lifter accepts") unless the
                    // rejection is an operand-width (sort) error, which the property forbids; rejections are counted and listed
                    if e.contains("Sort error") {
                        evals += 1; per_op.get_mut(&key).unwrap().1 += 1;
                        report(&bases[0], "lifting".to_string(), "Ok".to_string(), format!("Err({})", e.replace('"', "'")), &mut found, &mut printed, &mut per_op);
                    } else {
                        rejected += 1;
                        if rejected_examples.len() < 8 { rejected_examples.push(format!("{{\"mode\":\"{}\",\"bytes\":\"{}\",\"asm\":\"{}\",\"error\":\"{}\"}}", if m == M::X86 { "x86" } else { "amd64" }, hex.join(" "), case.asm, e.replace('"', "'").replace('`', "'"))); }
                    }
                    continue;
                }
                Err(_) => { evals += 1; per_op.get_mut(&key).unwrap().1 += 1; report(&bases[0], "lifting".to_string(), "Ok".to_string(), "panic".to_string(), &mut found, &mut printed, &mut per_op); continue; }
            };
            // the register states of this case
            let mut states: Vec<Cpu> = Vec::new();
            match (case.kind, case.sem) {
                (Kind::Move, _) => states.extend(bases.iter().cloned()),
                (Kind::Alu2, Sem::Alu(_, d, s)) => {
                    for a in boundary(d.w) {
                        let bs: Vec<Option<u64>> = match s { Src::Reg(r) => boundary(r.w).into_iter().map(Some).collect(), Src::Imm(_) => vec![None] };
                        for b in bs {
                            let mut st = bases[0].clone();
                            if let (Src::Reg(r), Some(b)) = (s, b) { st.write(m, r, b); }
                            st.write(m, d, a);
                            states.push(st);
                        }
                    }
                }
                (Kind::Alu1, Sem::Un(_, d)) => {
                    for a in boundary(d.w) { for cf in [false, true] {
                        let mut st = bases[0].clone();
                        st.write(m, d, a);
                        st.cf = cf;
                        states.push(st);
                    } }
                }
                (Kind::MulDiv, Sem::MulDiv(_, d)) => {
                    let lo = R { idx: 0, w: d.w, high: false };
                    let hi = if d.w == 8 { R { idx: 0, w: 8, high: true } } else { R { idx: 2, w: d.w, high: false } };
                    for b in boundary(d.w).into_iter().chain([3u64, 0x10]) { for a in boundary(d.w).into_iter().chain([7u64, 0x64]) { for h in [0u64, 1, 2, wmask(d.w), wmask(d.w) >> 1] {
                        let mut st = bases[0].clone();
                        st.write(m, lo, a);
                        st.write(m, hi, h);
                        st.write(m, d, b);
                        states.push(st);
                    } } }
                }
                _ => unreachable!(),
            }
            for st in &states {
                let mut exp = st.clone();
                if !model(&mut exp, m, &case.sem) { continue; } // the processor faults (#DE): outside the property
                evals += 1;
                per_op.get_mut(&key).unwrap().1 += 1;
                let got = catch_unwind(AssertUnwindSafe(|| run(m, &program, case.bytes.len() as u64, st)));
                match got {
                    Ok(Ok(mut g)) => {
                        // flags the architecture leaves undefined are not compared
                        if let Sem::MulDiv(op, _) = case.sem { g.zf = exp.zf; g.sf = exp.sf; if op == Md::Div || op == Md::Idiv { g.cf = exp.cf; g.of = exp.of; } }
                        if let Some((w, e, g)) = diff(m, &exp, &g) { report(st, w, e, g, &mut found, &mut printed, &mut per_op); } }
                    Ok(Err(e)) => report(st, "execution".to_string(), "runs to the next instruction address".to_string(), e.replace('"', "'"), &mut found, &mut printed, &mut per_op),
                    Err(_) => report(st, "execution".to_string(), "runs to the next instruction address".to_string(), "panic".to_string(), &mut found, &mut printed, &mut per_op),
                }
            }
        }
    }
    let per: Vec<String> = per_op.iter().map(|(k, v)| format!("\"{}\":{{\"encodings\":{},\"evaluations\":{},\"disagreements\":{}}}", k, v.0, v.1, v.2)).collect();
    println!("{{\"summary\":true,\"evaluations\":{},\"encodings\":{},\"disagreements\":{},\"rejected_encodings\":{},\"rejected_examples\":[{}],\"per_op\":{{{}}}}}", evals, encodings, found, rejected, rejected_examples.join(","), per.join(","));
}
