//! Bounded witness / enumerator for unit C01 (labelled BOUNDED, never counted as proved).
//!
//! Lifts REAL machine code through the public API of the crate (`falcon::translator::x86::{X86, Amd64}` ->
//! `Translator::translate_function`), executes the lifted IL with `falcon::executor::Driver` from many register / flag /
//! memory states and compares ALL general-purpose registers, CF/ZF/SF/OF/DF, the segment-base scalars, EVERY memory
//! byte written by either side and the NEXT INSTRUCTION ADDRESS with an INDEPENDENT model of the processor written
//! here (nothing of the lifter is used by the model; the oracle is the Intel SDM vol. 2 instruction reference).
//!
//! Machine set-up: code at 0x1000 (the instruction under test, then `nop; hlt`; further `nop; hlt` landing pads at every
//! direct branch target and at 0x1800 for indirect ones), flat data memory 0x4000..0x8000 and 0x10000..0x14000 filled
//! with an address-dependent byte pattern, stack pointer 0x13000, fs_base = 0x1000, gs_base = 0x2400, cs/ds/es/ss bases 0
//! (flat), the IL scalars the lifter uses for them (`fs_base`, `gs_base`, `cs_base`, ...).  A state in which the model touches
//! unmapped memory or in which the architecture leaves the outcome undefined is skipped; flags the architecture leaves
//! undefined are not compared; the lifted code is stepped until an instruction with another address is reached.
//!
//! Groups: (old) register / immediate forms of mov xchg movzx movsx movsxd add sub cmp inc dec neg mul imul div idiv on every
//! register name; (mem) every ModRM / SIB / moffs / RIP-relative / 16-bit addressing form x segment overrides for mov add
//! sub cmp lea movzx movsx inc dec neg xchg push pop; (cc) Jcc / SETcc / CMOVcc x 32 flag states, JCXZ family, LOOP
//! family; (str) movs stos lods scas cmps x sizes x rep / repe / repne x counts x DF x exit positions x 0x67; (int) adc sbb
//! and or xor not test shifts rotates shld shrd bt* bsf bsr bswap cbw.. xadd cmpxchg imul push pop call ret jmp leave sahf
//! lahf flag instructions nop.
//! An encoding the lifter REJECTS (any error other than a sort error) is outside the property; such encodings are counted
//! (`rejected_encodings`), a sort error while lifting IS a disagreement.
//! Output: one JSON line per disagreement (at most 3 per op; C01_WITNESS_PRINT=n overrides), then a summary line.
//! VERIF_TIER=thorough widens the operand value sets; C01_THREADS (default 4) worker threads; C01_ONLY=<substring> restricts ops.
use falcon::architecture;
use falcon::architecture::Endian;
use falcon::executor::{Driver, Memory, State};
use falcon::il;
use falcon::memory;
use falcon::translator::x86::{Amd64 as TAmd64, X86 as TX86};
use falcon::translator::Translator;
use falcon::RC;
use std::collections::BTreeMap;
use std::panic::{catch_unwind, AssertUnwindSafe};

#[derive(Clone, Copy, PartialEq, Eq, Debug)]
enum M { X86, Amd64 }
impl M {
    fn bits(self) -> u8 { if self == M::X86 { 32 } else { 64 } }
    fn mask(self) -> u64 { wmask(self.bits()) }
    fn name(self) -> &'static str { if self == M::X86 { "x86" } else { "amd64" } }
}

/// a register operand: hardware register `idx`, width in bits, `high` = ah/ch/dh/bh (bits 15..8 of idx 0..3)
#[derive(Clone, Copy, PartialEq, Eq, Debug)]
struct R { idx: u8, w: u8, high: bool }
fn r(idx: u8, w: u8) -> R { R { idx, w, high: false } }
fn rh(idx: u8) -> R { R { idx, w: 8, high: true } }

const N64: [&str; 16] = ["rax", "rcx", "rdx", "rbx", "rsp", "rbp", "rsi", "rdi", "r8", "r9", "r10", "r11", "r12", "r13", "r14", "r15"];
const N32: [&str; 16] = ["eax", "ecx", "edx", "ebx", "esp", "ebp", "esi", "edi", "r8d", "r9d", "r10d", "r11d", "r12d", "r13d", "r14d", "r15d"];
const N16: [&str; 16] = ["ax", "cx", "dx", "bx", "sp", "bp", "si", "di", "r8w", "r9w", "r10w", "r11w", "r12w", "r13w", "r14w", "r15w"];
const N8: [&str; 16] = ["al", "cl", "dl", "bl", "spl", "bpl", "sil", "dil", "r8b", "r9b", "r10b", "r11b", "r12b", "r13b", "r14b", "r15b"];
const N8H: [&str; 4] = ["ah", "ch", "dh", "bh"];

impl R {
    fn name(&self) -> &'static str {
        match (self.w, self.high) {
            (8, true) => N8H[self.idx as usize],
            (8, false) => N8[self.idx as usize],
            (16, _) => N16[self.idx as usize],
            (32, _) => N32[self.idx as usize],
            _ => N64[self.idx as usize],
        }
    }
    /// 3-bit register number in the encoding
    fn enc(&self) -> u8 { if self.high { self.idx + 4 } else { self.idx & 7 } }
    fn ext(&self) -> bool { self.idx >= 8 }
    /// needs a REX prefix to be named at all (spl, bpl, sil, dil)
    fn needs_rex(&self) -> bool { self.w == 8 && !self.high && (4..8).contains(&self.idx) }
}

fn full_name(m: M, idx: usize) -> &'static str { if m == M::X86 { N32[idx] } else { N64[idx] } }
fn nregs(m: M) -> usize { if m == M::X86 { 8 } else { 16 } }
fn wmask(w: u8) -> u64 { if w >= 64 { u64::MAX } else { (1u64 << w) - 1 } }

/// every register operand of width `w` that exists in mode `m`
fn regs(m: M, w: u8) -> Vec<R> {
    let mut v = Vec::new();
    if w == 64 && m == M::X86 { return v; }
    for idx in 0..nregs(m) as u8 {
        let x = r(idx, w);
        if m == M::X86 && x.needs_rex() { continue; }
        v.push(x);
    }
    if w == 8 { for idx in 0..4u8 { v.push(rh(idx)); } }
    v
}

// ------------------------------------------------------------------ machine layout
const CODE: u64 = 0x1000;
const CODE_LO: u64 = 0x0800;
const CODE_HI: u64 = 0x2000;
const LOW_LO: u64 = 0x4000;
const LOW_HI: u64 = 0x8000;
const MAIN_LO: u64 = 0x10000;
const MAIN_HI: u64 = 0x14000;
const STACK: u64 = 0x13000;
const FS_BASE: u64 = 0x1000;
const GS_BASE: u64 = 0x2400;
const PAD_IND: u64 = 0x1800;
/// effective-address targets of the memory-operand forms
const T32: u64 = 0x10800;
const T16: u64 = 0x4800;

fn pat(a: u64) -> u8 { ((a.wrapping_mul(0x9E37_79B9) >> 7) ^ (a >> 3) ^ 0xA5) as u8 }
fn mapped(a: u64) -> bool { (LOW_LO..LOW_HI).contains(&a) || (MAIN_LO..MAIN_HI).contains(&a) }

type Skip = &'static str;

// ------------------------------------------------------------------ the independent processor model
#[derive(Clone, Debug)]
struct Cpu { r: [u64; 16], cf: bool, zf: bool, sf: bool, of: bool, df: bool, pf: bool, fs: u64, gs: u64, mem: BTreeMap<u64, u8> }

impl Cpu {
    fn read(&self, x: R) -> u64 {
        let v = self.r[x.idx as usize];
        if x.high { (v >> 8) & 0xff } else { v & wmask(x.w) }
    }
    /// architectural register write (32-bit writes zero-extend in 64-bit mode)
    fn write(&mut self, m: M, x: R, v: u64) {
        let v = v & wmask(x.w);
        let old = self.r[x.idx as usize];
        let new = match (x.w, x.high) {
            (8, true) => (old & !0xff00u64) | (v << 8),
            (8, false) => (old & !0xffu64) | v,
            (16, _) => (old & !0xffffu64) | v,
            _ => v,
        };
        self.r[x.idx as usize] = if m == M::X86 { new & 0xffff_ffff } else { new };
    }
    /// state set-up: replaces the named bits only (no zero-extension)
    fn poke(&mut self, m: M, x: R, v: u64) {
        if x.w == 32 && m == M::Amd64 {
            let old = self.r[x.idx as usize];
            self.r[x.idx as usize] = (old & !0xffff_ffffu64) | (v & 0xffff_ffff);
        } else { self.write(m, x, v) }
    }
    fn byte(&self, a: u64) -> u8 { *self.mem.get(&a).unwrap_or(&pat(a)) }
    fn ld(&self, m: M, a: u64, n: u8) -> Result<u64, Skip> {
        let mut v = 0u64;
        for i in 0..n as u64 {
            let x = a.wrapping_add(i) & m.mask();
            if !mapped(x) { return Err("unmapped"); }
            v |= (self.byte(x) as u64) << (8 * i);
        }
        Ok(v)
    }
    fn st(&mut self, m: M, a: u64, n: u8, v: u64) -> Result<(), Skip> {
        for i in 0..n as u64 { if !mapped(a.wrapping_add(i) & m.mask()) { return Err("unmapped"); } }
        for i in 0..n as u64 { self.mem.insert(a.wrapping_add(i) & m.mask(), (v >> (8 * i)) as u8); }
        Ok(())
    }
}

#[derive(Clone, Copy, PartialEq, Eq, Debug)]
enum Seg { None, Cs, Ds, Es, Fs, Gs, Ss }
impl Seg {
    fn prefix(self) -> Option<u8> { match self { Seg::None => None, Seg::Cs => Some(0x2e), Seg::Ds => Some(0x3e), Seg::Es => Some(0x26), Seg::Fs => Some(0x64), Seg::Gs => Some(0x65), Seg::Ss => Some(0x36) } }
    fn name(self) -> &'static str { match self { Seg::None => "", Seg::Cs => "cs:", Seg::Ds => "ds:", Seg::Es => "es:", Seg::Fs => "fs:", Seg::Gs => "gs:", Seg::Ss => "ss:" } }
    fn base(self) -> u64 { match self { Seg::Fs => FS_BASE, Seg::Gs => GS_BASE, _ => 0 } }
}

/// a memory operand: seg:[base + index*scale + disp] at address width `aw`; `rip`: disp is the ABSOLUTE target of a
/// RIP-relative form; `dsz` displacement bytes in the encoding; `sib` forces a SIB byte
#[derive(Clone, Copy, Debug)]
struct MemRef { seg: Seg, aw: u8, base: Option<u8>, index: Option<(u8, u8)>, disp: i64, dsz: u8, rip: bool, sib: bool }

#[derive(Clone, Copy, Debug)]
enum Op { R(R), M(MemRef, u8), I(u64) }

fn mem_str(mr: &MemRef, w: u8) -> String {
    let mut s = String::new();
    if mr.rip { s.push_str("rip->"); }
    if let Some(b) = mr.base { s.push_str(r(b, mr.aw).name()); }
    if let Some((i, sc)) = mr.index { if !s.is_empty() { s.push('+'); } s.push_str(&format!("{}*{}", r(i, mr.aw).name(), sc)); }
    if mr.dsz != 0 || (mr.base.is_none() && mr.index.is_none()) {
        if mr.disp < 0 { s.push_str(&format!("-0x{:x}", -mr.disp)); } else { s.push_str(&format!("+0x{:x}", mr.disp)); }
        s.push_str(&format!("(d{})", mr.dsz * 8));
    }
    let sz = match w { 8 => "byte", 16 => "word", 32 => "dword", 64 => "qword", _ => "" };
    format!("{} {}[{}]{}", sz, mr.seg.name(), s, if mr.sib { "(sib)" } else { "" })
}
fn op_str(o: &Op) -> String { match o { Op::R(x) => x.name().to_string(), Op::M(mr, w) => mem_str(mr, *w), Op::I(v) => format!("0x{:x}", v) } }
fn op_w(o: &Op) -> u8 { match o { Op::R(x) => x.w, Op::M(_, w) => *w, Op::I(_) => 0 } }

#[derive(Clone, Copy, Debug, PartialEq)]
enum Alu { Add, Or, Adc, Sbb, And, Sub, Xor, Cmp, Test }
#[derive(Clone, Copy, Debug, PartialEq)]
enum Un { Inc, Dec, Not, Neg }
#[derive(Clone, Copy, Debug, PartialEq)]
enum Md { Mul, Imul, Div, Idiv }
#[derive(Clone, Copy, Debug, PartialEq)]
enum Sh { Rol, Ror, Shl, Shr, Sar }
#[derive(Clone, Copy, Debug, PartialEq)]
enum Cnt { One, Cl, Imm(u8) }
#[derive(Clone, Copy, Debug, PartialEq)]
enum Bt { Bt, Bts, Btr, Btc }
#[derive(Clone, Copy, Debug, PartialEq)]
enum Ext { Cbw, Cwde, Cdqe, Cwd, Cdq, Cqo }
#[derive(Clone, Copy, Debug, PartialEq)]
enum Str { Movs, Stos, Lods, Scas, Cmps }
#[derive(Clone, Copy, Debug, PartialEq)]
enum Rep { None, Rep, Repne }
#[derive(Clone, Copy, Debug, PartialEq)]
enum Fl { Clc, Stc, Cld, Std, Cmc }
#[derive(Clone, Copy, Debug)]
enum Tgt { Rel(u64), Ind(Op) }

#[derive(Clone, Copy, Debug)]
enum I {
    Nop,
    Mov(Op, Op), Movzx(Op, Op), Movsx(Op, Op), Lea(R, MemRef), Xchg(Op, Op),
    Alu(Alu, Op, Op), Un(Un, Op), MulDiv(Md, Op), Imul2(R, Op), Imul3(R, Op, u64),
    Shift(Sh, Op, Cnt), Shxd(bool, Op, R, Cnt), Bt(Bt, Op, Op), Bsf(bool, R, Op), Bswap(R), Ext(Ext),
    Xadd(Op, R), Cmpxchg(Op, R),
    Push(Op, u8), Pop(Op), Call(Tgt), Ret(u16), Jmp(Tgt), Leave,
    Jcc(u8, u64), Setcc(u8, Op), Cmov(u8, R, Op), Jcxz(u8, u64), Loop(u8, u8, u64),
    Str(Str, u8, Rep, u8, Seg), Flag(Fl), Sahf, Lahf,
}

fn sext(v: u64, from: u8, to: u8) -> u64 {
    let v = v & wmask(from);
    let s = if (v >> (from - 1)) & 1 == 1 { v | !wmask(from) } else { v };
    s & wmask(to)
}
fn msb(v: u64, w: u8) -> bool { (v >> (w - 1)) & 1 == 1 }

fn flags_add(c: &mut Cpu, w: u8, a: u64, b: u64, cin: u64, set_cf: bool) -> u64 {
    let wide = a as u128 + b as u128 + cin as u128;
    let res = (wide as u64) & wmask(w);
    if set_cf { c.cf = wide > wmask(w) as u128; }
    c.zf = res == 0;
    c.sf = msb(res, w);
    c.of = msb(a, w) == msb(b, w) && msb(res, w) != msb(a, w);
    res
}
fn flags_sub(c: &mut Cpu, w: u8, a: u64, b: u64, cin: u64, set_cf: bool) -> u64 {
    let res = a.wrapping_sub(b).wrapping_sub(cin) & wmask(w);
    if set_cf { c.cf = (a as u128) < (b as u128 + cin as u128); }
    c.zf = res == 0;
    c.sf = msb(res, w);
    c.of = msb(a, w) != msb(b, w) && msb(res, w) != msb(a, w);
    res
}
fn flags_logic(c: &mut Cpu, w: u8, res: u64) -> u64 {
    c.cf = false; c.of = false; c.zf = res & wmask(w) == 0; c.sf = msb(res, w);
    res & wmask(w)
}

/// SDM vol. 2, Jcc / SETcc / CMOVcc: condition number = low nibble of the opcode
fn cond(c: &Cpu, cc: u8) -> bool {
    let b = match cc >> 1 {
        0 => c.of, 1 => c.cf, 2 => c.zf, 3 => c.cf || c.zf, 4 => c.sf, 5 => c.pf, 6 => c.sf != c.of, _ => c.zf || (c.sf != c.of),
    };
    if cc & 1 == 1 { !b } else { b }
}
const CC_NAMES: [&str; 16] = ["o", "no", "b", "ae", "e", "ne", "be", "a", "s", "ns", "p", "np", "l", "ge", "le", "g"];

fn ea(c: &Cpu, mr: &MemRef) -> u64 {
    let am = wmask(mr.aw);
    let mut a = mr.disp as u64;
    if let Some(b) = mr.base { a = a.wrapping_add(c.r[b as usize] & am); }
    if let Some((i, s)) = mr.index { a = a.wrapping_add((c.r[i as usize] & am).wrapping_mul(s as u64)); }
    a & am
}
fn lin(c: &Cpu, m: M, mr: &MemRef) -> u64 { (segbase(c, mr.seg).wrapping_add(ea(c, mr))) & m.mask() }
fn segbase(c: &Cpu, s: Seg) -> u64 { match s { Seg::Fs => c.fs, Seg::Gs => c.gs, _ => 0 } }

#[derive(Clone, Copy)]
enum Loc { R(R), M(u64, u8), I(u64) }
fn loc(c: &Cpu, m: M, o: &Op) -> Loc { match o { Op::R(x) => Loc::R(*x), Op::M(mr, w) => Loc::M(lin(c, m, mr), *w), Op::I(v) => Loc::I(*v) } }
fn lget(c: &Cpu, m: M, l: Loc) -> Result<u64, Skip> { match l { Loc::R(x) => Ok(c.read(x)), Loc::M(a, w) => c.ld(m, a, w / 8), Loc::I(v) => Ok(v) } }
fn lput(c: &mut Cpu, m: M, l: Loc, v: u64) -> Result<(), Skip> { match l { Loc::R(x) => { c.write(m, x, v); Ok(()) } Loc::M(a, w) => c.st(m, a, w / 8, v), Loc::I(_) => Err("store to immediate") } }
fn lw(l: Loc) -> u8 { match l { Loc::R(x) => x.w, Loc::M(_, w) => w, Loc::I(_) => 0 } }

const UCF: u8 = 1;
const UZF: u8 = 2;
const USF: u8 = 4;
const UOF: u8 = 8;

/// result of the model: state, next instruction address, flags left undefined, per-register comparison mask
struct Out { cpu: Cpu, next: u64, undef: u8, rmask: [u64; 16] }

fn push_val(c: &mut Cpu, m: M, w: u8, v: u64) -> Result<(), Skip> {
    let sp = c.r[4].wrapping_sub(w as u64 / 8) & m.mask();
    c.st(m, sp, w / 8, v)?;
    c.r[4] = sp;
    Ok(())
}
fn pop_val(c: &mut Cpu, m: M, w: u8) -> Result<u64, Skip> {
    let v = c.ld(m, c.r[4], w / 8)?;
    c.r[4] = c.r[4].wrapping_add(w as u64 / 8) & m.mask();
    Ok(v)
}
/// register update of a string / loop instruction at address width `aw` (32-bit writes zero-extend in 64-bit mode)
fn aw_write(c: &mut Cpu, m: M, idx: u8, aw: u8, v: u64) { c.write(m, r(idx, aw), v) }

fn model(m: M, c0: &Cpu, ins: &I, len: u64) -> Result<Out, Skip> {
    let mut c = c0.clone();
    let mut next = CODE + len;
    let mut undef = 0u8;
    let mut rmask = [u64::MAX; 16];
    match *ins {
        I::Nop => {}
        I::Mov(d, s) | I::Movzx(d, s) => { let (ld, ls) = (loc(&c, m, &d), loc(&c, m, &s)); let v = lget(&c, m, ls)?; lput(&mut c, m, ld, v)?; }
        I::Movsx(d, s) => { let (ld, ls) = (loc(&c, m, &d), loc(&c, m, &s)); let v = sext(lget(&c, m, ls)?, lw(ls), lw(ld)); lput(&mut c, m, ld, v)?; }
        I::Lea(d, mr) => { let v = ea(&c, &mr); c.write(m, d, v); }
        I::Xchg(a, b) => { let (la, lb) = (loc(&c, m, &a), loc(&c, m, &b)); let (va, vb) = (lget(&c, m, la)?, lget(&c, m, lb)?); lput(&mut c, m, la, vb)?; lput(&mut c, m, lb, va)?; }
        I::Alu(op, d, s) => {
            let (ld, ls) = (loc(&c, m, &d), loc(&c, m, &s));
            let w = lw(ld);
            let a = lget(&c, m, ld)?;
            let b = lget(&c, m, ls)? & wmask(w);
            let cin = c.cf as u64;
            let res = match op {
                Alu::Add => flags_add(&mut c, w, a, b, 0, true),
                Alu::Adc => flags_add(&mut c, w, a, b, cin, true),
                Alu::Sub | Alu::Cmp => flags_sub(&mut c, w, a, b, 0, true),
                Alu::Sbb => flags_sub(&mut c, w, a, b, cin, true),
                Alu::And | Alu::Test => flags_logic(&mut c, w, a & b),
                Alu::Or => flags_logic(&mut c, w, a | b),
                Alu::Xor => flags_logic(&mut c, w, a ^ b),
            };
            if op != Alu::Cmp && op != Alu::Test { lput(&mut c, m, ld, res)?; }
        }
        I::Un(op, d) => {
            let ld = loc(&c, m, &d);
            let w = lw(ld);
            let a = lget(&c, m, ld)?;
            let res = match op {
                Un::Inc => flags_add(&mut c, w, a, 1, 0, false),
                Un::Dec => flags_sub(&mut c, w, a, 1, 0, false),
                Un::Neg => flags_sub(&mut c, w, 0, a, 0, true),
                Un::Not => !a & wmask(w),
            };
            lput(&mut c, m, ld, res)?;
        }
        I::MulDiv(op, s) => { let ls = loc(&c, m, &s); let b = lget(&c, m, ls)?; if !muldiv(&mut c, m, op, lw(ls), b) { return Err("#DE"); } if op == Md::Mul || op == Md::Imul { undef |= UZF | USF; } else { undef |= UZF | USF | UCF | UOF; } }
        I::Imul2(d, s) | I::Imul3(d, s, _) => {
            let w = d.w;
            let a = if let I::Imul3(..) = *ins { lget(&c, m, loc(&c, m, &s))? } else { c.read(d) };
            let b = if let I::Imul3(_, _, imm) = *ins { imm } else { lget(&c, m, loc(&c, m, &s))? };
            let p = (sext(a, w, 64) as i64 as i128) * (sext(b, w, 64) as i64 as i128);
            let res = (p as u64) & wmask(w);
            let over = (sext(res, w, 64) as i64 as i128) != p;
            c.cf = over; c.of = over; undef |= UZF | USF;
            c.write(m, d, res);
        }
        I::Shift(sh, d, cnt) => {
            let ld = loc(&c, m, &d);
            let w = lw(ld);
            let a = lget(&c, m, ld)?;
            let raw = match cnt { Cnt::One => 1, Cnt::Cl => c.r[1] & 0xff, Cnt::Imm(i) => i as u64 };
            let cm = (raw & if w == 64 { 0x3f } else { 0x1f }) as u32;
            if cm == 0 {
                // no flag changes; a 32-bit register destination is still written (zero-extended) in 64-bit mode
                lput(&mut c, m, ld, a)?;
            } else {
                let wm = wmask(w);
                let bit = |v: u64, n: u32| -> bool { n < 64 && (v >> n) & 1 == 1 };
                let res = match sh {
                    Sh::Rol | Sh::Ror => {
                        let e = cm % w as u32;
                        let res = if e == 0 { a } else if sh == Sh::Rol { ((a << e) | (a >> (w as u32 - e))) & wm } else { ((a >> e) | (a << (w as u32 - e))) & wm };
                        if sh == Sh::Rol { c.cf = res & 1 == 1; if cm == 1 { c.of = msb(res, w) != c.cf; } else { undef |= UOF; } }
                        else { c.cf = msb(res, w); if cm == 1 { c.of = msb(res, w) != bit(res, w as u32 - 2); } else { undef |= UOF; } }
                        res
                    }
                    Sh::Shl => {
                        let res = if cm >= w as u32 { 0 } else { (a << cm) & wm };
                        if cm < w as u32 { c.cf = bit(a, w as u32 - cm); } else { undef |= UCF; }
                        if cm == 1 { c.of = msb(res, w) != c.cf; } else { undef |= UOF; }
                        c.zf = res == 0; c.sf = msb(res, w);
                        res
                    }
                    Sh::Shr => {
                        let res = if cm >= w as u32 { 0 } else { a >> cm };
                        if cm < w as u32 { c.cf = bit(a, cm - 1); } else { undef |= UCF; }
                        if cm == 1 { c.of = msb(a, w); } else { undef |= UOF; }
                        c.zf = res == 0; c.sf = msb(res, w);
                        res
                    }
                    Sh::Sar => {
                        let sa = sext(a, w, 64) as i64;
                        let res = ((sa >> cm.min(63)) as u64) & wm;
                        c.cf = ((sa >> (cm - 1).min(63)) & 1) == 1;
                        if cm == 1 { c.of = false; } else { undef |= UOF; }
                        c.zf = res == 0; c.sf = msb(res, w);
                        res
                    }
                };
                lput(&mut c, m, ld, res)?;
            }
        }
        I::Shxd(left, d, s, cnt) => {
            let ld = loc(&c, m, &d);
            let w = lw(ld);
            let a = lget(&c, m, ld)?;
            let b = c.read(s);
            let raw = match cnt { Cnt::One => 1, Cnt::Cl => c.r[1] & 0xff, Cnt::Imm(i) => i as u64 };
            let cm = (raw & if w == 64 { 0x3f } else { 0x1f }) as u32;
            if cm == 0 { lput(&mut c, m, ld, a)?; }
            else if cm > w as u32 { return Err("shld/shrd count > operand size: undefined"); }
            else {
                let wm = wmask(w);
                let wn = w as u32;
                let res = if left { ((if cm >= 64 { 0 } else { a << cm }) | (if wn - cm >= 64 { 0 } else { b >> (wn - cm) })) & wm }
                          else { ((if cm >= 64 { 0 } else { a >> cm }) | (if wn - cm >= 64 { 0 } else { b << (wn - cm) })) & wm };
                if cm == wn { undef |= UCF; } else if left { c.cf = (a >> (wn - cm)) & 1 == 1; } else { c.cf = (a >> (cm - 1)) & 1 == 1; }
                if cm == 1 { c.of = msb(a, w) != msb(res, w); } else { undef |= UOF; }
                c.zf = res == 0; c.sf = msb(res, w);
                lput(&mut c, m, ld, res)?;
            }
        }
        I::Bt(k, base, off) => {
            let w = op_w(&base);
            let (l, bit) = match (base, off) {
                (Op::R(x), o) => (Loc::R(x), lget(&c, m, loc(&c, m, &o))? & (w as u64 - 1)),
                (Op::M(mr, _), Op::I(i)) => (Loc::M(lin(&c, m, &mr), w), i & (w as u64 - 1)),
                (Op::M(mr, _), Op::R(o)) => {
                    let so = sext(c.read(o), w, 64) as i64;
                    let q = so.div_euclid(w as i64);
                    let e = ea(&c, &mr).wrapping_add((q.wrapping_mul(w as i64 / 8)) as u64) & wmask(mr.aw);
                    (Loc::M(segbase(&c, mr.seg).wrapping_add(e) & m.mask(), w), so.rem_euclid(w as i64) as u64)
                }
                _ => return Err("bt form"),
            };
            let v = lget(&c, m, l)?;
            c.cf = (v >> bit) & 1 == 1;
            undef |= USF | UOF;
            let nv = match k { Bt::Bt => v, Bt::Bts => v | (1 << bit), Bt::Btr => v & !(1 << bit), Bt::Btc => v ^ (1 << bit) };
            if k != Bt::Bt { lput(&mut c, m, l, nv)?; }
        }
        I::Bsf(rev, d, s) => {
            let ls = loc(&c, m, &s);
            let v = lget(&c, m, ls)?;
            undef |= UCF | USF | UOF;
            if v == 0 { c.zf = true; rmask[d.idx as usize] = 0; }
            else { c.zf = false; let i = if rev { 63 - v.leading_zeros() } else { v.trailing_zeros() }; c.write(m, d, i as u64); }
        }
        I::Bswap(d) => { let v = c.read(d); let res = if d.w == 64 { v.swap_bytes() } else { (v as u32).swap_bytes() as u64 }; c.write(m, d, res); }
        I::Ext(e) => match e {
            Ext::Cbw => { let v = sext(c.read(r(0, 8)), 8, 16); c.write(m, r(0, 16), v); }
            Ext::Cwde => { let v = sext(c.read(r(0, 16)), 16, 32); c.write(m, r(0, 32), v); }
            Ext::Cdqe => { let v = sext(c.read(r(0, 32)), 32, 64); c.write(m, r(0, 64), v); }
            Ext::Cwd => { let v = if msb(c.read(r(0, 16)), 16) { 0xffff } else { 0 }; c.write(m, r(2, 16), v); }
            Ext::Cdq => { let v = if msb(c.read(r(0, 32)), 32) { 0xffff_ffff } else { 0 }; c.write(m, r(2, 32), v); }
            Ext::Cqo => { let v = if msb(c.read(r(0, 64)), 64) { u64::MAX } else { 0 }; c.write(m, r(2, 64), v); }
        },
        I::Xadd(d, s) => {
            let ld = loc(&c, m, &d);
            let w = lw(ld);
            let a = lget(&c, m, ld)?;
            let b = c.read(s);
            let res = flags_add(&mut c, w, a, b, 0, true);
            c.write(m, s, a);
            lput(&mut c, m, ld, res)?;
        }
        I::Cmpxchg(d, s) => {
            let ld = loc(&c, m, &d);
            let w = lw(ld);
            let acc = r(0, w);
            let dv = lget(&c, m, ld)?;
            let av = c.read(acc);
            flags_sub(&mut c, w, av, dv, 0, true);
            if av == dv { let sv = c.read(s); lput(&mut c, m, ld, sv)?; } else { lput(&mut c, m, ld, dv)?; c.write(m, acc, dv); }
        }
        I::Push(o, w) => { let v = lget(&c, m, loc(&c, m, &o))?; push_val(&mut c, m, w, v)?; }
        I::Pop(o) => { let w = op_w(&o); let v = pop_val(&mut c, m, w)?; let l = loc(&c, m, &o); lput(&mut c, m, l, v)?; }
        I::Call(t) => { let tgt = match t { Tgt::Rel(a) => a, Tgt::Ind(o) => lget(&c, m, loc(&c, m, &o))? & m.mask() }; push_val(&mut c, m, m.bits(), next)?; next = tgt; }
        I::Ret(imm) => { let v = pop_val(&mut c, m, m.bits())?; c.r[4] = c.r[4].wrapping_add(imm as u64) & m.mask(); next = v; }
        I::Jmp(t) => { next = match t { Tgt::Rel(a) => a, Tgt::Ind(o) => lget(&c, m, loc(&c, m, &o))? & m.mask() }; }
        I::Leave => { c.r[4] = c.r[5]; let v = pop_val(&mut c, m, m.bits())?; c.r[5] = v; }
        I::Jcc(cc, t) => { if cond(&c, cc) { next = t; } }
        I::Setcc(cc, d) => { let l = loc(&c, m, &d); let v = cond(&c, cc) as u64; lput(&mut c, m, l, v)?; }
        I::Cmov(cc, d, s) => {
            let v = lget(&c, m, loc(&c, m, &s))?;
            // a 32-bit destination is zero-extended in 64-bit mode even when the condition is false (SDM CMOVcc)
            if cond(&c, cc) { c.write(m, d, v); } else if d.w == 32 { let old = c.read(d); c.write(m, d, old); }
        }
        I::Jcxz(cw, t) => { if c.r[1] & wmask(cw) == 0 { next = t; } }
        I::Loop(kind, cw, t) => {
            let cnt = (c.r[1] & wmask(cw)).wrapping_sub(1) & wmask(cw);
            if cw == 32 && m == M::Amd64 && c.r[1] >> 32 != 0 { rmask[1] = 0xffff_ffff; }
            aw_write(&mut c, m, 1, cw, cnt);
            let take = cnt != 0 && match kind { 0 => !c.zf, 1 => c.zf, _ => true };
            if take { next = t; }
        }
        I::Str(k, w, rep, aw, seg) => {
            let am = wmask(aw);
            let n = w as u64 / 8;
            if aw == 32 && m == M::Amd64 { for i in [1usize, 6, 7] { if c.r[i] >> 32 != 0 { rmask[i] = 0xffff_ffff; } } }
            let acc = r(0, w);
            let mut iter = 0;
            loop {
                if rep != Rep::None && c.r[1] & am == 0 { break; }
                iter += 1;
                if iter > 64 { return Err("rep count too large for the bounded run"); }
                let src = segbase(&c, seg).wrapping_add(c.r[6] & am) & m.mask();
                let dst = (c.r[7] & am) & m.mask();
                let delta = if c.df { n.wrapping_neg() } else { n };
                let (mut use_si, mut use_di) = (false, false);
                match k {
                    Str::Movs => { let v = c.ld(m, src, n as u8)?; c.st(m, dst, n as u8, v)?; use_si = true; use_di = true; }
                    Str::Stos => { let v = c.read(acc); c.st(m, dst, n as u8, v)?; use_di = true; }
                    Str::Lods => { let v = c.ld(m, src, n as u8)?; c.write(m, acc, v); use_si = true; }
                    Str::Scas => { let v = c.ld(m, dst, n as u8)?; let a = c.read(acc); flags_sub(&mut c, w, a, v, 0, true); use_di = true; }
                    Str::Cmps => { let a = c.ld(m, src, n as u8)?; let b = c.ld(m, dst, n as u8)?; flags_sub(&mut c, w, a, b, 0, true); use_si = true; use_di = true; }
                }
                if use_si { let v = (c.r[6] & am).wrapping_add(delta); aw_write(&mut c, m, 6, aw, v); }
                if use_di { let v = (c.r[7] & am).wrapping_add(delta); aw_write(&mut c, m, 7, aw, v); }
                if rep == Rep::None { break; }
                let v = (c.r[1] & am).wrapping_sub(1);
                aw_write(&mut c, m, 1, aw, v);
                if k == Str::Scas || k == Str::Cmps {
                    if rep == Rep::Rep && !c.zf { break; }
                    if rep == Rep::Repne && c.zf { break; }
                }
            }
        }
        I::Flag(f) => match f { Fl::Clc => c.cf = false, Fl::Stc => c.cf = true, Fl::Cld => c.df = false, Fl::Std => c.df = true, Fl::Cmc => c.cf = !c.cf },
        I::Sahf => { let ah = c.read(rh(0)); c.sf = ah & 0x80 != 0; c.zf = ah & 0x40 != 0; c.pf = ah & 4 != 0; c.cf = ah & 1 != 0; }
        I::Lahf => { let v = ((c.sf as u64) << 7) | ((c.zf as u64) << 6) | ((c.pf as u64) << 2) | 2 | c.cf as u64; let old = c.read(rh(0)); c.write(m, rh(0), (v & !0x10) | (old & 0x10)); rmask[0] &= !0x1000; }
    }
    Ok(Out { cpu: c, next, undef, rmask })
}

/// one-operand mul / imul / div / idiv on the accumulator pair; `b` = the source value of width `w`. Returns false when the
/// processor raises #DE (zero divisor, quotient out of range). Flags: mul / imul define CF = OF only; div / idiv define none.
fn muldiv(c: &mut Cpu, m: M, op: Md, w: u8, b: u64) -> bool {
    let lo = r(0, w);
    let hi = if w == 8 { rh(0) } else { r(2, w) };
    let (a_lo, a_hi) = (c.read(lo), c.read(hi));
    let sx = |v: u64| -> i128 { sext(v, w, 64) as i64 as i128 };
    match op {
        Md::Mul | Md::Imul => {
            let p: u128 = if op == Md::Mul { (a_lo as u128) * (b as u128) } else { (sx(a_lo) * sx(b)) as u128 };
            let (rl, rhv) = ((p as u64) & wmask(w), ((p >> w) as u64) & wmask(w));
            c.write(m, lo, rl);
            c.write(m, hi, rhv);
            let over = if op == Md::Mul { rhv != 0 } else { sx(rl) != (sx(a_lo) * sx(b)) };
            c.cf = over; c.of = over;
            true
        }
        Md::Div => {
            if b == 0 { return false; }
            let n: u128 = ((a_hi as u128) << w) | a_lo as u128;
            let (q, rem) = (n / b as u128, n % b as u128);
            if q > wmask(w) as u128 { return false; }
            c.write(m, lo, q as u64);
            c.write(m, hi, rem as u64);
            true
        }
        Md::Idiv => {
            if b == 0 { return false; }
            let n: i128 = if w == 64 { (((a_hi as u128) << 64) | a_lo as u128) as i128 } else { sext(((a_hi << w) | a_lo) & wmask(2 * w), 2 * w, 64) as i64 as i128 };
            let d = sx(b);
            if n == i128::MIN && d == -1 { return false; }
            let (q, rem) = (n / d, n % d);
            let (minq, maxq) = (-(1i128 << (w - 1)), (1i128 << (w - 1)) - 1);
            if q < minq || q > maxq { return false; }
            c.write(m, lo, q as u64);
            c.write(m, hi, rem as u64);
            true
        }
    }
}

// ------------------------------------------------------------------ hand encoder
#[derive(Clone, Copy)]
enum RF { R(R), D(u8) }
/// extra encoding options: rep prefix byte, `d64` = operand size defaults to 64 bit in long mode (push / pop / call / jmp: no REX.W)
#[derive(Clone, Copy, Default)]
struct X { rep: Option<u8>, d64: bool }

fn le(v: u64, n: usize) -> Vec<u8> { (0..n).map(|i| (v >> (8 * i)) as u8).collect() }
fn imm_bytes(v: u64, n: usize) -> Vec<u8> { le(v, n) }

/// ModRM (+ SIB + displacement) of a memory operand; returns (bytes, REX.X, REX.B, offset of a RIP-relative disp32)
fn modrm_mem(m: M, reg: u8, mr: &MemRef) -> Option<(Vec<u8>, bool, bool, Option<usize>)> {
    let disp = |n: u8| -> Vec<u8> { le(mr.disp as u64, n as usize) };
    if mr.aw == 16 {
        if m != M::X86 { return None; }
        let rm = match (mr.base, mr.index) {
            (Some(3), Some((6, 1))) => 0, (Some(3), Some((7, 1))) => 1, (Some(5), Some((6, 1))) => 2, (Some(5), Some((7, 1))) => 3,
            (Some(6), None) => 4, (Some(7), None) => 5, (Some(5), None) => 6, (Some(3), None) => 7,
            (None, None) => { if mr.dsz != 2 { return None; } let mut t = vec![(reg << 3) | 6]; t.extend(disp(2)); return Some((t, false, false, None)); }
            _ => return None,
        };
        let md = match mr.dsz { 0 => { if rm == 6 { return None; } 0 } 1 => 1, 2 => 2, _ => return None };
        let mut t = vec![(md << 6) | (reg << 3) | rm];
        t.extend(disp(mr.dsz));
        return Some((t, false, false, None));
    }
    if m == M::X86 && (mr.base.map(|b| b >= 8).unwrap_or(false) || mr.index.map(|i| i.0 >= 8).unwrap_or(false)) { return None; }
    if mr.rip {
        if m != M::Amd64 || mr.base.is_some() || mr.index.is_some() { return None; }
        return Some((vec![(reg << 3) | 5, 0, 0, 0, 0], false, false, Some(1)));
    }
    let md = |b: u8| -> Option<u8> { match mr.dsz { 0 => if b & 7 == 5 { None } else { Some(0) }, 1 => Some(1), 4 => Some(2), _ => None } };
    let ss = |s: u8| -> Option<u8> { match s { 1 => Some(0), 2 => Some(1), 4 => Some(2), 8 => Some(3), _ => None } };
    match (mr.base, mr.index) {
        (None, None) => {
            if mr.dsz != 4 { return None; }
            let mut t = if m == M::X86 && !mr.sib { vec![(reg << 3) | 5] } else { vec![(reg << 3) | 4, 0x25] };
            t.extend(disp(4));
            Some((t, false, false, None))
        }
        (Some(b), None) => {
            let md = md(b)?;
            let mut t = if !mr.sib && b & 7 != 4 { vec![(md << 6) | (reg << 3) | (b & 7)] } else { vec![(md << 6) | (reg << 3) | 4, (4 << 3) | (b & 7)] };
            t.extend(disp(mr.dsz));
            Some((t, false, b >= 8, None))
        }
        (Some(b), Some((i, s))) => {
            if i == 4 { return None; }
            let md = md(b)?;
            let mut t = vec![(md << 6) | (reg << 3) | 4, (ss(s)? << 6) | ((i & 7) << 3) | (b & 7)];
            t.extend(disp(mr.dsz));
            Some((t, i >= 8, b >= 8, None))
        }
        (None, Some((i, s))) => {
            if i == 4 || mr.dsz != 4 { return None; }
            let mut t = vec![(reg << 3) | 4, (ss(s)? << 6) | ((i & 7) << 3) | 5];
            t.extend(disp(4));
            Some((t, i >= 8, false, None))
        }
    }
}

/// [rep][seg][67][66][REX] opcode modrm.. imm for an instruction of operand size `w`
fn enc(m: M, w: u8, opc: &[u8], rf: RF, rm: &Op, imm: &[u8], x: X) -> Option<Vec<u8>> {
    let mut rex = 0u8;
    let (mut need_rex, mut no_rex) = (false, false);
    if w == 64 { if m == M::X86 { return None; } if !x.d64 { rex |= 8; } }
    let mut chk = |x: &R| -> bool { if x.needs_rex() { need_rex = true; } if x.high { no_rex = true; } !(m == M::X86 && (x.w == 64 || x.idx >= 8 || x.needs_rex())) };
    let regbits = match rf { RF::R(x) => { if !chk(&x) { return None; } if x.ext() { rex |= 4; } x.enc() } RF::D(d) => d };
    let mut pre: Vec<u8> = Vec::new();
    if let Some(p) = x.rep { pre.push(p); }
    let tail: Vec<u8>;
    let mut rip: Option<(usize, u64)> = None;
    match rm {
        Op::R(x) => { if !chk(x) { return None; } if x.ext() { rex |= 1; } tail = vec![0xC0 | (regbits << 3) | x.enc()]; }
        Op::M(mr, _) => {
            if let Some(p) = mr.seg.prefix() { pre.push(p); }
            if mr.aw != m.bits() { if (m == M::X86 && mr.aw == 16) || (m == M::Amd64 && mr.aw == 32) { pre.push(0x67); } else { return None; } }
            let (t, xb, bb, ra) = modrm_mem(m, regbits, mr)?;
            if xb { rex |= 2; }
            if bb { rex |= 1; }
            if let Some(o) = ra { rip = Some((o, mr.disp as u64)); }
            tail = t;
        }
        Op::I(_) => return None,
    }
    if w == 16 { pre.push(0x66); }
    if rex != 0 || need_rex { if no_rex || m == M::X86 { return None; } pre.push(0x40 | rex); }
    let mut v = pre;
    v.extend_from_slice(opc);
    let tail_at = v.len();
    v.extend(tail);
    v.extend_from_slice(imm);
    if let Some((o, target)) = rip {
        let rel = target.wrapping_sub(CODE + v.len() as u64) as i64;
        if rel < i32::MIN as i64 || rel > i32::MAX as i64 { return None; }
        for (k, b) in le(rel as u64, 4).into_iter().enumerate() { v[tail_at + o + k] = b; }
    }
    Some(v)
}
fn rr(m: M, w: u8, opc: &[u8], reg: R, rm: R) -> Option<Vec<u8>> { enc(m, w, opc, RF::R(reg), &Op::R(rm), &[], X::default()) }
fn digit(m: M, w: u8, opc: &[u8], d: u8, rm: R) -> Option<Vec<u8>> { enc(m, w, opc, RF::D(d), &Op::R(rm), &[], X::default()) }
/// prefixes of an instruction without ModRM whose only register operand (if any) is `x` (opcode + r forms, accumulator short forms)
fn prefixes(m: M, w: u8, x: Option<R>, d64: bool) -> Option<Vec<u8>> {
    let mut rex = 0u8;
    let mut need = false;
    if w == 64 { if m == M::X86 { return None; } if !d64 { rex |= 8; } }
    if let Some(x) = x {
        if m == M::X86 && (x.w == 64 || x.idx >= 8 || x.needs_rex()) { return None; }
        if x.ext() { rex |= 1; }
        if x.needs_rex() { need = true; }
        if x.high && (rex != 0 || need) { return None; }
    }
    let mut v = Vec::new();
    if w == 16 { v.push(0x66); }
    if rex != 0 || need { if m == M::X86 { return None; } v.push(0x40 | rex); }
    Some(v)
}
fn plus_r(m: M, w: u8, base: u8, x: R) -> Option<Vec<u8>> { let mut v = prefixes(m, w, Some(x), false)?; v.push(base + x.enc()); Some(v) }
fn plus_r64(m: M, w: u8, base: u8, x: R) -> Option<Vec<u8>> { let mut v = prefixes(m, w, Some(x), true)?; v.push(base + x.enc()); Some(v) }
fn with(mut v: Vec<u8>, more: &[u8]) -> Vec<u8> { v.extend_from_slice(more); v }

// ------------------------------------------------------------------ cases
/// a state = a base state + a patch: full-register values, sub-register pokes, memory (linear address, bytes, value), flags
/// (bit0 CF, bit1 ZF, bit2 SF, bit3 OF, bit4 PF), DF
#[derive(Clone, Default, Debug)]
struct Patch { full: Vec<(u8, u64)>, regs: Vec<(R, u64)>, mem: Vec<(u64, u8, u64)>, fl: Option<u8>, df: Option<bool> }
impl Patch {
    fn merge(&self, o: &Patch) -> Patch {
        let mut p = self.clone();
        p.full.extend(o.full.iter().cloned()); p.regs.extend(o.regs.iter().cloned()); p.mem.extend(o.mem.iter().cloned());
        if o.fl.is_some() { p.fl = o.fl; }
        if o.df.is_some() { p.df = o.df; }
        p
    }
}
fn pfull(v: &[(u8, u64)]) -> Patch { Patch { full: v.to_vec(), ..Default::default() } }
fn preg(x: R, v: u64) -> Patch { Patch { regs: vec![(x, v)], ..Default::default() } }
fn pmem(a: u64, w: u8, v: u64) -> Patch { Patch { mem: vec![(a, w / 8, v)], ..Default::default() } }
fn pfl(f: u8) -> Patch { Patch { fl: Some(f), ..Default::default() } }
/// the value of operand `o` (register poke or memory at linear address `t`)
fn pop_(o: &Op, t: u64, v: u64) -> Patch { match o { Op::R(x) => preg(*x, v), Op::M(_, w) => pmem(t, *w, v & wmask(*w)), Op::I(_) => Patch::default() } }
fn cross(a: &[Patch], b: &[Patch]) -> Vec<Patch> { let mut v = Vec::new(); for x in a { for y in b { v.push(x.merge(y)); } } v }

struct Case { op: String, rel: &'static str, asm: String, bytes: Vec<u8>, sem: I, bases: &'static [u8], states: Vec<Patch> }

fn apply(m: M, base: &Cpu, p: &Patch) -> Cpu {
    let mut c = base.clone();
    for &(i, v) in &p.full { c.r[i as usize] = v & m.mask(); }
    for &(x, v) in &p.regs { c.poke(m, x, v); }
    for &(a, n, v) in &p.mem { for i in 0..n as u64 { c.mem.insert(a.wrapping_add(i) & m.mask(), (v >> (8 * i)) as u8); } }
    if let Some(f) = p.fl { c.cf = f & 1 != 0; c.zf = f & 2 != 0; c.sf = f & 4 != 0; c.of = f & 8 != 0; c.pf = f & 16 != 0; }
    if let Some(d) = p.df { c.df = d; }
    c
}

fn base_states(m: M) -> Vec<Cpu> {
    let z = Cpu { r: [0; 16], cf: false, zf: true, sf: false, of: true, df: true, pf: false, fs: FS_BASE, gs: GS_BASE, mem: BTreeMap::new() };
    let mut a = z.clone();
    for i in 0..16 { a.r[i] = 0x1122_3344_5566_7788u64.rotate_left(4 * i as u32) ^ (0x0101_0101_0101_0101u64.wrapping_mul(i as u64)); }
    let b = Cpu { r: [u64::MAX; 16], cf: true, zf: false, sf: true, of: false, df: false, ..z.clone() };
    let mut c = Cpu { cf: true, zf: true, sf: true, of: true, df: false, ..z.clone() };
    for i in 0..16 { c.r[i] = if i % 2 == 0 { 0x8000_0000_8000_8080 } else { 0x7fff_ffff_7fff_7f7f }; }
    // base state 3: the one used by the memory / control-flow / string groups (valid stack pointer, DF = 0)
    let mut d = a.clone();
    d.r[4] = STACK; d.df = false; d.pf = true;
    let mut v = vec![a, b, c, d];
    if m == M::X86 { for s in v.iter_mut() { for i in 0..16 { s.r[i] = if i < 8 { s.r[i] & 0xffff_ffff } else { 0 }; } } }
    v
}

struct G { m: M, thorough: bool, out: Vec<Case> }
impl G {
    fn add(&mut self, op: &str, rel: &'static str, asm: String, bytes: Option<Vec<u8>>, sem: I, bases: &'static [u8], states: Vec<Patch>) {
        if let Some(bytes) = bytes { self.out.push(Case { op: op.to_string(), rel, asm, bytes, sem, bases, states }); }
    }
}
const B012: &[u8] = &[0, 1, 2];
const B0: &[u8] = &[0];
const B3: &[u8] = &[3];
const REL_MOVE: &str = "[\"set\",\"get\",\"get_register\"]";
const REL_ALU2: &str = "[\"set\",\"get\",\"get_register\",\"set_zf\",\"set_sf\",\"set_of\",\"set_cf\"]";
const REL_ALU1: &str = "[\"set\",\"get\",\"get_register\",\"set_zf\",\"set_sf\",\"set_of\"]";
const REL_MEM: &str = "[\"operand_value\",\"operand_load\",\"operand_store\",\"get_register_expression\",\"set\",\"get\"]";
const REL_STACK: &str = "[\"push_value\",\"pop_value\",\"operand_value\",\"operand_load\",\"operand_store\"]";
const REL_CC: &str = "[\"cc_condition\",\"cjmp\",\"setcc\",\"cmovcc\",\"translate_block\"]";
const REL_LOOP: &str = "[\"loop_condition\",\"loop_\",\"cc_condition\",\"translate_block\"]";
const REL_STR: &str = "[\"rep_prefix\",\"repne_prefix\",\"movs\",\"stos\",\"lodsb\",\"lodsd\",\"scasb\",\"scasw\",\"cmpsb\",\"translate_block\"]";
const REL_INT: &str = "[\"set\",\"get\",\"operand_load\",\"operand_store\",\"set_zf\",\"set_sf\",\"set_of\",\"set_cf\"]";

fn boundary(w: u8) -> Vec<u64> {
    let m = wmask(w);
    vec![0, 1, m >> 1, (m >> 1) + 1, m]
}
fn imm_values(w: u8) -> Vec<u64> {
    let m = wmask(w);
    vec![0, 1, 0x12 & m, 0x1234_5678_9abc_def0 & m, m >> 1, (m >> 1) + 1, m]
}
fn widths(m: M) -> &'static [u8] { if m == M::X86 { &[8, 16, 32] } else { &[8, 16, 32, 64] } }

// ------------------------------------------------------------------ group "old": register / immediate forms on every register name
fn alu_name(a: Alu) -> &'static str { match a { Alu::Add => "add", Alu::Or => "or", Alu::Adc => "adc", Alu::Sbb => "sbb", Alu::And => "and", Alu::Sub => "sub", Alu::Xor => "xor", Alu::Cmp => "cmp", Alu::Test => "test" } }
fn pairs_states(d: R, s: Option<R>) -> Vec<Patch> {
    let mut v = Vec::new();
    for a in boundary(d.w) {
        match s {
            Some(sr) => for b in boundary(sr.w) { v.push(Patch { regs: vec![(sr, b), (d, a)], ..Default::default() }); },
            None => v.push(preg(d, a)),
        }
    }
    v
}
fn grp_old(g: &mut G) {
    let m = g.m;
    for &w in widths(m) {
        let rs = regs(m, w);
        let o8 = w == 8;
        for &d in &rs {
            for v in imm_values(w) {
                let n = (w / 8) as usize;
                let b = plus_r(m, w, if o8 { 0xB0 } else { 0xB8 }, d).map(|b| with(b, &imm_bytes(v, n)));
                g.add("mov_r_imm", REL_MOVE, format!("mov {}, 0x{:x}", d.name(), v), b, I::Mov(Op::R(d), Op::I(v)), B012, vec![Patch::default()]);
            }
            for v in imm_values(if w == 64 { 32 } else { w }) {
                let n = if w == 64 { 4 } else { (w / 8) as usize };
                let val = if w == 64 { sext(v, 32, 64) } else { v };
                let b = digit(m, w, &[if o8 { 0xC6 } else { 0xC7 }], 0, d).map(|b| with(b, &imm_bytes(v, n)));
                g.add("mov_rm_imm", REL_MOVE, format!("mov {}, 0x{:x} (C6/C7)", d.name(), val), b, I::Mov(Op::R(d), Op::I(val)), B012, vec![Patch::default()]);
            }
        }
        for &a in &rs {
            for &b in &rs {
                g.add("mov_rm_r", REL_MOVE, format!("mov {}, {}", a.name(), b.name()), rr(m, w, &[if o8 { 0x88 } else { 0x89 }], b, a), I::Mov(Op::R(a), Op::R(b)), B012, vec![Patch::default()]);
                g.add("mov_r_rm", REL_MOVE, format!("mov {}, {} (8A/8B)", a.name(), b.name()), rr(m, w, &[if o8 { 0x8A } else { 0x8B }], a, b), I::Mov(Op::R(a), Op::R(b)), B012, vec![Patch::default()]);
                g.add("xchg", REL_MOVE, format!("xchg {}, {}", a.name(), b.name()), rr(m, w, &[if o8 { 0x86 } else { 0x87 }], b, a), I::Xchg(Op::R(a), Op::R(b)), B012, vec![Patch::default()]);
                for (op, base) in [(Alu::Add, 0x00u8), (Alu::Sub, 0x28), (Alu::Cmp, 0x38)] {
                    let name = alu_name(op);
                    g.add(name, REL_ALU2, format!("{} {}, {}", name, a.name(), b.name()), rr(m, w, &[base + if o8 { 0 } else { 1 }], b, a), I::Alu(op, Op::R(a), Op::R(b)), B0, pairs_states(a, Some(b)));
                    if a.idx % 3 == 0 {
                        g.add(name, REL_ALU2, format!("{} {}, {} (r, r/m form)", name, a.name(), b.name()), rr(m, w, &[base + if o8 { 2 } else { 3 }], a, b), I::Alu(op, Op::R(a), Op::R(b)), B0, pairs_states(a, Some(b)));
                    }
                }
            }
        }
        if !o8 {
            let acc = r(0, w);
            for &b in &rs {
                if b.idx == 0 { continue; }
                g.add("xchg", REL_MOVE, format!("xchg {}, {} (90+r)", acc.name(), b.name()), plus_r(m, w, 0x90, b), I::Xchg(Op::R(acc), Op::R(b)), B012, vec![Patch::default()]);
            }
        }
        for &d in &rs {
            for (op, dg, short) in [(Alu::Add, 0u8, 0x04u8), (Alu::Sub, 5, 0x2C), (Alu::Cmp, 7, 0x3C)] {
                let name = alu_name(op);
                if o8 {
                    for v in boundary(8) {
                        g.add(name, REL_ALU2, format!("{} {}, 0x{:x}", name, d.name(), v), digit(m, 8, &[0x80], dg, d).map(|b| with(b, &[v as u8])), I::Alu(op, Op::R(d), Op::I(v)), B0, pairs_states(d, None));
                        if d.idx == 0 && !d.high {
                            g.add(name, REL_ALU2, format!("{} al, 0x{:x} (short form)", name, v), Some(vec![short, v as u8]), I::Alu(op, Op::R(d), Op::I(v)), B0, pairs_states(d, None));
                        }
                    }
                } else {
                    for v in boundary(8) {
                        let val = sext(v, 8, w);
                        g.add(name, REL_ALU2, format!("{} {}, 0x{:x} (83, imm8 sign-extended)", name, d.name(), val), digit(m, w, &[0x83], dg, d).map(|b| with(b, &[v as u8])), I::Alu(op, Op::R(d), Op::I(val)), B0, pairs_states(d, None));
                    }
                    let iw = if w == 64 { 32 } else { w };
                    for v in boundary(iw) {
                        let val = sext(v, iw, w);
                        let n = (iw / 8) as usize;
                        g.add(name, REL_ALU2, format!("{} {}, 0x{:x} (81)", name, d.name(), val), digit(m, w, &[0x81], dg, d).map(|b| with(b, &imm_bytes(v, n))), I::Alu(op, Op::R(d), Op::I(val)), B0, pairs_states(d, None));
                        if d.idx == 0 {
                            let b = prefixes(m, w, Some(d), false).map(|b| with(with(b, &[short + 1]), &imm_bytes(v, n)));
                            g.add(name, REL_ALU2, format!("{} {}, 0x{:x} (short form)", name, d.name(), val), b, I::Alu(op, Op::R(d), Op::I(val)), B0, pairs_states(d, None));
                        }
                    }
                }
            }
            let un_states: Vec<Patch> = boundary(w).into_iter().flat_map(|a| [0u8, 1].into_iter().map(move |cf| (a, cf))).map(|(a, cf)| Patch { regs: vec![(d, a)], fl: Some(cf | 2 | 8), ..Default::default() }).collect();
            g.add("inc", REL_ALU1, format!("inc {}", d.name()), digit(m, w, &[if o8 { 0xFE } else { 0xFF }], 0, d), I::Un(Un::Inc, Op::R(d)), B0, un_states.clone());
            g.add("dec", REL_ALU1, format!("dec {}", d.name()), digit(m, w, &[if o8 { 0xFE } else { 0xFF }], 1, d), I::Un(Un::Dec, Op::R(d)), B0, un_states.clone());
            g.add("neg", REL_ALU1, format!("neg {}", d.name()), digit(m, w, &[if o8 { 0xF6 } else { 0xF7 }], 3, d), I::Un(Un::Neg, Op::R(d)), B0, un_states.clone());
            if m == M::X86 && !o8 {
                g.add("inc", REL_ALU1, format!("inc {} (40+r)", d.name()), plus_r(m, w, 0x40, d), I::Un(Un::Inc, Op::R(d)), B0, un_states.clone());
                g.add("dec", REL_ALU1, format!("dec {} (48+r)", d.name()), plus_r(m, w, 0x48, d), I::Un(Un::Dec, Op::R(d)), B0, un_states.clone());
            }
        }
        for &d in &rs {
            let lo = r(0, w);
            let hi = if w == 8 { rh(0) } else { r(2, w) };
            let mut st = Vec::new();
            for b in boundary(w).into_iter().chain([3u64, 0x10]) { for a in boundary(w).into_iter().chain([7u64, 0x64]) { for h in [0u64, 1, 2, wmask(w), wmask(w) >> 1] {
                st.push(Patch { regs: vec![(lo, a), (hi, h), (d, b)], ..Default::default() });
            } } }
            for (op, name, dg) in [(Md::Mul, "mul", 4u8), (Md::Imul, "imul", 5), (Md::Div, "div", 6), (Md::Idiv, "idiv", 7)] {
                g.add(name, REL_MOVE, format!("{} {}", name, d.name()), digit(m, w, &[if o8 { 0xF6 } else { 0xF7 }], dg, d), I::MulDiv(op, Op::R(d)), B0, st.clone());
            }
        }
        if !o8 {
            for &sw in &[8u8, 16u8] {
                if sw >= w { continue; }
                for &d in &rs {
                    for &s in &regs(m, sw) {
                        g.add("movzx", REL_MOVE, format!("movzx {}, {}", d.name(), s.name()), rr(m, w, &[0x0F, if sw == 8 { 0xB6 } else { 0xB7 }], d, s), I::Movzx(Op::R(d), Op::R(s)), B012, vec![Patch::default()]);
                        g.add("movsx", REL_MOVE, format!("movsx {}, {}", d.name(), s.name()), rr(m, w, &[0x0F, if sw == 8 { 0xBE } else { 0xBF }], d, s), I::Movsx(Op::R(d), Op::R(s)), B012, vec![Patch::default()]);
                    }
                }
            }
            if w == 64 {
                for &d in &rs {
                    for &s in &regs(m, 32) {
                        g.add("movsxd", REL_MOVE, format!("movsxd {}, {}", d.name(), s.name()), rr(m, 64, &[0x63], d, s), I::Movsx(Op::R(d), Op::R(s)), B012, vec![Patch::default()]);
                    }
                }
            }
        }
    }
}

// ------------------------------------------------------------------ group "mem": every addressing form x segment override
/// a memory-operand form (segment to be filled in) with alternative assignments of its address registers that all make the
/// effective address `t` (registers wider than the address width carry garbage above it)
#[derive(Clone)]
struct Form { mr: MemRef, plans: Vec<Patch>, t: u64 }

fn forms(m: M, aw: u8, rich: bool) -> Vec<Form> {
    let mut out = Vec::new();
    let am = wmask(aw);
    let t = if aw == 16 { T16 } else { T32 };
    let hi: u64 = if aw < m.bits() { if aw == 16 { 0xBEEF_0000 } else { 0xDEAD_BEEF_0000_0000 } } else { 0 };
    let mk = |base: Option<u8>, index: Option<(u8, u8)>, disp: i64, dsz: u8, sib: bool| MemRef { seg: Seg::None, aw, base, index, disp, dsz, rip: false, sib };
    let ivs: [u64; 2] = [0x10, 0x40u64.wrapping_neg() & am];
    // plans for base (+ index): base = t - index*scale - disp
    let plan = |base: u8, index: Option<(u8, u8)>, disp: i64| -> Vec<Patch> {
        match index {
            None => vec![pfull(&[(base, (t.wrapping_sub(disp as u64) & am) | hi)])],
            Some((i, s)) => ivs.iter().map(|&iv| pfull(&[(i, iv | hi), (base, (t.wrapping_sub(iv.wrapping_mul(s as u64)).wrapping_sub(disp as u64) & am) | hi)])).collect(),
        }
    };
    if aw == 16 {
        let combos: [(Option<u8>, Option<(u8, u8)>); 8] = [(Some(3), Some((6, 1))), (Some(3), Some((7, 1))), (Some(5), Some((6, 1))), (Some(5), Some((7, 1))), (Some(6), None), (Some(7), None), (Some(5), None), (Some(3), None)];
        for (b, i) in combos {
            for (dsz, disps) in [(0u8, vec![0i64]), (1, vec![0x7f, -0x80]), (2, vec![0x1234, -0x1234])] {
                for d in disps {
                    let mr = mk(b, i, d, dsz, false);
                    out.push(Form { mr, plans: plan(b.unwrap(), i, d), t });
                }
            }
        }
        out.push(Form { mr: mk(None, None, t as i64, 2, false), plans: vec![Patch::default()], t });
        return out;
    }
    let bases: Vec<u8> = if m == M::X86 { vec![0, 3, 4, 5, 6] } else { vec![0, 3, 4, 5, 6, 8, 12, 13] };
    for &b in &bases {
        if b & 7 == 5 { out.push(Form { mr: mk(Some(b), None, 0, 1, false), plans: plan(b, None, 0), t }); out.push(Form { mr: mk(Some(b), None, 0, 4, false), plans: plan(b, None, 0), t }); }
        else { out.push(Form { mr: mk(Some(b), None, 0, 0, false), plans: plan(b, None, 0), t }); }
        if b == 0 || b == 6 || b == 8 { continue; }
        for d in [0x7fi64, -0x80] { out.push(Form { mr: mk(Some(b), None, d, 1, false), plans: plan(b, None, d), t }); }
        for d in [0x12345i64, -0x12345] { out.push(Form { mr: mk(Some(b), None, d, 4, false), plans: plan(b, None, d), t }); }
    }
    // a SIB byte without index
    out.push(Form { mr: mk(Some(3), None, 0, 0, true), plans: plan(3, None, 0), t });
    out.push(Form { mr: mk(Some(3), None, -0x80, 1, true), plans: plan(3, None, -0x80), t });
    let pairs: Vec<(u8, u8)> = if m == M::X86 { vec![(3, 1), (5, 6), (4, 5), (0, 3)] } else { vec![(3, 1), (5, 6), (4, 5), (13, 12), (12, 13), (8, 9), (3, 12)] };
    for &(b, i) in &pairs {
        for s in [1u8, 2, 4, 8] {
            let (dsz, d) = if b & 7 == 5 { (1, 0) } else { (0, 0) };
            out.push(Form { mr: mk(Some(b), Some((i, s)), d, dsz, false), plans: plan(b, Some((i, s)), d), t });
            if !rich && s != 2 && s != 8 { continue; }
            out.push(Form { mr: mk(Some(b), Some((i, s)), -0x80, 1, false), plans: plan(b, Some((i, s)), -0x80), t });
            out.push(Form { mr: mk(Some(b), Some((i, s)), 0x12345, 4, false), plans: plan(b, Some((i, s)), 0x12345), t });
        }
    }
    // no base: index*scale + disp32 (displacement chosen per index value)
    let idxs: Vec<u8> = if m == M::X86 { vec![1, 5] } else { vec![1, 5, 12, 13] };
    for &i in &idxs {
        for s in [1u8, 2, 4, 8] {
            for iv in [0x40u64, 0x40u64.wrapping_neg() & am] {
                let d = t.wrapping_sub(iv.wrapping_mul(s as u64)) & am;
                let d = sext(d, aw.min(32), 64) as i64; // disp32 is sign-extended to the address width
                if (d as u64).wrapping_add(iv.wrapping_mul(s as u64)) & am != t { continue; }
                out.push(Form { mr: mk(None, Some((i, s)), d, 4, false), plans: vec![pfull(&[(i, iv | hi)])], t });
            }
        }
    }
    // absolute
    out.push(Form { mr: mk(None, None, t as i64, 4, false), plans: vec![Patch::default()], t });
    out.push(Form { mr: mk(None, None, t as i64, 4, true), plans: vec![Patch::default()], t });
    if m == M::Amd64 && aw == 64 {
        out.push(Form { mr: MemRef { seg: Seg::None, aw, base: None, index: None, disp: t as i64, dsz: 4, rip: true, sib: false }, plans: vec![Patch::default()], t });
    }
    out
}

fn val1(w: u8) -> u64 { 0x8877_6655_4433_2211 & wmask(w) }
fn val2(w: u8) -> u64 { 0x7F01_80FE_C3A5_E1F0 & wmask(w) }
fn alu_pairs(w: u8) -> Vec<(u64, u64)> { let k = wmask(w); vec![(k, 1), (k >> 1, 1), ((k >> 1) + 1, (k >> 1) + 1), (val1(w), val2(w)), (0, 0)] }

fn grp_mem(g: &mut G) {
    let m = g.m;
    let aws: &[u8] = if m == M::X86 { &[32, 16] } else { &[64, 32] };
    let mut counter = 0usize;
    for &aw in aws {
        for f in forms(m, aw, true) {
            counter += 1;
            let mut segs = vec![Seg::None, Seg::Fs, Seg::Gs];
            if g.thorough || counter % 5 == 0 { segs.extend([Seg::Cs, Seg::Ds, Seg::Es, Seg::Ss]); }
            for seg in segs {
                let mr = MemRef { seg, ..f.mr };
                let t = (f.t + seg.base()) & m.mask();
                let plans = &f.plans;
                for &w in widths(m) {
                    let o8 = w == 8;
                    let mo = Op::M(mr, w);
                    let ms = mem_str(&mr, w);
                    let mut ds = vec![r(2, w)];
                    if o8 && (g.thorough || counter % 3 == 0) { ds.push(rh(2)); }
                    for d in ds {
                        let dn = d.name();
                        let dop = Op::R(d);
                        g.add("mov.mem", REL_MEM, format!("mov {}, {}", dn, ms), enc(m, w, &[if o8 { 0x8A } else { 0x8B }], RF::R(d), &mo, &[], X::default()), I::Mov(dop, mo), B3, cross(plans, &[pmem(t, w, val1(w)), pmem(t, w, val2(w))]));
                        g.add("mov.mem", REL_MEM, format!("mov {}, {}", ms, dn), enc(m, w, &[if o8 { 0x88 } else { 0x89 }], RF::R(d), &mo, &[], X::default()), I::Mov(mo, dop), B3, cross(plans, &[preg(d, val1(w)), preg(d, val2(w))]));
                        for (op, base) in [(Alu::Add, 0x00u8), (Alu::Sub, 0x28), (Alu::Cmp, 0x38)] {
                            let name = format!("{}.mem", alu_name(op));
                            let to_mem: Vec<Patch> = alu_pairs(w).into_iter().map(|(a, b)| pmem(t, w, a).merge(&preg(d, b))).collect();
                            let to_reg: Vec<Patch> = alu_pairs(w).into_iter().map(|(a, b)| preg(d, a).merge(&pmem(t, w, b))).collect();
                            g.add(&name, REL_MEM, format!("{} {}, {}", alu_name(op), ms, dn), enc(m, w, &[base + if o8 { 0 } else { 1 }], RF::R(d), &mo, &[], X::default()), I::Alu(op, mo, dop), B3, cross(plans, &to_mem));
                            g.add(&name, REL_MEM, format!("{} {}, {}", alu_name(op), dn, ms), enc(m, w, &[base + if o8 { 2 } else { 3 }], RF::R(d), &mo, &[], X::default()), I::Alu(op, dop, mo), B3, cross(plans, &to_reg));
                        }
                        g.add("xchg.mem", REL_MEM, format!("xchg {}, {}", ms, dn), enc(m, w, &[if o8 { 0x86 } else { 0x87 }], RF::R(d), &mo, &[], X::default()), I::Xchg(mo, dop), B3, cross(plans, &[pmem(t, w, val1(w)).merge(&preg(d, val2(w)))]));
                    }
                    // immediates
                    let iw = if w == 64 { 32 } else { w };
                    let iv = 0x89AB_CDEFu64 & wmask(iw);
                    g.add("mov.mem", REL_MEM, format!("mov {}, 0x{:x}", ms, sext(iv, iw, w)), enc(m, w, &[if o8 { 0xC6 } else { 0xC7 }], RF::D(0), &mo, &imm_bytes(iv, iw as usize / 8), X::default()), I::Mov(mo, Op::I(sext(iv, iw, w))), B3, plans.clone());
                    let mem_vals: Vec<Patch> = [wmask(w), wmask(w) >> 1, 0, val1(w)].iter().map(|&a| pmem(t, w, a)).collect();
                    for (op, dg) in [(Alu::Add, 0u8), (Alu::Sub, 5), (Alu::Cmp, 7)] {
                        g.add(&format!("{}.mem", alu_name(op)), REL_MEM, format!("{} {}, -1 (imm8)", alu_name(op), ms), enc(m, w, &[if o8 { 0x80 } else { 0x83 }], RF::D(dg), &mo, &[0xff], X::default()), I::Alu(op, mo, Op::I(wmask(w))), B3, cross(plans, &mem_vals));
                    }
                    let un_vals: Vec<Patch> = cross(&mem_vals, &[pfl(0), pfl(1 | 2 | 4 | 8)]);
                    g.add("inc.mem", REL_MEM, format!("inc {}", ms), enc(m, w, &[if o8 { 0xFE } else { 0xFF }], RF::D(0), &mo, &[], X::default()), I::Un(Un::Inc, mo), B3, cross(plans, &un_vals));
                    g.add("dec.mem", REL_MEM, format!("dec {}", ms), enc(m, w, &[if o8 { 0xFE } else { 0xFF }], RF::D(1), &mo, &[], X::default()), I::Un(Un::Dec, mo), B3, cross(plans, &un_vals));
                    g.add("neg.mem", REL_MEM, format!("neg {}", ms), enc(m, w, &[if o8 { 0xF6 } else { 0xF7 }], RF::D(3), &mo, &[], X::default()), I::Un(Un::Neg, mo), B3, cross(plans, &un_vals));
                    if !o8 {
                        let d = r(2, w);
                        g.add("lea", REL_MEM, format!("lea {}, {}", d.name(), ms), enc(m, w, &[0x8D], RF::R(d), &mo, &[], X::default()), I::Lea(d, mr), B3, plans.clone());
                        for sw in [8u8, 16] {
                            if sw >= w { continue; }
                            let so = Op::M(mr, sw);
                            let sv: Vec<Patch> = [val1(sw), val2(sw)].iter().map(|&a| pmem(t, sw, a)).collect();
                            g.add("movzx.mem", REL_MEM, format!("movzx {}, {}", d.name(), mem_str(&mr, sw)), enc(m, w, &[0x0F, if sw == 8 { 0xB6 } else { 0xB7 }], RF::R(d), &so, &[], X::default()), I::Movzx(Op::R(d), so), B3, cross(plans, &sv));
                            g.add("movsx.mem", REL_MEM, format!("movsx {}, {}", d.name(), mem_str(&mr, sw)), enc(m, w, &[0x0F, if sw == 8 { 0xBE } else { 0xBF }], RF::R(d), &so, &[], X::default()), I::Movsx(Op::R(d), so), B3, cross(plans, &sv));
                        }
                        if w == 64 {
                            let so = Op::M(mr, 32);
                            let sv: Vec<Patch> = [val1(32), val2(32)].iter().map(|&a| pmem(t, 32, a)).collect();
                            g.add("movsx.mem", REL_MEM, format!("movsxd {}, {}", d.name(), mem_str(&mr, 32)), enc(m, 64, &[0x63], RF::R(d), &so, &[], X::default()), I::Movsx(Op::R(d), so), B3, cross(plans, &sv));
                        }
                        // push / pop of a memory operand (operand size 16, or the stack width of the mode)
                        if w == 16 || w == m.bits() {
                            let x = X { rep: None, d64: true };
                            g.add("push.mem", REL_STACK, format!("push {}", ms), enc(m, w, &[0xFF], RF::D(6), &mo, &[], x), I::Push(mo, w), B3, cross(plans, &[pmem(t, w, val1(w))]));
                            g.add("pop.mem", REL_STACK, format!("pop {}", ms), enc(m, w, &[0x8F], RF::D(0), &mo, &[], x), I::Pop(mo), B3, plans.iter().map(|p| { let mut q = p.clone(); q.mem.push((STACK, 8, 0x0123_4567_89AB_CDEF)); q }).collect());
                        }
                    }
                }
            }
        }
        // moffs forms (A0 - A3): absolute address of the address width
        for seg in [Seg::None, Seg::Fs, Seg::Gs, Seg::Es] {
            for &w in widths(m) {
                let tt = if aw == 16 { T16 } else { T32 };
                let mr = MemRef { seg, aw, base: None, index: None, disp: tt as i64, dsz: aw / 8, rip: false, sib: false };
                let t = (tt + seg.base()) & m.mask();
                let acc = r(0, w);
                let mo = Op::M(mr, w);
                let mut pre: Vec<u8> = Vec::new();
                if let Some(p) = seg.prefix() { pre.push(p); }
                if aw != m.bits() { pre.push(0x67); }
                if w == 16 { pre.push(0x66); }
                if w == 64 { pre.push(0x48); }
                let ld = with(with(pre.clone(), &[if w == 8 { 0xA0 } else { 0xA1 }]), &le(tt, aw as usize / 8));
                let st = with(with(pre.clone(), &[if w == 8 { 0xA2 } else { 0xA3 }]), &le(tt, aw as usize / 8));
                g.add("mov.moffs", REL_MEM, format!("mov {}, {} (moffs{})", acc.name(), mem_str(&mr, w), aw), Some(ld), I::Mov(Op::R(acc), mo), B3, vec![pmem(t, w, val1(w)), pmem(t, w, val2(w))]);
                g.add("mov.moffs", REL_MEM, format!("mov {}, {} (moffs{})", mem_str(&mr, w), acc.name(), aw), Some(st), I::Mov(mo, Op::R(acc)), B3, vec![preg(acc, val1(w)), preg(acc, val2(w))]);
            }
        }
    }
    // aliasing: the destination register is also an address register / the stack pointer is an operand
    let w = m.bits();
    let aw = w;
    let base3 = MemRef { seg: Seg::None, aw, base: Some(3), index: None, disp: 4, dsz: 1, rip: false, sib: false };
    let p3 = pfull(&[(3, T32 - 4)]);
    let b = r(3, w);
    let mo = Op::M(base3, w);
    let ms = mem_str(&base3, w);
    g.add("mov.alias", REL_MEM, format!("mov {}, {}", b.name(), ms), enc(m, w, &[0x8B], RF::R(b), &mo, &[], X::default()), I::Mov(Op::R(b), mo), B3, vec![p3.merge(&pmem(T32, w, val1(w)))]);
    g.add("add.alias", REL_MEM, format!("add {}, {}", b.name(), ms), enc(m, w, &[0x03], RF::R(b), &mo, &[], X::default()), I::Alu(Alu::Add, Op::R(b), mo), B3, vec![p3.merge(&pmem(T32, w, val1(w)))]);
    g.add("xchg.alias", REL_MEM, format!("xchg {}, {}", ms, b.name()), enc(m, w, &[0x87], RF::R(b), &mo, &[], X::default()), I::Xchg(mo, Op::R(b)), B3, vec![p3.merge(&pmem(T32, w, val1(w)))]);
    g.add("xadd.alias", REL_MEM, format!("xadd {}, {}", ms, b.name()), enc(m, w, &[0x0F, 0xC1], RF::R(b), &mo, &[], X::default()), I::Xadd(mo, b), B3, vec![p3.merge(&pmem(T32, w, val1(w)))]);
    let lea3 = MemRef { seg: Seg::None, aw, base: Some(3), index: Some((3, 2)), disp: 0, dsz: 0, rip: false, sib: false };
    g.add("lea", REL_MEM, format!("lea {}, {}", b.name(), mem_str(&lea3, w)), enc(m, w, &[0x8D], RF::R(b), &Op::M(lea3, w), &[], X::default()), I::Lea(b, lea3), B3, vec![pfull(&[(3, 0x1234_5678)]), pfull(&[(3, 0xFFFF_FFFF_FFFF_FFF0)])]);
    // stack pointer as operand
    let sp = r(4, w);
    let x64 = X { rep: None, d64: true };
    let stk = pmem(STACK, 64, 0x0000_0000_0001_0900).merge(&pmem(STACK - 8, 64, 0x1111_2222_3333_4444));
    g.add("push", REL_STACK, format!("push {}", sp.name()), plus_r64(m, w, 0x50, sp), I::Push(Op::R(sp), w), B3, vec![stk.clone()]);
    g.add("pop", REL_STACK, format!("pop {}", sp.name()), plus_r64(m, w, 0x58, sp), I::Pop(Op::R(sp)), B3, vec![stk.clone()]);
    for (d, dsz) in [(0i64, 0u8), (8, 1), (-8, 1)] {
        let msp = MemRef { seg: Seg::None, aw, base: Some(4), index: None, disp: d, dsz, rip: false, sib: false };
        let mo = Op::M(msp, w);
        g.add("pop.mem", REL_STACK, format!("pop {}", mem_str(&msp, w)), enc(m, w, &[0x8F], RF::D(0), &mo, &[], x64), I::Pop(mo), B3, vec![stk.clone()]);
        g.add("push.mem", REL_STACK, format!("push {}", mem_str(&msp, w)), enc(m, w, &[0xFF], RF::D(6), &mo, &[], x64), I::Push(mo, w), B3, vec![stk.clone()]);
    }
}

// ------------------------------------------------------------------ group "cc": condition codes, jcxz, loop
fn mini_forms(m: M) -> Vec<Form> {
    let aw = m.bits();
    let mk = |base: Option<u8>, index: Option<(u8, u8)>, disp: i64, dsz: u8, seg: Seg| MemRef { seg, aw, base, index, disp, dsz, rip: false, sib: false };
    let mut v = vec![
        Form { mr: mk(Some(3), None, 0, 0, Seg::None), plans: vec![pfull(&[(3, T32)])], t: T32 },
        Form { mr: mk(Some(6), Some((5, 4)), 0x10, 1, Seg::None), plans: vec![pfull(&[(5, 0x20), (6, T32 - 0x90)])], t: T32 },
        Form { mr: mk(None, None, T32 as i64, 4, Seg::Fs), plans: vec![Patch::default()], t: T32 + FS_BASE },
    ];
    if m == M::Amd64 { v.push(Form { mr: MemRef { seg: Seg::None, aw, base: None, index: None, disp: T32 as i64, dsz: 4, rip: true, sib: false }, plans: vec![Patch::default()], t: T32 }); }
    v
}

fn grp_cc(g: &mut G) {
    let m = g.m;
    let flags32: Vec<Patch> = (0..32u8).map(pfl).collect();
    for cc in 0..16u8 {
        let n = CC_NAMES[cc as usize];
        for rel in [0x30i64, -0x40] {
            let t = (CODE as i64 + 2 + rel) as u64;
            g.add("jcc", REL_CC, format!("j{} short 0x{:x}", n, t), Some(vec![0x70 + cc, rel as u8]), I::Jcc(cc, t), B3, flags32.clone());
        }
        for rel in [0x200i64, -0x300] {
            let t = (CODE as i64 + 6 + rel) as u64;
            g.add("jcc", REL_CC, format!("j{} near 0x{:x}", n, t), Some(with(vec![0x0F, 0x80 + cc], &le(rel as u64, 4))), I::Jcc(cc, t), B3, flags32.clone());
        }
        let mut dsts: Vec<Op> = vec![Op::R(r(2, 8)), Op::R(rh(2)), Op::R(r(0, 8))];
        if m == M::Amd64 { dsts.push(Op::R(r(6, 8))); dsts.push(Op::R(r(9, 8))); }
        for d in dsts { g.add("setcc", REL_CC, format!("set{} {}", n, op_str(&d)), enc(m, 8, &[0x0F, 0x90 + cc], RF::D(0), &d, &[], X::default()), I::Setcc(cc, d), B3, flags32.clone()); }
        for f in mini_forms(m) {
            let d = Op::M(f.mr, 8);
            g.add("setcc", REL_CC, format!("set{} {}", n, op_str(&d)), enc(m, 8, &[0x0F, 0x90 + cc], RF::D(0), &d, &[], X::default()), I::Setcc(cc, d), B3, cross(&f.plans, &flags32));
        }
        for &w in &widths(m)[1..] {
            let (d, s) = (r(2, w), r(7, w));
            g.add("cmovcc", REL_CC, format!("cmov{} {}, {}", n, d.name(), s.name()), enc(m, w, &[0x0F, 0x40 + cc], RF::R(d), &Op::R(s), &[], X::default()), I::Cmov(cc, d, Op::R(s)), B3, flags32.clone());
            for f in mini_forms(m) {
                let so = Op::M(f.mr, w);
                g.add("cmovcc", REL_CC, format!("cmov{} {}, {}", n, d.name(), op_str(&so)), enc(m, w, &[0x0F, 0x40 + cc], RF::R(d), &so, &[], X::default()), I::Cmov(cc, d, so), B3, cross(&f.plans, &flags32));
            }
        }
    }
    // jcxz / jecxz / jrcxz (E3) and loop / loope / loopne (E2 / E1 / E0): the count register follows the ADDRESS size
    let counts: Vec<u64> = if m == M::X86 { vec![0, 1, 2, 0xFFFF, 0x10000, 0x10001, 0xFFFF_0000, 0xFFFF_FFFF] }
                           else { vec![0, 1, 2, 0xFFFF, 0x10000, 0x10001, 0xFFFF_0000, 0xFFFF_FFFF, 0x1_0000_0000, 0x1_0000_0001, 0x1_0000_0002, 0xFFFF_FFFF_0000_0000, u64::MAX] };
    for a67 in [false, true] {
        let cw = match (m, a67) { (M::X86, false) => 32, (M::X86, true) => 16, (M::Amd64, false) => 64, (M::Amd64, true) => 32 };
        let pre: Vec<u8> = if a67 { vec![0x67] } else { vec![] };
        for rel in [0x20i64, -0x30] {
            let len = pre.len() as i64 + 2;
            let t = (CODE as i64 + len + rel) as u64;
            let cnt_states: Vec<Patch> = counts.iter().map(|&c| pfull(&[(1, c)])).collect();
            g.add("jcxz", REL_CC, format!("j{}cxz 0x{:x}{}", match cw { 16 => "", 32 => "e", _ => "r" }, t, if a67 { " (67)" } else { "" }), Some(with(pre.clone(), &[0xE3, rel as u8])), I::Jcxz(cw, t), B3, cnt_states.clone());
            for (kind, opc, name) in [(0u8, 0xE0u8, "loopne"), (1, 0xE1, "loope"), (2, 0xE2, "loop")] {
                let st = cross(&cnt_states, &[pfl(0), pfl(2), pfl(31)]);
                g.add(name, REL_LOOP, format!("{} 0x{:x} (count width {}){}", name, t, cw, if a67 { " (67)" } else { "" }), Some(with(pre.clone(), &[opc, rel as u8])), I::Loop(kind, cw, t), B3, st);
            }
        }
    }
}

// ------------------------------------------------------------------ group "str": string instructions and rep prefixes
fn grp_str(g: &mut G) {
    let m = g.m;
    for a67 in [false, true] {
        let aw = match (m, a67) { (M::X86, false) => 32, (M::X86, true) => 16, (M::Amd64, false) => 64, (M::Amd64, true) => 32 };
        let (src0, dst0) = if aw == 16 { (0x4400u64, 0x4C00u64) } else { (0x10400u64, 0x10C00u64) };
        let hi: u64 = if aw == 16 { 0xBEEF_0000 } else { 0 };
        for (k, kn, opc) in [(Str::Movs, "movs", 0xA4u8), (Str::Cmps, "cmps", 0xA6), (Str::Stos, "stos", 0xAA), (Str::Lods, "lods", 0xAC), (Str::Scas, "scas", 0xAE)] {
            for &w in widths(m) {
                let n = w as u64 / 8;
                for rep in [Rep::None, Rep::Rep, Rep::Repne] {
                    if rep == Rep::Repne && k != Str::Scas && k != Str::Cmps { continue; } // reserved (SDM: REPNE only with CMPS / SCAS)
                    let mut segs = vec![Seg::None];
                    if (k == Str::Movs || k == Str::Lods || k == Str::Cmps) && (w == 8 || w == 32) && rep != Rep::Repne { segs.push(Seg::Fs); }
                    for seg in segs {
                        let mut bytes: Vec<u8> = Vec::new();
                        match rep { Rep::Rep => bytes.push(0xF3), Rep::Repne => bytes.push(0xF2), Rep::None => {} }
                        if let Some(p) = seg.prefix() { bytes.push(p); }
                        if a67 { bytes.push(0x67); }
                        if w == 16 { bytes.push(0x66); }
                        if w == 64 { bytes.push(0x48); }
                        bytes.push(if w == 8 { opc } else { opc + 1 });
                        let cmp = k == Str::Scas || k == Str::Cmps;
                        let repn = match rep { Rep::None => "", Rep::Rep => if cmp { "repe " } else { "rep " }, Rep::Repne => "repne " };
                        let asm = format!("{}{}{} {}{}", repn, kn, match w { 8 => "b", 16 => "w", 32 => "d", _ => "q" }, seg.name(), if a67 { format!(" (67: a{})", aw) } else { String::new() });
                        let mut states: Vec<Patch> = Vec::new();
                        let acc_v = val1(w);
                        let other = val2(w);
                        for df in [false, true] {
                            let dir = |j: u64| -> u64 { if df { j.wrapping_mul(n).wrapping_neg() } else { j * n } };
                            let (si, di) = (src0 + 0x80, dst0 + 0x80);
                            let srcl = |j: u64| -> u64 { (si.wrapping_add(dir(j)) & wmask(aw)).wrapping_add(seg.base()) };
                            let dstl = |j: u64| -> u64 { di.wrapping_add(dir(j)) & wmask(aw) };
                            let mut cnts: Vec<(u64, Vec<i64>)> = Vec::new(); // (count, exit positions; -1 = no early exit)
                            if rep == Rep::None { cnts.push((7, if cmp { vec![-1, 0] } else { vec![-1] })); }
                            else if cmp { cnts.extend([(0, vec![-1]), (1, vec![-1, 0]), (2, vec![-1, 0, 1]), (5, vec![-1, 0, 2, 4])]); if g.thorough { cnts.extend([(3, vec![-1, 0, 1, 2]), (9, vec![-1, 0, 1, 4, 7, 8])]); } }
                            else { cnts.extend([(0, vec![-1]), (1, vec![-1]), (2, vec![-1]), (5, vec![-1])]); if g.thorough { cnts.extend([(3, vec![-1]), (9, vec![-1]), (17, vec![-1])]); } }
                            for (cnt, exits) in cnts {
                                for ex in exits {
                                    let mut p = Patch { df: Some(df), ..Default::default() };
                                    p.full.push((6, si | hi)); p.full.push((7, di | hi)); p.full.push((1, cnt | hi));
                                    p.regs.push((r(0, w), acc_v));
                                    if cmp {
                                        // the "continue" relation holds for every element before position `ex` and fails at `ex`
                                        let elems = if rep == Rep::None { 1 } else { cnt };
                                        for j in 0..elems {
                                            let goes_on = ex < 0 || (j as i64) < ex;
                                            let equal = match rep { Rep::Repne => !goes_on, _ => goes_on };
                                            let sv = if k == Str::Cmps { acc_v.wrapping_add(j.wrapping_mul(0x0101_0101_0101_0101)) & wmask(w) } else { acc_v };
                                            let dv = if equal { sv } else if j % 2 == 0 { (sv ^ other) & wmask(w) } else { sv.wrapping_add(1) & wmask(w) };
                                            if k == Str::Cmps { p.mem.push((srcl(j), w / 8, sv)); }
                                            p.mem.push((dstl(j), w / 8, dv));
                                        }
                                    }
                                    states.push(p);
                                }
                            }
                        }
                        // a count register whose upper part differs between the address-size views
                        if rep != Rep::None && aw == 32 && m == M::Amd64 {
                            states.push(Patch { full: vec![(6, src0 + 0x80), (7, dst0 + 0x80), (1, 0x1_0000_0002)], regs: vec![(r(0, w), acc_v)], df: Some(false), ..Default::default() });
                            states.push(Patch { full: vec![(6, (src0 + 0x80) | 0xDEAD_BEEF_0000_0000), (7, (dst0 + 0x80) | 0xDEAD_BEEF_0000_0000), (1, 2)], regs: vec![(r(0, w), acc_v)], df: Some(false), ..Default::default() });
                        }
                        let op = if rep == Rep::None { kn.to_string() } else { format!("rep.{}", kn) };
                        g.add(&op, REL_STR, asm, Some(bytes), I::Str(k, w, rep, aw, seg), B3, states);
                    }
                }
            }
        }
    }
    // SSE2 scalar move `movsd xmm, xmm/m64` (F2 0F 10 /r, F2 0F 11 /r): capstone gives it the id of the string instruction
    // movsd (X86_INS_MOVSD). It touches no general-purpose register, no flag and (register / load forms) no memory: either
    // rejected or lifted so (defect D12: it went to the string-move builder, which moved rsi / rdi by 16)
    let dfs = vec![Patch { df: Some(false), ..Default::default() }, Patch { df: Some(true), ..Default::default() }];
    g.add("sse.movsd", REL_STR, "movsd xmm0, xmm1 (F2 0F 10 C1)".to_string(), Some(vec![0xF2, 0x0F, 0x10, 0xC1]), I::Nop, B3, dfs.clone());
    g.add("sse.movsd", REL_STR, "movsd xmm1, xmm0 (F2 0F 11 C1)".to_string(), Some(vec![0xF2, 0x0F, 0x11, 0xC1]), I::Nop, B3, dfs.clone());
    g.add("sse.movsd", REL_STR, "movsd xmm0, qword [ebx|rbx] (F2 0F 10 03)".to_string(), Some(vec![0xF2, 0x0F, 0x10, 0x03]), I::Nop, B3,
        dfs.iter().map(|p| p.merge(&Patch { full: vec![(3, 0x10400)], ..Default::default() })).collect());
}

// ------------------------------------------------------------------ group "int": the remaining integer builders
fn top(w: u8) -> u64 { 1u64 << (w - 1) }
fn counts_list(thorough: bool) -> Vec<u8> { if thorough { (0..=255u8).collect() } else { vec![0, 1, 2, 7, 8, 9, 15, 16, 17, 31, 32, 33, 63, 64, 65, 0x81, 0xff] } }

fn grp_int(g: &mut G) {
    let m = g.m;
    let x0 = X::default();
    let minis = mini_forms(m);
    let cf01 = [pfl(0), pfl(1 | 2 | 4 | 8)];
    for &w in widths(m) {
        let o8 = w == 8;
        let (d, s) = (r(2, w), r(3, w));
        let s7 = if o8 { r(1, 8) } else { r(7, w) }; // a source register that no mini form uses for addressing
        let pair_states: Vec<Patch> = { let mut v = Vec::new(); for a in boundary(w) { for b in boundary(w) { for f in &cf01 { v.push(Patch { regs: vec![(s, b), (d, a)], ..Default::default() }.merge(f)); } } } v };
        let one_states: Vec<Patch> = { let mut v = Vec::new(); for a in boundary(w).into_iter().chain([val1(w)]) { for f in &cf01 { v.push(preg(d, a).merge(f)); } } v };
        // ---- adc sbb and or xor (+ test): r/m,r ; r,r/m ; immediates ; accumulator short forms ; memory forms
        for (op, base) in [(Alu::Or, 0x08u8), (Alu::Adc, 0x10), (Alu::Sbb, 0x18), (Alu::And, 0x20), (Alu::Xor, 0x30)] {
            let name = alu_name(op);
            let dg = base >> 3;
            g.add(name, REL_INT, format!("{} {}, {}", name, d.name(), s.name()), rr(m, w, &[base + if o8 { 0 } else { 1 }], s, d), I::Alu(op, Op::R(d), Op::R(s)), B3, pair_states.clone());
            g.add(name, REL_INT, format!("{} {}, {} (r, r/m form)", name, d.name(), s.name()), rr(m, w, &[base + if o8 { 2 } else { 3 }], d, s), I::Alu(op, Op::R(d), Op::R(s)), B3, pair_states.clone());
            g.add(name, REL_INT, format!("{} {}, {}", name, d.name(), d.name()), rr(m, w, &[base + if o8 { 0 } else { 1 }], d, d), I::Alu(op, Op::R(d), Op::R(d)), B3, one_states.clone());
            for v in boundary(8) {
                let val = sext(v, 8, w);
                g.add(name, REL_INT, format!("{} {}, 0x{:x} (imm8)", name, d.name(), val), digit(m, w, &[if o8 { 0x80 } else { 0x83 }], dg, d).map(|b| with(b, &[v as u8])), I::Alu(op, Op::R(d), Op::I(val)), B3, one_states.clone());
            }
            if !o8 {
                let iw = if w == 64 { 32 } else { w };
                for v in boundary(iw) {
                    let val = sext(v, iw, w);
                    g.add(name, REL_INT, format!("{} {}, 0x{:x} (81)", name, d.name(), val), digit(m, w, &[0x81], dg, d).map(|b| with(b, &imm_bytes(v, iw as usize / 8))), I::Alu(op, Op::R(d), Op::I(val)), B3, one_states.clone());
                    let acc = r(0, w);
                    let st: Vec<Patch> = one_states.iter().map(|p| Patch { regs: vec![(acc, p.regs[0].1)], ..p.clone() }).collect();
                    g.add(name, REL_INT, format!("{} {}, 0x{:x} (short form)", name, acc.name(), val), prefixes(m, w, Some(acc), false).map(|b| with(with(b, &[base + 5]), &imm_bytes(v, iw as usize / 8))), I::Alu(op, Op::R(acc), Op::I(val)), B3, st);
                }
            } else {
                let acc = r(0, 8);
                let st: Vec<Patch> = one_states.iter().map(|p| Patch { regs: vec![(acc, p.regs[0].1)], ..p.clone() }).collect();
                g.add(name, REL_INT, format!("{} al, 0x80 (short form)", name), Some(vec![base + 4, 0x80]), I::Alu(op, Op::R(acc), Op::I(0x80)), B3, st);
            }
            for f in &minis {
                let mo = Op::M(f.mr, w);
                let ms = op_str(&mo);
                let to_mem: Vec<Patch> = alu_pairs(w).into_iter().flat_map(|(a, b)| cf01.iter().map(move |fl| (a, b, fl.clone()))).map(|(a, b, fl)| pmem(f.t, w, a).merge(&preg(d, b)).merge(&fl)).collect();
                let to_reg: Vec<Patch> = alu_pairs(w).into_iter().flat_map(|(a, b)| cf01.iter().map(move |fl| (a, b, fl.clone()))).map(|(a, b, fl)| preg(d, a).merge(&pmem(f.t, w, b)).merge(&fl)).collect();
                g.add(&format!("{}.mem", name), REL_INT, format!("{} {}, {}", name, ms, d.name()), enc(m, w, &[base + if o8 { 0 } else { 1 }], RF::R(d), &mo, &[], x0), I::Alu(op, mo, Op::R(d)), B3, cross(&f.plans, &to_mem));
                g.add(&format!("{}.mem", name), REL_INT, format!("{} {}, {}", name, d.name(), ms), enc(m, w, &[base + if o8 { 2 } else { 3 }], RF::R(d), &mo, &[], x0), I::Alu(op, Op::R(d), mo), B3, cross(&f.plans, &to_reg));
                g.add(&format!("{}.mem", name), REL_INT, format!("{} {}, 0x7f (imm8)", name, ms), enc(m, w, &[if o8 { 0x80 } else { 0x83 }], RF::D(dg), &mo, &[0x7f], x0), I::Alu(op, mo, Op::I(0x7f)), B3, cross(&f.plans, &to_mem));
            }
        }
        g.add("test", REL_INT, format!("test {}, {}", d.name(), s.name()), rr(m, w, &[if o8 { 0x84 } else { 0x85 }], s, d), I::Alu(Alu::Test, Op::R(d), Op::R(s)), B3, pair_states.clone());
        {
            let iw = if w == 64 { 32 } else { w };
            for v in [top(iw), 1, wmask(iw)] {
                let val = sext(v, iw, w);
                g.add("test", REL_INT, format!("test {}, 0x{:x}", d.name(), val), digit(m, w, &[if o8 { 0xF6 } else { 0xF7 }], 0, d).map(|b| with(b, &imm_bytes(v, iw as usize / 8))), I::Alu(Alu::Test, Op::R(d), Op::I(val)), B3, one_states.clone());
                let acc = r(0, w);
                let st: Vec<Patch> = one_states.iter().map(|p| Patch { regs: vec![(acc, p.regs[0].1)], ..p.clone() }).collect();
                g.add("test", REL_INT, format!("test {}, 0x{:x} (short form)", acc.name(), val), prefixes(m, w, Some(acc), false).map(|b| with(with(b, &[if o8 { 0xA8 } else { 0xA9 }]), &imm_bytes(v, iw as usize / 8))), I::Alu(Alu::Test, Op::R(acc), Op::I(val)), B3, st);
            }
            for f in &minis {
                let mo = Op::M(f.mr, w);
                let st: Vec<Patch> = alu_pairs(w).into_iter().map(|(a, b)| pmem(f.t, w, a).merge(&preg(d, b))).collect();
                g.add("test.mem", REL_INT, format!("test {}, {}", op_str(&mo), d.name()), enc(m, w, &[if o8 { 0x84 } else { 0x85 }], RF::R(d), &mo, &[], x0), I::Alu(Alu::Test, mo, Op::R(d)), B3, cross(&f.plans, &st));
                g.add("not.mem", REL_INT, format!("not {}", op_str(&mo)), enc(m, w, &[if o8 { 0xF6 } else { 0xF7 }], RF::D(2), &mo, &[], x0), I::Un(Un::Not, mo), B3, cross(&f.plans, &[pmem(f.t, w, val1(w)), pmem(f.t, w, 0)]));
            }
        }
        g.add("not", REL_INT, format!("not {}", d.name()), digit(m, w, &[if o8 { 0xF6 } else { 0xF7 }], 2, d), I::Un(Un::Not, Op::R(d)), B3, one_states.clone());
        // ---- shifts and rotates: by 1 (D0 / D1), by CL (D2 / D3), by imm8 (C0 / C1)
        let sh_vals: Vec<u64> = vec![1, top(w), val1(w), wmask(w), top(w) >> 1, 0, val2(w)];
        let counts = counts_list(g.thorough);
        for (sh, dg, name) in [(Sh::Rol, 0u8, "rol"), (Sh::Ror, 1, "ror"), (Sh::Shl, 4, "shl"), (Sh::Shr, 5, "shr"), (Sh::Sar, 7, "sar")] {
            let mut dsts: Vec<(Op, Vec<Patch>, u64)> = vec![(Op::R(d), vec![Patch::default()], 0)];
            if o8 { dsts.push((Op::R(rh(2)), vec![Patch::default()], 0)); }
            for f in [&minis[0], &minis[2]] { dsts.push((Op::M(f.mr, w), f.plans.clone(), f.t)); }
            for (dst, plans, t) in dsts {
                let is_mem = matches!(dst, Op::M(..));
                let opn = if is_mem { format!("{}.mem", name) } else { name.to_string() };
                let vals: Vec<Patch> = cross(&sh_vals.iter().map(|&v| pop_(&dst, t, v)).collect::<Vec<_>>(), &cf01);
                let base_states = cross(&plans, &vals);
                g.add(&opn, REL_INT, format!("{} {}, 1", name, op_str(&dst)), enc(m, w, &[if o8 { 0xD0 } else { 0xD1 }], RF::D(dg), &dst, &[], x0), I::Shift(sh, dst, Cnt::One), B3, base_states.clone());
                let cl_counts: Vec<Patch> = counts.iter().filter(|&&c| !is_mem || [0u8, 1, 5, 33, 64].contains(&c) || c == 7).map(|&c| preg(r(1, 8), c as u64)).collect();
                g.add(&opn, REL_INT, format!("{} {}, cl", name, op_str(&dst)), enc(m, w, &[if o8 { 0xD2 } else { 0xD3 }], RF::D(dg), &dst, &[], x0), I::Shift(sh, dst, Cnt::Cl), B3, cross(&base_states, &cl_counts));
                for &c in &counts {
                    if is_mem && ![0u8, 1, 5, 33].contains(&c) { continue; }
                    g.add(&opn, REL_INT, format!("{} {}, {}", name, op_str(&dst), c), enc(m, w, &[if o8 { 0xC0 } else { 0xC1 }], RF::D(dg), &dst, &[c], x0), I::Shift(sh, dst, Cnt::Imm(c)), B3, base_states.clone());
                }
            }
        }
        if o8 { continue; }
        // ---- shld / shrd
        let sd_vals: Vec<Patch> = [(val1(w), val2(w)), (wmask(w), 0), (0, wmask(w)), (top(w), 1), (1, top(w))].iter().flat_map(|&(a, b)| cf01.iter().map(move |f| (a, b, f.clone()))).map(|(a, b, f)| Patch { regs: vec![(d, a), (s7, b)], ..Default::default() }.merge(&f)).collect();
        for (left, oi, oc, name) in [(true, 0xA4u8, 0xA5u8, "shld"), (false, 0xAC, 0xAD, "shrd")] {
            for &c in &counts {
                g.add(name, REL_INT, format!("{} {}, {}, {}", name, d.name(), s7.name(), c), enc(m, w, &[0x0F, oi], RF::R(s7), &Op::R(d), &[c], x0), I::Shxd(left, Op::R(d), s7, Cnt::Imm(c)), B3, sd_vals.clone());
            }
            let cl_counts: Vec<Patch> = counts.iter().map(|&c| preg(r(1, 8), c as u64)).collect();
            g.add(name, REL_INT, format!("{} {}, {}, cl", name, d.name(), s7.name()), enc(m, w, &[0x0F, oc], RF::R(s7), &Op::R(d), &[], x0), I::Shxd(left, Op::R(d), s7, Cnt::Cl), B3, cross(&sd_vals, &cl_counts));
            let f = &minis[0];
            let mo = Op::M(f.mr, w);
            let mv: Vec<Patch> = [(val1(w), val2(w)), (top(w), 1)].iter().map(|&(a, b)| pmem(f.t, w, a).merge(&preg(s7, b))).collect();
            for c in [0u8, 1, 4, 33] {
                g.add(&format!("{}.mem", name), REL_INT, format!("{} {}, {}, {}", name, op_str(&mo), s7.name(), c), enc(m, w, &[0x0F, oi], RF::R(s7), &mo, &[c], x0), I::Shxd(left, mo, s7, Cnt::Imm(c)), B3, cross(&f.plans, &mv));
            }
        }
        // ---- bt / bts / btr / btc
        let wn = w as u64;
        for (k, orr, dg, name) in [(Bt::Bt, 0xA3u8, 4u8, "bt"), (Bt::Bts, 0xAB, 5, "bts"), (Bt::Btr, 0xB3, 6, "btr"), (Bt::Btc, 0xBB, 7, "btc")] {
            let offs: Vec<u64> = vec![0, 1, wn - 1, wn, wn + 1, 2 * wn + 3, wmask(w), top(w)];
            let st: Vec<Patch> = offs.iter().flat_map(|&o| [val1(w), 0, wmask(w)].into_iter().map(move |v| (o, v))).map(|(o, v)| Patch { regs: vec![(d, v), (s7, o)], fl: Some(2 | 4), ..Default::default() }).collect();
            g.add(name, REL_INT, format!("{} {}, {}", name, d.name(), s7.name()), enc(m, w, &[0x0F, orr], RF::R(s7), &Op::R(d), &[], x0), I::Bt(k, Op::R(d), Op::R(s7)), B3, st);
            for ib in [0u8, 1, w - 1, w, w + 3, 0xff] {
                let st: Vec<Patch> = [val1(w), 0, wmask(w)].iter().map(|&v| Patch { regs: vec![(d, v)], fl: Some(2 | 4), ..Default::default() }).collect();
                g.add(name, REL_INT, format!("{} {}, {}", name, d.name(), ib), enc(m, w, &[0x0F, 0xBA], RF::D(dg), &Op::R(d), &[ib], x0), I::Bt(k, Op::R(d), Op::I(ib as u64)), B3, st);
            }
            for f in [&minis[0], &minis[2]] {
                let mo = Op::M(f.mr, w);
                let moffs: Vec<u64> = vec![0, 7, wn - 1, wn, wn + 5, 3 * wn + 1, wmask(w), (wn + 3).wrapping_neg() & wmask(w), (5 * wn).wrapping_neg() & wmask(w)];
                let st: Vec<Patch> = moffs.iter().map(|&o| preg(s7, o)).collect();
                g.add(&format!("{}.mem", name), REL_INT, format!("{} {}, {}", name, op_str(&mo), s7.name()), enc(m, w, &[0x0F, orr], RF::R(s7), &mo, &[], x0), I::Bt(k, mo, Op::R(s7)), B3, cross(&f.plans, &st));
                for ib in [0u8, w - 1, w + 3, 0xff] {
                    g.add(&format!("{}.mem", name), REL_INT, format!("{} {}, {}", name, op_str(&mo), ib), enc(m, w, &[0x0F, 0xBA], RF::D(dg), &mo, &[ib], x0), I::Bt(k, mo, Op::I(ib as u64)), B3, cross(&f.plans, &[pmem(f.t, w, val1(w)), pmem(f.t, w, val2(w))]));
                }
            }
        }
        // ---- bsf / bsr
        for (rev, opc, name) in [(false, 0xBCu8, "bsf"), (true, 0xBD, "bsr")] {
            let vals = [0u64, 1, top(w), 0x10, wmask(w), val1(w), 0x00f0_0000_0000_0f00 & wmask(w)];
            let st: Vec<Patch> = vals.iter().map(|&v| preg(s7, v).merge(&preg(d, wmask(w)))).collect();
            g.add(name, REL_INT, format!("{} {}, {}", name, d.name(), s7.name()), enc(m, w, &[0x0F, opc], RF::R(d), &Op::R(s7), &[], x0), I::Bsf(rev, d, Op::R(s7)), B3, st);
            let f = &minis[1];
            let mo = Op::M(f.mr, w);
            let st: Vec<Patch> = vals.iter().map(|&v| pmem(f.t, w, v)).collect();
            g.add(&format!("{}.mem", name), REL_INT, format!("{} {}, {}", name, d.name(), op_str(&mo)), enc(m, w, &[0x0F, opc], RF::R(d), &mo, &[], x0), I::Bsf(rev, d, mo), B3, cross(&f.plans, &st));
        }
        // ---- xadd / cmpxchg / imul
        let small_pairs: Vec<Patch> = alu_pairs(w).into_iter().map(|(a, b)| Patch { regs: vec![(d, a), (s7, b)], ..Default::default() }).collect();
        g.add("xadd", REL_INT, format!("xadd {}, {}", d.name(), s7.name()), enc(m, w, &[0x0F, 0xC1], RF::R(s7), &Op::R(d), &[], x0), I::Xadd(Op::R(d), s7), B3, small_pairs.clone());
        g.add("xadd", REL_INT, format!("xadd {}, {}", d.name(), d.name()), enc(m, w, &[0x0F, 0xC1], RF::R(d), &Op::R(d), &[], x0), I::Xadd(Op::R(d), d), B3, one_states.clone());
        let zx = |x: R, v: u64| -> Patch { if w == 32 && m == M::Amd64 { pfull(&[(x.idx, v)]) } else { preg(x, v) } };
        let cx_states: Vec<Patch> = [(val1(w), val1(w)), (val1(w), val2(w)), (0, wmask(w)), (top(w), top(w) - 1), (1, 1)].iter().map(|&(a, dv)| zx(r(0, w), a).merge(&zx(d, dv)).merge(&zx(s7, 0x5A5A_5A5A_5A5A_5A5A & wmask(w)))).collect();
        g.add("cmpxchg", REL_INT, format!("cmpxchg {}, {}", d.name(), s7.name()), enc(m, w, &[0x0F, 0xB1], RF::R(s7), &Op::R(d), &[], x0), I::Cmpxchg(Op::R(d), s7), B3, cx_states);
        for f in &minis {
            let mo = Op::M(f.mr, w);
            let st: Vec<Patch> = alu_pairs(w).into_iter().map(|(a, b)| pmem(f.t, w, a).merge(&preg(s7, b))).collect();
            g.add("xadd.mem", REL_INT, format!("xadd {}, {}", op_str(&mo), s7.name()), enc(m, w, &[0x0F, 0xC1], RF::R(s7), &mo, &[], x0), I::Xadd(mo, s7), B3, cross(&f.plans, &st));
            let st: Vec<Patch> = [(val1(w), val1(w)), (val1(w), val2(w)), (0, wmask(w))].iter().map(|&(a, dv)| zx(r(0, w), a).merge(&pmem(f.t, w, dv)).merge(&zx(s7, 0x5A5A_5A5A_5A5A_5A5A & wmask(w)))).collect();
            g.add("cmpxchg.mem", REL_INT, format!("cmpxchg {}, {}", op_str(&mo), s7.name()), enc(m, w, &[0x0F, 0xB1], RF::R(s7), &mo, &[], x0), I::Cmpxchg(mo, s7), B3, cross(&f.plans, &st));
            let st: Vec<Patch> = alu_pairs(w).into_iter().map(|(a, b)| preg(d, a).merge(&pmem(f.t, w, b))).collect();
            g.add("imul2.mem", REL_INT, format!("imul {}, {}", d.name(), op_str(&mo)), enc(m, w, &[0x0F, 0xAF], RF::R(d), &mo, &[], x0), I::Imul2(d, mo), B3, cross(&f.plans, &st));
        }
        let mul_states: Vec<Patch> = { let mut v = Vec::new(); for a in boundary(w).into_iter().chain([3, val1(w)]) { for b in boundary(w).into_iter().chain([7]) { v.push(Patch { regs: vec![(d, a), (s7, b)], ..Default::default() }); } } v };
        g.add("imul2", REL_INT, format!("imul {}, {}", d.name(), s7.name()), enc(m, w, &[0x0F, 0xAF], RF::R(d), &Op::R(s7), &[], x0), I::Imul2(d, Op::R(s7)), B3, mul_states.clone());
        for v in boundary(8) {
            let val = sext(v, 8, w);
            g.add("imul3", REL_INT, format!("imul {}, {}, 0x{:x} (imm8)", d.name(), s7.name(), val), enc(m, w, &[0x6B], RF::R(d), &Op::R(s7), &[v as u8], x0), I::Imul3(d, Op::R(s7), val), B3, mul_states.clone());
        }
        let iw = if w == 64 { 32 } else { w };
        for v in boundary(iw) {
            let val = sext(v, iw, w);
            g.add("imul3", REL_INT, format!("imul {}, {}, 0x{:x}", d.name(), s7.name(), val), enc(m, w, &[0x69], RF::R(d), &Op::R(s7), &imm_bytes(v, iw as usize / 8), x0), I::Imul3(d, Op::R(s7), val), B3, mul_states.clone());
        }
        // one-operand mul / imul / div / idiv on a memory operand
        for (op, name, dg) in [(Md::Mul, "mul", 4u8), (Md::Imul, "imul", 5), (Md::Div, "div", 6), (Md::Idiv, "idiv", 7)] {
            let f = &minis[0];
            let mo = Op::M(f.mr, w);
            let st: Vec<Patch> = [(3u64, 0x64u64, 0u64), (wmask(w), wmask(w), 0), (7, val1(w), 1), (top(w), 5, 0)].iter().map(|&(b, a, h)| pmem(f.t, w, b).merge(&Patch { regs: vec![(r(0, w), a), (r(2, w), h)], ..Default::default() })).collect();
            g.add(&format!("{}.mem", name), REL_INT, format!("{} {}", name, op_str(&mo)), enc(m, w, &[0xF7], RF::D(dg), &mo, &[], x0), I::MulDiv(op, mo), B3, cross(&f.plans, &st));
        }
    }
    // ---- bswap (every register), cbw family
    for w in [32u8, 64] {
        for d in regs(m, w) {
            g.add("bswap", REL_INT, format!("bswap {}", d.name()), prefixes(m, w, Some(d), false).map(|b| with(b, &[0x0F, 0xC8 + d.enc()])), I::Bswap(d), B3, vec![pfull(&[(d.idx, 0x1122_3344_5566_7788)]), pfull(&[(d.idx, 0xF1E2_D3C4_B5A6_9788)])]);
        }
    }
    let acc_vals: Vec<Patch> = [0u64, 1, 0x7f, 0x80, 0xff, 0x7fff, 0x8000, 0xffff, 0x7fff_ffff, 0x8000_0000, 0xffff_ffff, 0x7fff_ffff_ffff_ffff, 0x8000_0000_0000_0000, 0x1234_5678_8000_8080].iter().map(|&v| pfull(&[(0, v)])).collect();
    for (e, bytes, name) in [(Ext::Cbw, vec![0x66u8, 0x98], "cbw"), (Ext::Cwde, vec![0x98], "cwde"), (Ext::Cdqe, vec![0x48, 0x98], "cdqe"), (Ext::Cwd, vec![0x66, 0x99], "cwd"), (Ext::Cdq, vec![0x99], "cdq"), (Ext::Cqo, vec![0x48, 0x99], "cqo")] {
        if m == M::X86 && (e == Ext::Cdqe || e == Ext::Cqo) { continue; }
        g.add(name, REL_INT, name.to_string(), Some(bytes), I::Ext(e), B3, acc_vals.clone());
    }
    // ---- stack and control transfer
    let w = m.bits();
    let x64 = X { rep: None, d64: true };
    let stk = pmem(STACK, 64, PAD_IND | 0x0101_0000_0000_0000).merge(&pmem(STACK - 8, 64, 0x1111_2222_3333_4444));
    for ow in [w, 16] {
        for d in regs(m, ow) {
            g.add("push", REL_STACK, format!("push {}", d.name()), plus_r64(m, ow, 0x50, d), I::Push(Op::R(d), ow), B3, vec![stk.clone()]);
            g.add("pop", REL_STACK, format!("pop {}", d.name()), plus_r64(m, ow, 0x58, d), I::Pop(Op::R(d)), B3, vec![stk.clone()]);
        }
        let d = r(2, ow);
        g.add("push", REL_STACK, format!("push {} (FF /6)", d.name()), enc(m, ow, &[0xFF], RF::D(6), &Op::R(d), &[], x64), I::Push(Op::R(d), ow), B3, vec![stk.clone()]);
        g.add("pop", REL_STACK, format!("pop {} (8F /0)", d.name()), enc(m, ow, &[0x8F], RF::D(0), &Op::R(d), &[], x64), I::Pop(Op::R(d)), B3, vec![stk.clone()]);
        let pre: Vec<u8> = if ow == 16 { vec![0x66] } else { vec![] };
        for v in [0x7fu64, 0x80, 0xff] { g.add("push", REL_STACK, format!("push 0x{:x} (imm8, o{})", sext(v, 8, ow), ow), Some(with(pre.clone(), &[0x6A, v as u8])), I::Push(Op::I(sext(v, 8, ow)), ow), B3, vec![stk.clone()]); }
        let iw = if ow == 16 { 16 } else { 32 };
        for v in [0x1234_5678u64 & wmask(iw), 0x8765_4321 & wmask(iw) | top(iw)] { g.add("push", REL_STACK, format!("push 0x{:x} (o{})", sext(v, iw, ow), ow), Some(with(with(pre.clone(), &[0x68]), &le(v, iw as usize / 8))), I::Push(Op::I(sext(v, iw, ow)), ow), B3, vec![stk.clone()]); }
    }
    for rel in [0x100i64, -0x200] {
        let t = (CODE as i64 + 5 + rel) as u64;
        g.add("call", REL_STACK, format!("call 0x{:x}", t), Some(with(vec![0xE8], &le(rel as u64, 4))), I::Call(Tgt::Rel(t)), B3, vec![stk.clone()]);
        g.add("jmp", REL_CC, format!("jmp 0x{:x}", t), Some(with(vec![0xE9], &le(rel as u64, 4))), I::Jmp(Tgt::Rel(t)), B3, vec![stk.clone()]);
    }
    for rel in [0x40i64, -0x60] { let t = (CODE as i64 + 2 + rel) as u64; g.add("jmp", REL_CC, format!("jmp short 0x{:x}", t), Some(vec![0xEB, rel as u8]), I::Jmp(Tgt::Rel(t)), B3, vec![stk.clone()]); }
    let d = r(2, w);
    let ind = stk.merge(&pfull(&[(2, PAD_IND)]));
    g.add("call", REL_STACK, format!("call {}", d.name()), enc(m, w, &[0xFF], RF::D(2), &Op::R(d), &[], x64), I::Call(Tgt::Ind(Op::R(d))), B3, vec![ind.clone()]);
    g.add("jmp", REL_CC, format!("jmp {}", d.name()), enc(m, w, &[0xFF], RF::D(4), &Op::R(d), &[], x64), I::Jmp(Tgt::Ind(Op::R(d))), B3, vec![ind.clone()]);
    for f in &minis {
        let mo = Op::M(f.mr, w);
        let st = cross(&f.plans, &[stk.merge(&pmem(f.t, 64, PAD_IND))]);
        g.add("call.mem", REL_STACK, format!("call {}", op_str(&mo)), enc(m, w, &[0xFF], RF::D(2), &mo, &[], x64), I::Call(Tgt::Ind(mo)), B3, st.clone());
        g.add("jmp.mem", REL_CC, format!("jmp {}", op_str(&mo)), enc(m, w, &[0xFF], RF::D(4), &mo, &[], x64), I::Jmp(Tgt::Ind(mo)), B3, st);
    }
    let ret_stk = pmem(STACK, 64, PAD_IND);
    g.add("ret", REL_STACK, "ret".to_string(), Some(vec![0xC3]), I::Ret(0), B3, vec![ret_stk.clone()]);
    for imm in [8u16, 0x10, 0x7ffc] { g.add("ret", REL_STACK, format!("ret 0x{:x}", imm), Some(with(vec![0xC2], &le(imm as u64, 2))), I::Ret(imm), B3, vec![ret_stk.clone()]); }
    g.add("leave", REL_STACK, "leave".to_string(), Some(vec![0xC9]), I::Leave, B3, vec![pfull(&[(5, STACK - 0x40)]).merge(&pmem(STACK - 0x40, 64, 0x0102_0304_0506_0708)), pfull(&[(5, STACK + 0x80)])]);
    // ---- flag instructions, sahf / lahf, nop
    let fl_all: Vec<Patch> = cross(&(0..16u8).map(pfl).collect::<Vec<_>>(), &[Patch { df: Some(false), ..Default::default() }, Patch { df: Some(true), ..Default::default() }]);
    for (f, b, name) in [(Fl::Clc, 0xF8u8, "clc"), (Fl::Stc, 0xF9, "stc"), (Fl::Cld, 0xFC, "cld"), (Fl::Std, 0xFD, "std"), (Fl::Cmc, 0xF5, "cmc")] {
        g.add(name, REL_INT, name.to_string(), Some(vec![b]), I::Flag(f), B3, fl_all.clone());
    }
    let ah_vals: Vec<Patch> = cross(&[0x00u64, 0xff, 0xd5, 0x41, 0x80, 0x2a, 0x01, 0x40].iter().map(|&v| preg(rh(0), v)).collect::<Vec<_>>(), &[pfl(0), pfl(15)]);
    g.add("sahf", REL_INT, "sahf".to_string(), Some(vec![0x9E]), I::Sahf, B3, ah_vals);
    g.add("lahf", REL_INT, "lahf".to_string(), Some(vec![0x9F]), I::Lahf, B3, (0..32u8).map(pfl).collect());
    g.add("nop", REL_INT, "nop".to_string(), Some(vec![0x90]), I::Nop, B3, fl_all.clone());
    g.add("nop", REL_INT, "nop (66 90)".to_string(), Some(vec![0x66, 0x90]), I::Nop, B3, fl_all.clone());
    g.add("nop", REL_INT, "nop dword [eax] (0F 1F 00)".to_string(), Some(vec![0x0F, 0x1F, 0x00]), I::Nop, B3, fl_all.clone());
    g.add("nop", REL_INT, "pause (F3 90)".to_string(), Some(vec![0xF3, 0x90]), I::Nop, B3, fl_all);
}

// ------------------------------------------------------------------ running the lifted code
fn targets_of(sem: &I) -> Vec<u64> {
    match *sem {
        I::Jcc(_, t) | I::Jcxz(_, t) | I::Loop(_, _, t) => vec![t],
        I::Call(Tgt::Rel(t)) | I::Jmp(Tgt::Rel(t)) => vec![t],
        _ => vec![],
    }
}

fn data_image() -> (Vec<u8>, Vec<u8>) {
    ((LOW_LO..LOW_HI).map(pat).collect(), (MAIN_LO..MAIN_HI).map(pat).collect())
}

fn build_backing(bytes: &[u8], sem: &I, img: &(Vec<u8>, Vec<u8>)) -> RC<memory::backing::Memory> {
    let mut code = vec![0u8; (CODE_HI - CODE_LO) as usize];
    let mut put = |a: u64, b: &[u8]| { for (i, x) in b.iter().enumerate() { let o = (a - CODE_LO) as usize + i; if o < code.len() { code[o] = *x; } } };
    put(PAD_IND, &[0x90, 0xF4]);
    for t in targets_of(sem) { if t >= CODE_LO && t + 2 <= CODE_HI { put(t, &[0x90, 0xF4]); } }
    put(CODE + bytes.len() as u64, &[0x90, 0xF4]);
    put(CODE, bytes);
    let mut backing = memory::backing::Memory::new(Endian::Little);
    backing.set_memory(CODE_LO, code, memory::MemoryPermissions::EXECUTE | memory::MemoryPermissions::READ);
    backing.set_memory(LOW_LO, img.0.clone(), memory::MemoryPermissions::READ | memory::MemoryPermissions::WRITE);
    backing.set_memory(MAIN_LO, img.1.clone(), memory::MemoryPermissions::READ | memory::MemoryPermissions::WRITE);
    RC::new(backing)
}

fn lift(m: M, backing: &memory::backing::Memory) -> Result<RC<il::Program>, String> {
    let function = match m {
        M::X86 => TX86::new().translate_function(backing, CODE),
        M::Amd64 => TAmd64::new().translate_function(backing, CODE),
    }.map_err(|e| format!("{}", e))?;
    let mut program = il::Program::new();
    program.add_function(function);
    Ok(RC::new(program))
}

struct Got { cpu: Cpu, next: u64, written: Vec<(u64, u8)> }

fn run(m: M, program: &RC<il::Program>, backing: &RC<memory::backing::Memory>, cpu: &Cpu) -> Result<Got, String> {
    let function = program.functions().into_iter().next().ok_or("no function")?;
    let location: il::ProgramLocation = il::RefProgramLocation::from_function(function).ok_or("function without entry")?.map_err(|e| format!("{}", e))?.into();
    let mut state = State::new(Memory::new_with_backing(Endian::Little, backing.clone()));
    let fb = m.bits() as usize;
    for i in 0..nregs(m) { state.set_scalar(full_name(m, i), il::const_(cpu.r[i], fb)); }
    for (n, v) in [("CF", cpu.cf), ("ZF", cpu.zf), ("SF", cpu.sf), ("OF", cpu.of), ("DF", cpu.df), ("PF", cpu.pf), ("AF", false), ("IF", false)] {
        state.set_scalar(n, il::const_(v as u64, 1));
    }
    for (n, v) in [("fs_base", cpu.fs), ("gs_base", cpu.gs), ("cs_base", 0), ("ds_base", 0), ("es_base", 0), ("ss_base", 0)] { state.set_scalar(n, il::const_(v, fb)); }
    // XMM registers (64-bit mode only has them in the lifter's table): bound so that an instruction which reads one executes;
    // they are not compared (the model has no vector state), only what the instruction does to everything else is
    if m == M::Amd64 { for i in 0..16u64 { state.set_scalar(format!("xmm{}", i), il::const_(0x1111_2222_3333_4444u64.wrapping_mul(i + 1), 128)); } }
    for (&a, &b) in &cpu.mem { state.memory_mut().store(a, il::const_(b as u64, 8)).map_err(|e| format!("{}", e))?; }
    let arch: RC<dyn architecture::Architecture> = match m {
        M::X86 => RC::new(architecture::X86::new()),
        M::Amd64 => RC::new(architecture::Amd64::new()),
    };
    let mut driver = Driver::new(program.clone(), location, state, arch);
    let mut steps = 0;
    let next;
    loop {
        let at = driver.location().apply(driver.program()).map_err(|e| format!("{}", e))?.address();
        if let Some(a) = at { if a != CODE { next = a; break; } }
        steps += 1;
        if steps > 4000 { return Err("did not leave the instruction within 4000 IL steps".to_string()); }
        driver = driver.step().map_err(|e| format!("step: {}", e))?;
    }
    let mut out = cpu.clone();
    for i in 0..nregs(m) {
        let c = driver.state().get_scalar(full_name(m, i)).ok_or(format!("scalar {} vanished", full_name(m, i)))?;
        if c.bits() != fb { return Err(format!("scalar {} has width {} after the instruction", full_name(m, i), c.bits())); }
        out.r[i] = c.value_u64().ok_or("value does not fit u64")?;
    }
    let flag = |n: &str| -> Result<bool, String> {
        let c = driver.state().get_scalar(n).ok_or(format!("flag {} vanished", n))?;
        if c.bits() != 1 { return Err(format!("flag {} has width {}", n, c.bits())); }
        Ok(c.value_u64() == Some(1))
    };
    out.cf = flag("CF")?; out.zf = flag("ZF")?; out.sf = flag("SF")?; out.of = flag("OF")?; out.df = flag("DF")?;
    let seg = |n: &str| -> Result<u64, String> {
        let c = driver.state().get_scalar(n).ok_or(format!("scalar {} vanished", n))?;
        if c.bits() != fb { return Err(format!("scalar {} has width {}", n, c.bits())); }
        c.value_u64().ok_or("value does not fit u64".to_string())
    };
    out.fs = seg("fs_base")?; out.gs = seg("gs_base")?;
    // every byte the executor wrote
    let mut written = Vec::new();
    let mem = driver.state().memory();
    for (&pa, page) in mem.pages() {
        for (i, cell) in page.cells().iter().enumerate() {
            if cell.is_some() {
                let a = pa + i as u64;
                let v = mem.load(a, 8).map_err(|e| format!("{}", e))?.and_then(|c| c.value_u64()).ok_or(format!("unreadable byte at 0x{:x}", a))?;
                written.push((a, v as u8));
            }
        }
    }
    Ok(Got { cpu: out, next, written })
}

fn diff(m: M, exp: &Out, got: &Got) -> Option<(String, String, String)> {
    for i in 0..nregs(m) {
        let k = exp.rmask[i];
        if exp.cpu.r[i] & k != got.cpu.r[i] & k { return Some((full_name(m, i).to_string(), format!("0x{:x}", exp.cpu.r[i]), format!("0x{:x}", got.cpu.r[i]))); }
    }
    for (n, u, e, g) in [("CF", UCF, exp.cpu.cf, got.cpu.cf), ("ZF", UZF, exp.cpu.zf, got.cpu.zf), ("SF", USF, exp.cpu.sf, got.cpu.sf), ("OF", UOF, exp.cpu.of, got.cpu.of), ("DF", 0, exp.cpu.df, got.cpu.df)] {
        if exp.undef & u == 0 && e != g { return Some((n.to_string(), format!("{}", e as u8), format!("{}", g as u8))); }
    }
    if exp.cpu.fs != got.cpu.fs { return Some(("fs_base".to_string(), format!("0x{:x}", exp.cpu.fs), format!("0x{:x}", got.cpu.fs))); }
    if exp.cpu.gs != got.cpu.gs { return Some(("gs_base".to_string(), format!("0x{:x}", exp.cpu.gs), format!("0x{:x}", got.cpu.gs))); }
    if exp.next != got.next { return Some(("next instruction address".to_string(), format!("0x{:x}", exp.next), format!("0x{:x}", got.next))); }
    // memory: every byte written by the executor must hold the model's value, and every byte the model wrote must have been written
    let gotmap: BTreeMap<u64, u8> = got.written.iter().cloned().collect();
    for (&a, &v) in &gotmap { let e = exp.cpu.byte(a); if e != v { return Some((format!("memory byte 0x{:x}", a), format!("0x{:02x}", e), format!("0x{:02x}", v))); } }
    for (&a, &v) in &exp.cpu.mem { let g = gotmap.get(&a).cloned().unwrap_or(pat(a)); if g != v { return Some((format!("memory byte 0x{:x}", a), format!("0x{:02x}", v), format!("0x{:02x} (not written)", g))); } }
    None
}

fn state_json(m: M, c: &Cpu) -> String {
    let regs: Vec<String> = (0..nregs(m)).map(|i| format!("\"{}\":\"0x{:x}\"", full_name(m, i), c.r[i])).collect();
    let mem: Vec<String> = c.mem.iter().take(48).map(|(a, b)| format!("\"0x{:x}\":\"0x{:02x}\"", a, b)).collect();
    format!("{{{},\"CF\":{},\"ZF\":{},\"SF\":{},\"OF\":{},\"DF\":{},\"PF\":{},\"fs_base\":\"0x{:x}\",\"gs_base\":\"0x{:x}\",\"mem\":{{{}}}}}", regs.join(","), c.cf as u8, c.zf as u8, c.sf as u8, c.of as u8, c.df as u8, c.pf as u8, c.fs, c.gs, mem.join(","))
}

#[derive(Default, Clone)]
struct Stat { enc: u64, evals: u64, bad: u64, rejected: u64, skipped: u64 }
struct Report { op: String, line: String }
#[derive(Default)]
struct Res { stats: BTreeMap<String, Stat>, reports: Vec<Report>, rejected_examples: Vec<String> }

fn process(m: M, cases: &[Case], bases: &[Cpu], img: &(Vec<u8>, Vec<u8>)) -> Res {
    let mut res = Res::default();
    let mut per_op_reports: BTreeMap<String, usize> = BTreeMap::new();
    for case in cases {
        let key = format!("{}:{}", m.name(), case.op);
        let st = res.stats.entry(key.clone()).or_default();
        st.enc += 1;
        let hex: Vec<String> = case.bytes.iter().map(|b| format!("{:02x}", b)).collect();
        let mut report = |st: &mut Stat, reports: &mut Vec<Report>, cpu: &Cpu, what: String, exp: String, got: String| {
            st.bad += 1;
            let n = per_op_reports.entry(case.op.clone()).or_insert(0);
            if *n < 64 {
                *n += 1;
                // known defect D12 (units/C01/proposed_fix_12.diff): the SSE2 scalar move goes to the string-move builder, which moves
                // rsi / rdi by the operand size 16 - tagged only when the observed result is exactly that
                let hexv = |t: &str| u64::from_str_radix(t.trim_start_matches("0x"), 16).ok();
                let d12 = case.op == "sse.movsd" && what == "rsi" && match (hexv(&exp), hexv(&got)) { (Some(e), Some(g)) => g == e.wrapping_add(16) || g == e.wrapping_sub(16), _ => false };
                let tag = if d12 { ",\"known_defect\":\"D12-sse-movsd-as-string-move\"" } else { "" };
                reports.push(Report { op: case.op.clone(), line: format!("{{\"witness\":true,\"op\":\"{}\",\"ops_related\":{},\"mode\":\"{}\",\"bytes\":\"{}\",\"asm\":\"{}\",\"state\":{},\"where\":\"{}\",\"expected\":\"{}\",\"got\":\"{}\"{}}}",
                    case.op, case.rel, m.name(), hex.join(" "), case.asm, state_json(m, cpu), what, exp, got, tag) });
            }
        };
        let backing = build_backing(&case.bytes, &case.sem, img);
        let lifted = catch_unwind(AssertUnwindSafe(|| lift(m, &backing)));
        let program = match lifted {
            Ok(Ok(p)) => p,
            Ok(Err(e)) => {
                if e.contains("Sort error") {
                    st.evals += 1;
                    report(st, &mut res.reports, &bases[case.bases[0] as usize], "lifting".to_string(), "Ok".to_string(), format!("Err({})", e.replace('"', "'")));
                } else {
                    st.rejected += 1;
                    if res.rejected_examples.len() < 4 { res.rejected_examples.push(format!("{{\"mode\":\"{}\",\"bytes\":\"{}\",\"asm\":\"{}\",\"error\":\"{}\"}}", m.name(), hex.join(" "), case.asm, e.replace('"', "'").replace('`', "'").replace('\\', "/"))); }
                }
                continue;
            }
            Err(_) => { st.evals += 1; report(st, &mut res.reports, &bases[case.bases[0] as usize], "lifting".to_string(), "Ok".to_string(), "panic".to_string()); continue; }
        };
        for &bi in case.bases {
            for p in &case.states {
                let cpu = apply(m, &bases[bi as usize], p);
                let exp = match model(m, &cpu, &case.sem, case.bytes.len() as u64) { Ok(o) => o, Err(_) => { st.skipped += 1; continue; } };
                st.evals += 1;
                let got = catch_unwind(AssertUnwindSafe(|| run(m, &program, &backing, &cpu)));
                match got {
                    Ok(Ok(gt)) => { if let Some((w, e, gv)) = diff(m, &exp, &gt) { report(st, &mut res.reports, &cpu, w, e, gv); } }
                    Ok(Err(e)) => report(st, &mut res.reports, &cpu, "execution".to_string(), format!("runs to the next instruction address 0x{:x}", exp.next), e.replace('"', "'")),
                    Err(_) => report(st, &mut res.reports, &cpu, "execution".to_string(), format!("runs to the next instruction address 0x{:x}", exp.next), "panic".to_string()),
                }
            }
        }
    }
    res
}

fn main() {
    std::panic::set_hook(Box::new(|_| {}));
    let thorough = std::env::var("VERIF_TIER").map(|v| v == "thorough").unwrap_or(false);
    let threads: usize = std::env::var("C01_THREADS").ok().and_then(|s| s.parse().ok()).unwrap_or(4).max(1);
    let limit: usize = std::env::var("C01_WITNESS_PRINT").ok().and_then(|s| s.parse().ok()).unwrap_or(3);
    let only = std::env::var("C01_ONLY").ok();
    let img = data_image();
    let mut stats: BTreeMap<String, Stat> = BTreeMap::new();
    let mut printed: BTreeMap<String, usize> = BTreeMap::new();
    let mut rejected_examples: Vec<String> = Vec::new();
    let groups: [(&str, fn(&mut G)); 5] = [("old", grp_old), ("mem", grp_mem), ("cc", grp_cc), ("str", grp_str), ("int", grp_int)];
    for m in [M::X86, M::Amd64] {
        let bases = base_states(m);
        for (gname, gf) in groups.iter() {
            if let Ok(sel) = std::env::var("C01_GROUPS") { if !sel.split(',').any(|s| s == *gname) { continue; } }
            let mut g = G { m, thorough, out: Vec::new() };
            gf(&mut g);
            let mut cases = g.out;
            if let Some(o) = &only { cases.retain(|c| c.op.contains(o.as_str()) || c.asm.contains(o.as_str())); }
            let chunk = ((cases.len() + threads * 8 - 1) / (threads * 8)).max(1);
            let chunks: Vec<&[Case]> = cases.chunks(chunk).collect();
            let next = std::sync::atomic::AtomicUsize::new(0);
            let results: std::sync::Mutex<Vec<(usize, Res)>> = std::sync::Mutex::new(Vec::new());
            std::thread::scope(|s| {
                for _ in 0..threads {
                    s.spawn(|| loop {
                        let i = next.fetch_add(1, std::sync::atomic::Ordering::SeqCst);
                        if i >= chunks.len() { break; }
                        let r = process(m, chunks[i], &bases, &img);
                        results.lock().unwrap().push((i, r));
                    });
                }
            });
            let mut results = results.into_inner().unwrap();
            results.sort_by_key(|x| x.0);
            for (_, r) in results {
                for (k, v) in r.stats { let e = stats.entry(k).or_default(); e.enc += v.enc; e.evals += v.evals; e.bad += v.bad; e.rejected += v.rejected; e.skipped += v.skipped; }
                for rp in r.reports { let n = printed.entry(rp.op.clone()).or_insert(0); if *n < limit { *n += 1; println!("{}", rp.line); } }
                for x in r.rejected_examples { if rejected_examples.len() < 24 { rejected_examples.push(x); } }
            }
        }
    }
    let (mut evals, mut encodings, mut found, mut rejected, mut skipped) = (0u64, 0u64, 0u64, 0u64, 0u64);
    for v in stats.values() { evals += v.evals; encodings += v.enc; found += v.bad; rejected += v.rejected; skipped += v.skipped; }
    let per: Vec<String> = stats.iter().map(|(k, v)| format!("\"{}\":{{\"encodings\":{},\"evaluations\":{},\"disagreements\":{},\"rejected\":{},\"skipped_states\":{}}}", k, v.enc, v.evals, v.bad, v.rejected, v.skipped)).collect();
    println!("{{\"summary\":true,\"evaluations\":{},\"encodings\":{},\"disagreements\":{},\"rejected_encodings\":{},\"skipped_states\":{},\"rejected_examples\":[{}],\"per_op\":{{{}}}}}", evals, encodings, found, rejected, skipped, rejected_examples.join(","), per.join(","));
}
