//! Bounded witness search for unit C14 (labelled bounded, never counted as proved).
//!
//! Enumerates small IL functions, runs `falcon::analysis::dead_code_elimination` on each and checks
//!  (1) THE FRAME: the result is the input with some Assign / Load operations replaced by `Operation::nop()` -
//!      blocks, edges (conditions included), entry / exit, instruction indices, addresses and positions unchanged;
//!  (2) OBSERVATIONAL EQUIVALENCE with an interpreter written here (independent of falcon's executor): input and
//!      output are run in lock step from several initial states along EVERY path (all enabled out-edges are explored;
//!      the guard scalar takes both values where it is free): same enabled edges at every block end (same path), same
//!      (address, value) at every store, same scalar state presented to every Branch and Intrinsic, same value of every
//!      scalar when a block without successors has been executed.
//!
//! Bound:
//!   * 1 block:  every sequence of 0..=3 operations, with / without the self loop, 2 guard modes            (exhaustive)
//!   * 2 blocks: every pair of sequences of 0..=2 operations, every one of the 16 edge sets, 2 guard modes   (exhaustive)
//!   * 2 blocks with 0..=3 operations and 3 blocks with 0..=3 operations, every edge set equally likely,
//!     2 guard modes: fixed-seed pseudo-random samples (SAMPLES_2 / SAMPLES_3 functions)
//!   entry = block 0 (blocks unreachable from the entry occur); operations over the 8-bit scalars a, b, c and the
//!   1-bit guard g:  a = 7 | b = a + 1 | a = b | c = a + b | store [0x10] <- a | load a <- [0x10] | branch a |
//!   intrinsic declaring reads [b] and writes [a] | intrinsic declaring nothing | nop | g = (a == 7);
//!   guard mode 0: all edges unconditional; guard mode 1: the out-edges of a block are guarded g, g == 0, (none), ...
//!   in tail order;  4 initial states; paths of at most 12 executed instructions and 6 edges.
use falcon::analysis::dead_code_elimination;
use falcon::il::*;
use std::collections::BTreeMap;
use std::panic::{catch_unwind, AssertUnwindSafe};

const NOPS: usize = 11;
const SAMPLES_2: usize = 60_000;
const SAMPLES_3: usize = 150_000;
const MAX_INSTR: usize = 12;
const MAX_EDGES: usize = 6;

#[derive(Clone, Copy, Debug, PartialEq, Eq)]
enum Op { AConst, BAddA, AFromB, CAddAB, StoreA, LoadA, BranchA, IntrDecl, IntrUndecl, Nop, GFromA }
const OPS: [Op; NOPS] = [Op::AConst, Op::BAddA, Op::AFromB, Op::CAddAB, Op::StoreA, Op::LoadA, Op::BranchA, Op::IntrDecl, Op::IntrUndecl, Op::Nop, Op::GFromA];

fn sc(n: &str) -> Scalar { scalar(n, if n == "g" { 1 } else { 8 }) }
fn ex(n: &str) -> Expression { expr_scalar(n, if n == "g" { 1 } else { 8 }) }

fn push_op(b: &mut Block, op: Op) {
    match op {
        Op::AConst => b.assign(sc("a"), expr_const(7, 8)),
        Op::BAddA => b.assign(sc("b"), Expression::add(ex("a"), expr_const(1, 8)).unwrap()),
        Op::AFromB => b.assign(sc("a"), ex("b")),
        Op::CAddAB => b.assign(sc("c"), Expression::add(ex("a"), ex("b")).unwrap()),
        Op::StoreA => b.store(expr_const(0x10, 8), ex("a")),
        Op::LoadA => b.load(sc("a"), expr_const(0x10, 8)),
        Op::BranchA => b.branch(ex("a")),
        Op::IntrDecl => b.intrinsic(Intrinsic::new("decl", "decl a, b", vec![], Some(vec![ex("a")]), Some(vec![ex("b")]), vec![0x90])),
        Op::IntrUndecl => b.intrinsic(Intrinsic::new("undecl", "undecl", vec![], None, None, vec![0x91])),
        Op::Nop => b.nop(),
        Op::GFromA => b.assign(sc("g"), Expression::cmpeq(ex("a"), expr_const(7, 8)).unwrap()),
    }
}

/// the guard of the k-th out-edge (in tail order) of a block in guard mode 1: 0 = `g`, 1 = `g == 0`, 2.. = unconditional
#[derive(Clone, Copy, Debug, PartialEq, Eq)]
enum Guard { Always, G, NotG }

#[derive(Clone, Debug)]
struct Model { blocks: Vec<Vec<Op>>, edges: Vec<(usize, usize, Guard)> }

fn build(m: &Model) -> Function {
    let mut cfg = ControlFlowGraph::new();
    // every other function is built with instruction indices that differ from positions (a leading nop is pushed
    // and removed again), so that index / position confusions show up
    static BUILDS: std::sync::atomic::AtomicUsize = std::sync::atomic::AtomicUsize::new(0);
    let shifted = BUILDS.fetch_add(1, std::sync::atomic::Ordering::Relaxed) % 2 == 1;
    for ops in &m.blocks {
        let b = cfg.new_block().unwrap();
        if shifted { b.nop(); }
        for op in ops { push_op(b, *op); }
        if shifted { b.remove_instruction(0).unwrap(); }
    }
    for (h, t, g) in &m.edges {
        match g {
            Guard::Always => cfg.unconditional_edge(*h, *t).unwrap(),
            Guard::G => cfg.conditional_edge(*h, *t, ex("g")).unwrap(),
            Guard::NotG => cfg.conditional_edge(*h, *t, Expression::cmpeq(ex("g"), expr_const(0, 1)).unwrap()).unwrap(),
        }
    }
    cfg.set_entry(0).unwrap();
    Function::new(0, cfg)
}

// ---- the independent interpreter ----------------------------------------------------------------------------
#[derive(Clone, Debug, PartialEq, Eq)]
struct St { a: u8, b: u8, c: u8, g: u8, mem: BTreeMap<u8, u8>, mem_default: u8 }
impl St {
    fn scalars(&self) -> (u8, u8, u8, u8) { (self.a, self.b, self.c, self.g) }
    fn load(&self, addr: u8) -> u8 { *self.mem.get(&addr).unwrap_or(&self.mem_default) }
}
#[derive(Clone, Debug, PartialEq, Eq)]
enum Event { None, Store(u8, u8), Branch((u8, u8, u8, u8)), Intrinsic(bool, (u8, u8, u8, u8)) }

/// execute one operation; `killed` = the operation has been replaced by a nop
fn exec(op: Op, killed: bool, s: &mut St) -> Event {
    if killed { return Event::None; }
    match op {
        Op::AConst => { s.a = 7; Event::None }
        Op::BAddA => { s.b = s.a.wrapping_add(1); Event::None }
        Op::AFromB => { s.a = s.b; Event::None }
        Op::CAddAB => { s.c = s.a.wrapping_add(s.b); Event::None }
        Op::StoreA => { s.mem.insert(0x10, s.a); Event::Store(0x10, s.a) }
        Op::LoadA => { s.a = s.load(0x10); Event::None }
        Op::BranchA => Event::Branch(s.scalars()),
        Op::IntrDecl => {
            // an unknown instruction: its effect is SOME function of what it is presented with; it writes a only
            let seen = s.scalars();
            s.a = s.a.wrapping_mul(31).wrapping_add(s.b.wrapping_mul(17)).wrapping_add(s.c.wrapping_mul(3)).wrapping_add(s.g).wrapping_add(5);
            Event::Intrinsic(true, seen)
        }
        Op::IntrUndecl => {
            // undeclared effects: may change every scalar and memory
            let seen = s.scalars();
            let h = s.a.wrapping_mul(13).wrapping_add(s.b.wrapping_mul(7)).wrapping_add(s.c.wrapping_mul(5)).wrapping_add(s.g).wrapping_add(s.load(0x10));
            s.a = h.wrapping_add(1); s.b = h.wrapping_mul(3); s.c = h ^ 0x5a; s.g = h & 1;
            s.mem.insert(0x10, h.wrapping_add(9));
            Event::Intrinsic(false, seen)
        }
        Op::Nop => Event::None,
        Op::GFromA => { s.g = (s.a == 7) as u8; Event::None }
    }
}
fn enabled(m: &Model, b: usize, s: &St) -> Vec<usize> {
    m.edges.iter().filter(|e| e.0 == b).filter(|e| match e.2 { Guard::Always => true, Guard::G => s.g == 1, Guard::NotG => s.g == 0 }).map(|e| e.1).collect()
}

struct Mismatch { op: &'static str, what: String }

/// run input (`si`) and output (`so`) in lock step from the start of block `b`
fn run(m: &Model, killed: &[Vec<bool>], b: usize, mut si: St, mut so: St, instrs: usize, edges: usize, trace: &mut Vec<usize>, runs: &mut u64) -> Option<Mismatch> {
    trace.push(b);
    let mut n = instrs;
    for (p, op) in m.blocks[b].iter().enumerate() {
        if n >= MAX_INSTR { trace.pop(); *runs += 1; return None; }
        n += 1;
        let ei = exec(*op, false, &mut si);
        let eo = exec(*op, killed[b][p], &mut so);
        if ei != eo {
            let op_name = match ei { Event::Store(..) => "stores", Event::Branch(..) => "branch_state", Event::Intrinsic(..) => "intrinsic_state", Event::None => "events" };
            let r = Some(Mismatch { op: op_name, what: format!("path {:?} block {} position {}: input {:?} output {:?}", trace, b, p, ei, eo) });
            trace.pop();
            return r;
        }
        if si.mem != so.mem {
            let r = Some(Mismatch { op: "stores", what: format!("path {:?} block {} position {}: memory differs", trace, b, p) });
            trace.pop();
            return r;
        }
    }
    let has_succ = m.edges.iter().any(|e| e.0 == b);
    let mut res = None;
    if !has_succ {
        *runs += 1;
        if si.scalars() != so.scalars() {
            res = Some(Mismatch { op: "exit_state", what: format!("path {:?}: scalars (a,b,c,g) at the end: input {:?} output {:?}", trace, si.scalars(), so.scalars()) });
        }
    } else {
        let ni = enabled(m, b, &si);
        let no = enabled(m, b, &so);
        if ni != no {
            res = Some(Mismatch { op: "path", what: format!("path {:?}: enabled successors of block {}: input {:?} output {:?}", trace, b, ni, no) });
        } else if edges >= MAX_EDGES || ni.is_empty() {
            *runs += 1;
        } else {
            for t in ni {
                res = run(m, killed, t, si.clone(), so.clone(), n, edges + 1, trace, runs);
                if res.is_some() { break; }
            }
        }
    }
    trace.pop();
    res
}

fn initial_states() -> Vec<St> {
    [(0u8, 0u8, 0u8, 0u8, 0u8), (7, 1, 2, 1, 9), (3, 200, 5, 0, 77), (6, 255, 7, 1, 1), (7, 6, 250, 0, 7)]
        .iter().map(|&(a, b, c, g, d)| St { a, b, c, g, mem: BTreeMap::new(), mem_default: d }).collect()
}

fn describe(m: &Model) -> String {
    format!("blocks {:?} edges {:?} entry 0", m.blocks, m.edges).replace('"', "'")
}

struct Stats { evals: u64, runs: u64, changed: u64, found: usize, per_op: BTreeMap<String, usize> }

fn report(st: &mut Stats, op: &str, m: &Model, what: &str) {
    let c = st.per_op.entry(op.to_string()).or_insert(0);
    *c += 1;
    if *c <= 3 {
        println!("{{\"witness\":true,\"op\":\"{}\",\"function\":\"{}\",\"what\":\"{}\"}}", op, describe(m), what.replace('"', "'").replace('\\', "/").chars().take(600).collect::<String>());
    }
    st.found += 1;
}

fn check(m: &Model, st: &mut Stats) {
    st.evals += 1;
    let f = build(m);
    let r = catch_unwind(AssertUnwindSafe(|| dead_code_elimination(&f)));
    let g = match r {
        Err(p) => {
            let msg = p.downcast_ref::<String>().cloned().or_else(|| p.downcast_ref::<&str>().map(|s| s.to_string())).unwrap_or_default();
            report(st, "panic", m, &format!("dead_code_elimination panicked: {}", msg));
            return;
        }
        Ok(Err(e)) => { report(st, "error", m, &format!("dead_code_elimination returned Err({:?}) on a function with an entry", e)); return; }
        Ok(Ok(g)) => g,
    };
    // (1) the frame
    let mut killed: Vec<Vec<bool>> = m.blocks.iter().map(|b| vec![false; b.len()]).collect();
    let mut expected = f.clone();
    let mut any = false;
    for (bi, ops) in m.blocks.iter().enumerate() {
        let (fb, gb) = (f.block(bi).unwrap(), match g.block(bi) { Ok(b) => b, Err(_) => { report(st, "frame", m, &format!("block {} is missing in the result", bi)); return; } });
        if fb.instructions().len() != gb.instructions().len() { report(st, "frame", m, &format!("block {}: {} instructions became {}", bi, fb.instructions().len(), gb.instructions().len())); return; }
        for p in 0..ops.len() {
            let (fi, gi) = (&fb.instructions()[p], &gb.instructions()[p]);
            if fi.index() != gi.index() || fi.address() != gi.address() { report(st, "frame", m, &format!("block {} position {}: index / address changed ({} -> {})", bi, p, fi.index(), gi.index())); return; }
            if fi.operation() != gi.operation() {
                if *gi.operation() != Operation::nop() { report(st, "frame", m, &format!("block {} position {}: `{}` became `{}` (neither unchanged nor nop)", bi, p, fi.operation(), gi.operation())); return; }
                if !(fi.is_assign() || fi.is_load()) { report(st, "frame", m, &format!("block {} position {}: `{}` (not an Assign / Load) was replaced by nop", bi, p, fi.operation())); return; }
                killed[bi][p] = true;
                any = true;
                *expected.block_mut(bi).unwrap().instruction_mut(fi.index()).unwrap().operation_mut() = Operation::nop();
            }
        }
    }
    if expected != g { report(st, "frame", m, "the result differs from the input outside the replaced operations (blocks / edges / entry / exit / counters)"); return; }
    if !any { return; }
    st.changed += 1;
    // (2) observational equivalence
    for s0 in initial_states() {
        let mut trace = Vec::new();
        if let Some(mm) = run(m, &killed, 0, s0.clone(), s0.clone(), 0, 0, &mut trace, &mut st.runs) {
            let k: Vec<(usize, usize)> = killed.iter().enumerate().flat_map(|(b, v)| v.iter().enumerate().filter(|x| *x.1).map(move |x| (b, x.0))).collect();
            report(st, mm.op, m, &format!("killed (block, position) {:?}; initial (a,b,c,g,mem) {:?}/{}; {}", k, s0.scalars(), s0.mem_default, mm.what));
            return;
        }
    }
}

fn edges_of(nb: usize, bits: u32, mode: usize) -> Vec<(usize, usize, Guard)> {
    let mut v = Vec::new();
    for h in 0..nb {
        let mut k = 0;
        for t in 0..nb {
            if bits & (1 << (h * nb + t)) != 0 {
                let g = if mode == 0 { Guard::Always } else { match k { 0 => Guard::G, 1 => Guard::NotG, _ => Guard::Always } };
                v.push((h, t, g));
                k += 1;
            }
        }
    }
    v
}

fn sequences(max_len: usize) -> Vec<Vec<Op>> {
    let mut all: Vec<Vec<Op>> = vec![vec![]];
    let mut last: Vec<Vec<Op>> = vec![vec![]];
    for _ in 0..max_len {
        let mut next = Vec::new();
        for s in &last { for op in OPS.iter() { let mut t = s.clone(); t.push(*op); next.push(t); } }
        all.extend(next.iter().cloned());
        last = next;
    }
    all
}

struct Rng(u64);
impl Rng {
    fn next(&mut self) -> u64 { self.0 ^= self.0 << 13; self.0 ^= self.0 >> 7; self.0 ^= self.0 << 17; self.0 }
    fn below(&mut self, n: usize) -> usize { (self.next() % n as u64) as usize }
}

fn deep() -> bool { std::env::var("VERIF_TIER").map(|t| t == "thorough").unwrap_or(false) } // thorough tier: wider bounds
fn main() {
    std::panic::set_hook(Box::new(|_| {}));
    let mut st = Stats { evals: 0, runs: 0, changed: 0, found: 0, per_op: BTreeMap::new() };
    // 1 block, exhaustive
    let s3 = sequences(3);
    for ops in &s3 { for bits in 0..2u32 { for mode in 0..2 {
        if mode == 1 && bits == 0 { continue; }
        check(&Model { blocks: vec![ops.clone()], edges: edges_of(1, bits, mode) }, &mut st);
    } } }
    // 2 blocks, sequences of up to 2 operations, exhaustive
    let s2 = sequences(2);
    for o0 in &s2 { for o1 in &s2 { for bits in 0..16u32 { for mode in 0..2 {
        if mode == 1 && bits == 0 { continue; }
        check(&Model { blocks: vec![o0.clone(), o1.clone()], edges: edges_of(2, bits, mode) }, &mut st);
    } } } }
    // 2 and 3 blocks, up to 3 operations: fixed-seed samples
    let mut rng = Rng(0x9E37_79B9_7F4A_7C15);
    for (nb, samples) in [(2usize, SAMPLES_2 * if deep() { 8 } else { 1 }), (3usize, SAMPLES_3 * if deep() { 8 } else { 1 })] {
        for _ in 0..samples {
            let blocks: Vec<Vec<Op>> = (0..nb).map(|_| s3[rng.below(s3.len())].clone()).collect();
            let bits = rng.below(1 << (nb * nb)) as u32;
            let mode = rng.below(2);
            check(&Model { blocks, edges: edges_of(nb, bits, mode) }, &mut st);
        }
    }
    let per: Vec<String> = st.per_op.iter().map(|(k, v)| format!("\"{}\":{}", k, v)).collect();
    println!("{{\"summary\":true,\"evaluations\":{},\"functions_changed\":{},\"lockstep_runs\":{},\"disagreements\":{},\"per_op\":{{{}}}}}", st.evals, st.changed, st.runs, st.found, per.join(","));
}
