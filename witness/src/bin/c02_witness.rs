//! Bounded differential witness for unit C02 (labelled BOUNDED, never counted as proved).
//!
//! Assembles real MIPS32 (big + little endian) and PPC32 (big endian) instruction words, lifts them with the REAL
//! translators (`falcon::translator::mips::{Mips, Mipsel}`, `falcon::translator::ppc::Ppc`) through
//! `Translator::translate_function`, executes the IL with `falcon::executor::Driver` from several initial states until
//! a landing pad (a `nop` behind the code under test / at a branch target) is reached, and compares all GPRs, HI/LO,
//! LR/CTR/CA/CR bits, a 32-byte data window and the next pc with an INDEPENDENT interpreter of the machine words
//! written from the architecture manuals (the interpreter decodes the 32-bit words itself; it shares nothing with
//! the lifter, and nothing with the little assembler below except the word).
//! Output: one JSON line per disagreement (at most 3 printed per op key, all counted), then one summary line.
//! KNOWN DEFECTS: a disagreement is additionally CLASSIFIED against a second, deliberately defective reference model of a
//! listed known defect (`mips_run(.., late_target = true)`: D3c = jr / jalr read their target register after the delay slot);
//! it carries the extra field `"known_defect":"D3c"` if and only if the observed state and next pc are exactly what that
//! defective model yields (and differ from the manual's model). Tagged lines are counted (`tagged_known_defect`) and printed
//! under their own cap (3 per op and defect); `disagreements` and the per-op counts are the UNTAGGED ones (= violations).
//! Environment: C02_ONLY=<substring of op key> restricts the run, C02_DEBUG=1 prints the lifted IL of every case to
//! stderr, C02_PRINT=n overrides the per-op print limit.
use falcon::architecture;
use falcon::architecture::Endian;
use falcon::executor::{Driver, Memory, State};
use falcon::il;
use falcon::memory;
use falcon::translator::mips::{Mips as TMips, Mipsel as TMipsel};
use falcon::translator::ppc::Ppc as TPpc;
use falcon::translator::Translator;
use falcon::RC;
use std::collections::BTreeMap;
use std::panic::{catch_unwind, AssertUnwindSafe};

const CODE: u32 = 0x1000; // code under test, followed by nops (landing pads)
const CODE_WORDS: usize = 12;
/// words of the code region for a case of `n` instruction words: the case, then nops (landing pads)
fn code_words_for(n: usize) -> usize { std::cmp::max(CODE_WORDS, n + 8) }
const FAR: u32 = 0x2000; // second region of nops, target of register-indirect transfers
const FAR_WORDS: usize = 8;
const DATA: u32 = 0x4000; // data window
const DATA_LEN: usize = 32;
const MID: u32 = DATA + 16;

#[derive(Clone, Copy, PartialEq, Eq, Debug)]
enum Arch { Mips, Mipsel, Ppc }
impl Arch {
    fn key(self) -> &'static str { match self { Arch::Mips => "mips", Arch::Mipsel => "mipsel", Arch::Ppc => "ppc" } }
    fn big(self) -> bool { self != Arch::Mipsel }
    fn endian(self) -> Endian { if self.big() { Endian::Big } else { Endian::Little } }
    fn is_mips(self) -> bool { self != Arch::Ppc }
    fn nop(self) -> u32 { if self.is_mips() { 0 } else { 0x6000_0000 } }
}

/// a location of the architectural state
#[derive(Clone, Copy, PartialEq, Eq, Debug)]
enum Loc { G(u8), Hi, Lo, Lr, Ctr, Ca, Cr(u8) }

const MIPS_NAMES: [&str; 32] = ["$zero", "$at", "$v0", "$v1", "$a0", "$a1", "$a2", "$a3", "$t0", "$t1", "$t2", "$t3", "$t4", "$t5", "$t6", "$t7",
    "$s0", "$s1", "$s2", "$s3", "$s4", "$s5", "$s6", "$s7", "$t8", "$t9", "$k0", "$k1", "$gp", "$sp", "$fp", "$ra"];
const CRB: [&str; 4] = ["lt", "gt", "eq", "so"];

fn loc_name(arch: Arch, l: Loc) -> String {
    match l {
        Loc::G(i) => if arch.is_mips() { MIPS_NAMES[i as usize].to_string() } else { format!("r{}", i) },
        Loc::Hi => "$hi".to_string(),
        Loc::Lo => "$lo".to_string(),
        Loc::Lr => "lr".to_string(),
        Loc::Ctr => "ctr".to_string(),
        Loc::Ca => "carry".to_string(),
        Loc::Cr(i) => format!("cr{}-{}", i / 4, CRB[(i % 4) as usize]),
    }
}

// ------------------------------------------------------------------ the independent machine model
#[derive(Clone)]
struct Cpu {
    r: [u32; 32],
    hi: u32, lo: u32,
    lr: u32, ctr: u32, ca: bool,
    /// the 32-bit CR, PowerPC bit numbering: CR bit i is (cr >> (31 - i)) & 1 ; bit 0 = cr0.lt
    cr: u32,
    mem: [u8; DATA_LEN],
    /// set by the model when the manual leaves HI/LO unpredictable (mul)
    hilo_undef: bool,
    /// CR bits (same numbering as `cr`, as a mask with bit i at 31 - i) whose value is not compared (copies of XER[SO])
    cr_undef: u32,
}

impl Cpu {
    fn crbit(&self, i: u32) -> bool { (self.cr >> (31 - i)) & 1 == 1 }
    fn set_crbit(&mut self, i: u32, v: bool) { let m = 1u32 << (31 - i); if v { self.cr |= m } else { self.cr &= !m } }
    fn get(&self, l: Loc) -> u32 {
        match l { Loc::G(i) => self.r[i as usize], Loc::Hi => self.hi, Loc::Lo => self.lo, Loc::Lr => self.lr, Loc::Ctr => self.ctr,
            Loc::Ca => self.ca as u32, Loc::Cr(i) => self.crbit(i as u32) as u32 }
    }
    fn set(&mut self, l: Loc, v: u32) {
        match l { Loc::G(i) => self.r[i as usize] = v, Loc::Hi => self.hi = v, Loc::Lo => self.lo = v, Loc::Lr => self.lr = v, Loc::Ctr => self.ctr = v,
            Loc::Ca => self.ca = v & 1 == 1, Loc::Cr(i) => self.set_crbit(i as u32, v & 1 == 1) }
    }
}

fn mrd(c: &Cpu, addr: u32, n: u32, big: bool) -> Result<u32, ()> {
    let mut v = 0u32;
    for i in 0..n {
        let a = addr.wrapping_add(i);
        if a < DATA || a >= DATA + DATA_LEN as u32 { return Err(()); }
        let b = c.mem[(a - DATA) as usize] as u32;
        if big { v = (v << 8) | b } else { v |= b << (8 * i) }
    }
    Ok(v)
}
fn mwr(c: &mut Cpu, addr: u32, n: u32, v: u32, big: bool) -> Result<(), ()> {
    for i in 0..n {
        let a = addr.wrapping_add(i);
        if a < DATA || a >= DATA + DATA_LEN as u32 { return Err(()); }
        let b = if big { v >> (8 * (n - 1 - i)) } else { v >> (8 * i) };
        c.mem[(a - DATA) as usize] = b as u8;
    }
    Ok(())
}

// ---------------------------------------------------------------- MIPS32 (release 1 subset), from MIPS32 Vol II
enum Flow { Seq, Jump(u32), Nullify }

fn gr(c: &Cpu, i: usize) -> u32 { if i == 0 { 0 } else { c.r[i] } }
fn sr(c: &mut Cpu, i: usize, v: u32) { if i != 0 { c.r[i] = v } }

/// Err(()) = the manual says trap / UNPREDICTABLE / not in the modelled subset: the state is skipped
fn mips_exec(c: &mut Cpu, w: u32, pc: u32, big: bool) -> Result<Flow, ()> {
    let op = w >> 26;
    let (rs, rt, rd) = (((w >> 21) & 31) as usize, ((w >> 16) & 31) as usize, ((w >> 11) & 31) as usize);
    let sa = (w >> 6) & 31;
    let funct = w & 63;
    let imm = w & 0xffff;
    let simm = imm as u16 as i16 as i32 as u32;
    let btarget = pc.wrapping_add(4).wrapping_add(simm << 2);
    let (a, b) = (gr(c, rs), gr(c, rt));
    let cond = |t: bool| -> Flow { if t { Flow::Jump(btarget) } else { Flow::Seq } };
    let likely = |t: bool| -> Flow { if t { Flow::Jump(btarget) } else { Flow::Nullify } };
    match op {
        0 => match funct {
            0x00 => { if rs != 0 { return Err(()); } sr(c, rd, b << sa) }
            0x02 => { if rs != 0 { return Err(()); } sr(c, rd, b >> sa) }
            0x03 => { if rs != 0 { return Err(()); } sr(c, rd, ((b as i32) >> sa) as u32) }
            0x04 => { if sa != 0 { return Err(()); } sr(c, rd, b << (a & 31)) }
            0x06 => { if sa != 0 { return Err(()); } sr(c, rd, b >> (a & 31)) }
            0x07 => { if sa != 0 { return Err(()); } sr(c, rd, ((b as i32) >> (a & 31)) as u32) }
            0x08 => { return Ok(Flow::Jump(a)); }
            0x09 => { if rd == rs { return Err(()); } sr(c, rd, pc.wrapping_add(8)); return Ok(Flow::Jump(a)); }
            0x0a => { if b == 0 { sr(c, rd, a) } }
            0x0b => { if b != 0 { sr(c, rd, a) } }
            0x10 => sr(c, rd, c.hi),
            0x11 => c.hi = a,
            0x12 => sr(c, rd, c.lo),
            0x13 => c.lo = a,
            0x18 => { let p = (a as i32 as i64).wrapping_mul(b as i32 as i64) as u64; c.lo = p as u32; c.hi = (p >> 32) as u32 }
            0x19 => { let p = (a as u64) * (b as u64); c.lo = p as u32; c.hi = (p >> 32) as u32 }
            0x1a => { if b == 0 || (a == 0x8000_0000 && b == 0xffff_ffff) { return Err(()); }
                c.lo = ((a as i32) / (b as i32)) as u32; c.hi = ((a as i32) % (b as i32)) as u32 }
            0x1b => { if b == 0 { return Err(()); } c.lo = a / b; c.hi = a % b }
            0x20 => { match (a as i32).checked_add(b as i32) { Some(v) => sr(c, rd, v as u32), None => return Err(()) } }
            0x21 => sr(c, rd, a.wrapping_add(b)),
            0x22 => { match (a as i32).checked_sub(b as i32) { Some(v) => sr(c, rd, v as u32), None => return Err(()) } }
            0x23 => sr(c, rd, a.wrapping_sub(b)),
            0x24 => sr(c, rd, a & b),
            0x25 => sr(c, rd, a | b),
            0x26 => sr(c, rd, a ^ b),
            0x27 => sr(c, rd, !(a | b)),
            0x2a => sr(c, rd, ((a as i32) < (b as i32)) as u32),
            0x2b => sr(c, rd, (a < b) as u32),
            _ => return Err(()),
        },
        1 => match rt {
            0x00 => return Ok(cond((a as i32) < 0)),
            0x01 => return Ok(cond((a as i32) >= 0)),
            0x02 => return Ok(likely((a as i32) < 0)),
            0x03 => return Ok(likely((a as i32) >= 0)),
            0x10 => { if rs == 31 { return Err(()); } c.r[31] = pc.wrapping_add(8); return Ok(cond((a as i32) < 0)); }
            0x11 => { if rs == 31 { return Err(()); } c.r[31] = pc.wrapping_add(8); return Ok(cond((a as i32) >= 0)); }
            _ => return Err(()),
        },
        2 => return Ok(Flow::Jump((pc.wrapping_add(4) & 0xf000_0000) | ((w & 0x03ff_ffff) << 2))),
        3 => { c.r[31] = pc.wrapping_add(8); return Ok(Flow::Jump((pc.wrapping_add(4) & 0xf000_0000) | ((w & 0x03ff_ffff) << 2))); }
        4 => return Ok(cond(a == b)),
        5 => return Ok(cond(a != b)),
        6 => { if rt != 0 { return Err(()); } return Ok(cond((a as i32) <= 0)); }
        7 => { if rt != 0 { return Err(()); } return Ok(cond((a as i32) > 0)); }
        8 => { match (a as i32).checked_add(simm as i32) { Some(v) => sr(c, rt, v as u32), None => return Err(()) } }
        9 => sr(c, rt, a.wrapping_add(simm)),
        0x0a => sr(c, rt, ((a as i32) < (simm as i32)) as u32),
        0x0b => sr(c, rt, (a < simm) as u32),
        0x0c => sr(c, rt, a & imm),
        0x0d => sr(c, rt, a | imm),
        0x0e => sr(c, rt, a ^ imm),
        0x0f => { if rs != 0 { return Err(()); } sr(c, rt, imm << 16) }
        0x14 => return Ok(likely(a == b)),
        0x15 => return Ok(likely(a != b)),
        0x16 => { if rt != 0 { return Err(()); } return Ok(likely((a as i32) <= 0)); }
        0x17 => { if rt != 0 { return Err(()); } return Ok(likely((a as i32) > 0)); }
        0x1c => match funct {
            0x00 | 0x01 | 0x04 | 0x05 => {
                if rd != 0 || sa != 0 { return Err(()); }
                let acc = ((c.hi as u64) << 32) | c.lo as u64;
                let p = if funct & 1 == 0 { (a as i32 as i64).wrapping_mul(b as i32 as i64) as u64 } else { (a as u64) * (b as u64) };
                let r = if funct < 4 { acc.wrapping_add(p) } else { acc.wrapping_sub(p) };
                c.lo = r as u32; c.hi = (r >> 32) as u32
            }
            0x02 => { if sa != 0 { return Err(()); } sr(c, rd, (a as i32).wrapping_mul(b as i32) as u32); c.hilo_undef = true }
            0x20 => { if sa != 0 { return Err(()); } sr(c, rd, a.leading_zeros()) }
            0x21 => { if sa != 0 { return Err(()); } sr(c, rd, a.leading_ones()) }
            _ => return Err(()),
        },
        0x20 | 0x21 | 0x23 | 0x24 | 0x25 => {
            let va = a.wrapping_add(simm);
            let v = match op {
                0x20 => mrd(c, va, 1, big)? as u8 as i8 as i32 as u32,
                0x24 => mrd(c, va, 1, big)?,
                0x21 => { if va & 1 != 0 { return Err(()); } mrd(c, va, 2, big)? as u16 as i16 as i32 as u32 }
                0x25 => { if va & 1 != 0 { return Err(()); } mrd(c, va, 2, big)? }
                _ => { if va & 3 != 0 { return Err(()); } mrd(c, va, 4, big)? }
            };
            sr(c, rt, v)
        }
        0x28 => mwr(c, a.wrapping_add(simm), 1, b & 0xff, big)?,
        0x29 => { let va = a.wrapping_add(simm); if va & 1 != 0 { return Err(()); } mwr(c, va, 2, b & 0xffff, big)? }
        0x2b => { let va = a.wrapping_add(simm); if va & 3 != 0 { return Err(()); } mwr(c, va, 4, b, big)? }
        0x22 | 0x26 | 0x2a | 0x2e => {
            // LWL / LWR / SWL / SWR, MIPS32 Vol II: byte <- vAddr[1:0] xor BigEndianCPU^2 ; memword = the aligned word
            let va = a.wrapping_add(simm);
            let byte = if big { (va & 3) ^ 3 } else { va & 3 };
            let mw = mrd(c, va & !3, 4, big)?;
            match op {
                0x22 => { // temp <- memword[7+8*byte..0] || GPR[rt][23-8*byte..0]
                    let keep = 3 - byte; // low bytes of rt that are kept
                    let v = if keep == 0 { mw } else { (mw << (8 * keep)) | (b & ((1u32 << (8 * keep)) - 1)) };
                    sr(c, rt, v)
                }
                0x26 => { // temp <- GPR[rt][31..32-8*byte] || memword[31..8*byte]
                    let v = if byte == 0 { mw } else { (b & !(0xffff_ffffu32 >> (8 * byte))) | (mw >> (8 * byte)) };
                    sr(c, rt, v)
                }
                0x2a => { // memword[8*byte+7..0] <- GPR[rt][31..24-8*byte]
                    let nb = byte + 1;
                    let mask = if nb == 4 { 0xffff_ffff } else { (1u32 << (8 * nb)) - 1 };
                    let new = (mw & !mask) | ((b >> (8 * (4 - nb))) & mask);
                    mwr(c, va & !3, 4, new, big)?
                }
                _ => { // memword[31..8*byte] <- GPR[rt][31-8*byte..0]
                    let new = if byte == 0 { b } else { (mw & ((1u32 << (8 * byte)) - 1)) | (b << (8 * byte)) };
                    mwr(c, va & !3, 4, new, big)?
                }
            }
        }
        _ => return Err(()),
    }
    Ok(Flow::Seq)
}

/// run the words placed at CODE until the pc leaves them; returns the next pc.
/// `late_target` = false: the model of the manual. `late_target` = true: the DELIBERATELY DEFECTIVE reference model of the
/// listed known defect D3c and of nothing else: `jr rs` / `jalr [rd,] rs` take their target from rs AFTER the delay-slot
/// instruction has executed (instead of the value rs had when the branch executed); everything else as the manual says
/// (in particular the link value is still written before the delay slot). Used only to CLASSIFY a disagreement.
fn mips_run(c: &mut Cpu, words: &[u32], big: bool, late_target: bool) -> Result<u32, ()> {
    let end = CODE + 4 * words.len() as u32;
    let mut pc = CODE;
    let mut n = 0;
    while pc >= CODE && pc < end {
        n += 1;
        if n > 600 { return Err(()); }
        let w = words[((pc - CODE) / 4) as usize];
        match mips_exec(c, w, pc, big)? {
            Flow::Seq => pc += 4,
            Flow::Nullify => pc += 8,
            Flow::Jump(t) => {
                let dpc = pc + 4;
                if dpc >= end { return Err(()); }
                match mips_exec(c, words[((dpc - CODE) / 4) as usize], dpc, big)? { Flow::Seq => {} _ => return Err(()) }
                let register_indirect = (w >> 26) == 0 && ((w & 63) == 0x08 || (w & 63) == 0x09);
                pc = if late_target && register_indirect { gr(c, ((w >> 21) & 31) as usize) } else { t };
            }
        }
    }
    Ok(pc)
}

// ---------------------------------------------------------------- PowerPC 32-bit (UISA subset), from the PEM
fn ppc_mask(mb: u32, me: u32) -> u32 {
    // bit 0 is the most significant bit
    let from = |i: u32| -> u32 { 0xffff_ffffu32 >> i };          // ones in bits i..31
    let upto = |i: u32| -> u32 { 0xffff_ffffu32 << (31 - i) };   // ones in bits 0..i
    if mb <= me { from(mb) & upto(me) } else { from(mb) | upto(me) }
}
fn ppc_rec0(c: &mut Cpu, v: u32) {
    c.set_crbit(0, (v as i32) < 0);
    c.set_crbit(1, (v as i32) > 0);
    c.set_crbit(2, v == 0);
    c.cr_undef |= 1 << (31 - 3);
}
fn ppc_cond(c: &mut Cpu, bo: u32, bi: u32) -> bool {
    if bo & 4 == 0 { c.ctr = c.ctr.wrapping_sub(1); }
    let ctr_ok = bo & 4 != 0 || ((c.ctr != 0) ^ (bo & 2 != 0));
    let cond_ok = bo & 16 != 0 || (c.crbit(bi) == (bo & 8 != 0));
    ctr_ok && cond_ok
}
fn ppc_exec(c: &mut Cpu, w: u32, pc: u32) -> Result<u32, ()> {
    let op = w >> 26;
    let (d, a, b) = (((w >> 21) & 31) as usize, ((w >> 16) & 31) as usize, ((w >> 11) & 31) as usize);
    let xo = (w >> 1) & 0x3ff;
    let rc = w & 1 == 1;
    let uimm = w & 0xffff;
    let simm = uimm as u16 as i16 as i32 as u32;
    let mut next = pc.wrapping_add(4);
    let a0 = if a == 0 { 0 } else { c.r[a] };
    match op {
        14 => c.r[d] = a0.wrapping_add(simm),
        15 => c.r[d] = a0.wrapping_add(uimm << 16),
        10 | 11 => {
            if (w >> 21) & 3 != 0 { return Err(()); }
            let f = (w >> 23) & 7;
            let (lt, gt) = if op == 11 { ((c.r[a] as i32) < (simm as i32), (c.r[a] as i32) > (simm as i32)) } else { (c.r[a] < uimm, c.r[a] > uimm) };
            c.set_crbit(4 * f, lt); c.set_crbit(4 * f + 1, gt); c.set_crbit(4 * f + 2, !lt && !gt);
            c.cr_undef |= 1 << (31 - (4 * f + 3));
        }
        16 => {
            let bd = (((w & 0xfffc) as u16 as i16) as i32) as u32;
            let taken = ppc_cond(c, d as u32, a as u32);
            if w & 1 == 1 { c.lr = pc.wrapping_add(4); }
            if taken { next = if w & 2 != 0 { bd } else { pc.wrapping_add(bd) }; }
        }
        18 => {
            let li = w & 0x03ff_fffc;
            let li = if li & 0x0200_0000 != 0 { li | 0xfc00_0000 } else { li };
            if w & 1 == 1 { c.lr = pc.wrapping_add(4); }
            next = if w & 2 != 0 { li } else { pc.wrapping_add(li) };
        }
        19 => match xo {
            16 => {
                let tgt = c.lr & !3;
                let taken = ppc_cond(c, d as u32, a as u32);
                if w & 1 == 1 { c.lr = pc.wrapping_add(4); }
                if taken { next = tgt; }
            }
            528 => {
                if d & 4 == 0 { return Err(()); }
                let tgt = c.ctr & !3;
                let taken = ppc_cond(c, d as u32, a as u32);
                if w & 1 == 1 { c.lr = pc.wrapping_add(4); }
                if taken { next = tgt; }
            }
            _ => return Err(()),
        },
        21 => {
            let v = c.r[d].rotate_left(b as u32) & ppc_mask((w >> 6) & 31, (w >> 1) & 31);
            c.r[a] = v;
            if rc { ppc_rec0(c, v); }
        }
        24 => c.r[a] = c.r[d] | uimm,
        31 => match xo {
            0 | 32 => {
                if (w >> 21) & 3 != 0 || rc { return Err(()); }
                let f = (w >> 23) & 7;
                let (x, y) = (c.r[a], c.r[b]);
                let (lt, gt) = if xo == 0 { ((x as i32) < (y as i32), (x as i32) > (y as i32)) } else { (x < y, x > y) };
                c.set_crbit(4 * f, lt); c.set_crbit(4 * f + 1, gt); c.set_crbit(4 * f + 2, !lt && !gt);
                c.cr_undef |= 1 << (31 - (4 * f + 3));
            }
            40 => { let v = (!c.r[a]).wrapping_add(c.r[b]).wrapping_add(1); c.r[d] = v; if rc { ppc_rec0(c, v); } }
            202 => {
                if b != 0 { return Err(()); }
                let s = c.r[a] as u64 + c.ca as u64;
                c.r[d] = s as u32; c.ca = s >> 32 != 0;
                if rc { ppc_rec0(c, s as u32); }
            }
            266 => { let v = c.r[a].wrapping_add(c.r[b]); c.r[d] = v; if rc { ppc_rec0(c, v); } }
            339 | 467 => {
                if rc { return Err(()); }
                let spr = ((w >> 16) & 31) | (((w >> 11) & 31) << 5);
                match (xo, spr) {
                    (339, 8) => c.r[d] = c.lr,
                    (339, 9) => c.r[d] = c.ctr,
                    (467, 8) => c.lr = c.r[d],
                    (467, 9) => c.ctr = c.r[d],
                    _ => return Err(()),
                }
            }
            444 => { let v = c.r[d] | c.r[b]; c.r[a] = v; if rc { ppc_rec0(c, v); } }
            824 => {
                let s = c.r[d];
                let v = ((s as i32) >> b) as u32;
                c.ca = (s as i32) < 0 && b != 0 && (s & ((1u32 << b) - 1)) != 0;
                c.r[a] = v;
                if rc { ppc_rec0(c, v); }
            }
            _ => return Err(()),
        },
        32 | 33 | 34 => {
            if op == 33 && (a == 0 || a == d) { return Err(()); }
            let ea = a0.wrapping_add(simm);
            c.r[d] = if op == 34 { mrd(c, ea, 1, true)? } else { mrd(c, ea, 4, true)? };
            if op == 33 { c.r[a] = ea; }
        }
        36 | 37 => {
            if op == 37 && a == 0 { return Err(()); }
            let ea = a0.wrapping_add(simm);
            let v = c.r[d];
            mwr(c, ea, 4, v, true)?;
            if op == 37 { c.r[a] = ea; }
        }
        47 => {
            let mut ea = a0.wrapping_add(simm);
            for r in d..32 { let v = c.r[r]; mwr(c, ea, 4, v, true)?; ea = ea.wrapping_add(4); }
        }
        _ => return Err(()),
    }
    Ok(next)
}
fn ppc_run(c: &mut Cpu, words: &[u32]) -> Result<u32, ()> {
    let end = CODE + 4 * words.len() as u32;
    let mut pc = CODE;
    let mut n = 0;
    while pc >= CODE && pc < end {
        n += 1;
        if n > 600 { return Err(()); }
        pc = ppc_exec(c, words[((pc - CODE) / 4) as usize], pc)?;
    }
    Ok(pc)
}

// ------------------------------------------------------------------ test cases
type Tweak = Vec<(Loc, u32)>;
struct Case {
    op: String,
    asm: String,
    words: Vec<u32>,
    show: Vec<Loc>,
    tweaks: Vec<Tweak>,
    /// run every tweak on both base states (otherwise only the first tweak is also run on the second base state)
    both: bool,
    mem: bool,
}
struct B { out: Vec<Case> }
impl B {
    fn add(&mut self, op: &str, asm: String, words: Vec<u32>, gprs: &[u8], extra: &[Loc], tweaks: Vec<Tweak>, both: bool, mem: bool) {
        let mut show: Vec<Loc> = Vec::new();
        for &g in gprs { if !show.contains(&Loc::G(g)) { show.push(Loc::G(g)); } }
        for &l in extra { if !show.contains(&l) { show.push(l); } }
        for t in &tweaks { for &(l, _) in t { if !show.contains(&l) { show.push(l); } } }
        let tweaks = if tweaks.is_empty() { vec![Vec::new()] } else { tweaks };
        self.out.push(Case { op: op.to_string(), asm, words, show, tweaks, both, mem });
    }
}
fn singles(l: Loc, vals: &[u32]) -> Vec<Tweak> { vals.iter().map(|&v| vec![(l, v)]).collect() }
fn pairs(la: Loc, va: &[u32], lb: Loc, vb: &[u32]) -> Vec<Tweak> {
    if la == lb { return singles(la, va); }
    let mut o = Vec::new();
    for &x in va { for &y in vb { o.push(vec![(la, x), (lb, y)]); } }
    o
}
fn cross(t1: &[Tweak], t2: &[Tweak]) -> Vec<Tweak> {
    let mut o = Vec::new();
    for x in t1 { for y in t2 { let mut t = x.clone(); t.extend(y.iter().cloned()); o.push(t); } }
    o
}
fn with(t: &[Tweak], extra: &[(Loc, u32)]) -> Vec<Tweak> {
    let base: Vec<Tweak> = if t.is_empty() { vec![Vec::new()] } else { t.to_vec() };
    base.into_iter().map(|mut x| { x.extend(extra.iter().cloned()); x }).collect()
}

const V7: [u32; 7] = [0, 1, 0x7fff_ffff, 0x8000_0000, 0xffff_ffff, 0x1234_5678, 0xfedc_ba98];
const V5: [u32; 5] = [0, 1, 0x7fff_ffff, 0x8000_0000, 0xffff_ffff];
const IMMS: [u32; 7] = [0, 1, 0x7fff, 0x8000, 0xffff, 0x1234, 0x8001];

// ---- MIPS assembler
const ZERO: u8 = 0; const T0: u8 = 8; const T1: u8 = 9; const T2: u8 = 10; const T3: u8 = 11; const T4: u8 = 12; const T5: u8 = 13;
const S0: u8 = 16; const S1: u8 = 17; const A0: u8 = 4; const A1: u8 = 5; const RA: u8 = 31;
fn mn(r: u8) -> &'static str { MIPS_NAMES[r as usize] }
fn m_r(funct: u32, rd: u8, rs: u8, rt: u8, sa: u32) -> u32 { ((rs as u32) << 21) | ((rt as u32) << 16) | ((rd as u32) << 11) | (sa << 6) | funct }
fn m_r2(funct: u32, rd: u8, rs: u8, rt: u8) -> u32 { (0x1c << 26) | m_r(funct, rd, rs, rt, 0) }
fn m_i(op: u32, rt: u8, rs: u8, imm: u32) -> u32 { (op << 26) | ((rs as u32) << 21) | ((rt as u32) << 16) | (imm & 0xffff) }
fn simm_txt(imm: u32) -> String { let v = imm as u16 as i16; format!("{}", v) }
/// `addu $t3,$zero,$t4`: reads $zero after the instruction under test wrote to it
fn m_follow() -> (u32, &'static str) { (m_r(0x21, T3, ZERO, T4, 0), " ; addu $t3,$zero,$t4") }

fn mips_cases() -> Vec<Case> {
    let mut b = B { out: Vec::new() };
    let (fw, ft) = m_follow();
    // ---- three-register ALU
    let r3: [(&str, u32, bool); 13] = [("addu", 0x21, false), ("subu", 0x23, false), ("and", 0x24, false), ("or", 0x25, false), ("xor", 0x26, false),
        ("nor", 0x27, false), ("slt", 0x2a, false), ("sltu", 0x2b, false), ("movn", 0x0b, false), ("movz", 0x0a, false), ("add", 0x20, false),
        ("sub", 0x22, false), ("mul", 0x02, true)];
    let combos3: [(u8, u8, u8); 9] = [(T2, T0, T1), (T0, T0, T1), (T1, T0, T1), (T0, T0, T0), (T2, ZERO, T1), (T2, T0, ZERO), (ZERO, T0, T1), (S0, RA, A0), (T2, T0, T0)];
    for &(name, funct, sp2) in &r3 {
        for &(rd, rs, rt) in &combos3 {
            let w = if sp2 { m_r2(funct, rd, rs, rt) } else { m_r(funct, rd, rs, rt, 0) };
            let mut words = vec![w];
            let mut asm = format!("{} {},{},{}", name, mn(rd), mn(rs), mn(rt));
            if rd == ZERO { words.push(fw); asm.push_str(ft); }
            let tw = if rs == ZERO { singles(Loc::G(rt), &V7) } else if rt == ZERO { singles(Loc::G(rs), &V7) } else { pairs(Loc::G(rs), &V7, Loc::G(rt), &V7) };
            b.add(name, asm, words, &[rd, rs, rt], &[], tw, false, false);
        }
    }
    // ---- the register $zero: a write is discarded, a later read gives 0
    b.add("addiu", "addiu $zero,$zero,5 ; addu $t0,$zero,$zero".to_string(), vec![m_i(9, ZERO, ZERO, 5), m_r(0x21, T0, ZERO, ZERO, 0)], &[T0], &[], vec![], true, false);
    b.add("ori", "ori $zero,$t1,0xffff ; or $t0,$zero,$t1".to_string(), vec![m_i(0xd, ZERO, T1, 0xffff), m_r(0x25, T0, ZERO, T1, 0)], &[T0, T1], &[], singles(Loc::G(T1), &V5), false, false);
    b.add("lui", "lui $zero,0x1234 ; sltu $t0,$zero,$t1".to_string(), vec![m_i(0xf, ZERO, 0, 0x1234), m_r(0x2b, T0, ZERO, T1, 0)], &[T0, T1], &[], singles(Loc::G(T1), &V5), false, false);
    // ---- immediates
    let imm_ops: [(&str, u32); 7] = [("addiu", 9), ("andi", 0xc), ("ori", 0xd), ("xori", 0xe), ("slti", 0xa), ("sltiu", 0xb), ("addi", 8)];
    for &(name, op) in &imm_ops {
        for &(rt, rs) in &[(T1, T0), (T0, T0), (T1, ZERO), (ZERO, T0), (RA, S0)] {
            for &imm in &IMMS {
                let mut words = vec![m_i(op, rt, rs, imm)];
                let it = if op == 0xc || op == 0xd || op == 0xe { format!("0x{:x}", imm) } else { simm_txt(imm) };
                let mut asm = format!("{} {},{},{}", name, mn(rt), mn(rs), it);
                if rt == ZERO { words.push(fw); asm.push_str(ft); }
                let tw = if rs == ZERO { vec![] } else { singles(Loc::G(rs), &V7) };
                b.add(name, asm, words, &[rt, rs], &[], tw, false, false);
            }
        }
    }
    for &rt in &[T0, ZERO, RA] {
        for &imm in &IMMS {
            let mut words = vec![m_i(0xf, rt, 0, imm)];
            let mut asm = format!("lui {},0x{:x}", mn(rt), imm);
            if rt == ZERO { words.push(fw); asm.push_str(ft); }
            b.add("lui", asm, words, &[rt], &[], vec![], true, false);
        }
    }
    // ---- shifts by immediate
    for &(name, funct) in &[("sll", 0u32), ("srl", 2), ("sra", 3)] {
        for &(rd, rt) in &[(T2, T1), (T1, T1), (T2, ZERO), (RA, S0)] {
            for &sa in &[0u32, 1, 4, 15, 16, 31] {
                let tw = if rt == ZERO { vec![] } else { singles(Loc::G(rt), &V7) };
                b.add(name, format!("{} {},{},{}", name, mn(rd), mn(rt), sa), vec![m_r(funct, rd, 0, rt, sa)], &[rd, rt], &[], tw, false, false);
            }
        }
    }
    // ---- shifts by register: the manual uses GPR[rs][4:0]
    let shv: [u32; 9] = [0, 1, 4, 31, 32, 33, 63, 0x8000_0001, 0xffff_ffff];
    let shx: [u32; 5] = [1, 0x8000_0000, 0xffff_ffff, 0x1234_5678, 0x7fff_ffff];
    for &(name, funct) in &[("sllv", 4u32), ("srlv", 6), ("srav", 7)] {
        for &(rd, rt, rs) in &[(T2, T1, T0), (T1, T1, T0), (T0, T1, T0), (T2, T1, T1), (T2, T1, ZERO), (T2, ZERO, T0)] {
            let tw = if rs == ZERO { singles(Loc::G(rt), &shx) } else if rt == ZERO { singles(Loc::G(rs), &shv) } else if rs == rt { singles(Loc::G(rs), &shv) } else { pairs(Loc::G(rt), &shx, Loc::G(rs), &shv) };
            b.add(name, format!("{} {},{},{}", name, mn(rd), mn(rt), mn(rs)), vec![m_r(funct, rd, rs, rt, 0)], &[rd, rt, rs], &[], tw, false, false);
        }
    }
    // ---- multiply / divide / accumulate
    let v9: [u32; 9] = [0, 1, 0x7fff_ffff, 0x8000_0000, 0xffff_ffff, 0x1234_5678, 0xfedc_ba98, 3, 0xffff_fff9];
    let hilo = [Loc::Hi, Loc::Lo];
    for &(name, funct) in &[("mult", 0x18u32), ("multu", 0x19), ("div", 0x1a), ("divu", 0x1b)] {
        for &(rs, rt) in &[(T0, T1), (T0, T0), (ZERO, T1), (T0, ZERO), (RA, S0)] {
            let tw = if rs == ZERO { singles(Loc::G(rt), &v9) } else if rt == ZERO { singles(Loc::G(rs), &v9) } else { pairs(Loc::G(rs), &v9, Loc::G(rt), &v9) };
            b.add(name, format!("{} {},{}", name, mn(rs), mn(rt)), vec![m_r(funct, 0, rs, rt, 0)], &[rs, rt], &hilo, tw, false, false);
        }
    }
    let accs: Vec<Tweak> = vec![vec![(Loc::Hi, 0), (Loc::Lo, 0)], vec![(Loc::Hi, 0xffff_ffff), (Loc::Lo, 0xffff_ffff)], vec![(Loc::Hi, 0x7fff_ffff), (Loc::Lo, 0xffff_ffff)],
        vec![(Loc::Hi, 1), (Loc::Lo, 0x8000_0000)], vec![(Loc::Hi, 0), (Loc::Lo, 0xffff_ffff)]];
    for &(name, funct) in &[("madd", 0u32), ("maddu", 1), ("msub", 4), ("msubu", 5)] {
        for &(rs, rt) in &[(T0, T1), (T0, T0), (T0, ZERO)] {
            let tw = if rt == ZERO { singles(Loc::G(rs), &V5) } else { pairs(Loc::G(rs), &V7, Loc::G(rt), &V7) };
            b.add(name, format!("{} {},{}", name, mn(rs), mn(rt)), vec![m_r2(funct, 0, rs, rt)], &[rs, rt], &hilo, cross(&tw, &accs), false, false);
        }
    }
    let hl: Vec<Tweak> = pairs(Loc::Hi, &[0, 0x8000_0001, 0xffff_ffff], Loc::Lo, &[1, 0x7fff_fffe]);
    for &rd in &[T0, ZERO, RA] {
        for &(name, funct) in &[("mfhi", 0x10u32), ("mflo", 0x12)] {
            let mut words = vec![m_r(funct, rd, 0, 0, 0)];
            let mut asm = format!("{} {}", name, mn(rd));
            if rd == ZERO { words.push(fw); asm.push_str(ft); }
            b.add(name, asm, words, &[rd], &hilo, hl.clone(), false, false);
        }
        for &(name, funct) in &[("mthi", 0x11u32), ("mtlo", 0x13)] {
            let tw = if rd == ZERO { hl.clone() } else { singles(Loc::G(rd), &V7) };
            b.add(name, format!("{} {}", name, mn(rd)), vec![m_r(funct, 0, rd, 0, 0)], &[rd], &hilo, tw, false, false);
        }
    }
    let clv: [u32; 10] = [0, 1, 0x7fff_ffff, 0x8000_0000, 0xffff_ffff, 0x0001_0000, 0xfffe_0000, 0xc000_0000, 0x3fff_ffff, 0xffff_fffe];
    for &(name, funct) in &[("clz", 0x20u32), ("clo", 0x21)] {
        for &(rd, rs) in &[(T1, T0), (T0, T0), (T1, ZERO), (RA, S0)] {
            let tw = if rs == ZERO { vec![] } else { singles(Loc::G(rs), &clv) };
            // pre-R6 encoding: the rt field repeats rd
            b.add(name, format!("{} {},{}", name, mn(rd), mn(rs)), vec![m_r2(funct, rd, rs, rd)], &[rd, rs], &[], tw, false, false);
        }
    }
    // ---- capstone aliases
    for &(rd, rt) in &[(T1, T0), (T0, T0), (RA, S0)] {
        b.add("negu", format!("negu {},{} (subu {},$zero,{})", mn(rd), mn(rt), mn(rd), mn(rt)), vec![m_r(0x23, rd, ZERO, rt, 0)], &[rd, rt], &[], singles(Loc::G(rt), &V7), false, false);
    }
    for &(rd, rs) in &[(T1, T0), (T1, ZERO), (RA, T0), (T0, RA)] {
        let tw = if rs == ZERO { vec![] } else { singles(Loc::G(rs), &V7) };
        b.add("move", format!("move {},{} (addu {},{},$zero)", mn(rd), mn(rs), mn(rd), mn(rs)), vec![m_r(0x21, rd, rs, ZERO, 0)], &[rd, rs], &[], tw.clone(), false, false);
        b.add("move", format!("move {},{} (or {},{},$zero)", mn(rd), mn(rs), mn(rd), mn(rs)), vec![m_r(0x25, rd, rs, ZERO, 0)], &[rd, rs], &[], tw, false, false);
    }
    // ---- aligned loads and stores
    let stv: [u32; 3] = [0x1122_3344, 0x80ff_fe7f, 0xffff_ffff];
    for &(name, op, size, store) in &[("lb", 0x20u32, 1u32, false), ("lbu", 0x24, 1, false), ("lh", 0x21, 2, false), ("lhu", 0x25, 2, false), ("lw", 0x23, 4, false),
        ("sb", 0x28, 1, true), ("sh", 0x29, 2, true), ("sw", 0x2b, 4, true)] {
        let mut disps: Vec<i32> = vec![0, 4, -4, 8, -16, 12];
        if size <= 2 { disps.extend([2, -2, 6]); }
        if size == 1 { disps.extend([1, 3, -1, -13]); }
        for &rt in &[T1, T0, ZERO] {
            for &d in &disps {
                let mut words = vec![m_i(op, rt, T0, d as u32)];
                let mut asm = format!("{} {},{}({})", name, mn(rt), d, mn(T0));
                if rt == ZERO && !store { words.push(fw); asm.push_str(ft); }
                let base = vec![(Loc::G(T0), MID)];
                let tw = if store && rt == T1 { with(&singles(Loc::G(T1), &stv), &base) } else { vec![base] };
                b.add(name, asm, words, &[rt, T0], &[], tw, true, true);
            }
            // displacement with bit 15 set and a base far above the window ; base $zero
            let far = vec![(Loc::G(T0), MID.wrapping_add(0x8000))];
            let tw = if store && rt == T1 { with(&singles(Loc::G(T1), &stv), &far) } else { vec![far] };
            b.add(name, format!("{} {},-32768({})", name, mn(rt), mn(T0)), vec![m_i(op, rt, T0, 0x8000)], &[rt, T0], &[], tw, true, true);
            if rt != T0 {
                let tw = if store && rt == T1 { singles(Loc::G(T1), &stv) } else { vec![] };
                b.add(name, format!("{} {},0x4004($zero)", name, mn(rt)), vec![m_i(op, rt, ZERO, 0x4004)], &[rt], &[], tw, true, true);
            }
        }
    }
    // ---- unaligned loads and stores: every byte offset
    let uv: [u32; 2] = [0xaabb_ccdd, 0x1122_3344];
    for &(name, op) in &[("lwl", 0x22u32), ("lwr", 0x26), ("swl", 0x2a), ("swr", 0x2e)] {
        for d in -4i32..8 {
            b.add(name, format!("{} $t1,{}($t0)", name, d), vec![m_i(op, T1, T0, d as u32)], &[T1, T0], &[], with(&singles(Loc::G(T1), &uv), &[(Loc::G(T0), MID)]), false, true);
        }
        for k in 0u32..4 {
            // the offset comes from the base register ; rt == base
            b.add(name, format!("{} $t1,0($t0)", name), vec![m_i(op, T1, T0, 0)], &[T1, T0], &[], with(&singles(Loc::G(T1), &uv), &[(Loc::G(T0), MID + 4 + k)]), false, true);
            b.add(name, format!("{} $t0,-3($t0)", name), vec![m_i(op, T0, T0, (-3i32) as u32)], &[T0], &[], vec![vec![(Loc::G(T0), MID + 8 + k)]], false, true);
        }
    }
    for &(first, second) in &[(3u32, 0u32), (0, 3)] {
        for k in 0u32..4 {
            let base = vec![(Loc::G(T0), MID + k)];
            b.add("lwl_lwr", format!("lwl $t1,{}($t0) ; lwr $t1,{}($t0)", first, second), vec![m_i(0x22, T1, T0, first), m_i(0x26, T1, T0, second)], &[T1, T0], &[], with(&singles(Loc::G(T1), &uv), &base), false, true);
            b.add("swl_swr", format!("swl $t1,{}($t0) ; swr $t1,{}($t0)", first, second), vec![m_i(0x2a, T1, T0, first), m_i(0x2e, T1, T0, second)], &[T1, T0], &[], with(&singles(Loc::G(T1), &uv), &base), false, true);
        }
    }
    mips_branches(&mut b);
    mips_window_cases(&mut b);
    b.out
}

/// a delay-slot instruction: word, text, registers it names
type Slot = (u32, String, Vec<u8>);
fn slot_nop() -> Slot { (0, "nop".to_string(), vec![]) }
fn slot_unrelated() -> Slot { (m_i(9, S1, ZERO, 0x77), "addiu $s1,$zero,119".to_string(), vec![S1]) }
fn slot_set(r: u8, x: u32) -> Slot { (m_i(9, r, ZERO, x), format!("addiu {},$zero,{}", mn(r), simm_txt(x)), vec![r]) }
fn slot_read(r: u8) -> Slot { (m_r(0x21, T3, r, ZERO, 0), format!("addu $t3,{},$zero", mn(r)), vec![T3, r]) }

fn mips_branches(b: &mut B) {
    let tgt = CODE + 24;
    let off = ((tgt - (CODE + 4)) / 4) & 0xffff;
    let emit = |b: &mut B, op: &str, text: String, word: u32, regs: &[u8], slots: Vec<Slot>, tw: Vec<Tweak>| {
        for (sw, st, sregs) in slots {
            let mut g: Vec<u8> = regs.to_vec();
            g.extend(sregs);
            b.add(op, format!("{} ; {}", text, st), vec![word, sw], &g, &[], tw.clone(), true, false);
        }
    };
    let t1v: [u32; 5] = [0, 1, 0x8000_0000, 0xffff_ffff, 0x7fff_ffff];
    let v6: [u32; 6] = [0, 1, 0x7fff_ffff, 0x8000_0000, 0xffff_ffff, 0x1234_5678];
    // ---- two-register compares (and the aliases b, beqz, bnez)
    for &(name, op, lik) in &[("beq", 4u32, false), ("bne", 5, false), ("beql", 0x14, true), ("bnel", 0x15, true)] {
        for &(rs, rt) in &[(T0, T1), (T0, T0), (T0, ZERO), (ZERO, T0), (ZERO, ZERO)] {
            let key = match (name, rs, rt) { ("beq", ZERO, ZERO) => "b", ("beq", _, ZERO) => "beqz", ("bne", _, ZERO) if rs != ZERO => "bnez", _ => name };
            if rs == ZERO && rt == ZERO && name != "beq" { continue; }
            let mut slots = vec![slot_nop(), slot_unrelated()];
            if rs != ZERO { slots.extend([slot_set(rs, 0), slot_set(rs, 0xffff), slot_set(rs, 1)]); }
            if rt != ZERO && rt != rs { slots.extend([slot_set(rt, 0), slot_set(rt, 1)]); }
            let tw = match (rs, rt) {
                (ZERO, ZERO) => vec![],
                (_, ZERO) => singles(Loc::G(rs), &v6),
                (ZERO, _) => singles(Loc::G(rt), &v6),
                _ => pairs(Loc::G(rs), &V5, Loc::G(rt), &t1v),
            };
            let _ = lik;
            emit(b, key, format!("{} {},{},0x{:x}", name, mn(rs), mn(rt), tgt), m_i(op, rt, rs, off), &[rs, rt], slots, tw);
        }
    }
    // ---- compares with zero, with and without link, likely forms
    for &(name, op, rtf, link) in &[("blez", 6u32, 0u8, false), ("bgtz", 7, 0, false), ("bltz", 1, 0, false), ("bgez", 1, 1, false), ("blezl", 0x16, 0, false), ("bgtzl", 0x17, 0, false),
        ("bltzl", 1, 2, false), ("bgezl", 1, 3, false), ("bltzal", 1, 0x10, true), ("bgezal", 1, 0x11, true)] {
        for &rs in &[T0, ZERO] {
            let key = if name == "bgezal" && rs == ZERO { "bal" } else { name };
            let mut slots = vec![slot_nop(), slot_unrelated()];
            if rs != ZERO { slots.extend([slot_set(rs, 0), slot_set(rs, 0xffff), slot_set(rs, 1)]); }
            if link { slots.extend([slot_read(RA), slot_set(RA, 0x55)]); }
            let tw = if rs == ZERO { vec![] } else { singles(Loc::G(rs), &v6) };
            emit(b, key, format!("{} {},0x{:x}", name, mn(rs), tgt), m_i(op, rtf, rs, off), &[rs, RA], slots, tw);
        }
    }
    // ---- j / jal
    emit(b, "j", format!("j 0x{:x}", tgt), (2 << 26) | (tgt >> 2), &[], vec![slot_nop(), slot_unrelated()], vec![]);
    emit(b, "jal", format!("jal 0x{:x}", tgt), (3 << 26) | (tgt >> 2), &[RA], vec![slot_nop(), slot_unrelated(), slot_read(RA), slot_set(RA, 0x55)], vec![]);
    // ---- jr / jalr: the target is the value of rs BEFORE the delay slot
    let targets: [u32; 2] = [FAR + 8, CODE + 24];
    for &rs in &[T0, RA] {
        emit(b, "jr", format!("jr {}", mn(rs)), m_r(8, 0, rs, 0, 0), &[rs], vec![slot_nop(), slot_unrelated(), slot_set(rs, FAR + 16), slot_read(rs)], singles(Loc::G(rs), &targets));
    }
    for &(rd, rs) in &[(RA, T0), (T5, T0), (T5, RA)] {
        let slots = vec![slot_nop(), slot_unrelated(), slot_set(rs, FAR + 16), slot_read(rd), slot_set(rd, 0x55)];
        // rd initially holds the address of another landing pad: a lifter that confuses rd and rs lands there
        let tw = if rd == RA { singles(Loc::G(rs), &targets) } else { with(&singles(Loc::G(rs), &targets), &[(Loc::G(rd), FAR + 24)]) };
        emit(b, if rd == RA { "jalr" } else { "jalr_rd" }, format!("jalr {},{}", mn(rd), mn(rs)), m_r(9, rd, rs, 0, 0), &[rd, rs, RA], slots, tw);
    }
}

/// branch + delay slot at every position relative to the 64-byte translation windows of `translate_function`: N leading
/// `addiu $a0,$a0,1`, then the branch, then the delay slot `addiu $a0,$a0,0x100` (the block translator has to look ahead
/// for the delay slot when the branch is the last word of a full window; function recovery has to hand it those bytes)
fn mips_window_cases(b: &mut B) {
    let lead = m_i(9, A0, A0, 1);
    let slot = m_i(9, A0, A0, 0x100);
    let positions: Vec<usize> = if deep() { (0..=70).collect() } else { vec![0, 1, 12, 13, 14, 15, 16, 17, 29, 30, 31, 32, 33, 45, 46, 47, 48, 61, 62, 63, 64, 65] };
    for n in positions {
        let tgt = CODE + 4 * (n as u32 + 4);
        let off = ((tgt - (CODE + 4 * n as u32 + 4)) / 4) & 0xffff;
        let mk = |w: u32| -> Vec<u32> { let mut v = vec![lead; n]; v.push(w); v.push(slot); v };
        b.add("window.bne", format!("{} x addiu $a0,$a0,1 ; bne $a1,$zero,0x{:x} ; addiu $a0,$a0,256", n, tgt), mk(m_i(5, ZERO, A1, off)), &[A0, A1], &[], singles(Loc::G(A1), &[0, 1]), false, false);
        b.add("window.beq", format!("{} x addiu $a0,$a0,1 ; beq $a1,$zero,0x{:x} ; addiu $a0,$a0,256", n, tgt), mk(m_i(4, ZERO, A1, off)), &[A0, A1], &[], singles(Loc::G(A1), &[0, 1]), false, false);
        b.add("window.j", format!("{} x addiu $a0,$a0,1 ; j 0x{:x} ; addiu $a0,$a0,256", n, tgt), mk((2 << 26) | (tgt >> 2)), &[A0], &[], vec![], false, false);
        b.add("window.jal", format!("{} x addiu $a0,$a0,1 ; jal 0x{:x} ; addiu $a0,$a0,256", n, tgt), mk((3 << 26) | (tgt >> 2)), &[A0, RA], &[], vec![], false, false);
        b.add("window.jr", format!("{} x addiu $a0,$a0,1 ; jr $ra ; addiu $a0,$a0,256", n), mk(m_r(8, 0, RA, 0, 0)), &[A0, RA], &[], singles(Loc::G(RA), &[FAR + 8]), false, false);
        for &(name, op, rtf, vals) in &[("blez", 6u32, 0u8, [0u32, 1]), ("bgtz", 7, 0, [0, 1]), ("bltz", 1, 0, [0, 0x8000_0000]), ("bgez", 1, 1, [0, 0x8000_0000]), ("bgezal", 1, 0x11, [0, 0x8000_0000])] {
            b.add(&format!("window.{}", name), format!("{} x addiu $a0,$a0,1 ; {} $a1,0x{:x} ; addiu $a0,$a0,256", n, name, tgt), mk(m_i(op, rtf, A1, off)), &[A0, A1, RA], &[], singles(Loc::G(A1), &vals), false, false);
        }
        b.add("window.jalr", format!("{} x addiu $a0,$a0,1 ; jalr $t0 ; addiu $a0,$a0,256", n), mk(m_r(9, RA, T0, 0, 0)), &[A0, T0, RA], &[], singles(Loc::G(T0), &[FAR + 8]), false, false);
        b.add("window.bltzal", format!("{} x addiu $a0,$a0,1 ; bltzal $a1,0x{:x} ; addiu $a0,$a0,256", n, tgt), mk(m_i(1, 0x10, A1, off)), &[A0, A1, RA], &[], singles(Loc::G(A1), &[0, 0x8000_0000]), false, false);
    }
}
fn deep() -> bool { std::env::var("VERIF_TIER").map(|t| t == "thorough").unwrap_or(false) } // thorough tier: wider bounds

// ---- PPC assembler
fn p_d(op: u32, d: u8, a: u8, imm: u32) -> u32 { (op << 26) | ((d as u32) << 21) | ((a as u32) << 16) | (imm & 0xffff) }
fn p_x(xo: u32, d: u8, a: u8, bb: u8, rc: bool) -> u32 { (31 << 26) | ((d as u32) << 21) | ((a as u32) << 16) | ((bb as u32) << 11) | (xo << 1) | rc as u32 }
fn p_rlwinm(a: u8, s: u8, sh: u32, mb: u32, me: u32, rc: bool) -> u32 { (21 << 26) | ((s as u32) << 21) | ((a as u32) << 16) | (sh << 11) | (mb << 6) | (me << 1) | rc as u32 }
fn p_spr(xo: u32, r: u8, spr: u32) -> u32 { (31 << 26) | ((r as u32) << 21) | ((spr & 31) << 16) | ((spr >> 5) << 11) | (xo << 1) }
fn p_bc(bo: u32, bi: u32, rel: i32, lk: bool) -> u32 { (16 << 26) | (bo << 21) | (bi << 16) | ((rel as u32) & 0xfffc) | lk as u32 }
fn p_bclr(bo: u32, bi: u32, lk: bool) -> u32 { (19 << 26) | (bo << 21) | (bi << 16) | (16 << 1) | lk as u32 }
fn p_bcctr(bo: u32, bi: u32, lk: bool) -> u32 { (19 << 26) | (bo << 21) | (bi << 16) | (528 << 1) | lk as u32 }
fn p_b(rel: i32, lk: bool) -> u32 { (18 << 26) | ((rel as u32) & 0x03ff_fffc) | lk as u32 }
const PNOP: u32 = 0x6000_0000;
fn opt(rc: bool, s: &[Loc]) -> &[Loc] { if rc { s } else { &[] } }

fn ppc_cases() -> Vec<Case> {
    let mut b = B { out: Vec::new() };
    let cr0 = [Loc::Cr(0), Loc::Cr(1), Loc::Cr(2), Loc::Cr(3)];
    let dot = |rc: bool| if rc { "." } else { "" };
    // ---- add / subf / add. / subf.
    for &(name, xo) in &[("add", 266u32), ("subf", 40)] {
        for &rc in &[false, true] {
            for &(d, a, bb) in &[(5u8, 3u8, 4u8), (3, 3, 4), (4, 3, 4), (3, 3, 3), (5, 0, 4), (31, 30, 29)] {
                let key = format!("{}{}", name, dot(rc));
                b.add(&key, format!("{} r{},r{},r{}", key, d, a, bb), vec![p_x(xo, d, a, bb, rc)], &[d, a, bb], opt(rc, &cr0), pairs(Loc::G(a), &V7, Loc::G(bb), &V7), rc, false);
            }
        }
    }
    // ---- addi / addis (li / lis when rA = 0)
    for &(name, op, zname) in &[("addi", 14u32, "li"), ("addis", 15, "lis")] {
        for &(d, a) in &[(4u8, 3u8), (3, 3), (4, 0), (0, 0), (31, 30)] {
            for &imm in &IMMS {
                let (key, asm) = if a == 0 { (zname, format!("{} r{},{}", zname, d, simm_txt(imm))) } else { (name, format!("{} r{},r{},{}", name, d, a, simm_txt(imm))) };
                // r0 holds a non-zero value: rA = 0 means the literal 0
                let tw = if a == 0 { singles(Loc::G(0), &[0xdead_beef, 1]) } else { singles(Loc::G(a), &V7) };
                b.add(key, asm, vec![p_d(op, d, a, imm)], &[d, a], &[], tw, false, false);
            }
        }
    }
    // ---- addze
    for &rc in &[false, true] {
        for &(d, a) in &[(4u8, 3u8), (3, 3), (4, 0)] {
            let key = format!("addze{}", dot(rc));
            let tw = pairs(Loc::G(a), &[0, 1, 0x7fff_ffff, 0x8000_0000, 0xffff_ffff, 0xffff_fffe], Loc::Ca, &[0, 1]);
            b.add(&key, format!("{} r{},r{}", key, d, a), vec![p_x(202, d, a, 0, rc)], &[d, a], opt(rc, &cr0), tw, rc, false);
        }
    }
    // ---- mr / mr. (or rA,rS,rS) and or with two different sources
    for &rc in &[false, true] {
        for &(a, s) in &[(4u8, 3u8), (3, 3), (0, 31), (31, 0)] {
            let key = format!("mr{}", dot(rc));
            b.add(&key, format!("{} r{},r{}", key, a, s), vec![p_x(444, s, a, s, rc)], &[a, s], opt(rc, &cr0), singles(Loc::G(s), &V7), rc, false);
        }
        let key = format!("or{}", dot(rc));
        b.add(&key, format!("{} r5,r3,r4", key), vec![p_x(444, 3, 5, 4, rc)], &[5, 3, 4], opt(rc, &cr0), pairs(Loc::G(3), &V5, Loc::G(4), &V5), rc, false);
    }
    // ---- compares, every CR field
    let cmpv: [u32; 10] = [0, 1, 0x7fff_ffff, 0x8000_0000, 0xffff_ffff, 5, 4, 6, 0xffff_8000, 0x7fff];
    for f in 0u8..8 {
        let crf = [Loc::Cr(4 * f), Loc::Cr(4 * f + 1), Loc::Cr(4 * f + 2), Loc::Cr(4 * f + 3)];
        for &a in &[3u8, 0] {
            for &imm in &[0u32, 1, 0xffff, 0x7fff, 0x8000, 5] {
                b.add("cmpwi", format!("cmpwi cr{},r{},{}", f, a, simm_txt(imm)), vec![(11 << 26) | ((f as u32) << 23) | ((a as u32) << 16) | imm], &[a], &crf, singles(Loc::G(a), &cmpv), true, false);
                b.add("cmplwi", format!("cmplwi cr{},r{},{}", f, a, imm), vec![(10 << 26) | ((f as u32) << 23) | ((a as u32) << 16) | imm], &[a], &crf, singles(Loc::G(a), &cmpv), true, false);
            }
        }
        for &(a, bb) in &[(3u8, 4u8), (3, 3)] {
            b.add("cmpw", format!("cmpw cr{},r{},r{}", f, a, bb), vec![(31 << 26) | ((f as u32) << 23) | ((a as u32) << 16) | ((bb as u32) << 11)], &[a, bb], &crf, pairs(Loc::G(a), &V7, Loc::G(bb), &V7), true, false);
            b.add("cmplw", format!("cmplw cr{},r{},r{}", f, a, bb), vec![(31 << 26) | ((f as u32) << 23) | ((a as u32) << 16) | ((bb as u32) << 11) | (32 << 1)], &[a, bb], &crf, pairs(Loc::G(a), &V7, Loc::G(bb), &V7), true, false);
        }
    }
    // ---- rlwinm and its aliases
    let rlv: [u32; 5] = [0x9000_3000, 0xffff_ffff, 0x1234_5678, 0x8000_0001, 0xb004_3000];
    let mbme: [(u32, u32); 19] = [(0, 31), (0, 0), (31, 31), (0, 29), (2, 31), (8, 15), (16, 23), (24, 31), (5, 5), (31, 0), (30, 1), (16, 15), (1, 0), (20, 10), (29, 2), (0, 30), (1, 31), (4, 27), (27, 4)];
    for &rc in &[false, true] {
        for &sh in &[0u32, 1, 2, 8, 16, 31] {
            for &(mb, me) in &mbme {
                for &(a, s) in &[(4u8, 3u8), (3, 3)] {
                    if rc && (a == s || sh == 1 || sh == 31) { continue; }
                    let key = format!("rlwinm{}", dot(rc));
                    b.add(&key, format!("{} r{},r{},{},{},{}", key, a, s, sh, mb, me), vec![p_rlwinm(a, s, sh, mb, me, rc)], &[a, s], opt(rc, &cr0), singles(Loc::G(s), &rlv), rc, false);
                }
            }
        }
    }
    for &n in &[1u32, 2, 4, 16, 31] {
        for &(a, s) in &[(4u8, 3u8), (3, 3)] {
            b.add("slwi", format!("slwi r{},r{},{} (rlwinm {},{},{},0,{})", a, s, n, a, s, n, 31 - n), vec![p_rlwinm(a, s, n, 0, 31 - n, false)], &[a, s], &[], singles(Loc::G(s), &rlv), false, false);
            b.add("srwi", format!("srwi r{},r{},{} (rlwinm {},{},{},{},31)", a, s, n, a, s, 32 - n, n), vec![p_rlwinm(a, s, 32 - n, n, 31, false)], &[a, s], &[], singles(Loc::G(s), &rlv), false, false);
        }
    }
    // ---- srawi / srawi.
    let srv: [u32; 9] = [0, 1, 0x7fff_ffff, 0x8000_0000, 0xffff_ffff, 0x8000_0001, 0xffff_fff0, 0x1234_5678, 0xffff_0000];
    for &rc in &[false, true] {
        for &sh in &[0u32, 1, 4, 16, 31] {
            for &(a, s) in &[(4u8, 3u8), (3, 3)] {
                let key = format!("srawi{}", dot(rc));
                b.add(&key, format!("{} r{},r{},{}", key, a, s, sh), vec![p_x(824, s, a, sh as u8, rc)], &[a, s], if rc { &[Loc::Ca, Loc::Cr(0), Loc::Cr(1), Loc::Cr(2)][..] } else { &[Loc::Ca][..] },
                    pairs(Loc::G(s), &srv, Loc::Ca, &[0, 1]), rc, false);
            }
        }
    }
    // ---- loads / stores
    let stv: [u32; 3] = [0x1122_3344, 0x80ff_fe7f, 0xffff_ffff];
    let base = vec![(Loc::G(3), MID)];
    for &(name, op) in &[("lbz", 34u32), ("lwz", 32)] {
        let mut disps: Vec<i32> = vec![0, 4, -4, 8, -16, 12];
        if op == 34 { disps.extend([1, 3, -1, -13]); }
        for &d in &[4u8, 3, 0] {
            for &disp in &disps {
                b.add(name, format!("{} r{},{}(r3)", name, d, disp), vec![p_d(op, d, 3, disp as u32)], &[d, 3], &[], vec![base.clone()], true, true);
            }
            b.add(name, format!("{} r{},-32768(r3)", name, d), vec![p_d(op, d, 3, 0x8000)], &[d, 3], &[], vec![vec![(Loc::G(3), MID + 0x8000)]], true, true);
            // rA = 0: the base is the literal 0, not r0
            b.add(name, format!("{} r{},0x4004(0)", name, d), vec![p_d(op, d, 0, 0x4004)], &[d, 0], &[], vec![vec![(Loc::G(0), 0x10)], vec![(Loc::G(0), 0xdead_0000)]], true, true);
        }
    }
    for &disp in &[0i32, 4, -4, 8, -16] {
        b.add("lwzu", format!("lwzu r4,{}(r3)", disp), vec![p_d(33, 4, 3, disp as u32)], &[4, 3], &[], vec![base.clone()], true, true);
        for &s in &[4u8, 0, 3] {
            let tw = if s == 3 { vec![base.clone()] } else { with(&singles(Loc::G(s), &stv), &base) };
            b.add("stw", format!("stw r{},{}(r3)", s, disp), vec![p_d(36, s, 3, disp as u32)], &[s, 3], &[], tw.clone(), true, true);
            b.add("stwu", format!("stwu r{},{}(r3)", s, disp), vec![p_d(37, s, 3, disp as u32)], &[s, 3], &[], tw, true, true);
        }
    }
    b.add("stw", "stw r4,-32768(r3)".to_string(), vec![p_d(36, 4, 3, 0x8000)], &[4, 3], &[], with(&singles(Loc::G(4), &stv), &[(Loc::G(3), MID + 0x8000)]), true, true);
    for &s in &[4u8, 0] {
        b.add("stw", format!("stw r{},0x4008(0)", s), vec![p_d(36, s, 0, 0x4008)], &[s, 0], &[], pairs(Loc::G(4), &stv, Loc::G(0), &[0x10, 0xdead_0000]), true, true);
    }
    for &(s, disp) in &[(31u8, 0i32), (30, 0), (29, -8), (28, -16), (30, 4), (25, -16)] {
        b.add("stmw", format!("stmw r{},{}(r3)", s, disp), vec![p_d(47, s, 3, disp as u32)], &[s, 3, 31], &[], vec![base.clone()], true, true);
    }
    b.add("stmw", "stmw r30,0x4004(0)".to_string(), vec![p_d(47, 30, 0, 0x4004)], &[30, 31, 0], &[], singles(Loc::G(0), &[0x10, 0xdead_0000]), true, true);
    // ---- LR / CTR moves
    for &r in &[3u8, 0, 31] {
        b.add("mflr", format!("mflr r{}", r), vec![p_spr(339, r, 8)], &[r], &[Loc::Lr, Loc::Ctr], pairs(Loc::Lr, &V5, Loc::G(r), &[0x55]), true, false);
        b.add("mfctr", format!("mfctr r{}", r), vec![p_spr(339, r, 9)], &[r], &[Loc::Lr, Loc::Ctr], pairs(Loc::Ctr, &V5, Loc::G(r), &[0x55]), true, false);
        b.add("mtlr", format!("mtlr r{}", r), vec![p_spr(467, r, 8)], &[r], &[Loc::Lr, Loc::Ctr], singles(Loc::G(r), &V7), true, false);
        b.add("mtctr", format!("mtctr r{}", r), vec![p_spr(467, r, 9)], &[r], &[Loc::Lr, Loc::Ctr], singles(Loc::G(r), &V7), true, false);
    }
    ppc_branches(&mut b);
    b.out
}

fn ppc_branches(b: &mut B) {
    let tgt = CODE + 24;
    // ---- b / bl
    b.add("b", format!("b 0x{:x}", tgt), vec![p_b(24, false)], &[], &[Loc::Lr], vec![], true, false);
    b.add("bl", format!("bl 0x{:x}", tgt), vec![p_b(24, true)], &[], &[Loc::Lr], vec![], true, false);
    b.add("b", format!("nop ; b 0x{:x}", tgt), vec![PNOP, p_b(20, false)], &[], &[Loc::Lr], vec![], true, false);
    b.add("bl", format!("nop ; bl 0x{:x}", tgt), vec![PNOP, p_b(20, true)], &[], &[Loc::Lr], vec![], true, false);
    let bis: [u32; 14] = [0, 1, 2, 3, 4, 5, 6, 7, 10, 13, 18, 23, 28, 31];
    let far = [(Loc::Lr, FAR + 8), (Loc::Ctr, FAR + 16)];
    // ---- bclr / bcctr
    for &lk in &[false, true] {
        let l = if lk { "l" } else { "" };
        b.add(&format!("blr{}", l), format!("blr{} (bclr{} 20,0)", l, l), vec![p_bclr(20, 0, lk)], &[], &[Loc::Lr, Loc::Ctr], vec![far.to_vec(), vec![(Loc::Lr, tgt), (Loc::Ctr, FAR)], vec![(Loc::Lr, FAR + 7), (Loc::Ctr, FAR)]], true, false);
        b.add(&format!("bctr{}", l), format!("bctr{} (bcctr{} 20,0)", l, l), vec![p_bcctr(20, 0, lk)], &[], &[Loc::Lr, Loc::Ctr], vec![far.to_vec(), vec![(Loc::Ctr, tgt), (Loc::Lr, FAR)], vec![(Loc::Ctr, FAR + 5), (Loc::Lr, FAR)]], true, false);
        for &bi in &bis {
            let bit = Loc::Cr(bi as u8);
            for &(bo, nm) in &[(12u32, "t"), (4, "f")] {
                let tw = with(&singles(bit, &[0, 1]), &far);
                b.add(&format!("bclr{}", l), format!("b{}lr{} {} (bclr{} {},{}) [cr{}-{}]", nm, l, bi, l, bo, bi, bi / 4, CRB[(bi % 4) as usize]), vec![p_bclr(bo, bi, lk)], &[], &[Loc::Lr, Loc::Ctr], tw.clone(), true, false);
                if bi < 8 || bi == 31 {
                    b.add(&format!("bcctr{}", l), format!("b{}ctr{} {} (bcctr{} {},{}) [cr{}-{}]", nm, l, bi, l, bo, bi, bi / 4, CRB[(bi % 4) as usize]), vec![p_bcctr(bo, bi, lk)], &[], &[Loc::Lr, Loc::Ctr], tw, true, false);
                }
            }
        }
        // CTR-decrementing forms: bdnzlr / bdzlr, and combined with a CR bit
        let ctrs: [u32; 4] = [0, 1, 2, 0x8000_0000];
        for &(bo, nm) in &[(16u32, "bdnzlr"), (18, "bdzlr")] {
            let tw = with(&singles(Loc::Ctr, &ctrs), &[(Loc::Lr, FAR + 8)]);
            b.add(&format!("{}{}", nm, l), format!("{}{} (bclr{} {},0)", nm, l, l, bo), vec![p_bclr(bo, 0, lk)], &[], &[Loc::Lr, Loc::Ctr], tw, true, false);
        }
        for &(bo, nm) in &[(0u32, "bdnzflr"), (2, "bdzflr"), (8, "bdnztlr"), (10, "bdztlr")] {
            for &bi in &[2u32, 5] {
                let tw = with(&pairs(Loc::Ctr, &[0, 1, 2], Loc::Cr(bi as u8), &[0, 1]), &[(Loc::Lr, FAR + 8)]);
                b.add(&format!("bclr{}", l), format!("{}{} {} (bclr{} {},{})", nm, l, bi, l, bo, bi), vec![p_bclr(bo, bi, lk)], &[], &[Loc::Lr, Loc::Ctr], tw, true, false);
            }
        }
    }
    // ---- bc: conditional relative branches on every CR field, alone and behind a nop
    let names: [(&str, u32, u32); 8] = [("blt", 12, 0), ("bge", 4, 0), ("bgt", 12, 1), ("ble", 4, 1), ("beq", 12, 2), ("bne", 4, 2), ("bso", 12, 3), ("bns", 4, 3)];
    for &(nm, bo, bit) in &names {
        for f in 0u32..8 {
            let bi = 4 * f + bit;
            let tw = singles(Loc::Cr(bi as u8), &[0, 1]);
            b.add(nm, format!("{} cr{},0x{:x} (bc {},{})", nm, f, tgt, bo, bi), vec![p_bc(bo, bi, 24, false)], &[], &[Loc::Lr, Loc::Ctr], tw.clone(), true, false);
            b.add(nm, format!("nop ; {} cr{},0x{:x} (bc {},{})", nm, f, tgt, bo, bi), vec![PNOP, p_bc(bo, bi, 20, false)], &[], &[Loc::Lr, Loc::Ctr], tw.clone(), true, false);
            if f < 2 {
                b.add(&format!("{}l", nm), format!("nop ; {}l cr{},0x{:x} (bcl {},{})", nm, f, tgt, bo, bi), vec![PNOP, p_bc(bo, bi, 20, true)], &[], &[Loc::Lr, Loc::Ctr], tw, true, false);
            }
        }
    }
    let ctrs: [u32; 4] = [0, 1, 2, 0x8000_0000];
    for &(bo, nm) in &[(16u32, "bdnz"), (18, "bdz")] {
        b.add(nm, format!("{} 0x{:x} (bc {},0)", nm, tgt, bo), vec![p_bc(bo, 0, 24, false)], &[], &[Loc::Lr, Loc::Ctr], singles(Loc::Ctr, &ctrs), true, false);
        b.add(nm, format!("nop ; {} 0x{:x} (bc {},0)", nm, tgt, bo), vec![PNOP, p_bc(bo, 0, 20, false)], &[], &[Loc::Lr, Loc::Ctr], singles(Loc::Ctr, &ctrs), true, false);
        b.add(&format!("{}l", nm), format!("{}l 0x{:x} (bcl {},0)", nm, tgt, bo), vec![p_bc(bo, 0, 24, true)], &[], &[Loc::Lr, Loc::Ctr], singles(Loc::Ctr, &ctrs), true, false);
        b.add(&format!("{}l", nm), format!("nop ; {}l 0x{:x} (bcl {},0)", nm, tgt, bo), vec![PNOP, p_bc(bo, 0, 20, true)], &[], &[Loc::Lr, Loc::Ctr], singles(Loc::Ctr, &ctrs), true, false);
    }
    b.add("bc", format!("nop ; bc 20,0,0x{:x} (branch always)", tgt), vec![PNOP, p_bc(20, 0, 20, false)], &[], &[Loc::Lr, Loc::Ctr], vec![], true, false);
    // ---- every BO value (including the reserved / hinted patterns for which capstone has no simplified mnemonic)
    for bo in 0u32..32 {
        for &bi in &[2u32, 10] {
            let tw = pairs(Loc::Cr(bi as u8), &[0, 1], Loc::Ctr, &[1, 2, 0]);
            b.add("bc_any_bo", format!("nop ; bc {},{},0x{:x}", bo, bi, tgt), vec![PNOP, p_bc(bo, bi, 20, false)], &[], &[Loc::Lr, Loc::Ctr], tw.clone(), false, false);
            b.add("bclr_any_bo", format!("bclr {},{}", bo, bi), vec![p_bclr(bo, bi, false)], &[], &[Loc::Lr, Loc::Ctr], with(&tw, &[(Loc::Lr, FAR + 8)]), false, false);
            if bo & 4 != 0 {
                let tw = with(&singles(Loc::Cr(bi as u8), &[0, 1]), &[(Loc::Ctr, FAR + 8), (Loc::Lr, FAR + 16)]);
                b.add("bcctr_any_bo", format!("bcctr {},{}", bo, bi), vec![p_bcctr(bo, bi, false)], &[], &[Loc::Lr, Loc::Ctr], tw, false, false);
            }
        }
    }
}

// ------------------------------------------------------------------ base states
fn base_state(arch: Arch, variant: usize) -> Cpu {
    let table: [u32; 32] = [0xdead_beef, 0x0000_0001, 0x7fff_ffff, 0x8000_0000, 0xffff_ffff, 0x0000_0000, 0x1234_5678, 0xfedc_ba98,
        0x8000_0001, 0x7fff_fffe, 0x0000_ffff, 0xffff_0000, 0x0000_8000, 0xffff_8000, 0x00ff_00ff, 0xff00_ff00,
        0xa5a5_a5a5, 0x5a5a_5a5a, 0xc000_0003, 0x3fff_fffc, 0x0000_0002, 0xffff_fffe, 0x8765_4321, 0x0fed_cba9,
        0x9000_3000, 0xb004_3000, 0x0000_0010, 0x0000_001f, 0x0000_0020, 0x0000_0021, 0xcafe_f00d, 0x0bad_c0de];
    let mut c = Cpu { r: [0; 32], hi: 0, lo: 0, lr: 0, ctr: 0, ca: false, cr: 0, mem: [0; DATA_LEN], hilo_undef: false, cr_undef: 0 };
    for i in 0..32 { c.r[i] = if variant == 0 { table[(i * 7 + 3) % 32] } else { table[(i * 11 + 6) % 32] }; }
    if arch.is_mips() { c.r[0] = 0; }
    if variant == 0 {
        c.hi = 0x8badf00d; c.lo = 0x600dcafe; c.lr = 0xfeed_0000; c.ctr = 0x0000_0003; c.ca = true; c.cr = 0xa5c3_960f;
    } else {
        c.hi = 0x0000_0001; c.lo = 0xffff_ffff; c.lr = 0x0000_3000; c.ctr = 0xffff_ffff; c.ca = false; c.cr = !0xa5c3_960fu32;
    }
    for i in 0..DATA_LEN { c.mem[i] = if variant == 0 { (0x81u8).wrapping_add((i as u8).wrapping_mul(0x3b)) } else { (0x7eu8).wrapping_sub((i as u8).wrapping_mul(0x1d)) }; }
    c
}

// ------------------------------------------------------------------ running the lifted code
fn to_bytes(arch: Arch, words: &[u32]) -> Vec<u8> {
    let mut v = Vec::new();
    for w in words { if arch.big() { v.extend_from_slice(&w.to_be_bytes()) } else { v.extend_from_slice(&w.to_le_bytes()) } }
    v
}

fn lift(arch: Arch, words: &[u32], debug: bool) -> Result<(RC<il::Program>, RC<memory::backing::Memory>), String> {
    let mut code: Vec<u32> = words.to_vec();
    let code_words = code_words_for(words.len());
    while code.len() < code_words { code.push(arch.nop()); }
    let far: Vec<u32> = vec![arch.nop(); FAR_WORDS];
    let mut backing = memory::backing::Memory::new(arch.endian());
    let perm = memory::MemoryPermissions::EXECUTE | memory::MemoryPermissions::READ;
    backing.set_memory(CODE as u64, to_bytes(arch, &code), perm);
    backing.set_memory(FAR as u64, to_bytes(arch, &far), perm);
    let function = match arch {
        Arch::Mips => TMips::new().translate_function(&backing, CODE as u64),
        Arch::Mipsel => TMipsel::new().translate_function(&backing, CODE as u64),
        Arch::Ppc => TPpc::new().translate_function(&backing, CODE as u64),
    }.map_err(|e| format!("{}", e))?;
    if debug { eprintln!("{}", function.control_flow_graph()); }
    let mut program = il::Program::new();
    program.add_function(function);
    Ok((RC::new(program), RC::new(backing)))
}

fn run(arch: Arch, program: &RC<il::Program>, backing: &RC<memory::backing::Memory>, nwords: usize, cpu: &Cpu) -> Result<(State, u32), String> {
    let function = program.function(0).ok_or("no function")?;
    let cfg = function.control_flow_graph();
    let entry = cfg.entry().ok_or("function without entry")?;
    let block = cfg.block(entry).map_err(|e| format!("{}", e))?;
    let location = match block.instructions().first() {
        None => il::ProgramLocation::new(Some(0), il::FunctionLocation::EmptyBlock(entry)),
        Some(i) => il::ProgramLocation::new(Some(0), il::FunctionLocation::Instruction(entry, i.index())),
    };
    let mut mem = Memory::new_with_backing(arch.endian(), backing.clone());
    for i in 0..DATA_LEN { mem.store(DATA as u64 + i as u64, il::const_(cpu.mem[i] as u64, 8)).map_err(|e| format!("{}", e))?; }
    let mut state = State::new(mem);
    for i in 0..32u8 { state.set_scalar(loc_name(arch, Loc::G(i)), il::const_(cpu.r[i as usize] as u64, 32)); }
    if arch.is_mips() {
        state.set_scalar("$hi", il::const_(cpu.hi as u64, 32));
        state.set_scalar("$lo", il::const_(cpu.lo as u64, 32));
    } else {
        state.set_scalar("lr", il::const_(cpu.lr as u64, 32));
        state.set_scalar("ctr", il::const_(cpu.ctr as u64, 32));
        state.set_scalar("carry", il::const_(cpu.ca as u64, 1));
        for i in 0..32u8 { state.set_scalar(loc_name(arch, Loc::Cr(i)), il::const_(cpu.crbit(i as u32) as u64, 1)); }
    }
    let arch_rc: RC<dyn architecture::Architecture> = match arch {
        Arch::Mips => RC::new(architecture::Mips::new()),
        Arch::Mipsel => RC::new(architecture::Mipsel::new()),
        Arch::Ppc => RC::new(architecture::Ppc::new()),
    };
    let is_pad = |a: u64| -> bool {
        let a = a as u32;
        (a & 3 == 0) && ((a >= CODE + 4 * nwords as u32 && a < CODE + 4 * code_words_for(nwords) as u32) || (a >= FAR && a < FAR + 4 * FAR_WORDS as u32))
    };
    let mut driver = Driver::new(program.clone(), location, state, arch_rc);
    let mut steps = 0;
    let pc;
    loop {
        let at = driver.location().apply(driver.program()).map_err(|e| format!("{}", e))?.address();
        if let Some(a) = at { if a <= 0xffff_ffff && is_pad(a) { pc = a as u32; break; } }
        steps += 1;
        if steps > 4000 { return Err("did not reach a landing pad within 4000 IL steps".to_string()); }
        driver = driver.step().map_err(|e| format!("step: {}", e))?;
    }
    Ok((driver.state().clone(), pc))
}

/// every location in which the lifted code and the model differ: (where, expected, got)
fn compare(arch: Arch, exp: &Cpu, exp_pc: u32, st: &State, got_pc: u32) -> Vec<(String, String, String)> {
    let mut out = Vec::new();
    if exp_pc != got_pc { out.push(("pc".to_string(), format!("0x{:x}", exp_pc), format!("0x{:x}", got_pc))); }
    let mut check = |l: Loc, bits: usize, skip_value: bool| {
        let name = loc_name(arch, l);
        let e = exp.get(l);
        match st.get_scalar(&name) {
            None => out.push((name, format!("0x{:x}", e), "scalar vanished".to_string())),
            Some(c) => {
                if c.bits() != bits { out.push((name, format!("0x{:x} (width {})", e, bits), format!("width {} value 0x{:x}", c.bits(), c.value_u64().unwrap_or(u64::MAX)))); }
                else if !skip_value && c.value_u64() != Some(e as u64) { out.push((name, format!("0x{:x}", e), format!("0x{:x}", c.value_u64().unwrap_or(u64::MAX)))); }
            }
        }
    };
    for i in 0..32u8 { if arch.is_mips() && i == 0 { continue; } check(Loc::G(i), 32, false); }
    if arch.is_mips() {
        check(Loc::Hi, 32, exp.hilo_undef);
        check(Loc::Lo, 32, exp.hilo_undef);
    } else {
        check(Loc::Lr, 32, false);
        check(Loc::Ctr, 32, false);
        check(Loc::Ca, 1, false);
        for i in 0..32u8 { check(Loc::Cr(i), 1, (exp.cr_undef >> (31 - i as u32)) & 1 == 1); }
    }
    for i in 0..DATA_LEN {
        let got = match st.memory().load(DATA as u64 + i as u64, 8) { Ok(Some(c)) => c.value_u64().map(|v| format!("0x{:02x}", v)).unwrap_or("?".to_string()), Ok(None) => "no value".to_string(), Err(e) => format!("error {}", e) };
        let e = format!("0x{:02x}", exp.mem[i]);
        if got != e { out.push((format!("mem[0x{:x}]", DATA as usize + i), e, got)); }
    }
    out
}

fn esc(s: &str) -> String { s.replace('\\', "/").replace('"', "'").replace('`', "'").replace('\n', " ") }

fn state_json(arch: Arch, c: &Cpu, show: &[Loc], mem: bool) -> String {
    let mut v: Vec<String> = Vec::new();
    for &l in show {
        if arch.is_mips() && l == Loc::G(0) { continue; }
        match l { Loc::Ca | Loc::Cr(_) => v.push(format!("\"{}\":{}", loc_name(arch, l), c.get(l))), _ => v.push(format!("\"{}\":\"0x{:x}\"", loc_name(arch, l), c.get(l))) }
    }
    if mem { v.push(format!("\"mem@0x{:x}\":\"{}\"", DATA, c.mem.iter().map(|b| format!("{:02x}", b)).collect::<Vec<_>>().join(" "))); }
    format!("{{{}}}", v.join(","))
}

/// the model's own consistency: lwl+lwr / swl+swr in the canonical order access the unaligned word
fn selfcheck() -> Result<(), String> {
    for big in [true, false] {
        for k in 0u32..4 {
            let arch = if big { Arch::Mips } else { Arch::Mipsel };
            let mut c = base_state(arch, 0);
            let a = MID + k;
            c.r[T0 as usize] = a;
            c.r[T1 as usize] = 0x5555_5555;
            let (dl, dr) = if big { (0u32, 3u32) } else { (3, 0) };
            let want = mrd(&c, a, 4, big).unwrap();
            let pc = mips_run(&mut c, &[m_i(0x22, T1, T0, dl), m_i(0x26, T1, T0, dr)], big, false).map_err(|_| "lwl/lwr model refused".to_string())?;
            if c.r[T1 as usize] != want || pc != CODE + 8 { return Err(format!("lwl+lwr big={} k={}: 0x{:x} != 0x{:x}", big, k, c.r[T1 as usize], want)); }
            let mut c = base_state(arch, 0);
            let before = c.mem;
            c.r[T0 as usize] = a;
            c.r[T1 as usize] = 0xa1b2_c3d4;
            mips_run(&mut c, &[m_i(0x2a, T1, T0, dl), m_i(0x2e, T1, T0, dr)], big, false).map_err(|_| "swl/swr model refused".to_string())?;
            let mut want = base_state(arch, 0);
            want.mem = before;
            mwr(&mut want, a, 4, 0xa1b2_c3d4, big).unwrap();
            if c.mem != want.mem { return Err(format!("swl+swr big={} k={}: {:02x?} != {:02x?}", big, k, c.mem, want.mem)); }
        }
    }
    // rlwinm mask and srawi carry against the worked examples of the PEM
    if ppc_mask(0, 31) != 0xffff_ffff || ppc_mask(0, 0) != 0x8000_0000 || ppc_mask(31, 31) != 1 || ppc_mask(0, 29) != 0xffff_fffc || ppc_mask(30, 1) != 0xc000_0003 || ppc_mask(16, 15) != 0xffff_ffff {
        return Err("ppc_mask".to_string());
    }
    let mut c = base_state(Arch::Ppc, 0);
    c.r[4] = 0x9000_3000;
    ppc_run(&mut c, &[0x5486_103a]).map_err(|_| "rlwinm refused".to_string())?; // rlwinm r6,r4,2,0,29 (PEM example)
    if c.r[6] != 0x4000_c000 { return Err(format!("rlwinm example: 0x{:x}", c.r[6])); }
    Ok(())
}

/// CLASSIFICATION of a disagreement with the manual's model: Some(id) if and only if the observed final state and next pc are
/// EXACTLY what the deliberately defective reference model of the listed known defect `id` yields for this input (every
/// compared location: all GPRs, HI / LO, the memory window, the pc). Only called when the correct model disagrees, so a tag
/// means `differs from the manual, and differs in precisely the documented way`. Anything else stays untagged = a violation.
///   D3c: MIPS `jr rs` / `jalr [rd,] rs` read the target register after the delay-slot instruction has executed.
fn classify(arch: Arch, words: &[u32], st: &Cpu, observed: &State, observed_pc: u32) -> Option<&'static str> {
    if !arch.is_mips() { return None; }
    let mut alt = st.clone();
    match mips_run(&mut alt, words, arch.big(), true) {
        Ok(alt_pc) => if compare(arch, &alt, alt_pc, observed, observed_pc).is_empty() { Some("D3c") } else { None },
        Err(()) => None,
    }
}

fn main() {
    std::panic::set_hook(Box::new(|_| {}));
    if let Err(e) = selfcheck() { println!("{{\"model_selfcheck_failed\":\"{}\"}}", esc(&e)); std::process::exit(2); }
    let only = std::env::var("C02_ONLY").ok();
    let debug = std::env::var("C02_DEBUG").is_ok();
    let limit: u64 = std::env::var("C02_PRINT").ok().and_then(|s| s.parse().ok()).unwrap_or(3);
    let (mut evals, mut found, mut encodings, mut rejected, mut skipped) = (0u64, 0u64, 0u64, 0u64, 0u64);
    let mut rejected_examples: Vec<String> = Vec::new();
    let mut rejected_seen: Vec<String> = Vec::new();
    let mut rejected_ops: BTreeMap<String, u64> = BTreeMap::new();
    let mut per_op: BTreeMap<String, (u64, u64, u64, u64)> = BTreeMap::new(); // encodings, evaluations, UNTAGGED disagreements, printed untagged
    // disagreements classified as instances of a listed known defect: (op key, defect id) -> (count, printed); printed under their OWN cap
    let mut tagged: BTreeMap<(String, String), (u64, u64)> = BTreeMap::new();
    let mut tagged_total: BTreeMap<String, u64> = BTreeMap::new();
    let mut printed_asm: std::collections::BTreeSet<(String, String)> = std::collections::BTreeSet::new();
    for arch in [Arch::Mips, Arch::Mipsel, Arch::Ppc] {
        let cases = if arch.is_mips() { mips_cases() } else { ppc_cases() };
        let bases = [base_state(arch, 0), base_state(arch, 1)];
        for case in cases {
            let key = format!("{}.{}", arch.key(), case.op);
            if let Some(o) = &only { if !key.contains(o.as_str()) { continue; } }
            encodings += 1;
            per_op.entry(key.clone()).or_insert((0, 0, 0, 0)).0 += 1;
            let hex: Vec<String> = to_bytes(arch, &case.words).iter().map(|b| format!("{:02x}", b)).collect();
            let hex = hex.join(" ");
            let line = |st: &Cpu, diffs: &Vec<(String, String, String)>, tag: Option<&str>| -> String {
                let (w, x, g) = &diffs[0];
                let also: Vec<String> = diffs.iter().skip(1).take(8).map(|(w, x, g)| format!("\"{}: expected {} got {}\"", esc(w), esc(x), esc(g))).collect();
                let tagtxt = match tag { Some(d) => format!(",\"known_defect\":\"{}\"", d), None => String::new() };
                format!("{{\"witness\":true,\"op\":\"{}\",\"arch\":\"{}\",\"bytes\":\"{}\",\"asm\":\"{}\",\"state\":{},\"where\":\"{}\",\"expected\":\"{}\",\"got\":\"{}\",\"also\":[{}]{}}}",
                    key, arch.key(), hex, esc(&case.asm), state_json(arch, st, &case.show, case.mem), esc(w), esc(x), esc(g), also.join(","), tagtxt)
            };
            let mut report = |st: &Cpu, diffs: Vec<(String, String, String)>, per_op: &mut BTreeMap<String, (u64, u64, u64, u64)>, found: &mut u64| {
                *found += 1;
                let e = per_op.get_mut(&key).unwrap();
                e.2 += 1;
                // prefer different instruction texts among the printed examples of an op
                if e.3 < limit && !printed_asm.contains(&(key.clone(), case.asm.clone())) {
                    printed_asm.insert((key.clone(), case.asm.clone()));
                    e.3 += 1;
                    println!("{}", line(st, &diffs, None));
                }
            };
            // a disagreement that IS an instance of a listed known defect (see `classify`): counted and printed apart (own cap of
            // `limit` lines per op and defect), so that it can never use up the print budget of the untagged ones
            let mut report_tagged = |st: &Cpu, diffs: Vec<(String, String, String)>, defect: &str, tagged: &mut BTreeMap<(String, String), (u64, u64)>, tagged_total: &mut BTreeMap<String, u64>| {
                *tagged_total.entry(defect.to_string()).or_insert(0) += 1;
                let e = tagged.entry((key.clone(), defect.to_string())).or_insert((0, 0));
                e.0 += 1;
                if e.1 < limit { e.1 += 1; println!("{}", line(st, &diffs, Some(defect))); }
            };
            if debug { eprintln!("=== {} {} [{}]", key, case.asm, hex); }
            let lifted = catch_unwind(AssertUnwindSafe(|| lift(arch, &case.words, debug)));
            let (program, backing) = match lifted {
                Ok(Ok(p)) => p,
                Ok(Err(e)) => {
                    if e.contains("Sort") {
                        evals += 1; per_op.get_mut(&key).unwrap().1 += 1;
                        report(&bases[0], vec![("lifting".to_string(), "Ok".to_string(), format!("Err({})", e))], &mut per_op, &mut found);
                    } else {
                        rejected += 1;
                        if debug { eprintln!("REJECTED: {}", e); }
                        *rejected_ops.entry(key.clone()).or_insert(0) += 1;
                        // list one example per op key and error kind
                        let kind = case.op.clone();
                        let room = if arch.is_mips() { 4 } else { 12 };
                        if !rejected_seen.contains(&kind) && rejected_examples.len() < room {
                            rejected_seen.push(kind);
                            rejected_examples.push(format!("{{\"op\":\"{}\",\"bytes\":\"{}\",\"asm\":\"{}\",\"error\":\"{}\"}}", key, hex, esc(&case.asm), esc(&e)));
                        }
                    }
                    continue;
                }
                Err(_) => {
                    evals += 1; per_op.get_mut(&key).unwrap().1 += 1;
                    report(&bases[0], vec![("lifting".to_string(), "Ok".to_string(), "panic".to_string())], &mut per_op, &mut found);
                    continue;
                }
            };
            let mut states: Vec<Cpu> = Vec::new();
            for (ti, t) in case.tweaks.iter().enumerate() {
                for (bi, base) in bases.iter().enumerate() {
                    if bi == 1 && !case.both && ti != 0 { continue; }
                    let mut s = base.clone();
                    for &(l, v) in t { if !(arch.is_mips() && l == Loc::G(0)) { s.set(l, v); } }
                    states.push(s);
                }
            }
            for st in &states {
                let mut exp = st.clone();
                let r = if arch.is_mips() { mips_run(&mut exp, &case.words, arch.big(), false) } else { ppc_run(&mut exp, &case.words) };
                let exp_pc = match r { Ok(pc) => pc, Err(()) => { skipped += 1; continue; } };
                evals += 1;
                per_op.get_mut(&key).unwrap().1 += 1;
                let got = catch_unwind(AssertUnwindSafe(|| run(arch, &program, &backing, case.words.len(), st)));
                match got {
                    Ok(Ok((state, pc))) => {
                        let d = compare(arch, &exp, exp_pc, &state, pc);
                        if !d.is_empty() {
                            match classify(arch, &case.words, st, &state, pc) {
                                Some(defect) => report_tagged(st, d, defect, &mut tagged, &mut tagged_total),
                                None => report(st, d, &mut per_op, &mut found),
                            }
                        }
                    }
                    Ok(Err(e)) => report(st, vec![("execution".to_string(), format!("reaches the landing pad 0x{:x}", exp_pc), e)], &mut per_op, &mut found),
                    Err(_) => report(st, vec![("execution".to_string(), format!("reaches the landing pad 0x{:x}", exp_pc), "panic".to_string())], &mut per_op, &mut found),
                }
            }
        }
    }
    let per: Vec<String> = per_op.iter().map(|(k, v)| format!("\"{}\":{{\"encodings\":{},\"evaluations\":{},\"disagreements\":{}}}", k, v.0, v.1, v.2)).collect();
    let rej: Vec<String> = rejected_ops.iter().map(|(k, v)| format!("\"{}\":{}", k, v)).collect();
    let tg: Vec<String> = tagged_total.iter().map(|(k, v)| format!("\"{}\":{}", k, v)).collect();
    let tgo: Vec<String> = tagged.iter().map(|((k, d), v)| format!("\"{}:{}\":{}", d, k, v.0)).collect();
    println!("{{\"summary\":true,\"evaluations\":{},\"encodings\":{},\"disagreements\":{},\"tagged_known_defect\":{{{}}},\"tagged_by_op\":{{{}}},\"skipped_undefined\":{},\"rejected_encodings\":{},\"rejected_by_op\":{{{}}},\"rejected_examples\":[{}],\"per_op\":{{{}}}}}",
        evals, encodings, found, tg.join(","), tgo.join(","), skipped, rejected, rej.join(","), rejected_examples.join(","), per.join(","));
}
