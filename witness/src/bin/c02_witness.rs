fn main() {
    println!("stub");
}
