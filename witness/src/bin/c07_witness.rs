//! Bounded witness search for unit C07 (labelled bounded, never counted as proved): small IL programs
//! (1-3 blocks; Assign / Store / Load / Branch / Nop / Intrinsic over 1/8/16/32-bit scalars; unconditional and
//! conditional edges on 1-bit scalars), small initial states (scalars set / unset, a few mapped bytes, both
//! endiannesses), `Driver::step` run up to 6 times and compared AFTER EVERY STEP with an independent interpreter
//! of the IL semantics written here (scalar map + byte map; nothing of falcon::executor is used by the model):
//! the new location, EVERY scalar of a fixed universe, EVERY byte of a window, and the kind of error.
//! Included: the single conditional out-edge (guard 0 and 1, after an instruction and on an empty block), an
//! undefined scalar, an unmapped load, a zero divisor, an intrinsic, a store of a 1-bit value, an indirect branch
//! to an existing and to a missing address, non-exclusive guards (any allowed successor is accepted).
use falcon::architecture;
use falcon::architecture::Endian;
use falcon::executor::{Driver, Memory, State};
use falcon::il::*;
use falcon::RC;
use std::collections::BTreeMap;
use std::panic::{catch_unwind, AssertUnwindSafe};

// ---------------------------------------------------------------- the model
#[derive(Clone, Debug, PartialEq)]
enum Fault { Scalar(String), DivZero, Sort, Unmapped, Intrinsic, Width, NoGuard, AnyError }

#[derive(Clone, Debug, PartialEq, Eq, PartialOrd, Ord)]
enum Loc { I(usize, usize), E(usize, usize), B(usize) }

#[derive(Clone)]
struct Sigma { scalars: BTreeMap<String, (usize, u64)>, mem: BTreeMap<u64, u8>, big: bool }

fn mask(bits: usize) -> u64 { if bits >= 64 { u64::MAX } else { (1u64 << bits) - 1 } }

fn eval(e: &Expression, s: &Sigma) -> Result<(usize, u64), Fault> {
    let bin = |l: &Expression, r: &Expression| -> Result<(usize, u64, u64), Fault> {
        let (wl, vl) = eval(l, s)?;
        let (wr, vr) = eval(r, s)?;
        if wl != wr { return Err(Fault::Sort); }
        Ok((wl, vl, vr))
    };
    match e {
        Expression::Scalar(x) => s.scalars.get(x.name()).cloned().ok_or(Fault::Scalar(x.name().to_string())),
        Expression::Constant(c) => Ok((c.bits(), c.value_u64().unwrap())),
        Expression::Add(l, r) => { let (w, a, b) = bin(l, r)?; Ok((w, a.wrapping_add(b) & mask(w))) }
        Expression::Sub(l, r) => { let (w, a, b) = bin(l, r)?; Ok((w, a.wrapping_sub(b) & mask(w))) }
        Expression::Divu(l, r) => { let (w, a, b) = bin(l, r)?; if b == 0 { Err(Fault::DivZero) } else { Ok((w, a / b)) } }
        Expression::Xor(l, r) => { let (w, a, b) = bin(l, r)?; Ok((w, a ^ b)) }
        Expression::And(l, r) => { let (w, a, b) = bin(l, r)?; Ok((w, a & b)) }
        Expression::Or(l, r) => { let (w, a, b) = bin(l, r)?; Ok((w, a | b)) }
        Expression::Mul(l, r) => { let (w, a, b) = bin(l, r)?; Ok((w, a.wrapping_mul(b) & mask(w))) }
        Expression::Cmpeq(l, r) => { let (_, a, b) = bin(l, r)?; Ok((1, (a == b) as u64)) }
        Expression::Cmpltu(l, r) => { let (_, a, b) = bin(l, r)?; Ok((1, (a < b) as u64)) }
        Expression::Zext(b, x) => { let (w, v) = eval(x, s)?; if *b <= w { Err(Fault::Sort) } else { Ok((*b, v)) } }
        Expression::Trun(b, x) => { let (w, v) = eval(x, s)?; if *b >= w { Err(Fault::Sort) } else { Ok((*b, v & mask(*b))) } }
        _ => panic!("expression form not used by the enumerator"),
    }
}

enum Flow { Fall, Branch(u64) }

fn exec(op: &Operation, s: &mut Sigma) -> Result<Flow, Fault> {
    match op {
        Operation::Assign { dst, src } => { let v = eval(src, s)?; s.scalars.insert(dst.name().to_string(), v); Ok(Flow::Fall) }
        Operation::Store { index, src } => {
            let (w, v) = eval(src, s)?;
            let (_, a) = eval(index, s)?;
            if w % 8 != 0 || w == 0 { return Err(Fault::Width); }
            let n = w / 8;
            for i in 0..n {
                let byte = if s.big { (v >> (8 * (n - 1 - i))) & 0xff } else { (v >> (8 * i)) & 0xff };
                s.mem.insert(a + i as u64, byte as u8);
            }
            Ok(Flow::Fall)
        }
        Operation::Load { dst, index } => {
            let (_, a) = eval(index, s)?;
            if dst.bits() % 8 != 0 || dst.bits() == 0 { return Err(Fault::Width); }
            let n = dst.bits() / 8;
            let mut v = 0u64;
            for i in 0..n {
                let byte = *s.mem.get(&(a + i as u64)).ok_or(Fault::Unmapped)? as u64;
                v |= if s.big { byte << (8 * (n - 1 - i)) } else { byte << (8 * i) };
            }
            s.scalars.insert(dst.name().to_string(), (dst.bits(), v));
            Ok(Flow::Fall)
        }
        Operation::Branch { target } => { let (_, a) = eval(target, s)?; Ok(Flow::Branch(a)) }
        Operation::Intrinsic { .. } => Err(Fault::Intrinsic),
        Operation::Nop { .. } => Ok(Flow::Fall),
    }
}

/// the model of a function: instruction lists per block, guarded edges, addresses
struct Model { blocks: Vec<Vec<(usize, Operation, Option<u64>)>>, edges: Vec<(usize, usize, Option<Expression>)> }

impl Model {
    fn start(&self, b: usize) -> Loc { match self.blocks[b].first() { Some(i) => Loc::I(b, i.0), None => Loc::B(b) } }
    /// what may happen when control leaves block b in state s: the set of allowed successor edges / errors
    fn select(&self, b: usize, s: &Sigma) -> (Vec<Loc>, Vec<Fault>) {
        let out: Vec<_> = self.edges.iter().filter(|e| e.0 == b).collect();
        let mut ok = vec![];
        let mut errs = vec![];
        let mut all_blocked = true;
        for e in &out {
            match &e.2 {
                None => { all_blocked = false; if out.len() == 1 { ok.push(Loc::E(e.0, e.1)); } else { errs.push(Fault::AnyError); } }
                Some(c) => match eval(c, s) {
                    Ok((_, 1)) => { all_blocked = false; ok.push(Loc::E(e.0, e.1)); }
                    Ok(_) => {}
                    Err(f) => { all_blocked = false; errs.push(f); }
                },
            }
        }
        if all_blocked { errs.push(Fault::NoGuard); }
        (ok, errs)
    }
}

fn fault_matches(e: &falcon::Error, f: &Fault) -> bool {
    match (e, f) {
        (falcon::Error::ExecutorScalar(n), Fault::Scalar(m)) => n == m,
        (falcon::Error::DivideByZero, Fault::DivZero) => true,
        (falcon::Error::Sort, Fault::Sort) => true,
        (falcon::Error::ExecutorInvalidAddress, Fault::Unmapped) => true,
        (falcon::Error::UnhandledIntrinsic(_), Fault::Intrinsic) => true,
        (falcon::Error::ExecutorNoValidLocation, Fault::NoGuard) => true,
        (_, Fault::Width) => true,
        (_, Fault::AnyError) => true,
        _ => false,
    }
}

const NAMES: [(&str, usize); 11] = [("x", 8), ("y", 16), ("z", 32), ("w", 16), ("c", 1), ("d", 8), ("a", 32), ("zz", 8), ("temp_0x0", 8), ("v", 8), ("u", 8)];
const WINDOW: std::ops::Range<u64> = 0x0c..0x2a;

fn state_diff(st: &State, s: &Sigma) -> Option<String> {
    for (n, _) in NAMES.iter() {
        let got = st.get_scalar(n).map(|c| (c.bits(), c.value_u64().unwrap()));
        let exp = s.scalars.get(*n).cloned();
        if got != exp { return Some(format!("scalar {}: got {:?}, expected {:?}", n, got, exp)); }
    }
    for a in WINDOW {
        let got = st.memory().load(a, 8).unwrap().map(|c| c.value_u64().unwrap() as u8);
        let exp = s.mem.get(&a).cloned();
        if got != exp { return Some(format!("byte 0x{:x}: got {:?}, expected {:?}", a, got, exp)); }
    }
    None
}

fn to_loc(l: &ProgramLocation) -> Loc {
    match l.function_location() {
        FunctionLocation::Instruction(b, i) => Loc::I(*b, *i),
        FunctionLocation::Edge(h, t) => Loc::E(*h, *t),
        FunctionLocation::EmptyBlock(b) => Loc::B(*b),
    }
}

fn main() {
    std::panic::set_hook(Box::new(|_| {}));
    let mut found = 0usize;
    let mut evals = 0u64;
    let mut per_kind: BTreeMap<String, usize> = Default::default();

    let k8 = |v: u64| expr_const(v, 8);
    let sc = |n: &str, b: usize| expr_scalar(n, b);
    // instruction templates
    let templates: Vec<(&str, Operation)> = vec![
        ("x=5", Operation::assign(scalar("x", 8), k8(5))),
        ("x=x+1", Operation::assign(scalar("x", 8), Expression::add(sc("x", 8), k8(1)).unwrap())),
        ("y=0x1234", Operation::assign(scalar("y", 16), expr_const(0x1234, 16))),
        ("z=0xdeadbeef", Operation::assign(scalar("z", 32), expr_const(0xdeadbeef, 32))),
        ("c=(x==5)", Operation::assign(scalar("c", 1), Expression::cmpeq(sc("x", 8), k8(5)).unwrap())),
        ("x=10/d", Operation::assign(scalar("x", 8), Expression::divu(k8(10), sc("d", 8)).unwrap())),
        ("[0x10]=y", Operation::store(expr_const(0x10, 32), sc("y", 16))),
        ("[a]=z", Operation::store(sc("a", 32), sc("z", 32))),
        ("[0x11]=x", Operation::store(expr_const(0x11, 32), sc("x", 8))),
        ("[0x10]=c", Operation::store(expr_const(0x10, 32), sc("c", 1))),
        ("w=[0x10]", Operation::load(scalar("w", 16), expr_const(0x10, 32))),
        ("x=[0x11]", Operation::load(scalar("x", 8), expr_const(0x11, 32))),
        ("z=[0x20]", Operation::load(scalar("z", 32), expr_const(0x20, 32))),
        ("z=[a-2]", Operation::load(scalar("z", 32), Expression::sub(sc("a", 32), expr_const(2, 32)).unwrap())),
        ("br 0x2000", Operation::branch(expr_const(0x2000, 32))),
        ("br 0x7000", Operation::branch(expr_const(0x7000, 32))),
        // a scalar with a lifter-temporary name: it must survive a Branch like any other scalar
        ("temp_0x0=7", Operation::assign(scalar("temp_0x0", 8), k8(7))),
        // equal operands: the value is 0 only if the operand HAS a value (u is undefined in some initial states, d may be 0)
        ("v=u^u", Operation::assign(scalar("v", 8), Expression::xor(sc("u", 8), sc("u", 8)).unwrap())),
        ("v=(10/d)^(10/d)", Operation::assign(scalar("v", 8), Expression::xor(Expression::divu(k8(10), sc("d", 8)).unwrap(), Expression::divu(k8(10), sc("d", 8)).unwrap()).unwrap())),
        ("v=0&u", Operation::assign(scalar("v", 8), Expression::and(k8(0), sc("u", 8)).unwrap())),
        ("v=0&(10/d)", Operation::assign(scalar("v", 8), Expression::and(k8(0), Expression::divu(k8(10), sc("d", 8)).unwrap()).unwrap())),
        ("v=u&0", Operation::assign(scalar("v", 8), Expression::and(sc("u", 8), k8(0)).unwrap())),
        ("v=u*0", Operation::assign(scalar("v", 8), Expression::mul(sc("u", 8), k8(0)).unwrap())),
        ("nop", Operation::nop()),
        ("intrinsic", Operation::intrinsic(Intrinsic::new("sys", "syscall", vec![], None, None, vec![0x0f, 0x05]))),
    ];
    let guard = |n: &str, v: u64| Expression::cmpeq(sc(n, 1), expr_const(v, 1)).unwrap();
    let guard8 = |n: &str, v: u64| Expression::cmpeq(sc(n, 8), k8(v)).unwrap();
    // edge patterns: (number of blocks, edges)
    let patterns: Vec<(&str, usize, Vec<(usize, usize, Option<Expression>)>)> = vec![
        ("no-edge", 1, vec![]),
        ("uncond", 2, vec![(0, 1, None)]),
        ("single-cond", 2, vec![(0, 1, Some(guard("c", 1)))]),
        ("exclusive", 3, vec![(0, 1, Some(guard("c", 1))), (0, 2, Some(guard("c", 0)))]),
        ("two-guards", 3, vec![(0, 1, Some(guard("c", 1))), (0, 2, Some(guard8("d", 1)))]),
        ("uncond+cond", 3, vec![(0, 1, None), (0, 2, Some(guard("c", 1)))]),
        ("loop", 2, vec![(0, 1, Some(guard("c", 1))), (1, 0, None)]),
        ("div-guard", 2, vec![(0, 1, Some(Expression::cmpeq(Expression::divu(k8(10), sc("d", 8)).unwrap(), k8(10)).unwrap()))]),
    ];

    // block 0 bodies: every sequence of 0..=2 templates; block 1 holds one instruction at address 0x2000 (or is
    // empty, variant), block 2 a nop
    let mut bodies: Vec<Vec<usize>> = vec![vec![]];
    for i in 0..templates.len() { bodies.push(vec![i]); }
    for i in 0..templates.len() { for j in 0..templates.len() { bodies.push(vec![i, j]); } }

    for (pname, nb, edges) in &patterns {
        for body in &bodies {
            for b1_empty in [false, true] {
                if *nb < 2 && b1_empty { continue; }
                // thin out: the empty-block-1 variant only for short bodies
                if b1_empty && body.len() == 2 { continue; }
                // build the function and the model side by side
                let mut cfg = ControlFlowGraph::new();
                let mut model = Model { blocks: vec![], edges: edges.clone() };
                for b in 0..*nb {
                    let blk = cfg.new_block().unwrap();
                    let mut mb = vec![];
                    let ops: Vec<Operation> = match b {
                        0 => body.iter().map(|i| templates[*i].1.clone()).collect(),
                        1 => if b1_empty { vec![] } else { vec![templates[1].1.clone()] },
                        _ => vec![Operation::nop()],
                    };
                    for op in ops {
                        match &op {
                            Operation::Assign { dst, src } => blk.assign(dst.clone(), src.clone()),
                            Operation::Store { index, src } => blk.store(index.clone(), src.clone()),
                            Operation::Load { dst, index } => blk.load(dst.clone(), index.clone()),
                            Operation::Branch { target } => blk.branch(target.clone()),
                            Operation::Intrinsic { intrinsic } => blk.intrinsic(intrinsic.clone()),
                            Operation::Nop { .. } => blk.nop(),
                        }
                        let idx = blk.instructions().last().unwrap().index();
                        let addr = if b == 1 { Some(0x2000u64) } else { None };
                        blk.instruction_mut(idx).unwrap().set_address(addr);
                        mb.push((idx, op, addr));
                    }
                    model.blocks.push(mb);
                }
                for (h, t, c) in edges {
                    match c { Some(c) => cfg.conditional_edge(*h, *t, c.clone()).unwrap(), None => cfg.unconditional_edge(*h, *t).unwrap() }
                }
                cfg.set_entry(0).unwrap();
                let function = Function::new(0x1000, cfg);
                let mut program = Program::new();
                program.add_function(function);
                let program = RC::new(program);

                // initial states
                for cinit in [None, Some(0u64), Some(1)] {
                    for dinit in [0u64, 1] {
                        for xinit in [None, Some(5u64)] {
                            for (mem_init, big) in [(false, false), (true, false), (true, true)] {
                                let mut sigma = Sigma { scalars: BTreeMap::new(), mem: BTreeMap::new(), big };
                                let mut st = State::new(Memory::new(if big { Endian::Big } else { Endian::Little }));
                                let set = |n: &str, bits: usize, v: u64, sigma: &mut Sigma, st: &mut State| {
                                    sigma.scalars.insert(n.to_string(), (bits, v));
                                    st.set_scalar(n, const_(v, bits));
                                };
                                if let Some(c) = cinit { set("c", 1, c, &mut sigma, &mut st); }
                                set("d", 8, dinit, &mut sigma, &mut st);
                                if let Some(x) = xinit { set("x", 8, x, &mut sigma, &mut st); }
                                set("a", 32, 0x12, &mut sigma, &mut st);
                                set("y", 16, 0xa1b2, &mut sigma, &mut st);
                                set("z", 32, 0x01020304, &mut sigma, &mut st);
                                if mem_init {
                                    for (i, byte) in [0x11u8, 0x22, 0x33, 0x44].iter().enumerate() {
                                        sigma.mem.insert(0x10 + i as u64, *byte);
                                        st.memory_mut().store(0x10 + i as u64, const_(*byte as u64, 8)).unwrap();
                                    }
                                }
                                let mut loc = model.start(0);
                                let fl = match &loc { Loc::I(b, i) => FunctionLocation::Instruction(*b, *i), Loc::B(b) => FunctionLocation::EmptyBlock(*b), Loc::E(h, t) => FunctionLocation::Edge(*h, *t) };
                                let mut driver = Driver::new(program.clone(), ProgramLocation::new(Some(0), fl), st, RC::new(architecture::Mips::new()));
                                let desc = format!("{} b0=[{}] b1_empty={} c={:?} d={} x={:?} mem={} big={}", pname,
                                    body.iter().map(|i| templates[*i].0).collect::<Vec<_>>().join("; "), b1_empty, cinit, dinit, xinit, mem_init, big);
                                for stepno in 0..6 {
                                    evals += 1;
                                    // the model's step: the set of allowed outcomes
                                    let mut s1 = sigma.clone();
                                    let mut ok_locs: Vec<Loc> = vec![];
                                    let mut errs: Vec<Fault> = vec![];
                                    match &loc {
                                        Loc::I(b, i) => {
                                            let pos = model.blocks[*b].iter().position(|x| x.0 == *i).unwrap();
                                            match exec(&model.blocks[*b][pos].1, &mut s1) {
                                                Err(f) => { errs.push(f); s1 = sigma.clone(); }
                                                Ok(Flow::Fall) => {
                                                    if pos + 1 < model.blocks[*b].len() { ok_locs.push(Loc::I(*b, model.blocks[*b][pos + 1].0)); }
                                                    else { let (o, e) = model.select(*b, &s1); ok_locs = o; errs = e; }
                                                }
                                                Ok(Flow::Branch(a)) => {
                                                    for (bi, blk) in model.blocks.iter().enumerate() {
                                                        for ins in blk { if ins.2 == Some(a) { ok_locs.push(Loc::I(bi, ins.0)); } }
                                                    }
                                                    if ok_locs.is_empty() { errs.push(Fault::AnyError); }
                                                }
                                            }
                                        }
                                        Loc::E(_, t) => ok_locs.push(model.start(*t)),
                                        Loc::B(b) => { let (o, e) = model.select(*b, &s1); ok_locs = o; errs = e; }
                                    }
                                    let before = driver.clone();
                                    let r = catch_unwind(AssertUnwindSafe(move || driver.step()));
                                    let mut bad: Option<String> = None;
                                    let mut next: Option<Driver> = None;
                                    match r {
                                        Err(_) => bad = Some("PANIC".to_string()),
                                        Ok(Ok(d)) => {
                                            let l2 = to_loc(d.location());
                                            let fi = d.location().apply(d.program()).ok().and_then(|x| x.function().index());
                                            if fi != Some(0) { bad = Some(format!("function index {:?} (the location must apply, in function 0)", fi)); }
                                            else if !ok_locs.contains(&l2) { bad = Some(format!("moved to {:?}; allowed successors {:?}, allowed errors {:?}", l2, ok_locs, errs)); }
                                            else if let Some(diff) = state_diff(d.state(), &s1) { bad = Some(format!("state after the step: {}", diff)); }
                                            loc = l2;
                                            sigma = s1;
                                            next = Some(d);
                                        }
                                        Ok(Err(e)) => {
                                            if !errs.iter().any(|f| fault_matches(&e, f)) {
                                                bad = Some(format!("Err({:?}); allowed successors {:?}, allowed errors {:?}", e, ok_locs, errs));
                                            }
                                        }
                                    }
                                    if let Some(what) = bad {
                                        let kind = what.split(|c| c == ' ' || c == '(').next().unwrap_or("?").to_string();
                                        let c = per_kind.entry(kind).or_insert(0);
                                        *c += 1;
                                        if *c <= 3 {
                                            println!("{{\"witness\":true,\"op\":\"step\",\"program\":\"{}\",\"step\":{},\"at\":\"{:?}\",\"disagreement\":\"{}\"}}",
                                                desc.replace('"', "'"), stepno, to_loc(before.location()), what.replace('"', "'"));
                                        }
                                        found += 1;
                                        break;
                                    }
                                    match next { Some(d) => driver = d, None => break }
                                }
                            }
                        }
                    }
                }
            }
        }
    }
    let kinds = per_kind.iter().map(|(k, v)| format!("\"{}\":{}", k, v)).collect::<Vec<_>>().join(",");
    println!("{{\"summary\":true,\"evaluations\":{},\"disagreements\":{},\"kinds\":{{{}}}}}", evals, found, kinds);
}
