//! Bounded witness search for unit C08 (labelled bounded, never counted as proved): every sequence of up to 3 stores
//! of 1/2/4-byte values (and a sample of 8-byte ones) inside a 12-byte window that straddles a page boundary, both
//! endiannesses, with and without a backing; then every load (8..64 bits) in the window, clone independence,
//! equality and permissions, compared with a byte-map model over the backing.
use falcon::architecture::Endian;
use falcon::il;
use falcon::memory::backing;
use falcon::memory::paged::Memory;
use falcon::memory::MemoryPermissions as P;
use std::collections::BTreeMap;
use std::panic::{catch_unwind, AssertUnwindSafe};
use std::rc::Rc;

const LO: u64 = 0x3fa; // the page boundary 0x400 is inside the window
const HI: u64 = 0x406;

fn bytes_of(v: u64, n: usize, big: bool) -> Vec<u8> {
    let le: Vec<u8> = (0..n).map(|i| (v >> (8 * i)) as u8).collect();
    if big { le.into_iter().rev().collect() } else { le }
}
fn value(bytes: &[u8], big: bool) -> u128 {
    let mut v = 0u128;
    if big { for b in bytes { v = (v << 8) | *b as u128; } } else { for b in bytes.iter().rev() { v = (v << 8) | *b as u128; } }
    v
}

fn deep() -> bool { std::env::var("VERIF_TIER").map(|t| t == "thorough").unwrap_or(false) } // thorough tier: wider bounds
fn main() {
    std::panic::set_hook(Box::new(|_| {}));
    let mut found = 0usize;
    let mut evals = 0u64;
    let mut per_op: BTreeMap<String, usize> = BTreeMap::new();
    macro_rules! report {
        ($op:expr, $hist:expr, $big:expr, $bk:expr, $what:expr, $got:expr, $exp:expr) => {{
            let c = per_op.entry($op.to_string()).or_insert(0);
            *c += 1;
            if *c <= 3 {
                println!("{{\"witness\":true,\"op\":\"{}\",\"endian\":\"{}\",\"backing\":{},\"stores\":\"{:?}\",\"query\":\"{}\",\"got\":\"{}\",\"expected\":\"{}\"}}",
                    $op, if $big { "big" } else { "little" }, $bk, $hist, $what, format!("{:?}", $got).replace('"', "'"), format!("{:?}", $exp).replace('"', "'"));
            }
            found += 1;
        }};
    }
    let mut stores: Vec<(u64, usize)> = vec![];
    for a in LO..HI { for n in [1usize, 2, 4] { if a + n as u64 <= HI + 2 { stores.push((a, n)); } } }
    for a in [LO, LO + 1, 0x3fc, 0x3fd, 0x400] { stores.push((a, 8)); }
    let ns = stores.len();
    let mut counter = 0u64;
    for len in 0..=3usize {
        let total = ns.pow(len as u32);
        for code in 0..total {
            if len == 3 && !deep() && code % 7 != 0 { continue; } // 1 in 7 of the 3-store sequences
            let mut idx = code;
            let mut hist = vec![];
            for _ in 0..len { hist.push(stores[idx % ns]); idx /= ns; }
            for big in [false, true] { for with_backing in [false, true] {
                let endian = || if big { Endian::Big } else { Endian::Little };
                let mut model: BTreeMap<u64, u8> = BTreeMap::new();
                let mut perm_model: BTreeMap<u64, u32> = BTreeMap::new();
                let mut mem: Memory<il::Constant> = if with_backing {
                    let mut b = backing::Memory::new(endian());
                    // backing: bytes at 0x3fc..0x402 (READ) and one byte at 0x404 (READ|EXECUTE)
                    b.set_memory(0x3fc, vec![0xb0, 0xb1, 0xb2, 0xb3, 0xb4, 0xb5], P::READ);
                    b.set_memory(0x404, vec![0xbf], P::READ | P::EXECUTE);
                    for (i, v) in [0xb0u8, 0xb1, 0xb2, 0xb3, 0xb4, 0xb5].iter().enumerate() { model.insert(0x3fc + i as u64, *v); perm_model.insert(0x3fc + i as u64, P::READ.bits()); }
                    model.insert(0x404, 0xbf); perm_model.insert(0x404, (P::READ | P::EXECUTE).bits());
                    Memory::new_with_backing(endian(), Rc::new(b))
                } else { Memory::new(endian()) };
                let perms_before: Vec<Option<u32>> = ((LO - 2)..(HI + 4)).map(|x| mem.permissions(x).map(|p| p.bits())).collect();
                for (x, exp) in ((LO - 2)..(HI + 4)).zip(perms_before.iter()) {
                    if *exp != perm_model.get(&x).cloned() { report!("permissions", hist, big, with_backing, format!("permissions({:#x}) before any store", x), exp, perm_model.get(&x)); }
                }
                let mut ok_build = true;
                for (a, n) in &hist {
                    counter = counter.wrapping_mul(6364136223846793005).wrapping_add(1442695040888963407);
                    let v = if *n == 8 { counter | 0x0101010101010101 } else { (counter >> 13) & ((1u64 << (8 * n)) - 1) | 0x01 };
                    let c = il::const_(v, n * 8);
                    let snapshot = mem.clone();
                    let r = catch_unwind(AssertUnwindSafe(|| mem.store(*a, c).is_ok()));
                    evals += 1;
                    if !matches!(r, Ok(true)) { report!("store", hist, big, with_backing, format!("store({:#x}, {} bytes)", a, n), r.ok(), "Ok"); ok_build = false; break; }
                    // clone independence: the snapshot still reads the old bytes
                    for x in (LO - 1)..(HI + 3) {
                        evals += 1;
                        let e = model.get(&x).map(|b| (8usize, *b as u128));
                        let g = catch_unwind(AssertUnwindSafe(|| snapshot.load(x, 8).ok().flatten().map(|c| (c.bits(), c.value_u128().unwrap()))));
                        match g { Ok(v) if v == e => {}, other => report!("clone", hist, big, with_backing, format!("clone taken before store({:#x},{}B): load({:#x}, 8)", a, n, x), other.ok(), e) }
                    }
                    for (i, b) in bytes_of(v, *n, big).iter().enumerate() { model.insert(a + i as u64, *b); }
                }
                if !ok_build { continue; }
                // loads
                for x in (LO - 2)..(HI + 4) {
                    for bits in [8usize, 16, 24, 32, 64] {
                        evals += 1;
                        let nb = bits / 8;
                        let bytes: Option<Vec<u8>> = (0..nb).map(|i| model.get(&(x + i as u64)).cloned()).collect();
                        let e: Option<(usize, u128)> = bytes.map(|b| (bits, value(&b, big)));
                        let g = catch_unwind(AssertUnwindSafe(|| mem.load(x, bits).map(|o| o.map(|c| (c.bits(), c.value_u128().unwrap()))).map_err(|e| e.to_string())));
                        match g { Ok(Ok(v)) if v == e => {}, other => report!("load", hist, big, with_backing, format!("load({:#x}, {})", x, bits), other.ok(), e) }
                    }
                    // stores never change reported permissions
                    evals += 1;
                    let p = mem.permissions(x).map(|p| p.bits());
                    if p != perm_model.get(&x).cloned() { report!("permissions", hist, big, with_backing, format!("permissions({:#x}) after the stores", x), p, perm_model.get(&x)); }
                }
                // equality: reflexive on clones; a differing memory is not equal
                evals += 1;
                let c2 = mem.clone();
                if !(mem == c2) { report!("eq", hist, big, with_backing, "m == m.clone()", false, true); }
                if len <= 1 {
                    // set_permissions over a range: reported for every address in it, loads unaffected
                    for (pa, pl) in [(0x3fe_u64, 4u64), (0x400, 1), (0x3fb, 9), (0x10400, 0x400)] {
                        let mut m3 = mem.clone();
                        let r = catch_unwind(AssertUnwindSafe(|| m3.set_permissions(pa, pl, P::WRITE)));
                        evals += 1;
                        if r.is_err() { report!("set_permissions", hist, big, with_backing, format!("set_permissions({:#x},{:#x})", pa, pl), "panic", "no panic"); continue; }
                        for x in pa..(pa + pl).min(pa + 16) {
                            let p = m3.permissions(x).map(|p| p.bits());
                            if p != Some(P::WRITE.bits()) { report!("set_permissions", hist, big, with_backing, format!("set_permissions({:#x},{:#x},WRITE); permissions({:#x})", pa, pl, x), p, Some(P::WRITE.bits())); }
                        }
                        for x in (LO - 1)..(HI + 3) {
                            let e = model.get(&x).map(|b| *b as u128);
                            let g = m3.load(x, 8).ok().flatten().map(|c| c.value_u128().unwrap());
                            if g != e { report!("set_permissions", hist, big, with_backing, format!("set_permissions({:#x},{:#x}); load({:#x},8)", pa, pl, x), g, e); }
                        }
                    }
                }
            } }
        }
    }
    let po: Vec<String> = per_op.iter().map(|(k, v)| format!("\"{}\":{}", k, v)).collect();
    println!("{{\"summary\":true,\"evaluations\":{},\"disagreements\":{},\"per_op\":{{{}}}}}", evals, found, po.join(","));
}
