#!/usr/bin/env python3
"""setup: nothing to build (Python + pre-installed Verus). Verifies the tools are present and warms Verus."""
import shutil, subprocess, sys, os, tempfile
ok = True
for t in ("verus", "python3"):
    if shutil.which(t) is None:
        print("missing tool:", t); ok = False
d = tempfile.mkdtemp()
p = os.path.join(d, "w.rs")
open(p, "w").write("use vstd::prelude::*;\nverus!{ proof fn w() ensures 1 + 1 == 2int {} }\nfn main(){}\n")
r = subprocess.run(["verus", p], capture_output=True, text=True)
print(r.stdout.strip().split("\n")[-1] if r.stdout.strip() else r.stderr[-300:])
ok = ok and r.returncode == 0
shutil.rmtree(d, ignore_errors=True)
os.makedirs(os.path.join(os.path.dirname(os.path.dirname(os.path.abspath(__file__))), "evidence"), exist_ok=True)
sys.exit(0 if ok else 1)
