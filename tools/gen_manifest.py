#!/usr/bin/env python3
"""Regenerates MANIFEST.json from units/*/meta.json (claimed) + tools/not_applicable.json."""
import json, os, glob
V = os.path.dirname(os.path.dirname(os.path.abspath(__file__)))
checks = []
claimed = set()
READY = set(json.load(open(os.path.join(V, 'tools', 'ready_units.json'))))
for mp in sorted(glob.glob(os.path.join(V, "units", "*", "meta.json"))):
    m = json.load(open(mp))
    if os.path.basename(os.path.dirname(mp)) not in READY:
        continue  # tools/ready_units.json is edited by hand once a unit is green on /repo and reviewed
    unit = os.path.basename(os.path.dirname(mp))
    pid = m["property"]
    claimed.add(pid)
    checks.append({
        "property_id": pid,
        "quick_cmd": "./check %s --tier quick" % unit,
        "thorough_cmd": "./check %s --tier thorough" % unit,
        "evidence_file": "/verif/evidence/%s.json" % pid,
        "replay_cmd_template": "./check %s --replay {path}" % unit,
        "engine": "verus-contracts",
        "level_claimed": {"category": "proof", "text": m["level_text"], "design_ref": m.get("design_ref", "DESIGN.md §5")},
        "level_note": m["level_note"],
        "technique": m.get("technique", "contract-based deductive verification (Verus) of functions extracted from /repo on every run"),
    })
na = json.load(open(os.path.join(V, "tools", "not_applicable.json")))
man = {
    "version": 1,
    "setup_cmd": "python3 tools/setup.py",
    "hooks": {
        "guard": "falcon_verif",
        "enable": "none needed: the checks extract function text from /repo/lib and never link the crate; the cfg name is reserved and unused",
        "baseline_off_cmd": "cd /repo && cargo nextest run --workspace --no-fail-fast --offline --test-threads 8 || cargo test --workspace --no-fail-fast --offline",
        "source_commits": [],
        "add_only": True,
    },
    "engines": [{
        "name": "verus-contracts", "path": "/verif/tools/verdict.py",
        "serves_properties": sorted(claimed),
        "kind_free_text": "mechanical extraction of real functions from /repo (tools/rsx.py, tools/assemble.py) + contracts/invariants/lemmas in units/<id>/ + Verus 0.2026.09.13; verdict = every obligation on the committed baseline still discharged",
    }],
    "checks": checks,
    "not_applicable": [e for e in na if e["property_id"] not in claimed],
    "notes": "See DESIGN.md. Exit 2 of a check means undecided (lost anchor / unsupported construct / resource limit), never an alarm.",
}
json.dump(man, open(os.path.join(V, "MANIFEST.json"), "w"), indent=1)
print("MANIFEST: %d checks, %d not_applicable" % (len(checks), len(man["not_applicable"])))
