#!/bin/bash
# tools/run_patchset.sh <dir-with-<name>/patch.diff> <log>  — apply each patch to a scratch copy of /repo, run the checks of
# every unit whose assembled text (or watched bounded function) changes, print one line per (patch, unit)
src=$1; log=$2; : > $log
for pd in $src/*/; do
  n=$(basename $pd); [ -f $pd/patch.diff ] || continue
  d=$(mktemp -d /tmp/vfps.XXXX); mkdir -p $d/repo $d/out
  cp -r /repo/lib $d/repo/lib; cp /repo/Cargo.toml /repo/Cargo.lock $d/repo/
  (cd $d/repo && git init -q . && git apply --unsafe-paths -p1 $pd/patch.diff) || { echo "$n APPLY-FAILED" | tee -a $log; rm -rf $d; continue; }
  units=$(python3 /verif/tools/affected.py $d/repo)
  [ -z "$units" ] && echo "$n no-unit-affected" | tee -a $log
  for u in $units; do
    r=$(VERIF_REPO=$d/repo VERIF_OUT=$d/out /verif/check $u 2>&1 | grep -E "^(VIOLATION|OK|UNDECIDED)" | head -1 | cut -c1-400)
    echo "$n $u $r" | tee -a $log
  done
  rm -rf $d
done
