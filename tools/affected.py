#!/usr/bin/env python3
"""tools/affected.py <tree> : which units see a different text when assembled from <tree> instead of /repo
(assembled file differs, or a watched 'bounded' function differs). Used by the patch-set runner only."""
import sys, os, json, hashlib, importlib
V = os.path.dirname(os.path.dirname(os.path.abspath(__file__)))
sys.path.insert(0, os.path.join(V, "tools"))
tree = sys.argv[1]
units = json.load(open(os.path.join(V, "tools", "ready_units.json")))
def assembled(unit, repo):
    os.environ["VERIF_REPO"] = repo
    import assemble, rsx
    importlib.reload(assemble)
    try:
        text, ctx = assemble.assemble(unit)
    except Exception as e:  # lost anchor etc.: certainly affected
        return "ERR:%s" % e, {}
    meta = json.load(open(os.path.join(V, "units", unit, "meta.json")))
    bh = {}
    for f in (meta.get("bounded") or {}).get("functions", []):
        try:
            fp, rest = f.split(" :: ", 1)
            src = open(os.path.join(repo, fp)).read()
            it = rsx.locate(src, [c.strip() for c in rest.split(" :: ")])
            bh[f] = hashlib.sha256(it.text.encode()).hexdigest()
        except Exception as e:
            bh[f] = "ERR"
    # what the unit's verdict depends on: the text of the functions it verifies itself, and of the imported functions
    # it watches (files among its property's anchors / meta.watch_files); bodies of other imported functions are
    # carried along in the assembled file but ignored by Verus (external_body)
    props = {j["id"]: j for j in map(json.loads, open(os.path.join(V, "properties.jsonl")))}
    watch = set(props[meta["property"]]["anchors"]["files"]) | set(meta.get("watch_files", []))
    dep = {i["path"]: i["sha256"] for i in ctx.items if not i.get("imported_from") or i.get("file") in watch}
    return hashlib.sha256(json.dumps(dep, sort_keys=True).encode()).hexdigest(), bh
import subprocess
changed = set()
for line in subprocess.run(["diff", "-rq", "/repo/lib", os.path.join(tree, "lib")], capture_output=True, text=True).stdout.split("\n"):
    if line.startswith("Files "):
        changed.add(os.path.relpath(line.split()[1], "/repo"))
    elif line.startswith("Only in"):
        changed.add("?")
uf = json.load(open(os.path.join(V, "tools", "unit_files.json")))
head = subprocess.run(["git", "-C", "/repo", "rev-parse", "HEAD"], capture_output=True, text=True).stdout.strip()
vh = subprocess.run(["git", "-C", V, "rev-parse", "HEAD"], capture_output=True, text=True).stdout.strip()
cp = "/tmp/vf_affected_cache.json"
cache = json.load(open(cp)) if os.path.exists(cp) else {}
if cache.get("key") != head + vh:
    cache = {"key": head + vh, "units": {}}
out = []
for u in units:
    files = set(uf.get(u, {}).get("own", [])) | set(uf.get(u, {}).get("imported", []))
    meta = json.load(open(os.path.join(V, "units", u, "meta.json")))
    files |= set(f.split(" :: ")[0] for f in (meta.get("bounded") or {}).get("functions", []))
    if "?" not in changed and not (files & changed):
        continue
    if u not in cache["units"]:
        a = assembled(u, "/repo"); cache["units"][u] = [a[0], a[1]]
    a = cache["units"][u]; b = assembled(u, tree)
    if a[0] != b[0] or a[1] != b[1]:
        out.append(u)
json.dump(cache, open(cp, "w"))
print(" ".join(out))
