#!/bin/bash
# tools/confirm_seed.sh <worktree> <dir with patch.diff demo.rs>  — confirm a seeded change:
#  (1) unpatched: demo passes  (2) patched: crate builds, existing suite passes, demo fails
wt=$1; d=$2
cd $wt || exit 9
git checkout -q -- . ; rm -rf tests
mkdir -p tests; cp $d/demo.rs tests/vf_demo.rs
r1=$(cargo test --offline --test vf_demo 2>&1 | grep -E "^test result" | tail -1)
git apply $d/patch.diff || { echo "APPLY FAILED"; exit 3; }
r2=$(cargo test --offline --test vf_demo 2>&1 | grep -E "^test result" | tail -1)
rm -rf tests
r3=$(cargo nextest run --workspace --no-fail-fast --offline --test-threads 8 2>&1 | grep -E "Summary" | tail -1)
git checkout -q -- . ; rm -rf tests
echo "unpatched demo: $r1"
echo "patched demo:   $r2"
echo "patched suite:  $r3"
