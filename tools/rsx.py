#!/usr/bin/env python3
"""rsx: a small Rust tokenizer / item extractor used to copy the *real* text of
functions and type definitions out of /repo on every run.

Nothing here understands Rust semantics; it brace-matches token streams.
All errors are raised as Lost(...) which the driver maps to exit code 2
("undecided: lost anchor"), never to a violation and never to a pass.
"""
import hashlib
import re


class Lost(Exception):
    """An anchor (item, loop ordinal, rewrite pattern ...) could not be located."""


class Tok:
    __slots__ = ("kind", "text", "start", "end")

    def __init__(self, kind, text, start, end):
        self.kind, self.text, self.start, self.end = kind, text, start, end

    def __repr__(self):
        return "Tok(%s,%r)" % (self.kind, self.text)


_ident_re = re.compile(r"[A-Za-z_][A-Za-z0-9_]*")
_num_re = re.compile(r"[0-9][A-Za-z0-9_]*(\.[0-9][A-Za-z0-9_]*)?")
_ws_re = re.compile(r"\s+")


def tokenize(src):
    """Tokens: ws, comment, doc, ident, lifetime, char, str, num, punct.
    Every byte of src belongs to exactly one token (lossless)."""
    toks = []
    i, n = 0, len(src)
    while i < n:
        c = src[i]
        m = _ws_re.match(src, i)
        if m:
            toks.append(Tok("ws", m.group(0), i, m.end()))
            i = m.end()
            continue
        if src.startswith("//", i):
            j = src.find("\n", i)
            j = n if j < 0 else j
            text = src[i:j]
            kind = "doc" if (text.startswith("///") and not text.startswith("////")) or text.startswith("//!") else "comment"
            toks.append(Tok(kind, text, i, j))
            i = j
            continue
        if src.startswith("/*", i):
            depth, j = 1, i + 2
            while j < n and depth:
                if src.startswith("/*", j):
                    depth += 1
                    j += 2
                elif src.startswith("*/", j):
                    depth -= 1
                    j += 2
                else:
                    j += 1
            text = src[i:j]
            kind = "doc" if (text.startswith("/**") and not text.startswith("/***") and text != "/**/") or text.startswith("/*!") else "comment"
            toks.append(Tok(kind, text, i, j))
            i = j
            continue
        # raw strings / byte strings
        m = re.match(r"(b|c)?r(#*)\"", src[i:i + 40])
        if m:
            hashes = m.group(2)
            close = '"' + hashes
            j = src.find(close, i + m.end())
            if j < 0:
                raise Lost("unterminated raw string")
            j += len(close)
            toks.append(Tok("str", src[i:j], i, j))
            i = j
            continue
        if c == '"' or (c in "bc" and src.startswith('"', i + 1)):
            j = i + (2 if c != '"' else 1)
            while j < n and src[j] != '"':
                j += 2 if src[j] == "\\" else 1
            j += 1
            toks.append(Tok("str", src[i:j], i, j))
            i = j
            continue
        if c == "'" or (c == "b" and src.startswith("'", i + 1)):
            k = i + (1 if c == "b" else 0)
            # char literal or lifetime
            if src[k + 1:k + 2] == "\\":
                j = src.find("'", k + 3)
                # handle '\''
                if src[k + 2:k + 3] == "'":
                    j = k + 3
                j += 1
                toks.append(Tok("char", src[i:j], i, j))
                i = j
                continue
            if src[k + 2:k + 3] == "'":
                j = k + 3
                toks.append(Tok("char", src[i:j], i, j))
                i = j
                continue
            m = _ident_re.match(src, k + 1)
            if m and c == "'":
                toks.append(Tok("lifetime", src[i:m.end()], i, m.end()))
                i = m.end()
                continue
            # multi-byte char literal such as 'é'
            j = src.find("'", k + 1)
            if j < 0:
                raise Lost("bad char literal at %d" % i)
            j += 1
            toks.append(Tok("char", src[i:j], i, j))
            i = j
            continue
        m = _ident_re.match(src, i)
        if m:
            # raw identifiers r#foo
            if m.group(0) == "r" and src.startswith("#", m.end()):
                m2 = _ident_re.match(src, m.end() + 1)
                if m2:
                    toks.append(Tok("ident", src[i:m2.end()], i, m2.end()))
                    i = m2.end()
                    continue
            toks.append(Tok("ident", m.group(0), i, m.end()))
            i = m.end()
            continue
        m = _num_re.match(src, i)
        if m:
            # do not swallow a method call / range after an integer: `1.max(2)`, `0..n`
            text = m.group(0)
            if m.group(1) and not re.match(r"\.[0-9]", m.group(1)):
                text = text[: text.index(".")]
            elif "." in text and src.startswith("..", i + text.index(".")):
                text = text[: text.index(".")]
            toks.append(Tok("num", text, i, i + len(text)))
            i += len(text)
            continue
        toks.append(Tok("punct", c, i, i + 1))
        i += 1
    return toks


OPEN = {"(": ")", "[": "]", "{": "}"}
CLOSE = {")": "(", "]": "[", "}": "{"}


def sig(toks):
    """significant tokens (no whitespace / comments)"""
    return [t for t in toks if t.kind not in ("ws", "comment", "doc")]


def match_close(toks, i):
    """toks: significant tokens; toks[i] is an opening bracket. Returns index of its partner."""
    depth = 0
    want = toks[i].text
    assert want in OPEN
    for j in range(i, len(toks)):
        t = toks[j]
        if t.kind == "punct":
            if t.text in OPEN:
                depth += 1
            elif t.text in CLOSE:
                depth -= 1
                if depth == 0:
                    return j
    raise Lost("unbalanced bracket")


def norm(s):
    return re.sub(r"\s+", "", s)


QUALS = ("pub", "const", "unsafe", "async", "extern", "default",
         # Verus function modes (never precede `fn` in plain Rust)
         "open", "closed", "spec", "proof", "exec", "broadcast", "axiom", "uninterp", "tracked", "ghost")
ITEM_KW = ("fn", "struct", "enum", "trait", "impl", "mod", "const", "static", "type", "union")


class Item:
    """A located item. start/end are byte offsets in the source text."""

    def __init__(self, src, kw, name, start, end, kw_pos, body_open, body_close, quals):
        self.src, self.kw, self.name = src, kw, name
        self.start, self.end = start, end  # from first qualifier/keyword to end of item
        self.kw_pos = kw_pos
        self.body_open, self.body_close = body_open, body_close  # offsets of '{' and '}' or None
        self.quals = quals  # list of qualifier words before the keyword (pub, const, unsafe ...)

    @property
    def text(self):
        return self.src[self.start:self.end]

    def line_span(self):
        return (self.src.count("\n", 0, self.start) + 1, self.src.count("\n", 0, self.end) + 1)

    def sha(self):
        return hashlib.sha256(self.text.encode()).hexdigest()


def _angle_skip(st, i):
    """st[i] is '<' starting a generics list; return index after the matching '>'."""
    depth = 0
    j = i
    while j < len(st):
        t = st[j]
        if t.kind == "punct":
            if t.text == "<":
                depth += 1
            elif t.text == ">":
                # '->' is not a closer
                if not (j > 0 and st[j - 1].text == "-" and st[j - 1].end == t.start):
                    depth -= 1
                    if depth == 0:
                        return j + 1
            elif t.text in OPEN:
                j = match_close(st, j)
        j += 1
    raise Lost("unbalanced generics")


def _item_at(src, st, i):
    """st[i] is an item keyword. Work out name, header and extent. Returns Item or None if
    this keyword occurrence is not an item (e.g. `impl Trait` in argument position)."""
    kw = st[i].text
    # qualifiers before
    j = i - 1
    quals = []
    first = i
    while j >= 0:
        t = st[j]
        if t.kind == "ident" and t.text in QUALS:
            quals.insert(0, t.text)
            first = j
            j -= 1
        elif t.kind == "str" and j >= 1 and st[j - 1].text == "extern":
            j -= 1
        elif t.text == ")" and kw != "impl":
            # pub(crate) / pub(super)
            k = j
            depth = 0
            while k >= 0:
                if st[k].text == ")":
                    depth += 1
                elif st[k].text == "(":
                    depth -= 1
                    if depth == 0:
                        break
                k -= 1
            if k >= 1 and st[k - 1].text == "pub":
                j = k - 1
            else:
                break
        else:
            break
    # name / header
    k = i + 1
    name = None
    if kw == "impl":
        # `impl Trait` in type position is preceded by one of : > ( , < & + =
        pj = first - 1
        if pj >= 0 and st[pj].text in (":", ">", "(", ",", "<", "&", "+", "=", "dyn"):
            return None
        # header: everything up to the body '{' at bracket depth 0
        m = k
        if m < len(st) and st[m].text == "<":
            m = _angle_skip(st, m)
        while m < len(st) and st[m].text != "{":
            if st[m].text in ("(", "["):
                m = match_close(st, m)
            elif st[m].text == "<":
                m = _angle_skip(st, m) - 1
            elif st[m].text in (";", ")"):
                return None  # `impl Trait` in type position
            m += 1
        if m >= len(st):
            return None
        name = norm(src[st[i].end:st[m].start])
        # strip where clause from the name used for matching
        name = re.split(r"\bwhere\b", src[st[i].end:st[m].start])[0]
        name = norm(name)
        close = match_close(st, m)
        return Item(src, kw, name, st[first].start, st[close].end, st[i].start, st[m].start, st[close].start, quals)
    if k >= len(st) or st[k].kind != "ident":
        return None
    name = st[k].text
    # find end
    m = k + 1
    if kw in ("const", "static", "type"):
        if kw == "const" and name == "fn":
            return None
        while m < len(st) and st[m].text != ";":
            if st[m].text in OPEN:
                m = match_close(st, m)
            m += 1
        return Item(src, kw, name, st[first].start, st[m].end, st[i].start, None, None, quals)
    if kw == "mod":
        if st[m].text == ";":
            return Item(src, kw, name, st[first].start, st[m].end, st[i].start, None, None, quals)
        close = match_close(st, m)
        return Item(src, kw, name, st[first].start, st[close].end, st[i].start, st[m].start, st[close].start, quals)
    # fn / struct / enum / trait / union: skip generics (only directly after the name), params,
    # return type, where / spec clauses ... up to the first '{' or ';' at bracket depth 0
    if m < len(st) and st[m].text == "<":
        m = _angle_skip(st, m)
    while m < len(st):
        t = st[m]
        if t.text in ("(", "["):
            m2 = match_close(st, m)
            m = m2 + 1
            if kw == "struct" and st[m2].text == ")":
                # tuple struct: ends at ';' (possibly after where clause)
                while st[m].text != ";":
                    m += 1
                return Item(src, kw, name, st[first].start, st[m].end, st[i].start, None, None, quals)
            continue
        if t.text == ";":
            return Item(src, kw, name, st[first].start, t.end, st[i].start, None, None, quals)
        if t.text == "{":
            close = match_close(st, m)
            return Item(src, kw, name, st[first].start, st[close].end, st[i].start, t.start, st[close].start, quals)
        m += 1
    raise Lost("cannot find end of item %s %s" % (kw, name))


def find_items(src, lo=0, hi=None, deep=False):
    """All items whose keyword lies in src[lo:hi] at brace depth 0 relative to lo (any depth if deep)."""
    hi = len(src) if hi is None else hi
    toks = [t for t in tokenize(src) if True]
    st = sig(toks)
    out = []
    depth = 0
    i = 0
    n = len(st)
    while i < n:
        t = st[i]
        if t.start < lo:
            i += 1
            continue
        if t.start >= hi:
            break
        if t.kind == "punct":
            if t.text == "{":
                depth += 1
            elif t.text == "}":
                depth -= 1
            elif t.text == "#" and i + 1 < n and st[i + 1].text in ("[", "!"):
                # skip attribute
                k = i + 1
                if st[k].text == "!":
                    k += 1
                if st[k].text == "[":
                    i = match_close(st, k) + 1
                    continue
        if t.kind == "ident" and t.text in ITEM_KW and (deep or depth == 0):
            # not a field/path like `r#type`, `.type`, `::fn`
            prev = st[i - 1] if i > 0 else None
            if prev is not None and prev.text in (".", ":") and prev.end == t.start and t.text not in ("impl",):
                i += 1
                continue
            it = _item_at(src, st, i)
            if it is not None:
                out.append(it)
                if not deep and it.body_open is not None:
                    # skip over the body
                    while i < n and st[i].start < it.end:
                        i += 1
                    continue
        i += 1
    return out


def locate(src, path):
    """path: list of components such as 'impl Constant', 'fn add', '~fn compress' (deep search).
    Returns the Item."""
    lo, hi = 0, len(src)
    item = None
    for comp in path:
        comp = comp.strip()
        deep = comp.startswith("~")
        if deep:
            comp = comp[1:].strip()
        ordinal = 0
        m = re.match(r"^(.*)#(\d+)$", comp)
        if m:
            comp, ordinal = m.group(1).strip(), int(m.group(2))
        mm = re.match(r"^([a-z]+)(.*)$", comp, re.S)
        kw, rest = mm.group(1), mm.group(2)
        want = norm(rest)
        cands = [it for it in find_items(src, lo, hi, deep=deep) if it.kw == kw and it.name == want]
        if len(cands) <= ordinal:
            raise Lost("item not found: %r (component %r; %d candidates)" % (" :: ".join(path), comp, len(cands)))
        if len(cands) > 1 and not m:
            raise Lost("ambiguous item %r (%d candidates; add #n)" % (comp, len(cands)))
        item = cands[ordinal]
        if item.body_open is not None:
            lo, hi = item.body_open + 1, item.body_close
    return item


# ----------------------------------------------------------------------------------------------
# token-level text surgery on an extracted item


def strip_attributes(text, log):
    """R-attr: remove every outer attribute `#[...]` (and inner `#![...]`). `#[cfg` is refused."""
    toks = tokenize(text)
    st = sig(toks)
    cut = []
    i = 0
    while i < len(st):
        t = st[i]
        if t.text == "#" and i + 1 < len(st) and st[i + 1].text in ("[", "!"):
            k = i + 1
            if st[k].text == "!":
                k += 1
            if st[k].text == "[":
                close = match_close(st, k)
                attr = text[t.start:st[close].end]
                if re.match(r"#!?\[\s*cfg", attr):
                    raise Lost("cfg attribute inside extracted item: %s" % attr)
                cut.append((t.start, st[close].end))
                log.append({"rule": "R-attr", "dropped": attr})
                i = close + 1
                continue
        i += 1
    out, pos = [], 0
    for a, b in cut:
        out.append(text[pos:a])
        pos = b
    out.append(text[pos:])
    return "".join(out)


def find_seq(st, pat, lo=0):
    """indices i such that st[i:i+len(pat)] has the same texts as pat (list of strings)."""
    res = []
    n, m = len(st), len(pat)
    for i in range(lo, n - m + 1):
        ok = True
        for j in range(m):
            if st[i + j].text != pat[j]:
                ok = False
                break
        if ok:
            res.append(i)
    return res


def pat_tokens(s):
    return [t.text for t in sig(tokenize(s))]


def loops_of(text, body_lo):
    """Return list of (kw_offset, body_brace_offset) for every for/while/loop in text after body_lo,
    in order of appearance."""
    st = sig(tokenize(text))
    out = []
    for i, t in enumerate(st):
        if t.start < body_lo:
            continue
        if t.kind == "ident" and t.text in ("for", "while", "loop"):
            prev = st[i - 1] if i else None
            if prev is not None and prev.text in (".", "'"):
                continue
            if t.text == "for":
                # a loop iff `for PAT in EXPR {`: an `in` at depth 0 before the first '{' / ';'
                j = i + 1
                has_in = False
                while j < len(st):
                    if st[j].text in ("(", "["):
                        j = match_close(st, j)
                    elif st[j].text in ("{", ";"):
                        break
                    elif st[j].kind == "ident" and st[j].text == "in":
                        has_in = True
                        break
                    j += 1
                if not has_in:
                    continue
            # body brace: first '{' at paren depth 0
            j = i + 1
            while j < len(st):
                if st[j].text in ("(", "["):
                    j = match_close(st, j)
                elif st[j].text == "{":
                    break
                j += 1
            if j >= len(st):
                raise Lost("loop without body")
            out.append((t.start, st[j].start))
    return out


def closures_of(text, body_lo):
    """Return list of dicts for each closure `|...| body` / `move |...| body` after body_lo.
    Keys: bar0 (offset of first '|'), bar1_end (offset after closing '|'), params (text),
    body_start, body_end, block (bool)."""
    st = sig(tokenize(text))
    out = []
    i = 0
    while i < len(st):
        t = st[i]
        if t.start >= body_lo and t.text == "|":
            prev = st[i - 1] if i else None
            starts = prev is None or prev.text in ("(", ",", "=", "{", ";", "move", "return", "[") or (prev.text == ">" and False)
            if starts:
                # `||` (no params): two adjacent bars
                j = i + 1
                depth = 0
                while j < len(st):
                    if st[j].text in ("(", "[", "<") and depth >= 0:
                        if st[j].text == "<":
                            pass
                        else:
                            j = match_close(st, j)
                    elif st[j].text == "|":
                        break
                    j += 1
                bar1 = j
                k = bar1 + 1
                ret = None
                if st[k].text == "-" and st[k + 1].text == ">":
                    # explicit return type: body must be a block
                    m = k + 2
                    while st[m].text != "{":
                        m += 1
                    ret = text[st[k + 2].start:st[m].start]
                    k = m
                if st[k].text == "{":
                    close = match_close(st, k)
                    out.append(dict(bar0=t.start, bar1_end=st[bar1].end, params=text[t.end:st[bar1].start], ret=ret,
                                    body_start=st[k].start, body_end=st[close].end, block=True))
                else:
                    # expression body: ends at ',' or ')' or ';' at depth 0
                    m = k
                    while m < len(st):
                        if st[m].text in OPEN:
                            m = match_close(st, m)
                        elif st[m].text in (",", ")", ";", "}", "]"):
                            break
                        m += 1
                    out.append(dict(bar0=t.start, bar1_end=st[bar1].end, params=text[t.end:st[bar1].start], ret=ret,
                                    body_start=st[k].start, body_end=st[m - 1].end, block=False))
                i = bar1 + 1
                continue
        i += 1
    return out


def fn_parts(text):
    """For the text of a fn item starting at its qualifiers: returns dict with offsets:
    kw (offset of 'fn'), name, params_open, params_close, arrow (offset of '->' or None),
    ret_start, ret_end, where_start (or None), body_open (or None if declaration)."""
    st = sig(tokenize(text))
    i = 0
    while st[i].text != "fn":
        i += 1
    kw = st[i].start
    name = st[i + 1].text
    j = i + 2
    if st[j].text == "<":
        j = _angle_skip(st, j)
    if st[j].text != "(":
        raise Lost("fn %s: expected '('" % name)
    pc = match_close(st, j)
    parts = dict(kw=kw, name=name, params_open=st[j].start, params_close=st[pc].end, arrow=None, ret_start=None,
                 ret_end=None, where_start=None, body_open=None, sig_end=None)
    k = pc + 1
    if k < len(st) and st[k].text == "-" and st[k + 1].text == ">":
        parts["arrow"] = st[k].start
        parts["ret_start"] = st[k + 2].start
        k += 2
        last = k
        while k < len(st):
            if st[k].text in ("(", "["):
                k = match_close(st, k)
            elif st[k].text == "<":
                k = _angle_skip(st, k) - 1
            elif st[k].text in ("{", ";") or st[k].text == "where":
                break
            last = k
            k += 1
        parts["ret_end"] = st[last].end
    if k < len(st) and st[k].text == "where":
        parts["where_start"] = st[k].start
        while k < len(st) and st[k].text not in ("{", ";"):
            if st[k].text in ("(", "["):
                k = match_close(st, k)
            elif st[k].text == "<":
                k = _angle_skip(st, k) - 1
            k += 1
    if k < len(st) and st[k].text == "{":
        parts["body_open"] = st[k].start
        parts["body_close"] = st[match_close(st, k)].start
    parts["sig_end"] = st[k].start if k < len(st) else len(text)
    # param names
    names = []
    depth = 0
    seg_start = j + 1
    m = j + 1
    while m <= pc:
        t = st[m]
        if t.text in ("(", "[") and m != j:
            m = match_close(st, m)
        elif t.text == "<":
            m = _angle_skip(st, m) - 1
        elif t.text == "," or m == pc:
            seg = st[seg_start:m]
            for q, s_ in enumerate(seg):
                if s_.text == ":" and q > 0:
                    names.append(seg[q - 1].text)
                    break
            else:
                if any(s_.text == "self" for s_ in seg):
                    names.append("self")
            seg_start = m + 1
        m += 1
    parts["param_names"] = names
    return parts
