#!/bin/bash
# tools/seeded.sh <unit> <patch.diff>   — run a unit's check against a scratch copy of /repo with a patch applied
unit=$1; patch=$2
d=$(mktemp -d /tmp/vfseed.XXXX)
mkdir -p $d/repo $d/out
base=${VERIF_BASE:-/repo}; cp -r $base/lib $d/repo/lib; cp $base/Cargo.toml $base/Cargo.lock $d/repo/ 2>/dev/null
(cd $d/repo && git init -q . 2>/dev/null; git apply --unsafe-paths -p1 "$patch") || { echo "patch failed"; rm -rf $d; exit 3; }
VERIF_REPO=$d/repo VERIF_OUT=$d/out /verif/check $unit 2>&1 | grep -E "^(VIOLATION|OK|UNDECIDED)" | head -8
rc=${PIPESTATUS[0]}
rm -rf $d
exit $rc
