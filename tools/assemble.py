#!/usr/bin/env python3
"""assemble: template (Verus text with holes) + real items extracted from /repo  ->  build/<unit>.rs

Template directives (a line whose first non-blank characters are `//@`):

  //@ include <path relative to /verif>
  //@ source <file relative to /repo>
  //@ mode contracts-only <UNIT>          following `//@ fn` holes are emitted as external_body + contract (the
  //@ mode full                            contract is proved by <UNIT>'s own check); back to normal
  //@ item <path> [nopub]                 extract a struct/enum/type/const/fn verbatim (auto rules only)
  //@ fn <path> [ret=<name>] [nopub] [name=<newname>]
  //@   attr <text>                        text put in front of the fn (verifier attributes only)
  //@   hoist ~struct Map                  delete a nested item from the body (it is extracted separately at module level)
  //@   spec                               following lines: requires/ensures/decreases, put after the signature
  //@   enter                              following lines (ghost only): put right after the body's opening brace
  //@   loop <n>                           following lines: put in front of the body brace of the n-th loop
  //@   closure <n> <typed header>         replace `|p, q|` by the typed header (same names, checked);
  //@                                      following lines: closure requires/ensures
  //@   before <k> `anchor`                following lines (ghost only) put before k-th occurrence of anchor
  //@   after <k> `anchor`                 ... after
  //@   rewrite <count> `from` => `to` ## rule: justification     (count may be * = at least once)
  //@ end

`<path>` is `comp :: comp :: ...` with comps such as `impl Constant`, `fn add`, `~fn compress`
(`~` = search at any depth), optionally prefixed by a file (`lib/x.rs :: ...`).

Automatic rules on every extracted item: R-attr (drop attributes), R-vis (make pub), R-ret (name the result).
Everything else in the output is either template text (ghost code, shims) or original tokens.
"""
import json
import os
import re
import sys

sys.path.insert(0, os.path.dirname(os.path.abspath(__file__)))
import rsx
from rsx import Lost

VERIF = os.path.dirname(os.path.dirname(os.path.abspath(__file__)))
REPO = os.environ.get("VERIF_REPO", "/repo")

GHOST_START = re.compile(r"^\s*(proof\s*\{|assert\b|assert_by\b|let\s+ghost\b|let\s+tracked\b|reveal\b|broadcast\s+use\b|//)")


class Ctx:
    def __init__(self):
        self.source = None
        self.srcs = {}
        self.items = []  # extraction log
        self.rewrites = []
        self.contracts_only = None  # name of the unit that proves the included contracts

    def src(self, f):
        if f not in self.srcs:
            p = os.path.join(REPO, f)
            if not os.path.exists(p):
                raise Lost("source file missing: %s" % f)
            self.srcs[f] = open(p).read()
        return self.srcs[f]


def parse_path(ctx, s):
    comps = [c.strip() for c in s.split(" :: ")]
    f = ctx.source
    if comps[0].endswith(".rs"):
        f = comps.pop(0)
    if f is None:
        raise Lost("no source file for path %r" % s)
    return f, comps


def vis_fields(text, kw):
    """R-vis on struct fields."""
    st = rsx.sig(rsx.tokenize(text))
    ins = []
    i = 0
    while st[i].text != kw:
        i += 1
    j = i + 2
    if st[j].text == "<":
        j = rsx._angle_skip(st, j)
    while st[j].text not in ("{", "(", ";"):
        j += 1
    if st[j].text == ";":
        return text
    close = rsx.match_close(st, j)
    k = j + 1
    start = True
    while k < close:
        t = st[k]
        if start:
            if t.text != "pub":
                ins.append(t.start)
            start = False
        if t.text in ("(", "[", "{"):
            k = rsx.match_close(st, k)
        elif t.text == "<":
            k = rsx._angle_skip(st, k) - 1
        elif t.text == ",":
            start = True
        k += 1
    out = text
    for off in sorted(ins, reverse=True):
        out = out[:off] + "pub " + out[off:]
    return out


def apply_rewrites(text, rewrites, log, where, tolerant=False):
    """`tolerant`: the function's contract is imported (contracts-only mode): its body is carried along as an
    external_body and is not verified here, so a body rewrite that no longer matches is skipped (logged) instead of
    losing the anchor - a change of that body is judged by the unit that proves it and by the watch mechanism."""
    for rw in rewrites:
        pat = rsx.pat_tokens(rw["from"])
        st = rsx.sig(rsx.tokenize(text))
        hits = rsx.find_seq(st, pat)
        # non-overlapping
        sel = []
        last = -1
        for h in hits:
            if h > last:
                sel.append(h)
                last = h + len(pat) - 1
        cnt = rw["count"]
        if ((cnt == "*" and not sel) or (cnt != "*" and len(sel) != int(cnt))) and tolerant:
            log.append({"rule": rw["rule"], "from": rw["from"], "skipped": "pattern matched %d times (expected %s); contract imported, body not verified here" % (len(sel), cnt)})
            continue
        if (cnt == "*" and not sel) or (cnt != "*" and len(sel) != int(cnt)):
            raise Lost("rewrite pattern `%s` matched %d times in %s (expected %s)" % (rw["from"], len(sel), where, cnt))
        for h in reversed(sel):
            a, b = st[h].start, st[h + len(pat) - 1].end
            text = text[:a] + rw["to"] + text[b:]
        log.append({"rule": rw["rule"], "from": rw["from"], "to": rw["to"], "times": len(sel), "why": rw["why"]})
    return text


def process_fn(ctx, f, comps, opts, subs):
    src = ctx.src(f)
    it = rsx.locate(src, comps)
    if it.kw != "fn":
        raise Lost("%s is not a fn" % comps)
    log = []
    where = "%s :: %s" % (f, " :: ".join(comps))
    if "unsafe" in it.quals or re.search(r"\bunsafe\b", it.text):
        raise Lost("unsafe code inside extracted item %s" % where)
    text = it.text
    # R-hoist: nested items (a struct / impl / fn declared inside the body) that the template extracts
    # separately at module level are removed from the body; located by item, not by text pattern.
    for comp in subs.get("hoist", []):
        mm = re.match(r"^~?\s*([a-z]+)(.*)$", comp.strip(), re.S)
        kw, want = mm.group(1), rsx.norm(mm.group(2))
        cands = [x for x in rsx.find_items(text, deep=True) if x.kw == kw and x.name == want and x.start > 0]
        if len(cands) != 1:
            raise Lost("hoist: nested item %r found %d times in %s" % (comp, len(cands), where))
        text = text[:cands[0].start] + text[cands[0].end:]
        log.append({"rule": "R-hoist", "item": comp.strip(), "why": "nested item is extracted separately at module level (scoping only)"})
    if ctx.contracts_only:
        # imported contract: the body is an external_body here. Rewrites often come in pairs (opening and closing part),
        # so either all of them apply or none: if one no longer matches, the body is carried along as it is in the source
        try:
            text = apply_rewrites(text, subs["rewrite"], log, where)
        except Lost as e:
            log.append({"rule": "rewrites-skipped", "why": "contract imported, body not verified here: %s" % e})
    else:
        text = apply_rewrites(text, subs["rewrite"], log, where)
    text = rsx.strip_attributes(text, log)
    parts = rsx.fn_parts(text)
    edits = []  # (offset, delete_len, insert_text)
    # qualifiers -> pub
    quals = "" if opts.get("nopub") else "pub "
    if "const" in it.quals:
        quals += "const "
    edits.append((0, parts["kw"], quals))
    if "name" in opts:
        # rename
        st = rsx.sig(rsx.tokenize(text))
        for i, t in enumerate(st):
            if t.text == "fn":
                edits.append((st[i + 1].start, len(st[i + 1].text), opts["name"]))
                break
    # R-ret
    if parts["arrow"] is not None:
        rn = opts.get("ret")
        if rn is None:
            rn = "r" if "r" not in parts["param_names"] else "res"
        edits.append((parts["ret_start"], 0, "(%s: " % rn))
        edits.append((parts["ret_end"], 0, ")"))
        log.append({"rule": "R-ret", "name": rn})
    if parts["body_open"] is None:
        raise Lost("fn without body: %s" % where)
    body_lo = parts["body_open"]
    if ctx.contracts_only:
        # the contract is imported (proved by another unit on the same run of its own check);
        # the body is kept verbatim but not verified here
        subs = dict(subs, loop={}, closure={}, before=[], after=[], enter="",
                    spec=re.sub(r"(?m)^\s*decreases\b[^\n]*\n", "", subs["spec"]),
                    attr=["#[verifier::external_body] /*proved-in:%s*/" % ctx.contracts_only])
    if subs["spec"].strip():
        edits.append((body_lo, 0, "\n" + subs["spec"].rstrip() + "\n"))
    # loops
    if subs["loop"]:
        loops = rsx.loops_of(text, body_lo)
        for n, txt in subs["loop"].items():
            if n >= len(loops):
                raise Lost("loop %d not found in %s (has %d loops)" % (n, where, len(loops)))
            edits.append((loops[n][1], 0, "\n" + txt.rstrip() + "\n"))
        declared = opts.get("loops")
        if declared is not None and int(declared) != len(loops):
            raise Lost("%s has %d loops, template expects %s" % (where, len(loops), declared))
    if subs["closure"]:
        cls = rsx.closures_of(text, body_lo)
        for n, (hdr, txt) in subs["closure"].items():
            if n >= len(cls):
                raise Lost("closure %d not found in %s (has %d)" % (n, where, len(cls)))
            c = cls[n]
            # the typed header must bind the same names in the same order
            old_names = [t.text for t in rsx.sig(rsx.tokenize(c["params"])) if t.kind == "ident" and t.text not in ("ref", "mut")]
            m = re.match(r"^\s*\|(.*?)\|(.*)$", hdr, re.S)
            if not m:
                raise Lost("bad closure header %r" % hdr)
            new_params = m.group(1)
            names = []
            depth = 0
            seg = []
            for t in rsx.sig(rsx.tokenize(new_params)) + [None]:
                if t is None or (t.text == "," and depth == 0):
                    for q, s_ in enumerate(seg):
                        if s_.text == ":":
                            names += [x.text for x in seg[:q] if x.kind == "ident" and x.text not in ("ref", "mut")]
                            break
                    seg = []
                    continue
                if t.text in ("(", "<", "["):
                    depth += 1
                elif t.text in (")", ">", "]"):
                    depth -= 1
                seg.append(t)
            if names != old_names:
                raise Lost("closure %d of %s binds %s, template header binds %s" % (n, where, old_names, names))
            edits.append((c["bar0"], c["bar1_end"] - c["bar0"], hdr.strip() + ("\n" + txt.rstrip() + "\n" if txt.strip() else " ")))
            if not c["block"]:
                edits.append((c["body_start"], 0, "{ "))
                edits.append((c["body_end"], 0, " }"))
            log.append({"rule": "R-closure-types", "closure": n, "header": hdr.strip(), "wrapped_in_block": not c["block"]})
    if subs.get("enter", "").strip():
        if not GHOST_START.match(subs["enter"]):
            raise Lost("non-ghost text inserted at `enter` in %s" % where)
        edits.append((body_lo + 1, 0, "\n" + subs["enter"].rstrip() + "\n"))
    for kind in ("before", "after"):
        for (k, anchor, txt) in subs[kind]:
            if not GHOST_START.match(txt):
                raise Lost("non-ghost text inserted %s `%s` in %s" % (kind, anchor, where))
            st = rsx.sig(rsx.tokenize(text))
            pat = rsx.pat_tokens(anchor)
            hits = [h for h in rsx.find_seq(st, pat) if st[h].start >= body_lo]
            if k >= len(hits):
                raise Lost("anchor `%s` #%d not found in %s (%d hits)" % (anchor, k, where, len(hits)))
            h = hits[k]
            off = st[h].start if kind == "before" else st[h + len(pat) - 1].end
            edits.append((off, 0, "\n" + txt.rstrip() + "\n"))
    # apply edits back to front; stable for equal offsets (keep declared order)
    edits_sorted = sorted(enumerate(edits), key=lambda e: (e[1][0], e[0]))
    out = text
    for _, (off, dl, ins) in reversed(edits_sorted):
        out = out[:off] + ins + out[off + dl:]
    attrs = "".join(a.rstrip() + "\n" for a in subs["attr"])
    lo, hi = it.line_span()
    try:
        structure = [len(rsx.loops_of(text, body_lo)), len(rsx.closures_of(text, body_lo))]
    except Exception:  # noqa
        structure = None
    ctx.items.append({"path": where, "kind": "fn", "file": f, "lines": [lo, hi], "sha256": it.sha(), "rules": log,
                      "out_name": opts.get("name", parts["name"]), "imported_from": ctx.contracts_only, "src_text": it.text,
                      "structure": structure})
    return attrs + out + "\n"


def process_item(ctx, f, comps, opts, rewrites=()):
    src = ctx.src(f)
    it = rsx.locate(src, comps)
    log = []
    where = "%s :: %s" % (f, " :: ".join(comps))
    if re.search(r"\bunsafe\b", it.text):
        raise Lost("unsafe code inside extracted item %s" % where)
    if it.kw == "fn":
        return process_fn(ctx, f, comps, opts, dict(spec="", loop={}, closure={}, before=[], after=[], rewrite=list(rewrites), attr=[]))
    text = apply_rewrites(it.text, rewrites, log, where)
    text = rsx.strip_attributes(text, log)
    if it.kw in ("struct",):
        text = vis_fields(text, "struct")
    # leading qualifiers -> pub
    st = rsx.sig(rsx.tokenize(text))
    i = 0
    while st[i].text != it.kw:
        i += 1
    if it.kw == "impl":
        opts = dict(opts, nopub=True)
    head = "" if opts.get("nopub") else "pub "
    if it.kw == "const" and opts.get("exec_const"):
        head += "exec "
    text = head + text[st[i].start:]
    lo, hi = it.line_span()
    ctx.items.append({"path": where, "kind": it.kw, "file": f, "lines": [lo, hi], "sha256": it.sha(), "rules": log + [{"rule": "R-vis"}]})
    return text + "\n"


DIR = re.compile(r"^\s*//@\s?(.*)$")


def parse_opts(words):
    opts = {}
    for w in words:
        if "=" in w:
            a, b = w.split("=", 1)
            opts[a] = b
        else:
            opts[w] = True
    return opts


def split_path_opts(rest):
    """`<path> [k=v ...]` where path may contain spaces; options are trailing words that look like k=v or known flags."""
    words = rest.split()
    optw = []
    while words and (re.match(r"^(ret|name|loops)=\S+$", words[-1]) or words[-1] in ("nopub", "exec_const")):
        optw.insert(0, words.pop())
    return " ".join(words), parse_opts(optw)


def expand(ctx, path, out, depth=0):
    lines = open(path).read().split("\n")
    i = 0
    while i < len(lines):
        line = lines[i]
        m = DIR.match(line)
        if not m:
            out.append(line)
            i += 1
            continue
        d = m.group(1).strip()
        cmd, _, rest = d.partition(" ")
        rest = rest.strip()
        if cmd == "include":
            saved_mode, saved_source = ctx.contracts_only, ctx.source
            out.append("//@@origin %s" % rest)
            expand(ctx, os.path.join(VERIF, rest), out, depth + 1)
            out.append("//@@origin %s" % os.path.relpath(path, VERIF))
            ctx.contracts_only, ctx.source = saved_mode, saved_source  # `//@ mode` / `//@ source` inside an include do not leak out
        elif cmd == "source":
            ctx.source = rest
        elif cmd == "mode":
            w = rest.split()
            if w and w[0] == "contracts-only":
                ctx.contracts_only = w[1]
            elif w and w[0] == "full":
                ctx.contracts_only = None
            else:
                raise Lost("bad mode directive: %s" % rest)
        elif cmd == "item":
            p, opts = split_path_opts(rest)
            f, comps = parse_path(ctx, p)
            out.append("// ---- extracted: %s :: %s" % (f, " :: ".join(comps)))
            out.append(process_item(ctx, f, comps, opts))
        elif cmd in ("fn", "itemx"):
            p, opts = split_path_opts(rest)
            f, comps = parse_path(ctx, p)
            subs = dict(spec="", loop={}, closure={}, before=[], after=[], rewrite=[], attr=[])
            cur = None
            i += 1
            while i < len(lines):
                l2 = lines[i]
                m2 = DIR.match(l2)
                if m2:
                    d2 = m2.group(1).strip()
                    c2, _, r2 = d2.partition(" ")
                    r2 = r2.strip()
                    if c2 == "end":
                        break
                    elif c2 == "spec":
                        cur = ("spec",)
                    elif c2 == "enter":
                        cur = ("enter",)
                        subs["enter"] = ""
                    elif c2 == "attr":
                        subs["attr"].append(r2)
                        cur = None
                    elif c2 == "hoist":
                        subs.setdefault("hoist", []).append(r2)
                        cur = None
                    elif c2 == "loop":
                        cur = ("loop", int(r2))
                        subs["loop"][int(r2)] = ""
                    elif c2 == "closure":
                        n, _, hdr = r2.partition(" ")
                        cur = ("closure", int(n))
                        subs["closure"][int(n)] = [hdr, ""]
                    elif c2 in ("before", "after"):
                        mm = re.match(r"^(\d+)\s+`(.*)`\s*$", r2)
                        if not mm:
                            raise Lost("bad directive: %s" % l2)
                        subs[c2].append([int(mm.group(1)), mm.group(2), ""])
                        cur = (c2, len(subs[c2]) - 1)
                    elif c2 == "rewrite":
                        mm = re.match(r"^(\d+|\*)\s+`(.*?)`\s*=>\s*`(.*?)`\s*##\s*([A-Za-z0-9_-]+)\s*:\s*(.*)$", r2)
                        if not mm:
                            raise Lost("bad rewrite directive: %s" % l2)
                        subs["rewrite"].append(dict(count=mm.group(1), **{"from": mm.group(2)}, to=mm.group(3), rule=mm.group(4), why=mm.group(5)))
                        cur = None
                    else:
                        raise Lost("unknown sub-directive %r in %s" % (c2, path))
                else:
                    if cur is None:
                        if l2.strip():
                            raise Lost("stray text inside fn directive: %r" % l2)
                    elif cur[0] == "spec":
                        subs["spec"] += l2 + "\n"
                    elif cur[0] == "enter":
                        subs["enter"] += l2 + "\n"
                    elif cur[0] == "loop":
                        subs["loop"][cur[1]] += l2 + "\n"
                    elif cur[0] == "closure":
                        subs["closure"][cur[1]][1] += l2 + "\n"
                    else:
                        subs[cur[0]][cur[1]][2] += l2 + "\n"
                i += 1
            else:
                raise Lost("unterminated fn directive in %s" % path)
            out.append("// ---- extracted: %s :: %s" % (f, " :: ".join(comps)))
            if cmd == "fn":
                out.append(process_fn(ctx, f, comps, opts, subs))
            else:
                out.append(process_item(ctx, f, comps, opts, subs["rewrite"]))
        elif cmd == "#":
            pass
        else:
            raise Lost("unknown directive %r in %s" % (cmd, path))
        i += 1


def assemble(unit):
    ctx = Ctx()
    out = []
    expand(ctx, os.path.join(VERIF, "units", unit, "unit.rs"), out)
    text = "\n".join(out)
    return text, ctx


if __name__ == "__main__":
    unit = sys.argv[1]
    try:
        text, ctx = assemble(unit)
    except Lost as e:
        print("UNDECIDED lost-anchor: %s" % e)
        sys.exit(2)
    os.makedirs(os.path.join(VERIF, "build"), exist_ok=True)
    open(os.path.join(VERIF, "build", unit + ".rs"), "w").write(text)
    json.dump({"items": ctx.items}, open(os.path.join(VERIF, "build", unit + ".extract.json"), "w"), indent=1)
    print("assembled %s: %d items" % (unit, len(ctx.items)))
